import Lean.Data.Json
import OapiVerif.Model.Prune
import OapiVerif.Model.Filter
/-!
Line-protocol driver: one JSON object per line in, one per line out.
`{"fn": <name>, ...}` ↦ `{"ok": <result>}` or `{"err": "bad-op"}` (never a default).
-/
open Lean OapiVerif

namespace Drv

def strs (j : Json) (k : String) : Except String (List String) := do
  let a ← j.getObjValAs? (Array String) k
  pure a.toList

def jstrs (l : List String) : Json := Json.arr (l.map Json.str).toArray

def prune (j : Json) : Except String Json := do
  let roots ← strs j "roots"
  let cs ← j.getObjValAs? (Array Json) "comps"
  let comps ← cs.toList.mapM fun c => do
    let r ← c.getObjValAs? String "ref"
    let o ← strs c "out"
    pure (⟨r, o⟩ : Prune.Comp)
  let d := Prune.prune ⟨roots, comps⟩
  pure (jstrs (d.comps.map (·.ref)))

def filter (j : Json) : Except String Json := do
  let c ← j.getObjVal? "cfg"
  let cfg : Filter.Cfg := ⟨← strs c "it", ← strs c "et", ← strs c "ii", ← strs c "ei"⟩
  let os ← j.getObjValAs? (Array Json) "ops"
  let ops ← os.toList.mapM fun o => do
    pure (⟨← o.getObjValAs? String "path", ← o.getObjValAs? String "method", ← strs o "tags",
           ← o.getObjValAs? String "id", []⟩ : Filter.Op)
  pure (jstrs ((Filter.filterDoc cfg ops).map (fun o => o.method ++ " " ++ o.path)))

def dispatch (fn : String) (j : Json) : Except String Json :=
  match fn with
  | "prune" => prune j
  | "filter" => filter j
  | _ => .error "bad-op"

def handle (line : String) : String :=
  match Json.parse line with
  | .error _ => "{\"err\":\"bad-json\"}"
  | .ok j =>
    match j.getObjValAs? String "fn" with
    | .error _ => "{\"err\":\"bad-op\"}"
    | .ok fn =>
      match dispatch fn j with
      | .ok r => (Json.mkObj [("ok", r)]).compress
      | .error e => (Json.mkObj [("err", Json.str e)]).compress

partial def loop (hin hout : IO.FS.Stream) : IO Unit := do
  let line ← hin.getLine
  if line.isEmpty then return ()
  let l := line.trimAscii.toString
  if l.isEmpty then loop hin hout else
  hout.putStrLn (handle l)
  hout.flush
  loop hin hout

end Drv

def main : IO Unit := do
  Drv.loop (← IO.getStdin) (← IO.getStdout)
