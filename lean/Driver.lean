import Lean.Data.Json
import OapiVerif.Model.Prune
import OapiVerif.Model.Filter
import OapiVerif.Model.Codec
import OapiVerif.Model.Paths
import OapiVerif.Model.Names
import OapiVerif.Model.Responses
import OapiVerif.Model.Embed
import OapiVerif.Model.Security
import OapiVerif.Model.Enums
import OapiVerif.Model.Merge
import OapiVerif.Model.Union
import OapiVerif.Model.DeepObject
import OapiVerif.Model.GoJson
import OapiVerif.Model.EnumClash
import OapiVerif.Model.Combine
import OapiVerif.Model.IntParse
import OapiVerif.Model.DateParse
import OapiVerif.Model.UuidParse
import OapiVerif.Model.SchemaOrder
import OapiVerif.Model.Comment
import OapiVerif.Model.RefPath
import OapiVerif.Model.Form
import OapiVerif.Model.TypeDedup
import OapiVerif.Model.Bodies
import OapiVerif.Model.RespDefs
import OapiVerif.Model.FieldTags
import OapiVerif.Model.UnionJson
/-!
Line-protocol driver: one JSON object per line in, one per line out.
`{"fn": <name>, ...}` ↦ `{"ok": <result>}` or `{"err": "bad-op"}` (never a default).
-/
open Lean OapiVerif

namespace Drv

def strs (j : Json) (k : String) : Except String (List String) := do
  let a ← j.getObjValAs? (Array String) k
  pure a.toList

def jstrs (l : List String) : Json := Json.arr (l.map Json.str).toArray

def prune (j : Json) : Except String Json := do
  let roots ← strs j "roots"
  let cs ← j.getObjValAs? (Array Json) "comps"
  let comps ← cs.toList.mapM fun c => do
    let r ← c.getObjValAs? String "ref"
    let o ← strs c "out"
    pure (⟨r, o⟩ : Prune.Comp)
  let d := Prune.prune ⟨roots, comps⟩
  pure (jstrs (d.comps.map (·.ref)))

def filter (j : Json) : Except String Json := do
  let c ← j.getObjVal? "cfg"
  let cfg : Filter.Cfg := ⟨← strs c "it", ← strs c "et", ← strs c "ii", ← strs c "ei"⟩
  let os ← j.getObjValAs? (Array Json) "ops"
  let ops ← os.toList.mapM fun o => do
    pure (⟨← o.getObjValAs? String "path", ← o.getObjValAs? String "method", ← strs o "tags",
           ← o.getObjValAs? String "id", []⟩ : Filter.Op)
  pure (jstrs ((Filter.filterDoc cfg ops).map (fun o => o.method ++ " " ++ o.path)))

/-! byte strings travel as lowercase hex -/
def hexVal (c : Char) : Option Nat :=
  if '0' ≤ c ∧ c ≤ '9' then some (c.toNat - 48)
  else if 'a' ≤ c ∧ c ≤ 'f' then some (c.toNat - 87) else none

def unhexStr (s : String) : Except String (List Nat) :=
  let rec go : List Char → Except String (List Nat)
    | [] => .ok []
    | a :: b :: rest => match hexVal a, hexVal b with
      | some x, some y => do pure ((x * 16 + y) :: (← go rest))
      | _, _ => .error "bad-hex"
    | [_] => .error "bad-hex"
  go s.toList

def hexDigitC (n : Nat) : Char := Char.ofNat (if n < 10 then 48 + n else 87 + n)
def hexStr (l : List Nat) : String := String.ofList (l.flatMap fun b => [hexDigitC (b / 16), hexDigitC (b % 16)])

def getHex (j : Json) (k : String) : Except String (List Nat) := do
  unhexStr (← j.getObjValAs? String k)

def getHexList (j : Json) (k : String) : Except String (List (List Nat)) := do
  let a ← j.getObjValAs? (Array String) k
  a.toList.mapM unhexStr

open Codec in
def getStyle (j : Json) : Except String Style := do
  match ← j.getObjValAs? String "style" with
  | "simple" => pure .simple | "label" => pure .label | "matrix" => pure .matrix | "form" => pure .form
  | _ => throw "bad-style"

open Codec in
def getLoc (j : Json) : Except String Loc := do
  match ← j.getObjValAs? String "loc" with
  | "path" => pure .path | "query" => pure .query | "header" => pure .header | "cookie" => pure .cookie
  | "undefined" => pure .undefined
  | _ => throw "bad-loc"

open Codec in
def getShape (j : Json) : Except String Shape := do
  match ← j.getObjValAs? String "shape" with
  | "prim" => pure .prim | "arr" => pure .arr | "obj" => pure .obj
  | _ => throw "bad-shape"

open Codec in
def getVal (j : Json) : Except String Val := do
  let v ← j.getObjVal? "val"
  match ← v.getObjValAs? String "k" with
  | "prim" => pure (.prim (← getHex v "s"))
  | "arr" => pure (.arr (← getHexList v "xs"))
  | "obj" =>
    let ks ← getHexList v "keys"
    let vs ← getHexList v "vals"
    if ks.length != vs.length then throw "bad-obj"
    pure (.obj (ks.zip vs))
  | _ => throw "bad-val"

open Codec in
def valJson : Val → Json
  | .prim s => Json.mkObj [("k", "prim"), ("s", hexStr s)]
  | .arr xs => Json.mkObj [("k", "arr"), ("xs", jstrs (xs.map hexStr))]
  | .obj kvs => Json.mkObj [("k", "obj"), ("keys", jstrs (kvs.map (hexStr ·.1))), ("vals", jstrs (kvs.map (hexStr ·.2)))]

def exceptJson (e : Except String Json) : Json :=
  match e with
  | .ok j => Json.mkObj [("ok", j)]
  | .error m => Json.mkObj [("error", m)]

open Codec in
def styleParamD (j : Json) : Except String Json := do
  pure (hexStr (styleParam (← getStyle j) (← j.getObjValAs? Bool "explode") (← getHex j "name") (← getLoc j) (← getVal j)))

open Codec in
def oasSerializeD (j : Json) : Except String Json := do
  pure (hexStr (oasSerialize (← getStyle j) (← j.getObjValAs? Bool "explode") (← getHex j "name") (← getVal j)))

open Codec in
def oasWireD (j : Json) : Except String Json := do
  pure (hexStr (oasWire (← getStyle j) (← j.getObjValAs? Bool "explode") (← getHex j "name") (← getLoc j) (← getVal j)))

open Codec in
def parseQueryD (j : Json) : Except String Json := do
  let r := parseQuery (← getHex j "wire")
  pure (exceptJson (r.map fun q => Json.arr (q.map fun e => Json.mkObj [("k", hexStr e.1), ("vs", jstrs (e.2.map hexStr))]).toArray))

open Codec in
def bindStyledD (j : Json) : Except String Json := do
  let r := bindStyled (← getStyle j) (← j.getObjValAs? Bool "explode") (← j.getObjValAs? Bool "required")
    (← getHex j "name") (← getLoc j) (← getShape j) (← getHex j "wire")
  pure (exceptJson (r.map valJson))

open Codec in
def bindQueryD (j : Json) : Except String Json := do
  let wire ← getHex j "wire"
  let r : Except String (Option Val) := do
    let q ← parseQuery wire
    bindQuery (← j.getObjValAs? Bool "explode") (← j.getObjValAs? Bool "required") (← getHex j "name")
      (← getShape j) (← getHexList j "fields") q
  pure (exceptJson (r.map fun o => match o with | none => Json.null | some v => valJson v))

open Escape in
def escapeD (j : Json) : Except String Json := do
  let m := if (← j.getObjValAs? String "mode") == "path" then Mode.path else Mode.query
  pure (hexStr (escape m (← getHex j "s")))

open Escape in
def unescapeD (j : Json) : Except String Json := do
  let m := if (← j.getObjValAs? String "mode") == "path" then Mode.path else Mode.query
  pure (match unescape m (← getHex j "s") with | some r => Json.str (hexStr r) | none => Json.null)

open Paths in
def scanD (j : Json) : Except String Json := do
  let uri ← getHex j "uri"
  pure (Json.mkObj [("params", jstrs ((orderedParams uri).map hexStr)), ("chi", hexStr (toChi uri)), ("std", hexStr (toStdHttp uri)),
    ("colon", hexStr (toColon uri)), ("fmt", hexStr (toFmt' uri))])

open Paths in
def sortParamsD (j : Json) : Except String Json := do
  let path ← getHex j "path"
  let names ← getHexList j "names"
  let ps : List Param := names.zipIdx.map fun (n, i) => ⟨n, i⟩
  pure (match sortParamsByPath path ps with
    | .ok out => Json.mkObj [("ok", Json.arr (out.map fun p => Json.num p.tag).toArray)]
    | .error e => Json.mkObj [("error", e)])

open Paths in
def routeD (j : Json) : Except String Json := do
  let os ← j.getObjValAs? (Array Json) "ops"
  let ops ← os.toList.mapM fun o => do
    let segs ← (← o.getObjValAs? (Array Json) "segs").toList.mapM fun sj => do
      let s ← getHex sj "s"
      pure (if (← sj.getObjValAs? Bool "var") then Seg.var s else Seg.static s)
    pure (⟨← o.getObjValAs? Nat "method", segs, ← o.getObjValAs? Nat "id"⟩ : Op)
  let path ← getHexList j "path"
  pure (match route ops (← j.getObjValAs? Nat "method") path with
    | none => Json.null
    | some (o, b) => Json.mkObj [("id", o.id), ("names", jstrs (b.map (hexStr ·.1))), ("values", jstrs (b.map (hexStr ·.2)))])

/-! code-point strings travel as arrays of numbers; `uni` carries Go's unicode classes for the
non-ASCII code points of the input: [cp, bits(1 upper,2 lower,4 digit,8 letter,16 number), toUpper, toLower] -/
def getCps (j : Json) (k : String) : Except String (List Nat) := do
  let a ← j.getObjValAs? (Array Nat) k
  pure a.toList

def jcps (l : List Nat) : Json := Json.arr (l.map fun (n : Nat) => Json.num n).toArray

open Names in
def getUni (j : Json) : Except String Uni := do
  let rows := (j.getObjValAs? (Array (Array Nat)) "uni").toOption.getD #[]
  let tbl := rows.toList.filterMap fun r => if r.size == 4 then some (r[0]!, r[1]!, r[2]!, r[3]!) else none
  let look (c : Nat) := tbl.find? (·.1 == c)
  let bit (c b : Nat) (dflt : Bool) : Bool := match look c with | some (_, f, _, _) => (f / b) % 2 == 1 | none => dflt
  pure { isUpper := fun c => bit c 1 (asciiUni.isUpper c), isLower := fun c => bit c 2 (asciiUni.isLower c),
         isDigit := fun c => bit c 4 (asciiUni.isDigit c), isLetter := fun c => bit c 8 (asciiUni.isLetter c),
         isNumber := fun c => bit c 16 (asciiUni.isNumber c),
         toUpper := fun c => match look c with | some (_, _, u, _) => u | none => asciiUni.toUpper c,
         toLower := fun c => match look c with | some (_, _, _, l) => l | none => asciiUni.toLower c }

open Names in
def namesD (j : Json) : Except String Json := do
  let U ← getUni j
  let s ← getCps j "s"
  let norm : Str → Str := match (j.getObjValAs? String "norm").toOption.getD "" with
    | "ToCamelCaseWithDigits" => toCamelCaseWithDigits U
    | _ => toCamelCase U
  pure (Json.mkObj [
    ("camel", jcps (toCamelCase U s)), ("camelDigits", jcps (toCamelCaseWithDigits U s)),
    ("prefix", jcps (typeNamePrefix U s)), ("typeName", jcps (schemaNameToTypeName U norm s)),
    ("sanitize", jcps (sanitizeGoIdentity U s)), ("ucFirst", jcps (ucFirst U s)), ("lcFirst", jcps (lcFirst U s)),
    ("lowerFirsts", jcps (lowercaseFirstCharacters U s)), ("initialism", jcps (replaceInitialism s)),
    ("mediaType", jcps (mediaTypeToCamelCase U s))])

open Responses in
def getRName (s : String) : Except String RName :=
  if s == "default" then pure .dflt
  else match s.toList with
    | [d, 'X', 'X'] => if d.isDigit then pure (.range (d.toNat - 48)) else throw "bad-rname"
    | _ => match s.toNat? with | some n => pure (.code n) | none => throw "bad-rname"

open Responses in
def responsesD (j : Json) : Except String Json := do
  let rsj ← j.getObjValAs? (Array Json) "resps"
  let rs ← rsj.toList.mapM fun r => do
    let nameS ← r.getObjValAs? String "name"
    let name ← getRName nameS
    let cj ← r.getObjValAs? (Array Json) "contents"
    let cs ← cj.toList.filterMapM fun c => do
      let ct ← c.getObjValAs? String "ct"
      let isJson ← c.getObjValAs? Bool "isJson"
      let hasSchema ← c.getObjValAs? Bool "hasSchema"
      let ctS := ct.toList.map Char.toNat
      let media : Media := if isJson then .json
        else if [w "application/yaml", w "application/x-yaml", w "text/yaml", w "text/x-yaml"].contains ctS then .yaml
        else if [w "application/xml", w "text/xml", w "application/problems+xml"].contains ctS then .xml else .other
      match fieldName ctS isJson (nameS.toList.map Char.toNat) with
      | some f => pure (some (⟨ctS, media, hasSchema, f⟩ : Content))
      | none => pure (some (⟨ctS, .other, hasSchema, []⟩ : Content))
    pure (⟨name, cs⟩ : Resp)
  let str (l : List Nat) : String := String.ofList (l.map Char.ofNat)
  let cases := (genCases rs).map fun c => Json.mkObj [
    ("name", str c.name.str),
    ("ct", match c.ct with | .contains s => Json.mkObj [("contains", str s)] | .equals s => Json.mkObj [("equals", str s)] | .any => Json.str "any"),
    ("field", match c.field with | some f => Json.str (str f) | none => Json.null)]
  let qs := (j.getObjValAs? (Array Json) "queries").toOption.getD #[]
  let answers ← qs.toList.mapM fun q => do
    let st ← q.getObjValAs? Nat "status"
    let ct ← q.getObjValAs? String "ct"
    pure (match parse rs st (ct.toList.map Char.toNat) with | some f => Json.str (str f) | none => Json.null)
  pure (Json.mkObj [("cases", Json.arr cases.toArray), ("answers", Json.arr answers.toArray)])

open Embed in
def embedD (j : Json) : Except String Json := do
  let bs ← getHex j "bytes"
  let enc := b64encode bs
  pure (Json.mkObj [("b64", hexStr enc), ("chunks", Json.arr ((chunk 80 enc).map fun c => Json.num c.length).toArray),
    ("decoded", match b64decode bs with | some r => Json.str (hexStr r) | none => Json.null)])

open Security in
def getReqs (j : Json) : Except String (List Req) := do
  let rs ← j.getArr?
  rs.toList.mapM fun r => do
    let es ← r.getArr?
    es.toList.mapM fun e => do
      let n ← getCps e "name"
      let ss ← e.getObjValAs? (Array (Array Nat)) "scopes"
      pure (n, ss.toList.map (·.toList))

open Security in
def secDefsD (j : Json) : Except String Json := do
  let U ← getUni j
  let g ← getReqs (← j.getObjVal? "global")
  let opsJ ← (← j.getObjVal? "ops").getArr?
  let ops ← opsJ.toList.mapM fun o => if o.isNull then pure none else (getReqs o).map some
  let defs := ops.map (opDefs g)
  let defJ (d : Def) : Json := Json.mkObj [("p", jcps d.provider), ("scopes", Json.arr (d.scopes.map jcps).toArray),
    ("ident", jcps (keyIdent U d.provider)), ("key", jcps (keyValue U d.provider))]
  pure (Json.mkObj [
    ("defs", Json.arr (defs.map fun ds => Json.arr (ds.map defJ).toArray).toArray),
    ("ctx", Json.arr (defs.map fun ds =>
      let ws := publish U ds
      Json.arr ((ws.map (·.1)).eraseDups.map fun k => Json.mkObj [("key", jcps k),
        ("scopes", match ctxGet ws k with | some s => Json.arr (s.map jcps).toArray | none => Json.null)]).toArray).toArray),
    ("constants", Json.arr ((constants U defs).map fun c => Json.mkObj [("ident", jcps c.1), ("key", jcps c.2)]).toArray)])

def getKVs (j : Json) (k : String) : Except String (List (List Nat × List (List Nat))) := do
  let a ← (← j.getObjVal? k).getArr?
  a.toList.mapM fun e => do
    let n ← getHex e "k"
    let vs ← getHexList e "v"
    pure (n, vs)

def kvsJson (l : List (List Nat × List (List Nat))) : Json :=
  Json.arr (l.map fun e => Json.mkObj [("k", hexStr e.1), ("v", jstrs (e.2.map hexStr))]).toArray

open Security in
def providerD (j : Json) : Except String Json := do
  let kind ← j.getObjValAs? String "kind"
  let a ← getHex j "a"
  let b ← getHex j "b"
  let rj ← j.getObjVal? "req"
  let r : Request := { method := ← getHex rj "method", path := ← getHex rj "path", query := ← getKVs rj "query",
                       headers := ← getKVs rj "headers", body := ← getHex rj "body" }
  let r' ← match kind with
    | "basic" => pure (basic a b r)
    | "bearer" => pure (bearer a r)
    | "header" => pure (apiKeyHeader a b r)
    | "query" => pure (apiKeyQuery a b r)
    | "cookie" => pure (apiKeyCookie a b r)
    | _ => throw "bad-op"
  pure (Json.mkObj [("method", hexStr r'.method), ("path", hexStr r'.path), ("query", kvsJson r'.query),
    ("headers", kvsJson r'.headers), ("body", hexStr r'.body), ("rawQuery", hexStr (encodeQuery r'.query))])

def getCpsList (j : Json) (k : String) : Except String (List (List Nat)) := do
  let a ← j.getObjValAs? (Array (Array Nat)) k
  pure (a.toList.map (·.toList))

def enumNamesD (j : Json) : Except String Json := do
  let U ← getUni j
  let names ← getCpsList j "names"
  let values ← getCpsList j "values"
  match Enums.sanitizeEnumNames U names values with
  | none => pure (Json.mkObj [("pairs", Json.null)])
  | some ps =>
    -- the third pass (GenerateGoSchema): names in ascending order, renamed by SchemaNameToTypeName, a taken name numbered
    let sorted := ps.mergeSort fun a b => !Responses.lexLt b.1 a.1
    let third := match Enums.pass3 (Names.schemaNameToTypeName U (Names.toCamelCase U)) sorted [] with
      | some out => Json.arr (out.map fun p => Json.arr #[jcps p.1, jcps p.2]).toArray
      | none => Json.null
    pure (Json.mkObj [("pairs", Json.arr (ps.map fun p => Json.arr #[jcps p.1, jcps p.2]).toArray), ("third", third)])

/-- `GenerateEnums`: which enums are prefixed and the constant names they emit. -/
def enumFlagsD (j : Json) : Except String Json := do
  let U ← getUni j
  let types ← getCpsList j "types"
  let ensJ ← (← j.getObjVal? "enums").getArr?
  let ens ← ensJ.toList.mapM fun e => do
    let ty ← getCps e "ty"
    let names ← getCpsList e "names"
    let pre ← e.getObjValAs? Bool "pre"
    pure (EnumClash.E.mk ty names pre)
  let fix ← j.getObjValAs? Bool "fix"
  let uc := Names.ucFirst U
  let out := if fix then EnumClash.resolveFix uc types ens else EnumClash.resolve uc types ens
  pure (Json.mkObj [("enums", Json.arr (out.map fun e =>
    Json.mkObj [("pre", Json.bool e.pre), ("vals", Json.arr ((e.vals uc).map jcps).toArray)]).toArray)])

/-- `CombineOperationParameters`: declarations as [loc, tag, name code points…]; result = tags in order, or the error. -/
def combineParamsD (j : Json) : Except String Json := do
  let rd (k : String) : Except String (List Combine.Decl) := do
    let a ← j.getObjValAs? (Array (Array Nat)) k
    pure (a.toList.map fun r => ⟨r[0]!, (r.toList.drop 2), r[1]!⟩)
  let g ← rd "global"
  let l ← rd "local"
  pure (match Combine.combine g l with
    | .ok r => Json.mkObj [("ok", Json.arr (r.map fun d => Json.num d.tag).toArray)]
    | .error e => Json.mkObj [("error", e)])

/-- `GenerateTypes`: definitions as [body, name bytes…]; result = bodies in order, or the name the error carries. -/
def genTypesD (j : Json) : Except String Json := do
  let a ← j.getObjValAs? (Array (Array Nat)) "types"
  let ts : List TypeDedup.TD := a.toList.map fun r => ⟨r.toList.drop 1, r[0]!⟩
  let nums (l : List Nat) : Json := Json.arr (l.map fun (c : Nat) => Json.num (JsonNumber.fromNat c)).toArray
  -- which bodies need the methods of a boilerplate generator (absent = none)
  let needs (k : String) : Nat → Bool := match j.getObjValAs? (Array Nat) k with
    | .ok a => fun b => a.contains b
    | .error _ => fun _ => false
  let bp (k : String) : Json := Json.arr ((TypeDedup.boilerplate (needs k) ts).map fun d => nums d.name).toArray
  let extra := [("addl", bp "needAddl"), ("union", bp "needUnion"), ("both", bp "needBoth")]
  pure (match TypeDedup.generateTypes ts with
    | .ok r => Json.mkObj ([("ok", Json.arr (r.map fun d => Json.num d.body).toArray)] ++ extra)
    | .error e => Json.mkObj ([("error", nums e)] ++ extra))

/-- `GenerateBodyDefinitions`: media types as byte arrays with, for each, what `IsMediaTypeJson` and
`mediaTypeToCamelCase` give (computed by Go: the model's `Env` is this table); result = one row per definition. -/
def bodyDefsD (j : Json) : Except String Json := do
  let cts ← j.getObjValAs? (Array (Array Nat)) "cts"
  let isj ← j.getObjValAs? (Array Bool) "json"
  let cam ← j.getObjValAs? (Array (Array Nat)) "camel"
  let op ← j.getObjValAs? (Array Nat) "op"
  let tbl : List (List Nat × Bool × List Nat) :=
    (List.range cts.size).map fun i => (cts[i]!.toList, isj[i]!, cam[i]!.toList)
  let E : Bodies.Env := ⟨fun c => ((tbl.find? (·.1 = c)).map (·.2.1)).getD false, fun c => ((tbl.find? (·.1 = c)).map (·.2.2)).getD []⟩
  let nums (l : List Nat) : Json := Json.arr (l.map fun (c : Nat) => Json.num (JsonNumber.fromNat c)).toArray
  let out := Bodies.bodyDefs E (cts.toList.map (·.toList))
  pure (Json.arr (out.map fun b => Json.mkObj [("ct", nums b.contentType), ("tag", nums b.tag), ("default", Json.bool b.dflt),
    ("supported", Json.bool b.supported), ("client", Json.bool (b.supportedByClient E)), ("fixed", Json.bool b.fixedContentType),
    ("suffix", nums b.suffix), ("type", nums (b.typeName op.toList))]).toArray)

/-- `GenerateResponseDefinitions`, refs: responses in ascending order of the status code as [code bytes, ref bytes] (empty
ref = not a reference); result = the ref of each definition. -/
def respDefsD (j : Json) : Except String Json := do
  let a ← j.getObjValAs? (Array (Array (Array Nat))) "responses"
  let rs : List RespDefs.RIn := a.toList.map fun r => ⟨r[0]!.toList, if r[1]!.isEmpty then none else some r[1]!.toList⟩
  let nums (l : List Nat) : Json := Json.arr (l.map fun (c : Nat) => Json.num (JsonNumber.fromNat c)).toArray
  pure (Json.arr ((RespDefs.respDefs rs).map fun o => Json.arr #[nums o.code, nums (o.ref.getD [])]).toArray)

/-- `GenFieldsFromProperties`, the struct tag of one member. Optional booleans travel as 0 (absent) / 1 (false) / 2 (true). -/
def fieldTagsD (j : Json) : Except String Json := do
  let name ← j.getObjValAs? (Array Nat) "name"
  let b (k : String) : Except String Bool := j.getObjValAs? Bool k
  let ob (k : String) : Except String (Option Bool) := do
    let n ← j.getObjValAs? Nat k
    pure (if n == 0 then none else some (n == 2))
  let ex ← j.getObjValAs? (Array (Array (Array Nat))) "extra"
  let p : FieldTags.P := ⟨name.toList, ← b "required", ← b "readOnly", ← b "writeOnly", ← b "nullable", ← b "needsForm",
    ← ob "xOmitEmpty", ← ob "jsonIgnore", ex.toList.map fun r => (r[0]!.toList, r[1]!.toList)⟩
  let o : FieldTags.Opts := ⟨← b "disableReqRO", ← b "nullableType"⟩
  pure (Json.arr ((FieldTags.render (FieldTags.fieldTags o p)).map fun (c : Nat) => Json.num (JsonNumber.fromNat c)).toArray)

/-- union.tmpl's MarshalJSON / UnmarshalJSON on one object: fields [[name, optNil]], member values as JSON texts (opaque).
`decode`: an object that is unmarshalled and marshalled again; otherwise `raw` (null or an object) and `own` (null or a text per
field) are the Go value that is marshalled. -/
def unionJsonD (j : Json) : Except String Json := do
  let fsJ ← j.getObjValAs? (Array Json) "fields"
  let fs ← fsJ.toList.mapM fun f => do
    pure (⟨← f.getObjValAs? String "name", ← f.getObjValAs? Bool "optNil"⟩ : JsonObj.Field)
  let obj (a : Array (Array String)) : List (String × String) := a.toList.map fun r => (r[0]!, r[1]!)
  let out (o : List (String × String)) : Json := Json.arr (o.map fun kv => Json.arr #[Json.str kv.1, Json.str kv.2]).toArray
  match j.getObjValAs? (Array (Array String)) "decode" with
  | .ok o =>
    -- "additional": the union also has additional properties (the other template); values are exact here (`re` = identity)
    match j.getObjValAs? Bool "additional" with
    | .ok true => pure (out (UnionJson.marshalA "null" fs (UnionJson.unmarshalA id fs (obj o))))
    | _ => pure (out (UnionJson.marshal "null" fs (UnionJson.unmarshal fs (obj o))))
  | .error _ =>
    let raw : Option (List (String × String)) := match j.getObjValAs? (Array (Array String)) "raw" with
      | .ok a => some (obj a)
      | .error _ => none
    let ownJ ← j.getObjValAs? (Array Json) "own"
    let own : List (Option String) := ownJ.toList.map fun x => match x with | .str t => some t | _ => none
    pure (out (UnionJson.marshal "null" fs ⟨raw, own⟩))

/-- `constructImportMapping`: [[document bytes, package path bytes]] ↦ [[document, name, path]] -/
def importMapD (j : Json) : Except String Json := do
  let a ← j.getObjValAs? (Array (Array (Array Nat))) "mapping"
  let m : List (TypeDedup.Str × TypeDedup.Str) := a.toList.map fun r => (r[0]!.toList, r[1]!.toList)
  let nums (l : List Nat) : Json := Json.arr (l.map fun (c : Nat) => Json.num (JsonNumber.fromNat c)).toArray
  pure (Json.arr ((TypeDedup.construct m).map fun (d, n, p) => Json.arr #[nums d, nums n, nums p]).toArray)

/-- `stringToGoCommentWithPrefix`: input and prefix as code point arrays; result = code points, and the line check. -/
def commentD (j : Json) : Except String Json := do
  let i ← j.getObjValAs? (Array Nat) "in"
  let p ← j.getObjValAs? (Array Nat) "prefix"
  let out := Comment.comment i.toList p.toList
  pure (Json.mkObj [("out", Json.arr (out.map fun (c : Nat) => Json.num (JsonNumber.fromNat c)).toArray),
    ("commented", Json.bool (Comment.allCommented out))])

/-- `refPathToGoType`: ref (hex), imports [[doc hex, pkg hex]], renamed [[section hex, key hex, name hex]]; the naming
function is the identity (the harness uses names that are their own type names). -/
def refPathD (j : Json) : Except String Json := do
  let ref ← getHex j "ref"
  let imps ← j.getObjValAs? (Array (Array String)) "imports"
  let rens ← j.getObjValAs? (Array (Array String)) "renamed"
  let imports ← imps.toList.mapM fun r => do pure ((← unhexStr r[0]!), (← unhexStr r[1]!))
  let renamed ← rens.toList.mapM fun r => do pure ((← unhexStr r[0]!), (← unhexStr r[1]!), (← unhexStr r[2]!))
  let env : RefPath.Env := {
    renamed := fun sec key => (renamed.find? fun r => r.1 = sec ∧ r.2.1 = key).map (·.2.2),
    imports := imports, typeName := id }
  pure (match RefPath.refPathToGoType env ref with
    | .ok t => Json.mkObj [("ok", hexStr t)]
    | .error .depth => Json.mkObj [("error", "depth")]
    | .error .unsupported => Json.mkObj [("error", "unsupported")]
    | .error .unmapped => Json.mkObj [("error", "unmapped")])

/-- flat form bodies: fields [{"name": hex, "ty": "str"|"bool"|"int8"…, "optional": bool}], values [null | hex string | integer
(as a decimal string) | bool]; `op` = "marshal" (pairs) or "bind" (pairs given as [[hex, hex]]). -/
def formD (j : Json) : Except String Json := do
  let fsJ ← (← j.getObjVal? "fields").getArr?
  let fs ← fsJ.toList.mapM fun f => do
    let n ← unhexStr (← f.getObjValAs? String "name")
    let ty ← match ← f.getObjValAs? String "ty" with
      | "str" => pure Form.Sc.str | "bool" => pure Form.Sc.bool
      | "int8" => pure (Form.Sc.int 8) | "int16" => pure (Form.Sc.int 16) | "int32" => pure (Form.Sc.int 32) | "int64" => pure (Form.Sc.int 64)
      | _ => throw "bad-form-type"
    pure (Form.Field.mk n ty (← f.getObjValAs? Bool "optional"))
  let showV : Option Form.SVal → Json
    | none => Json.null
    | some (.str s) => Json.mkObj [("s", hexStr s)]
    | some (.int v) => Json.mkObj [("i", Json.str (toString v))]
    | some (.bool b) => Json.mkObj [("b", Json.bool b)]
  match ← j.getObjValAs? String "op" with
  | "marshal" =>
    let vsJ ← (← j.getObjVal? "values").getArr?
    let vs ← vsJ.toList.mapM fun v => do
      match v with
      | .null => pure (none : Option Form.SVal)
      | .bool b => pure (some (Form.SVal.bool b))
      | _ =>
        match v.getObjValAs? String "s", v.getObjValAs? Bool "b" with
        | .ok h, _ => pure (some (Form.SVal.str (← unhexStr h)))
        | _, .ok b => pure (some (Form.SVal.bool b))
        | _, _ =>
          let i ← v.getObjValAs? String "i"
          match i.toInt? with
          | some n => pure (some (Form.SVal.int n))
          | none => throw "bad-int"
    pure (Json.mkObj [("pairs", Json.arr ((Form.marshal fs vs).map fun kv => Json.arr #[hexStr kv.1, hexStr kv.2]).toArray),
      ("welltyped", Json.bool (Form.wellTyped fs vs))])
  | "bind" =>
    let ps ← j.getObjValAs? (Array (Array String)) "pairs"
    let form ← ps.toList.mapM fun r => do pure ((← unhexStr r[0]!), (← unhexStr r[1]!))
    pure (match Form.bind form fs with
      | none => Json.mkObj [("error", "rejected")]
      | some vs => Json.mkObj [("values", Json.arr (vs.map showV).toArray)])
  | _ => throw "bad-form-op"

/-- every code point the comment model takes for white space (compared with unicode.IsSpace over all of Unicode) -/
def commentSpacesD (_ : Json) : Except String Json :=
  pure (Json.arr (((List.range 0x110000).filter Comment.isSpace).map fun (c : Nat) => Json.num (JsonNumber.fromNat c)).toArray)

/-- `SortedSchemaKeys`: entries as {"k": [bytes…], "o": integer or null}; result = the keys in order. -/
def schemaKeysD (j : Json) : Except String Json := do
  let es ← (← j.getObjVal? "entries").getArr?
  let entries ← es.toList.mapM fun e => do
    let k ← e.getObjValAs? (Array Nat) "k"
    let o : Option Int := match e.getObjVal? "o" with
      | .ok (.num n) => if n.exponent == 0 then some n.mantissa else none
      | _ => none
    pure (SchemaOrder.Entry.mk k.toList o)
  pure (Json.arr ((SchemaOrder.sortedSchemaKeys entries).map fun k => Json.arr (k.map fun (c : Nat) => Json.num (JsonNumber.fromNat c)).toArray).toArray)

/-- integer parameters: text -> value for a destination of `bits` bits, and the decimal rendering of a value -/
def parseIntD (j : Json) : Except String Json := do
  let s ← getHex j "s"
  let bits ← j.getObjValAs? Nat "bits"
  let r := match IntParse.parseInt bits s with
    | .ok v => Json.mkObj [("ok", Json.str (toString v))]
    | .error .rejected => Json.mkObj [("error", "rejected")]
  pure r

def parseBoolD (j : Json) : Except String Json := do
  let s ← getHex j "s"
  pure (match IntParse.parseBool s with
    | some b => Json.mkObj [("ok", Json.bool b)]
    | none => Json.mkObj [("error", "rejected")])

def parseUuidD (j : Json) : Except String Json := do
  let s ← getHex j "s"
  pure (match UuidParse.parse s with
    | some bs => Json.mkObj [("ok", Json.arr (bs.map fun (b : Nat) => Json.num b).toArray), ("text", hexStr (UuidParse.render bs))]
    | none => Json.mkObj [("error", "rejected")])

def parseDateD (j : Json) : Except String Json := do
  let s ← getHex j "s"
  pure (match DateParse.parse s with
    | some t => Json.mkObj [("ok", Json.arr #[Json.num t.y, Json.num t.m, Json.num t.d]), ("text", hexStr (DateParse.format t))]
    | none => Json.mkObj [("error", "rejected")])

def goQuoteD (j : Json) : Except String Json := do
  let s ← getHex j "s"
  let q := Enums.quoteGo s
  pure (Json.mkObj [("quoted", hexStr q), ("unquoted", match Enums.unquoteGo q with | some r => Json.str (hexStr r) | none => Json.null)])

open Merge in
def getFlat (j : Json) : Except String Flat := do
  let ty := (j.getObjValAs? Nat "type").toOption
  let fmt ← j.getObjValAs? Nat "format"
  let propsJ ← (← j.getObjVal? "props").getArr?
  let props ← propsJ.toList.mapM fun e => do
    let k ← e.getObjValAs? String "k"
    let v ← e.getObjValAs? Nat "v"
    pure (k, v)
  let req ← strs j "required"
  let addlHas := (j.getObjValAs? Bool "addlHas").toOption
  let addlSchema := (j.getObjValAs? Nat "addlSchema").toOption
  let flags ← j.getObjValAs? Nat "flags"
  let dflt ← j.getObjValAs? Bool "hasDefault"
  pure { type := ty, format := fmt, props := props, required := req, addlHas := addlHas, addlSchema := addlSchema, flags := flags, hasDefault := dflt }

open Merge in
partial def getSch (j : Json) : Except String Sch := do
  let f ← getFlat j
  match j.getObjVal? "allOf" with
  | .error _ => pure (.mk f [])
  | .ok a =>
    let arr ← a.getArr?
    let subs ← arr.toList.mapM getSch
    pure (.mk f subs)

open Merge in
def mergeD (j : Json) : Except String Json := do
  let msJ ← (← j.getObjVal? "members").getArr?
  let ms ← msJ.toList.mapM getSch
  match mergeTop ms with
  | .error e => pure (Json.mkObj [("error", e)])
  | .ok r => pure (Json.mkObj [
      ("type", match r.type with | some t => Json.num t | none => Json.null), ("format", Json.num r.format),
      ("props", Json.arr (r.props.map fun e => Json.mkObj [("k", e.1), ("v", Json.num e.2)]).toArray),
      ("required", jstrs r.required),
      ("addlHas", match r.addlHas with | some b => Json.bool b | none => Json.null),
      ("addlSchema", match r.addlSchema with | some a => Json.num a | none => Json.null), ("flags", Json.num r.flags)])

def getPairs (j : Json) (k : String) : Except String (List (String × String)) := do
  let a ← (← j.getObjVal? k).getArr?
  a.toList.mapM fun e => do
    let l ← e.getArr?
    if l.size != 2 then throw "pair" else
    pure ((← l[0]!.getStr?), (← l[1]!.getStr?))

def unionTableD (j : Json) : Except String Json := do
  let explicit ← getPairs j "explicit"
  let names ← getPairs j "names"
  let types ← getPairs j "types"
  let elements ← strs j "elements"
  let name (r : String) := (Union.lookup names r).getD ""
  let goType (r : String) := (Union.lookup types r).getD ""
  let t := Union.table explicit name goType elements
  let sorted := (t.map (·.1)).mergeSort (fun a b => a ≤ b)
  pure (Json.mkObj [
    ("table", Json.arr (t.map fun e => Json.arr #[Json.str e.1, Json.str e.2]).toArray),
    ("complete", Json.bool (Union.complete explicit name goType elements)),
    ("written", Json.arr (elements.map fun r => Json.arr #[Json.str (goType r),
        match Union.written t sorted (goType r) with | some v => Json.str v | none => Json.null]).toArray)])

def deepObjectD (j : Json) : Except String Json := do
  let name ← getHex j "name"
  let keys ← getHexList j "keys"
  let vals ← getHexList j "vals"
  let kvs := keys.zip vals
  let frag := DeepObject.frag name kvs
  let bound : Json := match Codec.parseQuery frag with
    | .error e => Json.mkObj [("parseErr", e)]
    | .ok q => match DeepObject.bind name q with
      | .error e => Json.mkObj [("bindErr", e)]
      | .ok r => Json.mkObj [("keys", jstrs (r.map (hexStr ·.1))), ("vals", jstrs (r.map (hexStr ·.2)))]
  pure (Json.mkObj [("frag", hexStr frag), ("bound", bound)])

open GoJson in
partial def toJVal : Json → Except String JVal
  | .null => pure .null
  | .bool b => pure (.bool b)
  | .num n => if n.exponent == 0 then pure (.num n.mantissa) else throw "non-integer"
  | .str s => pure (.str s)
  | .arr a => do pure (.arr (← a.toList.mapM toJVal))
  | .obj _ => throw "object-needs-order"

open GoJson in
/-- Objects arrive as {"$o": [[key, value], …]} so that member order is preserved. -/
partial def toJValO (j : Json) : Except String JVal :=
  match j with
  | .obj _ =>
    match j.getObjVal? "$o" with
    | .ok (.arr ms) => do
      let l ← ms.toList.mapM fun e => do
        let kv ← e.getArr?
        if kv.size != 2 then throw "pair" else
        pure ((← kv[0]!.getStr?), (← toJValO kv[1]!))
      pure (.obj l)
    | _ => throw "object-needs-$o"
  | .arr a => do pure (.arr (← a.toList.mapM toJValO))
  | other => toJVal other

open GoJson in
partial def ofJVal : JVal → Json
  | .null => .null
  | .bool b => .bool b
  | .num n => .num (JsonNumber.fromInt n)
  | .str s => .str s
  | .arr l => .arr (l.map ofJVal).toArray
  | .obj m => Json.mkObj [("$o", .arr (m.map fun kv => Json.arr #[.str kv.1, ofJVal kv.2]).toArray)]

section GoTyParse
open GoJson
mutual
partial def toGoTy (j : Json) : Except String GoTy := do
  let k ← j.getObjValAs? String "k"
  match k with
  | "bool" => pure .bool
  | "int" | "int64" => pure int64
  | "int8" => pure int8
  | "int16" => pure int16
  | "int32" => pure int32
  | "uint8" => pure uint8
  | "uint16" => pure uint16
  | "uint32" => pure uint32
  | "uint64" | "uint" => pure uint64
  | "string" => pure .string
  | "ptr" => do pure (.ptr (← toGoTy (← j.getObjVal? "t")))
  | "slice" => do pure (.slice (← toGoTy (← j.getObjVal? "t")))
  | "map" => do pure (.map (← toGoTy (← j.getObjVal? "t")))
  | "struct" => do
    let fs ← (← j.getObjVal? "fields").getArr?
    pure (.struct (← toFields fs.toList))
  | _ => throw "bad-type"
partial def toFields : List Json → Except String Fields
  | [] => pure .nil
  | f :: rest => do
    let n ← f.getObjValAs? String "name"
    let om ← f.getObjValAs? Bool "omitempty"
    let t ← toGoTy (← f.getObjVal? "t")
    pure (.cons n om t (← toFields rest))
end
end GoTyParse

open GoJson in
def goJsonD (j : Json) : Except String Json := do
  let t ← toGoTy (← j.getObjVal? "type")
  let v ← toJValO (← j.getObjVal? "value")
  let dec := decode t v
  let out := match dec with
    | none => Json.null
    | some gv => match encode t gv with | some r => ofJVal r | none => Json.str "$encode-failed"
  pure (Json.mkObj [("decoded", Json.bool dec.isSome), ("out", out), ("valid", Json.bool (wf t && valid t v)), ("infragment", Json.bool (wf t)),
    ("stable", Json.bool (match dec with | some gv => hasTy t gv && stable t gv | none => false)),
    ("typed", Json.bool (match dec with | some gv => hasTy t gv | none => false))])

def dispatch (fn : String) (j : Json) : Except String Json :=
  match fn with
  | "gojson" => goJsonD j
  | "deepObject" => deepObjectD j
  | "unionTable" => unionTableD j
  | "merge" => mergeD j
  | "enumNames" => enumNamesD j
  | "enumFlags" => enumFlagsD j
  | "combineParams" => combineParamsD j
  | "genTypes" => genTypesD j
  | "importMap" => importMapD j
  | "bodyDefs" => bodyDefsD j
  | "respDefs" => respDefsD j
  | "fieldTags" => fieldTagsD j
  | "unionJson" => unionJsonD j
  | "schemaKeys" => schemaKeysD j
  | "comment" => commentD j
  | "commentSpaces" => commentSpacesD j
  | "refPath" => refPathD j
  | "form" => formD j
  | "parseInt" => parseIntD j
  | "parseDate" => parseDateD j
  | "parseUuid" => parseUuidD j
  | "parseBool" => parseBoolD j
  | "goQuote" => goQuoteD j
  | "secDefs" => secDefsD j
  | "provider" => providerD j
  | "prune" => prune j
  | "filter" => filter j
  | "styleParam" => styleParamD j
  | "oasSerialize" => oasSerializeD j
  | "oasWire" => oasWireD j
  | "parseQuery" => parseQueryD j
  | "bindStyled" => bindStyledD j
  | "bindQuery" => bindQueryD j
  | "embed" => embedD j
  | "responses" => responsesD j
  | "names" => namesD j
  | "scan" => scanD j
  | "sortParams" => sortParamsD j
  | "route" => routeD j
  | "escape" => escapeD j
  | "unescape" => unescapeD j
  | _ => .error "bad-op"

def handle (line : String) : String :=
  match Json.parse line with
  | .error _ => "{\"err\":\"bad-json\"}"
  | .ok j =>
    match j.getObjValAs? String "fn" with
    | .error _ => "{\"err\":\"bad-op\"}"
    | .ok fn =>
      match dispatch fn j with
      | .ok r => (Json.mkObj [("ok", r)]).compress
      | .error e => (Json.mkObj [("err", Json.str e)]).compress

partial def loop (hin hout : IO.FS.Stream) : IO Unit := do
  let line ← hin.getLine
  if line.isEmpty then return ()
  let l := line.trimAscii.toString
  if l.isEmpty then loop hin hout else
  hout.putStrLn (handle l)
  hout.flush
  loop hin hout

end Drv

def main : IO Unit := do
  Drv.loop (← IO.getStdin) (← IO.getStdout)
