-- Root of the `OapiVerif` library: every property file.
import OapiVerif.Props.C15
import OapiVerif.Props.C16
import OapiVerif.Props.C14
import OapiVerif.Props.C04
import OapiVerif.Props.C05
import OapiVerif.Props.C06
import OapiVerif.Props.C03
import OapiVerif.Props.C13
import OapiVerif.Props.C01
import OapiVerif.Props.C17
import OapiVerif.Props.C02
import OapiVerif.Props.C08
import OapiVerif.Props.C19
import OapiVerif.Props.C20
import OapiVerif.Props.C18
import OapiVerif.Props.C11
import OapiVerif.Props.C10
