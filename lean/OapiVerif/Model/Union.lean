/-!
C09 — the discriminator table of a oneOf/anyOf (`generateUnion`, pkg/codegen/schema.go) and the dispatch the
template derives from it. Elements are references (the code rejects inline elements next to an explicit
mapping); an element is identified by its `$ref`, `name r` is the schema name at the end of the reference
(`RefPathToObjName`), `goType r` its Go type.
-/
namespace OapiVerif.Union

/-- The explicit mapping of the document: discriminator value ↦ `$ref` (a Go map: distinct keys). -/
abbrev Mapping := List (String × String)

def insert (m : List (String × String)) (k v : String) : List (String × String) :=
  if m.any (·.1 = k) then m.map (fun e => if e.1 = k then (k, v) else e) else m ++ [(k, v)]

def lookup (m : List (String × String)) (k : String) : Option String := (m.find? (·.1 = k)).map (·.2)

/-- The entries one element contributes: every explicit value that designates it, or — when there is
none — its schema name (repaired: it used to be the first designating value the map walk met). -/
def elementEntries (explicit : Mapping) (name : String → String) (ref : String) : List String :=
  let ks := (explicit.filter (·.2 = ref)).map (·.1)
  if ks.isEmpty then [name ref] else ks

/-- `outSchema.Discriminator.Mapping`: value ↦ Go type. -/
def table (explicit : Mapping) (name goType : String → String) (elements : List String) : List (String × String) :=
  elements.foldl (fun m r => (elementEntries explicit name r).foldl (fun m k => insert m k (goType r)) m) []

/-- `discriminator: not all schemas were mapped` -/
def complete (explicit : Mapping) (name goType : String → String) (elements : List String) : Bool :=
  decide ((table explicit name goType elements).length ≥ elements.length)

/-- `ValueByDiscriminator`: the accessor chosen for a discriminator value, `none` = "unknown discriminator value". -/
def dispatch (t : List (String × String)) (value : String) : Option String := lookup t value

/-- `From<T>` / `Merge<T>`: the template walks the table in sorted key order and assigns every value mapped to
the element's type; the last assignment stays. -/
def written (t : List (String × String)) (sortedKeys : List String) (ty : String) : Option String :=
  (sortedKeys.filter (fun k => lookup t k = some ty)).getLast?

end OapiVerif.Union
