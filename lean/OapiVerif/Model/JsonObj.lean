/-!
C07 — the per-type `UnmarshalJSON` / `MarshalJSON` of additional-properties.tmpl at the level of one JSON
object. Member values are opaque (`V`): the theorems say that the object-level logic of the template loses,
invents and shadows nothing provided the members themselves round-trip.
-/
namespace OapiVerif.JsonObj

structure Field where
  name : String          -- JSON member name
  optNil : Bool          -- optional and nil-able in Go (`OptionalAndNillable`): a nil value is not written
deriving DecidableEq, Repr

variable {V : Type}

def lookup (o : List (String × V)) (k : String) : Option V := (o.find? (·.1 = k)).map (·.2)

def insert (m : List (String × V)) (k : String) (v : V) : List (String × V) :=
  if m.any (·.1 = k) then m.map (fun e => if e.1 = k then (k, v) else e) else m ++ [(k, v)]

/-- The decoded Go value: one slot per declared member (none = nil / absent), and the additional map. -/
structure Decoded (V : Type) where
  declared : List (Option V)
  addl : List (String × V)

def declaredName (fs : List Field) (k : String) : Bool := fs.any (·.name = k)

/-- `UnmarshalJSON`: every declared member is read and deleted from the object; what remains is stored as
additional properties. -/
def decode (fs : List Field) (o : List (String × V)) : Decoded V :=
  { declared := fs.map fun f => lookup o f.name,
    addl := o.filter fun kv => !declaredName fs kv.1 }

/-- The declared part of `MarshalJSON`: nil optional members are skipped, every other member is written
(`zero` stands for the encoding of a zero value of a member that was never set). -/
def declaredOut (zero : V) : List Field → List (Option V) → List (String × V)
  | f :: fs, ov :: ovs =>
    match ov with
    | some v => (f.name, v) :: declaredOut zero fs ovs
    | none => if f.optNil then declaredOut zero fs ovs else (f.name, zero) :: declaredOut zero fs ovs
  | _, _ => []

/-- `MarshalJSON`: declared members first, then every additional entry is assigned into the same map. -/
def encode (zero : V) (fs : List Field) (d : Decoded V) : List (String × V) :=
  d.addl.foldl (fun m kv => insert m kv.1 kv.2) (declaredOut zero fs d.declared)

end OapiVerif.JsonObj
