import OapiVerif.Model.Responses
/-!
`GenFieldsFromProperties` (pkg/codegen/schema.go), the struct tag of a member: whether `omitempty` is written, the `json`
(and, for form bodies, `form`) tag, `x-go-json-ignore`, and the tags of `x-oapi-codegen-extra-tags`, which are laid over
the others key by key; the tag is written in ascending order of the keys (C08: JSON tags equal the property names; each
extension changes exactly what it documents and nothing else).
-/
namespace OapiVerif.FieldTags

abbrev Str := List Nat

def w (s : String) : Str := s.toList.map Char.toNat

structure Opts where
  disableRequiredReadOnlyAsPointer : Bool
  nullableType : Bool

structure P where
  jsonName : Str
  required : Bool
  readOnly : Bool
  writeOnly : Bool
  nullable : Bool
  needsForm : Bool
  xOmitEmpty : Option Bool      -- x-omitempty, when it parses
  jsonIgnore : Option Bool      -- x-go-json-ignore, when it parses
  extra : List (Str × Str)      -- x-oapi-codegen-extra-tags, when it parses (a map: distinct keys)

def shouldOmit (o : Opts) (p : P) : Bool :=
  (!p.required || p.readOnly || p.writeOnly) && (!p.required || !p.readOnly || !o.disableRequiredReadOnlyAsPointer)

def omitEmpty (o : Opts) (p : P) : Bool :=
  match p.xOmitEmpty with
  | some b => b
  | none => if p.nullable && o.nullableType then shouldOmit o p else !p.nullable && shouldOmit o p

/-- `fieldTags[k] = v` on a map kept in ascending order of the keys (the order `SortedMapKeys` writes it in) -/
def insertKV (k v : Str) : List (Str × Str) → List (Str × Str)
  | [] => [(k, v)]
  | q :: rest =>
    if k = q.1 then (k, v) :: rest
    else if Responses.lexLt k q.1 then (k, v) :: q :: rest
    else q :: insertKV k v rest

def lookup (t : List (Str × Str)) (k : Str) : Option Str := (t.find? (·.1 = k)).map (·.2)

def baseTags (o : Opts) (p : P) : List (Str × Str) :=
  let v := if omitEmpty o p then p.jsonName ++ w ",omitempty" else p.jsonName
  let t := insertKV (w "json") v []
  let t := if p.needsForm then insertKV (w "form") v t else t
  if p.jsonIgnore = some true then insertKV (w "json") (w "-") t else t

def fieldTags (o : Opts) (p : P) : List (Str × Str) :=
  p.extra.foldl (fun t kv => insertKV kv.1 kv.2 t) (baseTags o p)

/-- `key:"value"` joined by blanks -/
def render : List (Str × Str) → Str
  | [] => []
  | [(k, v)] => k ++ w ":\"" ++ v ++ w "\""
  | (k, v) :: rest => k ++ w ":\"" ++ v ++ w "\" " ++ render rest

end OapiVerif.FieldTags
