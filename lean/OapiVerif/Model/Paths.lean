/-
L5 — path templates: `pathParamRE = {[.;?]?([^{}*]+)\*?}` (pkg/codegen/utils.go), the seven
`SwaggerUriTo…Uri` translations, `OrderedParamsFromUri`, `SortParamsByPath`, and a
specification-level router. Strings are `List Nat` (bytes).
-/
namespace OapiVerif.Paths

abbrev Str := List Nat

def cOpen : Nat := 123   -- {
def cClose : Nat := 125  -- }
def cStar : Nat := 42    -- *
def cSlash : Nat := 47
def cColon : Nat := 58

def nameChar (c : Nat) : Bool := c != cOpen && c != cClose && c != cStar
def prefixChar (c : Nat) : Bool := c == 46 || c == 59 || c == 63   -- . ; ?

/-- After `{` and the optional prefix: `([^{}*]+)\*?}`; returns the name and the rest after `}`. -/
def matchBody (s : Str) : Option (Str × Str) :=
  let name := s.takeWhile nameChar
  let rest := s.dropWhile nameChar
  if name.isEmpty then none else
  match rest with
  | 125 :: r => some (name, r)
  | 42 :: 125 :: r => some (name, r)
  | _ => none

/-- A match attempt right after a `{` (leftmost-first: the greedy optional prefix is tried first,
then — on failure — the alternative without it, where the prefix character belongs to the name). -/
def matchAt (s : Str) : Option (Str × Str) :=
  match s with
  | c :: t => if prefixChar c then (match matchBody t with | some r => some r | none => matchBody s) else matchBody s
  | [] => none

inductive Tok where
  | lit (c : Nat)
  | var (name : Str)
deriving Repr, DecidableEq, Inhabited

/-- All non-overlapping matches, left to right (`FindAll` / `ReplaceAll`), as a token stream. -/
def scanN : Nat → Str → List Tok
  | 0, _ => []
  | _, [] => []
  | n+1, c :: t =>
    if c = cOpen then
      match matchAt t with
      | some (name, rest) => .var name :: scanN n rest
      | none => .lit c :: scanN n t
    else .lit c :: scanN n t

def scan (s : Str) : List Tok := scanN (s.length + 1) s

def tokVar : Tok → Option Str
  | .var n => some n
  | .lit _ => none

def tokStr (op cl : Str) : Tok → Str
  | .lit c => [c]
  | .var n => op ++ n ++ cl

/-- `OrderedParamsFromUri`. -/
def orderedParams (uri : Str) : List Str := (scan uri).filterMap tokVar

/-- `pathParamRE.ReplaceAllString(uri, open ++ "$1" ++ close)`. -/
def translate (op cl : Str) (uri : Str) : Str := (scan uri).flatMap (tokStr op cl)

def toChi := translate [cOpen] [cClose]      -- chi, gorilla, std-http: {name}
def toColon := translate [cColon] []         -- echo, gin, fiber, iris: :name

/-- `SwaggerUriToStdHttpUri`: a ServeMux pattern that ends in a slash would match the whole subtree; `{$}` pins it to
the path itself. -/
def toStdHttp (uri : Str) : Str :=
  if (toChi uri).getLast? = some cSlash then toChi uri ++ [cOpen, 36, cClose] else toChi uri

/-- `ReplacePathParamsWithStr`: the client's format string. -/
def toFmt := translate [37, 115] []          -- %s   ("$1" is not used)
def toFmt' (uri : Str) : Str := (scan uri).flatMap fun t => match t with | .lit c => [c] | .var _ => [37, 115]

/-! ### SortParamsByPath -/

structure Param where
  name : Str
  tag : Nat        -- stands for everything else a ParameterDefinition carries
deriving Repr, DecidableEq, Inhabited

def findByName (ps : List Param) (n : Str) : Option Param := ps.find? (·.name = n)

def pick (ps : List Param) : List Str → Except String (List Param)
  | [] => .ok []
  | n :: ns =>
    match findByName ps n with
    | none => .error "missing"
    | some p => match pick ps ns with
      | .ok r => .ok (p :: r)
      | .error e => .error e

/-- `SortParamsByPath`. -/
def sortParamsByPath (path : Str) (ps : List Param) : Except String (List Param) :=
  if (orderedParams path).length ≠ ps.length then .error "count" else pick ps (orderedParams path)

/-! ### A specification-level router -/

/-- A path template segment. -/
inductive Seg where
  | static (s : Str)
  | var (name : Str)
deriving Repr, DecidableEq, Inhabited

structure Op where
  method : Nat
  segs : List Seg
  id : Nat
deriving Repr, DecidableEq, Inhabited

/-- Bindings of a template against concrete path segments (every variable spans one whole,
non-empty segment). -/
def matchSegs : List Seg → List Str → Option (List (Str × Str))
  | [], [] => some []
  | .static s :: ts, x :: xs => if s = x then matchSegs ts xs else none
  | .var n :: ts, x :: xs => if x.isEmpty then none else (matchSegs ts xs).map ((n, x) :: ·)
  | _, _ => none

/-- `a` is preferred over `b` when, at the first position where they differ in kind, `a` is static. -/
def moreSpecific : List Seg → List Seg → Bool
  | .static _ :: _, .var _ :: _ => true
  | .var _ :: _, .static _ :: _ => false
  | _ :: as, _ :: bs => moreSpecific as bs
  | _, _ => false

def better (a b : Op) : Op := if moreSpecific b.segs a.segs then b else a

/-- Dispatch: among the operations whose method and template match, the most specific one. -/
def candidates (ops : List Op) (method : Nat) (path : List Str) : List Op :=
  ops.filter fun o => o.method == method && (matchSegs o.segs path).isSome

def route (ops : List Op) (method : Nat) (path : List Str) : Option (Op × List (Str × Str)) :=
  match candidates ops method path with
  | [] => none
  | c :: cs => (matchSegs (cs.foldl better c).segs path).map fun b => (cs.foldl better c, b)

/-- Rendering of a well-formed template: `/seg/seg/...`, a variable as `{name}`. -/
def renderSeg : Seg → Str
  | .static s => s
  | .var n => cOpen :: n ++ [cClose]
def render (segs : List Seg) : Str := segs.flatMap fun sg => cSlash :: renderSeg sg

def segToks : Seg → List Tok
  | .static s => s.map .lit
  | .var n => [.var n]
def toks (segs : List Seg) : List Tok := segs.flatMap fun sg => .lit cSlash :: segToks sg

/-- Well-formed segment: static text without braces; a variable name of name characters, non-empty,
not starting with one of the style prefixes `.` `;` `?`. -/
def segVar : Seg → Option Str
  | .var n => some n
  | .static _ => none

def colonSeg : Seg → Str
  | .static s => s
  | .var n => cColon :: n

def wfSeg : Seg → Bool
  | .static s => s.all fun c => c != cOpen
  | .var n => !n.isEmpty && n.all nameChar && !(prefixChar (n.headD 0))

end OapiVerif.Paths
