import OapiVerif.Model.IntParse
/-!
Form-encoded request bodies (`application/x-www-form-urlencoded`) of flat objects: the generated client calls
`runtime.MarshalForm` on the body struct and sends `url.Values.Encode()`; the servers parse the form and call
`runtime.BindForm` (or their framework's binder over the same `form` tags). Pinned runtime v1.1.0, `bindform.go`.

A member is a scalar (string, integer of a width, boolean); an optional member is a pointer tagged `json:"name,omitempty" form:"name,omitempty"` (the runtime reads the json tag)
and is left out when nil. `marshal` gives the (key, value) pairs in member order — `url.Values` is a map, the wire order
is settled by `Encode` (sorted; `C18_query_wire_roundtrip` covers that leg); `bind` reads the first value under each key.
-/
namespace OapiVerif.Form
open OapiVerif.IntParse

inductive Sc where
  | str
  | int (bits : Nat)
  | bool
deriving DecidableEq, Repr

inductive SVal where
  | str (s : Str)
  | int (v : Int)
  | bool (b : Bool)
deriving DecidableEq, Repr

structure Field where
  name : Str
  ty : Sc
  optional : Bool
deriving DecidableEq, Repr

/-- `fmt.Sprint` of the member -/
def render : SVal → Str
  | .str s => s
  | .int v => renderInt v
  | .bool b => renderBool b

/-- `BindStringToObject` into a destination of the scalar type -/
def parse : Sc → Str → Option SVal
  | .str, s => some (.str s)
  | .int bits, s => match parseInt bits s with | .ok v => some (.int v) | .error _ => none
  | .bool, s => (parseBool s).map .bool

def zero : Sc → SVal
  | .str => .str []
  | .int _ => .int 0
  | .bool => .bool false

/-- a value of the scalar type -/
def typed : Sc → SVal → Bool
  | .str, .str _ => true
  | .int bits, .int v => decide (InRange bits v)
  | .bool, .bool _ => true
  | _, _ => false

/-- `MarshalForm`: one pair per member that is not a nil optional -/
def marshal : List Field → List (Option SVal) → List (Str × Str)
  | f :: fs, some v :: vs => (f.name, render v) :: marshal fs vs
  | _ :: fs, none :: vs => marshal fs vs
  | _, _ => []

def lookup (form : List (Str × Str)) (k : Str) : Option Str := (form.find? (·.1 = k)).map (·.2)

/-- `BindForm` on a zero body struct: a key that is there is parsed (an unparsable text is an error: `none`), a key that
is not there leaves an optional member nil and any other member at its zero value. -/
def bind (form : List (Str × Str)) : List Field → Option (List (Option SVal))
  | [] => some []
  | f :: fs =>
    match lookup form f.name with
    | some s =>
      match parse f.ty s, bind form fs with
      | some v, some vs => some (some v :: vs)
      | _, _ => none
    | none =>
      match bind form fs with
      | some vs => some ((if f.optional then none else some (zero f.ty)) :: vs)
      | none => none

/-- the body struct holds a value for every member; only optional members may be nil -/
def wellTyped : List Field → List (Option SVal) → Bool
  | [], [] => true
  | f :: fs, some v :: vs => typed f.ty v && wellTyped fs vs
  | f :: fs, none :: vs => f.optional && wellTyped fs vs
  | _, _ => false

end OapiVerif.Form
