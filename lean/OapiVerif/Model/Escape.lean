/-
L0 — percent-encoding as net/url does it (url.PathEscape / url.QueryEscape and their inverses).
Strings are byte lists (`List Nat`, every element < 256): Go strings are byte sequences and the
escaping is byte-wise.
-/
namespace OapiVerif.Escape

inductive Mode where
  | path   -- url.PathEscape / PathUnescape  (encodePathSegment)
  | query  -- url.QueryEscape / QueryUnescape (encodeQueryComponent)
deriving Repr, DecidableEq, Inhabited

def isAlnum (b : Nat) : Bool :=
  (48 ≤ b && b ≤ 57) || (65 ≤ b && b ≤ 90) || (97 ≤ b && b ≤ 122)

/-- `url.shouldEscape(c, mode)` for the two modes the generated code uses. -/
def shouldEscape (m : Mode) (b : Nat) : Bool :=
  if isAlnum b then false
  else if b = 45 || b = 95 || b = 46 || b = 126 then false          -- - _ . ~
  else match m with
    | .path =>
      -- $ & + , / : ; = ? @  : in a path segment only / ; , ? are escaped
      if b = 36 || b = 38 || b = 43 || b = 58 || b = 61 || b = 64 then false else true
    | .query => true

def hexDigit (n : Nat) : Nat := if n < 10 then 48 + n else 55 + n   -- "0123456789ABCDEF"

def unhex (c : Nat) : Option Nat :=
  if 48 ≤ c && c ≤ 57 then some (c - 48)
  else if 97 ≤ c && c ≤ 102 then some (c - 87)
  else if 65 ≤ c && c ≤ 70 then some (c - 55)
  else none

def escByte (m : Mode) (b : Nat) : List Nat :=
  if m = .query && b = 32 then [43]                                  -- ' ' -> '+'
  else if shouldEscape m b then [37, hexDigit (b / 16), hexDigit (b % 16)]
  else [b]

def escape (m : Mode) (s : List Nat) : List Nat := s.flatMap (escByte m)

/-- `url.unescape`: `%XX` triples are decoded, `+` is a space in query mode, a malformed
triple is an error. (Path mode has no further restriction for the characters we emit.) -/
def unescape (m : Mode) : List Nat → Option (List Nat)
  | [] => some []
  | 37 :: h :: l :: rest =>
    match unhex h, unhex l, unescape m rest with
    | some a, some b, some r => some ((a * 16 + b) :: r)
    | _, _, _ => none
  | [37] => none
  | [37, _] => none
  | c :: rest =>
    match unescape m rest with
    | some r => some ((if m = .query && c = 43 then 32 else c) :: r)
    | none => none

end OapiVerif.Escape
