/-
L4 — the documented schema → Go type mapping (C08): documentation oracles (README "type/format"
table, the pointer / omitempty sentence, the vendor extensions) and the row types of the regenerated
tables they are compared with.
-/
namespace OapiVerif.TypeMap

/-- Go types are coded: the table compares codes, not strings (fast kernel evaluation). -/
inductive GoT where
  | int | int8 | int16 | int32 | int64 | uint | uint8 | uint16 | uint32 | uint64
  | float32 | float64 | bool | string | bytes | email | date | time | rawjson | uuid | file
  | error      -- the generator rejects the schema
  | other
deriving Repr, DecidableEq, Inhabited

/-- type: 0 integer, 1 number, 2 boolean, 3 string.
format: 0 none, 1 int32, 2 int64, 3 int16, 4 int8, 5 int, 6 uint64, 7 uint32, 8 uint16, 9 uint8, 10 uint,
11 float, 12 double, 13 byte, 14 email, 15 date, 16 date-time, 17 json, 18 uuid, 19 binary, 20 an unknown format. -/
def docType (ty fmt : Nat) : GoT :=
  match ty with
  | 0 => match fmt with
    | 2 => .int64 | 1 => .int32 | 3 => .int16 | 4 => .int8 | 5 => .int
    | 6 => .uint64 | 7 => .uint32 | 8 => .uint16 | 9 => .uint8 | 10 => .uint
    | _ => .int                       -- "int" unless the format asks for something else
  | 1 => match fmt with
    | 12 => .float64                  -- double
    | 11 => .float32 | 0 => .float32  -- float32 by default for number
    | _ => .error
  | 2 => if fmt = 0 then .bool else .error
  | 3 => match fmt with
    | 13 => .bytes | 14 => .email | 15 => .date | 16 => .time | 17 => .rawjson | 18 => .uuid | 19 => .file
    | _ => .string                    -- unrecognised formats are plain strings
  | _ => .error

structure TypeRow where
  ty : Nat
  fmt : Nat
  got : GoT
deriving Repr, DecidableEq, Inhabited

def typeRowOk (r : TypeRow) : Bool := r.got == docType r.ty r.fmt

/-- One cell of the member table: an object with one string member declared with these attributes,
generated under these options; observed: is the field a pointer / a nullable.Nullable, its json tag. -/
structure FieldRow where
  required : Bool
  nullable : Bool
  readOnly : Bool
  writeOnly : Bool
  skipPtr : Nat        -- x-go-type-skip-optional-pointer: 0 unset, 1 true, 2 false
  xOmit : Nat          -- x-omitempty: 0 unset, 1 true, 2 false
  jsonIgnore : Nat     -- x-go-json-ignore: 0 unset, 1 true, 2 false
  nullableType : Bool  -- output-options.nullable-type
  roFlag : Bool        -- compatibility.disable-required-readonly-as-pointer
  gotPointer : Bool
  gotNullableWrap : Bool
  gotTagName : Nat     -- 0: the property name, 1: "-", 2: anything else
  gotOmit : Bool
deriving Repr, DecidableEq, Inhabited

/-- "a pointer exactly for members that are optional, nullable, read-only or write-only (unless
opted out)"; a required read-only member is not a pointer under disable-required-readonly-as-pointer;
with nullable-type a nullable member is a nullable.Nullable[T] instead. -/
def docPointer (r : FieldRow) : Bool :=
  if r.nullableType && r.nullable then false
  else if r.skipPtr == 1 then false
  else !r.required || r.nullable || r.writeOnly || (r.readOnly && (!r.required || !r.roFlag))

def docNullableWrap (r : FieldRow) : Bool := r.nullableType && r.nullable

/-- "omitempty exactly for non-nullable members that are optional, read-only or write-only";
x-omitempty overrides; with nullable-type a nullable member follows the same optional rule. -/
def docOmit (r : FieldRow) : Bool :=
  let should := (!r.required || r.readOnly || r.writeOnly) && (!r.required || !r.readOnly || !r.roFlag)
  let base := if r.nullable then (r.nullableType && should) else should
  if r.xOmit == 1 then true else if r.xOmit == 2 then false else base

def docTagName (r : FieldRow) : Nat := if r.jsonIgnore == 1 then 1 else 0

def fieldRowOk (r : FieldRow) : Bool :=
  r.gotPointer == docPointer r && r.gotNullableWrap == docNullableWrap r &&
  r.gotTagName == docTagName r && (r.jsonIgnore == 1 || r.gotOmit == docOmit r)

/-- Coordinates of a generated declaration an extension may change (bit positions):
0 type of the member, 1 name of the Go field, 2 pointer-ness, 3 omitempty, 4 json tag name,
5 extra struct tags, 6 member order, 7 name of the generated type, 8 extra type declaration,
9 imports, 10 enum constant names, 11 doc comment. -/
structure ExtRow where
  ext : Nat       -- index into `extNames`
  changed : Nat   -- bit mask of the coordinates that differ between "with" and "without"
deriving Repr, DecidableEq, Inhabited

def extNames : List String := ["x-go-type", "x-go-type-import", "x-go-name", "x-go-type-name",
  "x-go-type-skip-optional-pointer", "x-omitempty", "x-go-json-ignore", "x-order",
  "x-oapi-codegen-extra-tags", "x-enum-varnames", "x-deprecated-reason"]

/-- What each documented extension changes — and nothing else. -/
def docExtMask : Nat → Nat
  | 0 => 1          -- x-go-type: the member's type
  | 1 => 512        -- x-go-type-import (with x-go-type present in both variants): imports
  | 2 => 2          -- x-go-name: the Go field name
  | 3 => 1 + 256    -- x-go-type-name: the member is of a new named type, which is declared
  | 4 => 4          -- skip-optional-pointer: pointer-ness
  | 5 => 8          -- x-omitempty
  | 6 => 16 + 8     -- x-go-json-ignore: tag becomes "-" (the omitempty suffix goes with it)
  | 7 => 64         -- x-order
  | 8 => 32         -- extra tags
  | 9 => 1024       -- x-enum-varnames: constant names
  | 10 => 2048      -- x-deprecated-reason: the deprecation comment
  | _ => 0

def extRowOk (r : ExtRow) : Bool := r.changed == docExtMask r.ext


/-- Composite shapes of the documentation: slices for arrays, maps for free-form and
additional-properties-only objects, the referenced named type for `$ref`. shape: 0 array of string,
1 array of `$ref Y`, 2 `{type: object}`, 3 additionalProperties: true, 4 additionalProperties: {type: integer},
5 additionalProperties: `$ref Y`, 6 `$ref Y`, 7 array of array of integer, 8–10 arrays whose items get a type of their
own, 11–13 allOf compositions. `asMember`: as an optional member of
an object (then a pointer to it). -/
structure ShapeRow where
  shape : Nat
  asMember : Bool
  got : String
deriving Repr, DecidableEq, Inhabited

def docShape : Nat → String
  | 0 => "[]string" | 1 => "[]Y" | 2 => "map[string]interface{}" | 3 => "map[string]interface{}"
  | 4 => "map[string]int" | 5 => "map[string]Y" | 6 => "Y" | 7 => "[][]int"
  | 8 => "[]X_Item" | 9 => "[]X_Item" | 10 => "[]X_Item"   -- items with a declaration of their own: enum, object + additional, union
  -- compositions (fields as "<Field> <type> <json name>[,omitempty]"): a member is a pointer with omitempty exactly
  -- when no member of the allOf requires it. 11: {p} + {q, required q}; 12: $ref Y {a} + {q, r, required a q};
  -- 13: {p, required p} + {q} + {s, required s}
  | 11 => "struct{P *string p,omitempty; Q int q}"
  | 12 => "struct{A string a; Q int q; R *bool r,omitempty}"
  | 13 => "struct{P string p; Q *int q,omitempty; S string s}"
  -- 14: `$ref Z` where Z carries x-go-name ZRenamed; 15: `$ref ZAlias` where ZAlias is nothing but `$ref Z`
  | 14 => "ZRenamed" | 15 => "ZAlias"
  -- 16: `$ref NoPtr` where NoPtr carries x-go-type-skip-optional-pointer: true (as an optional member: no pointer)
  | 16 => "NoPtr"
  | _ => "?"

/-- as the member `m` of `H` the item type is named after the path to it -/
def docShapeMember : Nat → String
  | 8 => "[]HM" | 9 => "[]H_M_Item" | 10 => "[]H_M_Item"
  | n => docShape n

/-- shapes whose optional member opts out of the pointer -/
def memberNoPointer (n : Nat) : Bool := n == 16

def shapeRowOk (r : ShapeRow) : Bool :=
  r.got == (if r.asMember then (if memberNoPointer r.shape then docShapeMember r.shape else "*" ++ docShapeMember r.shape) else docShape r.shape)

end OapiVerif.TypeMap
