import OapiVerif.Model.Names
/-!
C11 — enum constants. `SanitizeEnumNames` (pkg/codegen/utils.go) and the rendering of a string value as a
Go string literal (constants.tmpl, `printf "%q"`), with the Go lexer's reading of such a literal.
-/
namespace OapiVerif.Enums
open OapiVerif.Names

/-- First pass: one (name, value) pair per distinct value, in order of first occurrence; the name of the
i-th value is the i-th variable name when there is one, the value otherwise. -/
def stage1 (names values : List Str) : List (Str × Str) :=
  go names values []
where
  go : List Str → List Str → List Str → List (Str × Str)
    | _, [], _ => []
    | ns, v :: vs, seen =>
      let n := ns.headD v
      if seen.contains v then go ns.tail vs seen else (n, v) :: go ns.tail vs (v :: seen)

def itoa (k : Nat) : Str := (toString k).toList.map Char.toNat

def count (cnt : List (Str × Nat)) (s : Str) : Option Nat := (cnt.find? (·.1 = s)).map (·.2)

/-- The counting loop: the first of `base ++ k`, `base ++ (k+1)`, … that is not taken. The Go loop is unbounded;
the model gives up (`none`) after `fuel` candidates, which the caller sets above the number of taken names.
Returns the name and the next counter. -/
def freeName (taken : List Str) (base : Str) : Nat → Nat → Option (Str × Nat)
  | 0, _ => none
  | fuel + 1, k => if taken.contains (base ++ itoa k) then freeName taken base fuel (k + 1) else some (base ++ itoa k, k + 1)

def setCount (cnt : List (Str × Nat)) (s : Str) (k : Nat) : List (Str × Nat) :=
  if cnt.any (·.1 = s) then cnt.map fun e => if e.1 = s then (e.1, k) else e else (s, k) :: cnt

/-- One step of the second pass: the name given to a value whose sanitised name is `s`, and the new counters. -/
def firstCand (cnt : List (Str × Nat)) (s : Str) : Str × Nat :=
  match count cnt s with
  | none => (s, 1)
  | some k => (s ++ itoa k, k + 1)

def pickName (taken : List Str) (cnt : List (Str × Nat)) (s : Str) : Option (Str × List (Str × Nat)) :=
  if taken.contains (firstCand cnt s).1 then
    (freeName taken s (taken.length + 1) (firstCand cnt s).2).map fun nk => (nk.1, setCount cnt s nk.2)
  else some ((firstCand cnt s).1, setCount cnt s (firstCand cnt s).2)

/-- Second pass over the de-duplicated pairs. State: result so far (newest first), counters. -/
def stage2 (san : Str → Str) : List (Str × Str) → List (Str × Str) → List (Str × Nat) → Option (List (Str × Str))
  | [], out, _ => some out.reverse
  | (n, v) :: rest, out, cnt =>
    match pickName (out.map (·.1)) cnt (san n) with
    | none => none
    | some (name, cnt') => stage2 san rest ((name, v) :: out) cnt'

def sanitizeName (U : Uni) (n : Str) : Str :=
  let s := sanitizeGoIdentity U (schemaNameToTypeName U (toCamelCase U) n)
  if s = [] then w "Empty" else s

/-- `SanitizeEnumNames` with the default name normaliser. -/
def sanitizeEnumNames (U : Uni) (names values : List Str) : Option (List (Str × Str)) :=
  stage2 (sanitizeName U) (stage1 names values) [] []

/-! ### Third pass (GenerateGoSchema): the names become type-name shaped

`GenerateGoSchema` renames every constant of `SanitizeEnumNames` once more (`SchemaNameToTypeName`: first letter upper-cased,
a prefix for a leading digit, …). Two names that the second pass kept apart can be renamed to one (`_a` and `A`, `foo` and
`Foo`). Before the repair the renamed names were keys of a map and the later value replaced the earlier one (`pass3Old`);
`renameEnumNames` now walks the names in ascending order and numbers a renamed name that is taken (`pass3`). -/

def pass3 (norm : Str → Str) : List (Str × Str) → List (Str × Str) → Option (List (Str × Str))
  | [], out => some out.reverse
  | (n, v) :: rest, out =>
    if (out.map (·.1)).contains (norm n) then
      match freeName (out.map (·.1)) (norm n) ((out.map (·.1)).length + 1) 1 with
      | none => none
      | some (name, _) => pass3 norm rest ((name, v) :: out)
    else pass3 norm rest ((norm n, v) :: out)

def setKey (m : List (Str × Str)) (k v : Str) : List (Str × Str) :=
  if m.any (·.1 = k) then m.map fun e => if e.1 = k then (k, v) else e else m ++ [(k, v)]

def pass3Old (norm : Str → Str) (ps : List (Str × Str)) : List (Str × Str) :=
  ps.foldl (fun m p => setKey m (norm p.1) p.2) []

/-! ### Go string literals -/

def lowerHex (n : Nat) : Nat := if n < 10 then 48 + n else 87 + n

def unhexL (c : Nat) : Option Nat :=
  if 48 ≤ c && c ≤ 57 then some (c - 48) else if 97 ≤ c && c ≤ 102 then some (c - 87)
  else if 65 ≤ c && c ≤ 70 then some (c - 55) else none

/-- `strconv.Quote` on bytes (bytes ≥ 0x80 are passed through: valid printable UTF-8 is left as is). -/
def escByte (b : Nat) : Str :=
  if b = 34 then [92, 34] else if b = 92 then [92, 92]
  else if b = 7 then [92, 97] else if b = 8 then [92, 98] else if b = 12 then [92, 102]
  else if b = 10 then [92, 110] else if b = 13 then [92, 114] else if b = 9 then [92, 116] else if b = 11 then [92, 118]
  else if b < 32 || b = 127 then [92, 120, lowerHex (b / 16), lowerHex (b % 16)]
  else [b]

def quoteBody (s : Str) : Str := s.flatMap escByte

def quoteGo (s : Str) : Str := [34] ++ quoteBody s ++ [34]

def simpleEsc (c : Nat) : Option Nat :=
  if c = 97 then some 7 else if c = 98 then some 8 else if c = 102 then some 12 else if c = 110 then some 10
  else if c = 114 then some 13 else if c = 116 then some 9 else if c = 118 then some 11
  else if c = 92 then some 92 else if c = 34 then some 34 else none

/-- The Go lexer on the inside of an interpreted string literal, as a state machine over the bytes up to and
including the closing quote (nothing may follow it). Octal and \u escapes are not produced by the generator
and are rejected. -/
inductive LexSt where
  | normal | esc | hex0 | hex1 (a : Nat) | closed | bad
deriving DecidableEq, Repr

def lexStep (st : LexSt × Str) (c : Nat) : LexSt × Str :=
  match st.1 with
  | .normal =>
    if c = 34 then (.closed, st.2) else if c = 10 then (.bad, st.2) else if c = 92 then (.esc, st.2) else (.normal, st.2 ++ [c])
  | .esc =>
    if c = 120 then (.hex0, st.2) else
    match simpleEsc c with
    | some b => (.normal, st.2 ++ [b])
    | none => (.bad, st.2)
  | .hex0 => match unhexL c with | some a => (.hex1 a, st.2) | none => (.bad, st.2)
  | .hex1 a => match unhexL c with | some b => (.normal, st.2 ++ [16 * a + b]) | none => (.bad, st.2)
  | .closed => (.bad, st.2)
  | .bad => (.bad, st.2)

def unqBody (s : Str) : Option Str :=
  match s.foldl lexStep (.normal, []) with
  | (.closed, acc) => some acc
  | _ => none

def unquoteGo : Str → Option Str
  | 34 :: body => unqBody body
  | _ => none

/-- The rendering before the repair: the value pasted between quotes. -/
def rawLit (v : Str) : Str := [34] ++ v ++ [34]

end OapiVerif.Enums
