/-
L3 — pruning of unused components (pkg/codegen/prune.go).

Abstraction: a document is the list of `$ref` strings that occur under `paths`
(`roots`) plus, for every *prunable* component, its own reference string
(`#/components/<kind>/<name>`) and the `$ref` strings that occur inside it (`out`).
`step` is one round of `findComponentRefs` + `removeOrphanedComponents`;
`prune` is the `for { … if countRemoved < 1 { break } }` loop of
`pruneUnusedComponents`, with fuel `|comps| + 1` (shown sufficient in Proofs/Prune).
-/
namespace OapiVerif.Prune

structure Comp where
  ref : String
  out : List String
deriving Repr, DecidableEq, Inhabited

structure Doc where
  roots : List String
  comps : List Comp
deriving Repr, DecidableEq, Inhabited

/-- `findComponentRefs`: every reference string reachable by the walker. -/
def allRefs (d : Doc) : List String := d.roots ++ d.comps.flatMap (·.out)

/-- `removeOrphanedComponents swagger (findComponentRefs swagger)`. -/
def step (d : Doc) : Doc :=
  { d with comps := d.comps.filter (fun c => (allRefs d).contains c.ref) }

def pruneN : Nat → Doc → Doc
  | 0, d => d
  | n+1, d => if (step d).comps.length = d.comps.length then d else pruneN n (step d)

/-- `pruneUnusedComponents`. -/
def prune (d : Doc) : Doc := pruneN (d.comps.length + 1) d

/-- Reachability from the operations through components. -/
inductive Reach (d : Doc) : Comp → Prop
  | root {c} : c ∈ d.comps → c.ref ∈ d.roots → Reach d c
  | via {c c'} : c ∈ d.comps → Reach d c' → c.ref ∈ c'.out → Reach d c

end OapiVerif.Prune
