/-!
Model of the decision logic of cmd/oapi-codegen (C20): generate targets, defaults, validation,
configuration-style detection and the old-style/legacy-flag translation table.

Only the *decisions* are modelled; the code generator behind them is `codegen.Generate` in both the
command-line tool and the library, and byte equality of the two is a RUN tie (harness c20).
-/
namespace OapiVerif.Cli

/-- The switches a generate target can turn on: the eleven members of `codegen.GenerateOptions`
and the two output options reachable through `-generate`. -/
inductive Flag
  | iris | chi | fiber | echo | gin | gorilla | stdhttp | strict | client | models | spec | skipFmt | skipPrune
deriving DecidableEq, Repr

def Flag.isServer : Flag → Bool
  | .iris | .chi | .fiber | .echo | .gin | .gorilla | .stdhttp => true
  | _ => false

def allFlags : List Flag :=
  [.iris, .chi, .fiber, .echo, .gin, .gorilla, .stdhttp, .strict, .client, .models, .spec, .skipFmt, .skipPrune]

def serverFlags : List Flag := [.iris, .chi, .fiber, .echo, .gin, .gorilla, .stdhttp]

/-- The documented target table (`-generate` help text, README, and the accepted long forms named after
the configuration keys). Anything else is not a target. -/
def docTarget : String → Option Flag
  | "iris" | "iris-server" => some .iris
  | "chi-server" | "chi" => some .chi
  | "fiber-server" | "fiber" => some .fiber
  | "server" | "echo-server" | "echo" => some .echo
  | "gin" | "gin-server" => some .gin
  | "gorilla" | "gorilla-server" => some .gorilla
  | "std-http" | "std-http-server" => some .stdhttp
  | "strict-server" => some .strict
  | "client" => some .client
  | "types" | "models" => some .models
  | "spec" | "embedded-spec" => some .spec
  | "skip-fmt" => some .skipFmt
  | "skip-prune" => some .skipPrune
  | _ => none

/-- Names the documentation promises (a subset of what `docTarget` accepts). -/
def documentedNames : List String :=
  ["types", "client", "chi-server", "server", "gin", "gorilla", "spec", "skip-fmt", "skip-prune", "fiber", "iris", "std-http",
   "strict-server", "models", "embedded-spec", "echo-server", "gin-server", "gorilla-server", "std-http-server", "fiber-server", "iris-server"]

/-- The effective switches, as the set of flags that are on. -/
abbrev Eff := Flag → Bool

def Eff.none : Eff := fun _ => false

/-- `generationTargets`: every target must be known; generate options restart from blank, the two
output options keep what the configuration already had (`base`). -/
def targetFlags : List String → Option (List Flag)
  | [] => some []
  | t :: ts =>
    match docTarget t, targetFlags ts with
    | some f, some fs => some (f :: fs)
    | _, _ => Option.none

def effOf (base : Eff) (fs : List Flag) : Eff := fun f =>
  match f with
  | .skipFmt | .skipPrune => base f || fs.contains f
  | _ => fs.contains f

def generationTargets (base : Eff) (ts : List String) : Option Eff :=
  (targetFlags ts).map (effOf base)

def genFlags : List Flag := [.iris, .chi, .fiber, .echo, .gin, .gorilla, .stdhttp, .strict, .client, .models, .spec]

def genIsZero (e : Eff) : Bool := genFlags.all (fun f => !e f)

/-- `Configuration.UpdateDefaults`. -/
def updateDefaults (e : Eff) : Eff :=
  if genIsZero e then fun f => match f with
    | .echo | .models | .spec => true
    | .skipFmt | .skipPrune => e f
    | _ => false
  else e

def nServers (e : Eff) : Nat := (serverFlags.map (fun f => (e f).toNat)).sum

/-- `Configuration.Validate`. -/
def validate (pkgEmpty : Bool) (e : Eff) : Bool := !pkgEmpty && decide (nServers e ≤ 1)

/-- What the tool does with `-generate ts` (or an old-style `generate:` list): `none` = rejected with a
non-zero exit, `some e` = the effective switches printed by `-output-config`. -/
def cli (base : Eff) (ts : List String) : Option Eff :=
  match generationTargets base ts with
  | Option.none => Option.none
  | some e => let e' := updateDefaults e; if validate false e' then some e' else Option.none

def Eff.toList (e : Eff) : List Flag := allFlags.filter e

/-! ### Configuration style detection -/

inductive Style | old | new
deriving DecidableEq, Repr

/-- Inputs of the detection: `-old-config-style`, whether a file was given, whether it parses strictly
as an old-style / new-style file, whether a deprecated flag is present. -/
structure Detect where
  forcedOld : Bool
  hasFile : Bool
  oldOk : Bool
  newOk : Bool
  deprecatedFlag : Bool
deriving DecidableEq, Repr

/-- `none` = the file is rejected. -/
def detectStyle (d : Detect) : Option Style :=
  if d.forcedOld then
    if d.hasFile && !d.oldOk then Option.none else some .old
  else if d.hasFile then
    match d.oldOk, d.newOk with
    | false, true => some .new
    | true, false => some .old
    | false, false => Option.none
    | true, true => if d.deprecatedFlag then some .old else some .new
  else if d.deprecatedFlag then some .old else some .new

/-- The detection before the repair: the forced old style read the file leniently. -/
def detectStyleOld (d : Detect) : Option Style :=
  if d.forcedOld then some .old else detectStyle d

/-- One observed run: `-old-config-style`, the kind of file (0 none, 1 parses as old style only, 2 as new style only,
3 as both, 4 as neither), a deprecated flag present, and the style the tool used (`none` = it refused). -/
structure DetectRow where
  forced : Bool
  file : Nat
  deprecated : Bool
  observed : Option Style
deriving Repr

def DetectRow.toDetect (r : DetectRow) : Detect :=
  { forcedOld := r.forced, hasFile := r.file != 0, oldOk := r.file == 1 || r.file == 3, newOk := r.file == 2 || r.file == 3,
    deprecatedFlag := r.deprecated }

def detectRowOk (r : DetectRow) : Bool := r.observed == detectStyle r.toDetect

/-! ### Key tables (TAB rows regenerated from the built binary) -/

/-- One generate-target row: the list given to `-generate` and what `-output-config` reported
(`none` = non-zero exit). Observed through the legacy flag and through an old-style file. -/
structure TargetRow where
  targets : List String
  viaFlag : Option (List Flag)
  viaOldFile : Option (List Flag)
deriving Repr

def targetRowOk (r : TargetRow) : Bool :=
  let want := (cli Eff.none r.targets).map Eff.toList
  r.viaFlag == want && r.viaOldFile == want

/-- One configuration-key row: a key of the documented schema / of the configuration struct, set to a
non-default value in a new-style file; `changed` = the leaf keys of the effective configuration
(`-output-config`) that differ from the run without the key; `roundTrip` = the value read back equals
the value written. -/
structure KeyRow where
  key : String
  inSchema : Bool
  inStruct : Bool
  accepted : Bool
  changed : List String
  roundTrip : Bool
deriving Repr

def keyRowOk (r : KeyRow) : Bool :=
  r.inSchema && r.inStruct && r.accepted && r.changed == [r.key] && r.roundTrip

/-- The documented configuration keys (configuration-schema.json / README), as leaf paths. -/
def documentedKeys : List String :=
  ["additional-imports",
   "compatibility.always-prefix-enum-values",
   "compatibility.apply-chi-middleware-first-to-last",
   "compatibility.apply-gorilla-middleware-first-to-last",
   "compatibility.circular-reference-limit",
   "compatibility.disable-flatten-additional-properties",
   "compatibility.disable-required-readonly-as-pointer",
   "compatibility.old-aliasing",
   "compatibility.old-enum-conflicts",
   "compatibility.old-merge-schemas",
   "generate.chi-server",
   "generate.client",
   "generate.echo-server",
   "generate.embedded-spec",
   "generate.fiber-server",
   "generate.gin-server",
   "generate.gorilla-server",
   "generate.iris-server",
   "generate.models",
   "generate.std-http-server",
   "generate.strict-server",
   "import-mapping",
   "output",
   "output-options.client-type-name",
   "output-options.disable-type-aliases-for-type",
   "output-options.exclude-operation-ids",
   "output-options.exclude-schemas",
   "output-options.exclude-tags",
   "output-options.include-operation-ids",
   "output-options.include-tags",
   "output-options.initialism-overrides",
   "output-options.name-normalizer",
   "output-options.nullable-type",
   "output-options.response-type-suffix",
   "output-options.skip-fmt",
   "output-options.skip-prune",
   "output-options.user-templates",
   "package"]

/-- The documented translation of old-style keys and legacy flags into the configuration. -/
def oldKeyDoc : String → Option String
  | "package" => some "package"
  | "generate" => some "generate.chi-server"
  | "output" => some "output"
  | "include-tags" => some "output-options.include-tags"
  | "exclude-tags" => some "output-options.exclude-tags"
  | "include-operation-ids" => some "output-options.include-operation-ids"
  | "exclude-operation-ids" => some "output-options.exclude-operation-ids"
  | "templates" => some "output-options.user-templates"
  | "import-mapping" => some "import-mapping"
  | "exclude-schemas" => some "output-options.exclude-schemas"
  | "response-type-suffix" => some "output-options.response-type-suffix"
  | "compatibility" => some "compatibility.old-aliasing"
  | _ => Option.none

def flagDoc : String → Option String
  | "package" => some "package"
  | "generate" => some "generate.chi-server"
  | "o" => some "output"
  | "include-tags" => some "output-options.include-tags"
  | "exclude-tags" => some "output-options.exclude-tags"
  | "include-operation-ids" => some "output-options.include-operation-ids"
  | "exclude-operation-ids" => some "output-options.exclude-operation-ids"
  | "templates" => some "output-options.user-templates"
  | "import-mapping" => some "import-mapping"
  | "exclude-schemas" => some "output-options.exclude-schemas"
  | "response-type-suffix" => some "output-options.response-type-suffix"
  | "initialism-overrides" => some "output-options.initialism-overrides"
  | _ => Option.none

/-- One translation row: an old-style key (or a legacy flag) set to a non-default value; `changed` as in
`KeyRow`, relative to the same run without it. `style` = "old-file", "flag-old" (flag next to an
old-style file), "flag-new" (flag next to a new-style file), "flag-none" (no file). -/
structure TransRow where
  style : String
  name : String
  accepted : Bool
  changed : List String
  roundTrip : Bool
deriving Repr

def transRowOk (r : TransRow) : Bool :=
  let doc := if r.style == "old-file" then oldKeyDoc r.name else flagDoc r.name
  r.accepted && r.roundTrip && (match doc with | some k => r.changed == [k] | Option.none => false)

/-- The old-style keys and flags that must be present in the table. -/
def oldKeys : List String := ["package", "generate", "output", "include-tags", "exclude-tags", "include-operation-ids",
  "exclude-operation-ids", "templates", "import-mapping", "exclude-schemas", "response-type-suffix", "compatibility"]
def legacyFlags : List String := ["package", "generate", "o", "include-tags", "exclude-tags", "include-operation-ids",
  "exclude-operation-ids", "templates", "import-mapping", "exclude-schemas", "response-type-suffix", "initialism-overrides"]

end OapiVerif.Cli
