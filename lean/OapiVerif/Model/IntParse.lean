/-!
The typed layer of integer parameters (C04 typed round trip, C06 wrong type / overflow): the runtime converts the text of
a primitive parameter with `strconv.ParseInt(s, 10, 64)` and rejects what does not fit the destination
(`reflect.Value.OverflowInt`); the client renders with `strconv.FormatInt` / `fmt.Sprint`.
`parseInt bits` is the composition for a destination of `bits` bits; `renderInt` the decimal rendering.
-/
namespace OapiVerif.IntParse

abbrev Str := List Nat

def isDigit (c : Nat) : Bool := 48 ≤ c && c ≤ 57

/-- a non-empty run of decimal digits (leading zeros allowed, as in Go) -/
def parseNat (s : Str) : Option Nat :=
  if s.isEmpty || !s.all isDigit then none else some (s.foldl (fun a c => 10 * a + (c - 48)) 0)

/-- Go tells a syntax error from a range error by whichever it meets first while scanning the digits; the distinction
plays no role for the parameter (the wrapper answers 400 either way) and is not modelled. -/
inductive PErr | rejected
deriving DecidableEq, Repr

def InRange (bits : Nat) (v : Int) : Prop := -(2 ^ (bits - 1) : Int) ≤ v ∧ v < (2 ^ (bits - 1) : Int)

instance (bits : Nat) (v : Int) : Decidable (InRange bits v) := by unfold InRange; infer_instance

def isNeg (s : Str) : Bool := s.head? == some 45
/-- the text after an optional sign -/
def body (s : Str) : Str := if s.head? == some 45 || s.head? == some 43 then s.tail else s

def signed (neg : Bool) (n : Nat) : Int := if neg then -(n : Int) else (n : Int)

def finish (bits : Nat) (neg : Bool) : Option Nat → Except PErr Int
  | none => .error .rejected
  | some n => if InRange bits (signed neg n) then .ok (signed neg n) else .error .rejected

/-- optional sign, digits, then the range of the destination; a malformed text and a value that does not fit are both refused -/
def parseInt (bits : Nat) (s : Str) : Except PErr Int := finish bits (isNeg s) (parseNat (body s))

def itoa (k : Nat) : Str := (toString k).toList.map Char.toNat

/-- `strconv.FormatInt(v, 10)` -/
def renderInt (v : Int) : Str := if v < 0 then 45 :: itoa v.natAbs else itoa v.natAbs

/-! ### booleans: `strconv.ParseBool` -/

def wB (s : String) : Str := s.toList.map Char.toNat

def trueTexts : List Str := [wB "1", wB "t", wB "T", wB "TRUE", wB "true", wB "True"]
def falseTexts : List Str := [wB "0", wB "f", wB "F", wB "FALSE", wB "false", wB "False"]

def parseBool (s : Str) : Option Bool :=
  if trueTexts.contains s then some true else if falseTexts.contains s then some false else none

def renderBool (b : Bool) : Str := if b then wB "true" else wB "false"

end OapiVerif.IntParse
