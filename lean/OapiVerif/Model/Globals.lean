/-
L8 — the package-level state of pkg/codegen and what one `Generate` call reads from it (C17).
`render` — everything the templates do with the effective settings and the document — is an
uninterpreted parameter: independence from history is a property of how the settings are computed.
-/
namespace OapiVerif.Globals

abbrev Str := List Nat

/-- The options of one call that interact with package-level state; `other` stands for every
option that is only ever read from the call's own `opts` value. -/
structure Cfg where
  suffix : Option Str          -- OutputOptions.ResponseTypeSuffix ("" = none)
  normalizer : Nat             -- index into NameNormalizers; ≥ 4 = unknown name
  clientTypeName : Option Str
  importMapping : Nat
  other : Nat
deriving Repr, DecidableEq, Inhabited

structure Call where
  cfg : Cfg
  doc : Nat                    -- the document (a value: the harness re-loads it for every call)
deriving Repr, DecidableEq, Inhabited

/-- Package-level mutables: globalState.{options, spec, importMapping}, responseTypeSuffix,
nameNormalizer (TemplateFunctions["opts"] is re-installed on every call and reads globalState). -/
structure State where
  options : Cfg
  spec : Nat
  importMapping : Nat
  suffix : Str
  normalizer : Option Nat
deriving Repr, DecidableEq, Inhabited

def defaultSuffix : Str := "Response".toList.map Char.toNat
def defaultClient : Str := "Client".toList.map Char.toNat

def init : State := ⟨⟨none, 0, none, 0, 0⟩, 0, 0, defaultSuffix, some 0⟩

/-- The settings a call's rendering actually uses. -/
structure Eff where
  suffix : Str
  normalizer : Nat
  clientTypeName : Str
  importMapping : Nat
  other : Nat
  doc : Nat
deriving Repr, DecidableEq, Inhabited

/-- `Generate` as it is now (after the repair): every package-level variable is assigned from the
call before it is read; an unknown normaliser aborts the call after the assignments. -/
def step (g : State) (c : Call) : State × Option Eff :=
  let suffix := match c.cfg.suffix with | some s => s | none => defaultSuffix
  let g' : State :=
    { options := { c.cfg with clientTypeName := some (c.cfg.clientTypeName.getD defaultClient) },
      spec := c.doc, importMapping := c.cfg.importMapping, suffix := suffix,
      normalizer := if c.cfg.normalizer < 4 then some c.cfg.normalizer else none }
  match g'.normalizer with
  | none => (g', none)     -- "the name-normalizer option … could not be found": error, state already written
  | some n => (g', some ⟨g'.suffix, n, (g'.options.clientTypeName.getD defaultClient), g'.importMapping, c.cfg.other, g'.spec⟩)

/-- `Generate` before the repair: the suffix is only assigned when the option is set. -/
def stepOld (g : State) (c : Call) : State × Option Eff :=
  let suffix := match c.cfg.suffix with | some s => s | none => g.suffix
  let g' : State :=
    { options := { c.cfg with clientTypeName := some (c.cfg.clientTypeName.getD defaultClient) },
      spec := c.doc, importMapping := c.cfg.importMapping, suffix := suffix,
      normalizer := if c.cfg.normalizer < 4 then some c.cfg.normalizer else none }
  match g'.normalizer with
  | none => (g', none)
  | some n => (g', some ⟨g'.suffix, n, (g'.options.clientTypeName.getD defaultClient), g'.importMapping, c.cfg.other, g'.spec⟩)

/-- Output of the last call of a history, starting from a given state. -/
def lastOut (st : State → Call → State × Option Eff) (g : State) : List Call → Option (Option Eff)
  | [] => none
  | [c] => some (st g c).2
  | c :: rest => lastOut st (st g c).1 rest

/-! ### FACT rows (regenerated into Gen/C17.lean): every package-level `var` of pkg/codegen -/

structure VarRow where
  name : String
  initOnly : Bool          -- written only by its declaration / `init()`
  resetInGenerate : Bool   -- assigned by a top-level (unconditional) statement of Generate
  conditionalInGenerate : Bool  -- assigned in Generate under a condition that no unconditional assignment precedes
  writers : List String    -- other functions that assign it
deriving Repr, DecidableEq, Inhabited

/-- Functions other than Generate that may write package state: explicit setters of the public API. -/
def allowedWriters : List String := ["SetGlobalStateSpec", "init"]

def varOk (r : VarRow) : Bool :=
  r.initOnly ||
  (r.resetInGenerate && !r.conditionalInGenerate && r.writers.all (allowedWriters.contains ·))

/-- The mutable package state this model covers. -/
def modelledMutables : List String := ["globalState", "nameNormalizer", "responseTypeSuffix", "TemplateFunctions"]

end OapiVerif.Globals
