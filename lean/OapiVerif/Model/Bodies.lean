import OapiVerif.Model.Responses
/-!
`GenerateBodyDefinitions` (pkg/codegen/operations.go): one request-body definition per media type the operation declares.
The media type decides the *name tag* (`JSON`, the camel-cased media type for other JSON types, `Multipart`, `Formdata`,
`Text`, none for anything else), whether the body is the default one (no suffix on the generated names), the names of the
generated type (`<Op><Tag>RequestBody`) and of the client methods (`<Op>With<Tag>Body`), and what client and strict server
support. Used by C12 (which body the strict handler decodes), C13 (which typed request builders exist and what they send)
and C01 (two bodies of one tag are declared twice).

`util.IsMediaTypeJson` (mime.ParseMediaType) and `mediaTypeToCamelCase` enter as parameters: the theorems hold whatever they
are; the correspondence compares the instantiation with the Go functions on every sample.
-/
namespace OapiVerif.Bodies

abbrev Str := List Nat

def w (s : String) : Str := s.toList.map Char.toNat

structure Env where
  isJson : Str → Bool
  camel : Str → Str

def appJson : Str := w "application/json"
def formUrl : Str := w "application/x-www-form-urlencoded"
def textPlain : Str := w "text/plain"
def multipartPrefix : Str := w "multipart/"

/-- the `switch` over the media type: tag and default flag, `none` = the generic (unsupported) body -/
def classify (E : Env) (ct : Str) : Option (Str × Bool) :=
  if ct = appJson then some (w "JSON", true)
  else if E.isJson ct then some (E.camel ct, false)
  else if multipartPrefix.isPrefixOf ct then some (w "Multipart", false)
  else if ct = formUrl then some (w "Formdata", false)
  else if ct = textPlain then some (w "Text", false)
  else none

/-! ### the switch as the translator writes it (Gen/MediaSwitch.lean is regenerated from operations.go on every run) -/

inductive Cond where
  | eq (s : Str)      -- contentType == "…"
  | isJson            -- util.IsMediaTypeJson(contentType)
  | pfx (s : Str)     -- strings.HasPrefix(contentType, "…")
  | dflt              -- default:
deriving DecidableEq, Repr

inductive TagE where
  | lit (s : Str)     -- tag = "…"
  | camel             -- tag = mediaTypeToCamelCase(contentType)
  | unsupported       -- the clause that leaves the tag empty
deriving DecidableEq, Repr

structure Arm where
  cond : Cond
  tag : TagE
  isDefault : Bool    -- defaultBody = true
deriving DecidableEq, Repr

def Cond.holds (E : Env) (ct : Str) : Cond → Bool
  | .eq s => ct = s
  | .isJson => E.isJson ct
  | .pfx s => s.isPrefixOf ct
  | .dflt => true

/-- Go's tag-less `switch`: the first clause whose condition holds -/
def evalSwitch (E : Env) : List Arm → Str → Option (Str × Bool)
  | [], _ => none
  | a :: rest, ct =>
    if a.cond.holds E ct then
      match a.tag with
      | .lit s => some (s, a.isDefault)
      | .camel => some (E.camel ct, a.isDefault)
      | .unsupported => none
    else evalSwitch E rest ct

structure Body where
  contentType : Str
  tag : Str          -- NameTag, empty for the generic body
  dflt : Bool
deriving DecidableEq, Repr

def mkBody (E : Env) (ct : Str) : Body :=
  match classify E ct with
  | some (t, d) => ⟨ct, t, d⟩
  | none => ⟨ct, [], false⟩

/-- insertion by media type (`SortedMapKeys`, then `sort.Slice` on the content type) -/
def insertCt (b : Body) : List Body → List Body
  | [] => [b]
  | c :: rest => if Responses.lexLt c.contentType b.contentType then c :: insertCt b rest else b :: c :: rest

def sortBodies (bs : List Body) : List Body := bs.foldr insertCt []

/-- `GenerateBodyDefinitions` on the media types of the `content` map, handed out in any order -/
def bodyDefs (E : Env) (cts : List Str) : List Body := sortBodies (cts.map (mkBody E))

def Body.supported (b : Body) : Bool := !b.tag.isEmpty                       -- IsSupported (strict server decodes it)
def Body.supportedByClient (E : Env) (b : Body) : Bool :=                     -- IsSupportedByClient (typed builder)
  E.isJson b.contentType || b.tag = w "Formdata" || b.tag = w "Text"
def Body.fixedContentType (b : Body) : Bool := !b.contentType.contains 42     -- no '*'
def Body.suffix (b : Body) : Str := if b.dflt then [] else w "With" ++ b.tag ++ w "Body"
def Body.typeName (op : Str) (b : Body) : Str := op ++ b.tag ++ w "RequestBody"

end OapiVerif.Bodies
