import OapiVerif.Model.Escape
/-
L6 — the pinned runtime's parameter codec at string level
(`StyleParamWithLocation`, `BindStyledParameterWithOptions`, `BindQueryParameter`,
`url.ParseQuery`), byte strings as `List Nat`.
-/
namespace OapiVerif.Codec
open OapiVerif.Escape

abbrev Str := List Nat

inductive Style where
  | simple | label | matrix | form
deriving Repr, DecidableEq, Inhabited

inductive Loc where
  | path | query | header | cookie | undefined
deriving Repr, DecidableEq, Inhabited

/-- A parameter value at string level: primitive, array of primitives, flat object
(string-valued members, keys in sorted order as `processFieldDict` emits them). -/
inductive Val where
  | prim (s : Str)
  | arr (xs : List Str)
  | obj (kvs : List (Str × Str))
deriving Repr, DecidableEq, Inhabited

inductive Shape where
  | prim | arr | obj
deriving Repr, DecidableEq, Inhabited

def Val.shape : Val → Shape
  | .prim _ => .prim | .arr _ => .arr | .obj _ => .obj

-- ASCII
def cComma : Nat := 44
def cDot : Nat := 46
def cSemi : Nat := 59
def cEq : Nat := 61
def cAmp : Nat := 38

/-- `escapeParameterString`. -/
def escLoc : Loc → Str → Str
  | .query, s => escape .query s
  | .path, s => escape .path s
  | _, s => s

/-- `strings.Join`. -/
def join (sep : Str) : List Str → Str
  | [] => []
  | [x] => x
  | x :: y :: t => x ++ sep ++ join sep (y :: t)

/-- `stylePrimitive` prefix. -/
def primPrefix (st : Style) (name : Str) : Str :=
  match st with
  | .simple => []
  | .label => [cDot]
  | .matrix => cSemi :: name ++ [cEq]
  | .form => name ++ [cEq]

/-- `styleSlice` prefix and separator. -/
def arrPrefixSep (st : Style) (explode : Bool) (name : Str) : Str × Str :=
  match st with
  | .simple => ([], [cComma])
  | .label => ([cDot], if explode then [cDot] else [cComma])
  | .matrix => let p := cSemi :: name ++ [cEq]; (p, if explode then p else [cComma])
  | .form => let p := name ++ [cEq]; (p, if explode then cAmp :: p else [cComma])

/-- `processFieldDict` prefix and separator. -/
def objPrefixSep (st : Style) (explode : Bool) (name : Str) : Str × Str :=
  match st with
  | .simple => ([], [cComma])
  | .label => ([cDot], if explode then [cDot] else [cComma])
  | .matrix => if explode then ([cSemi], [cSemi]) else (cSemi :: name ++ [cEq], [cComma])
  | .form => if explode then ([], [cAmp]) else (name ++ [cEq], [cComma])

def objParts (explode : Bool) (loc : Loc) (kvs : List (Str × Str)) : List Str :=
  if explode then kvs.map (fun kv => kv.1 ++ [cEq] ++ escLoc loc kv.2)
  else kvs.flatMap (fun kv => [kv.1, escLoc loc kv.2])

/-- `StyleParamWithLocation` for the supported shapes. -/
def styleParam (st : Style) (explode : Bool) (name : Str) (loc : Loc) : Val → Str
  | .prim s => primPrefix st name ++ escLoc loc s
  | .arr xs => let (p, sep) := arrPrefixSep st explode name; p ++ join sep (xs.map (escLoc loc))
  | .obj kvs => let (p, sep) := objPrefixSep st explode name; p ++ join sep (objParts explode loc kvs)

/-! ### Server side -/

/-- `strings.Split s sep` for a one-byte separator. -/
def split (sep : Nat) (s : Str) : List Str := s.splitOn sep

def stripPrefix (p s : Str) : Option Str := if p.isPrefixOf s then some (s.drop p.length) else none
/-- `strings.TrimPrefix`. -/
def trimPrefix (p s : Str) : Str := (stripPrefix p s).getD s

/-- `splitStyledParameter`. -/
def splitStyled (st : Style) (explode object : Bool) (name : Str) (v : Str) : Except String (List Str) :=
  match st with
  | .simple => .ok (split cComma v)
  | .label =>
    if explode then
      match split cDot v with
      | [] => .error "label"          -- cannot happen: Split never returns an empty slice
      | first :: rest => if first = [] then .ok rest else .error "label-prefix"
    else
      match v with
      | c :: rest => if c = cDot then .ok (split cComma rest) else .error "label-prefix"
      | [] => .error "label-empty"    -- the real code panics on value[0]; modelled as an error
  | .matrix =>
    if explode then
      match split cSemi v with
      | [] => .error "matrix"
      | first :: rest =>
        if first = [] then
          .ok (if object then rest else rest.map (trimPrefix (name ++ [cEq])))
        else .error "matrix-prefix"
    else
      match stripPrefix (cSemi :: name ++ [cEq]) v with
      | some r => .ok (split cComma r)
      | none => .error "matrix-prefix"
  | .form =>
    if explode then
      let parts := split cAmp v
      .ok (if object then parts else parts.map (trimPrefix (name ++ [cEq])))
    else .ok ((split cComma v).map (trimPrefix (name ++ [cEq])))

def pairUp : List Str → Option (List (Str × Str))
  | [] => some []
  | k :: v :: rest => (pairUp rest).map ((k, v) :: ·)
  | [_] => none

/-- exploded members `k=v`: each part must split on `=` into exactly two pieces. -/
def explodedPairs : List Str → Except String (List (Str × Str))
  | [] => .ok []
  | p :: rest =>
    match split cEq p with
    | [k, v] => match explodedPairs rest with
      | .ok r => .ok ((k, v) :: r)
      | .error e => .error e
    | _ => .error "exploded-format"

/-- `bindSplitPartsToDestinationStruct` up to the JSON step: key/value pairs. -/
def partsToPairs (explode : Bool) (parts : List Str) : Except String (List (Str × Str)) :=
  if explode then explodedPairs parts
  else match pairUp parts with
    | some kvs => .ok kvs
    | none => .error "pairs"

/-- The unescaping step of `BindStyledParameterWithOptions`. -/
def unescLoc (loc : Loc) (v : Str) : Except String Str :=
  match loc with
  | .query | .undefined => match unescape .query v with | some r => .ok r | none => .error "unescape"
  | .path => match unescape .path v with | some r => .ok r | none => .error "unescape"
  | _ => .ok v

/-- `BindStyledParameterWithOptions` at string level, for a destination of the given shape. -/
def bindStyled (st : Style) (explode required : Bool) (name : Str) (loc : Loc) (sh : Shape) (wire : Str) :
    Except String Val :=
  if required && wire.isEmpty then .error "empty" else
  match unescLoc loc wire with
  | .error e => .error e
  | .ok v =>
    match sh with
    | .obj =>
      match splitStyled st explode true name v with
      | .error e => .error e
      | .ok parts =>
        match partsToPairs explode parts with
        | .error e => .error e
        | .ok kvs => .ok (.obj kvs)
    | .arr =>
      match splitStyled st explode false name v with
      | .error e => .error e
      | .ok parts => .ok (.arr parts)
    | .prim => .ok (.prim v)

/-! ### Query parameters -/

abbrev Query := List (Str × List Str)

def qLookup (q : Query) (k : Str) : Option (List Str) := (q.find? (·.1 = k)).map (·.2)

def qAdd (q : Query) (k v : Str) : Query :=
  if q.any (·.1 = k) then q.map (fun e => if e.1 = k then (e.1, e.2 ++ [v]) else e) else q ++ [(k, [v])]

/-- `url.ParseQuery` (keys and values query-unescaped, pairs split on the first `=`). -/
def parseQuery (s : Str) : Except String Query :=
  (split cAmp s).foldlM (fun (q : Query) (seg : Str) =>
    if seg = [] then pure q else
    if seg.contains cSemi then throw "semicolon" else
    let (k, v) := match seg.span (· != cEq) with
      | (k, []) => (k, [])
      | (k, _ :: v) => (k, v)
    match unescape .query k, unescape .query v with
    | some k', some v' => pure (qAdd q k' v')
    | _, _ => throw "unescape") []

/-- `BindQueryParameter` for style `form`; `fields` are the member names of an object destination.
`none` = parameter absent (destination left nil). -/
def bindQuery (explode required : Bool) (name : Str) (sh : Shape) (fields : List Str) (q : Query) :
    Except String (Option Val) :=
  if explode then
    match sh with
    | .arr =>
      match qLookup q name with
      | none => if required then .error "required" else .ok none
      | some vs => .ok (some (.arr vs))
    | .obj =>
      let found := fields.filterMap (fun f => (qLookup q f).map (fun vs => (f, vs)))
      if found.any (fun fv => fv.2.length != 1) then .error "multiple"
      else if found.isEmpty then .ok none
      else .ok (some (.obj (found.map (fun fv => (fv.1, fv.2.headD [])))))
    | .prim =>
      match qLookup q name with
      | none => if required then .error "required" else .ok none
      | some [] => if required then .error "required" else .ok none
      | some [v] => .ok (some (.prim v))
      | some _ => .error "multiple"
  else
    match qLookup q name with
    | none => if required then .error "required" else .ok none
    | some [v] =>
      let parts := split cComma v
      match sh with
      | .arr => .ok (some (.arr parts))
      | .obj => match pairUp parts with
        | some kvs => .ok (some (.obj kvs))
        | none => .error "pairs"
      | .prim => match parts with
        | [p] => .ok (some (.prim p))
        | _ => .error "multiple"
    | some _ => .error "not-exploded-multiple"

/-! ### The OpenAPI 3.0.3 "Style Values / Style Examples" table, transcribed row by row
(documentation oracle, independent of `styleParam`'s prefix/separator computation). -/

def commaList (xs : List Str) : Str := join [cComma] xs
def kvFlat (kvs : List (Str × Str)) : List Str := kvs.flatMap (fun kv => [kv.1, kv.2])
def kvEq (kvs : List (Str × Str)) : List Str := kvs.map (fun kv => kv.1 ++ [cEq] ++ kv.2)

def oasSerialize (st : Style) (explode : Bool) (name : Str) : Val → Str
  -- primitive value 5
  | .prim v => match st with
    | .simple => v                                  -- 5
    | .label => cDot :: v                            -- .5
    | .matrix => cSemi :: name ++ cEq :: v           -- ;color=5
    | .form => name ++ cEq :: v                      -- color=5
  -- array [blue, black, brown]
  | .arr xs => match st, explode with
    | .simple, _ => commaList xs                                      -- blue,black,brown
    | .label, false => cDot :: commaList xs                            -- .blue,black,brown
    | .label, true => xs.flatMap (fun x => cDot :: x)                  -- .blue.black.brown
    | .matrix, false => cSemi :: name ++ cEq :: commaList xs           -- ;color=blue,black,brown
    | .matrix, true => xs.flatMap (fun x => cSemi :: name ++ cEq :: x) -- ;color=blue;color=black;color=brown
    | .form, false => name ++ cEq :: commaList xs                      -- color=blue,black,brown
    | .form, true => join [cAmp] (xs.map (fun x => name ++ cEq :: x))  -- color=blue&color=black&color=brown
  -- object { R: 100, G: 200, B: 150 }
  | .obj kvs => match st, explode with
    | .simple, false => commaList (kvFlat kvs)                         -- R,100,G,200,B,150
    | .simple, true => commaList (kvEq kvs)                            -- R=100,G=200,B=150
    | .label, false => cDot :: commaList (kvFlat kvs)                  -- .R,100,G,200,B,150
    | .label, true => (kvEq kvs).flatMap (fun p => cDot :: p)          -- .R=100.G=200.B=150
    | .matrix, false => cSemi :: name ++ cEq :: commaList (kvFlat kvs) -- ;color=R,100,G,200,B,150
    | .matrix, true => (kvEq kvs).flatMap (fun p => cSemi :: p)        -- ;R=100;G=200;B=150
    | .form, false => name ++ cEq :: commaList (kvFlat kvs)            -- color=R,100,G,200,B,150
    | .form, true => join [cAmp] (kvEq kvs)                            -- R=100&G=200&B=150

/-- OAS defaults: style by location, explode by style. -/
def oasDefaultStyle : Loc → Style
  | .path | .header => .simple
  | _ => .form
def oasDefaultExplode : Style → Bool
  | .form => true
  | _ => false

end OapiVerif.Codec

namespace OapiVerif.Codec

def Val.mapStr (f : Str → Str) : Val → Val
  | .prim s => .prim (f s)
  | .arr xs => .arr (xs.map f)
  | .obj kvs => .obj (kvs.map fun kv => (kv.1, f kv.2))

/-- The OAS serialization on the wire at a location: value parts percent-encoded as the
location requires (RFC 3986 for path segments and query components; none for header/cookie). -/
def oasWire (st : Style) (explode : Bool) (name : Str) (loc : Loc) (v : Val) : Str :=
  oasSerialize st explode name (v.mapStr (escLoc loc))

end OapiVerif.Codec
