import OapiVerif.Model.Walks
/-!
`SortedSchemaKeys` (pkg/codegen/utils.go): the order in which the schemas of a dictionary (component schemas, the
properties of an object) are visited and therefore declared. Keys are sorted by the `x-order` extension first — an entry
without a numeric `x-order` counts as `len(dict)` — and by name among equal orders. C02 (no dependence on the iteration
order of the map), C08 (`x-order` changes exactly the order).
-/
namespace OapiVerif.SchemaOrder
open OapiVerif.Walks

/-- One entry of the dictionary: its key and its `x-order` if it has a numeric one (already truncated to an integer,
as `int64(order)` does). -/
structure Entry where
  key : Key
  order : Option Int
deriving DecidableEq, Repr

/-- the effective order: the entry's own, or the size of the dictionary -/
def eff (n : Nat) (e : Entry) : Int :=
  match e.order with
  | some o => o
  | none => n

/-- the comparison of `sort.Slice`, as "not after" -/
def ole (n : Nat) (a b : Entry) : Bool :=
  if eff n a = eff n b then kle a.key b.key else decide (eff n a < eff n b)

def sortedEntries (m : List Entry) : List Entry := m.mergeSort (ole m.length)

def sortedSchemaKeys (m : List Entry) : List Key := (sortedEntries m).map (·.key)

end OapiVerif.SchemaOrder
