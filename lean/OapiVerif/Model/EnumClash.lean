/-!
C11 — `GenerateEnums` (pkg/codegen/codegen.go): which enums get their constants prefixed with the type name.

The Go code walks the enums with two nested index loops and mutates the `PrefixTypeName` flags in place; `e1` is a
local copy that is written back, so later comparisons of the same outer step see its new flag. The model is the
same computation on lists: `inner` is the inner loop (returns the final copy of `e1` and the updated later enums),
`finish` the two checks against type names, `resolve` the outer loop.

`uc` stands for `UppercaseFirstCharacter`; every theorem holds for any function.
-/
namespace OapiVerif.EnumClash

abbrev Str := List Nat

structure E where
  ty : Str            -- name of the enum's Go type
  names : List Str    -- keys of Schema.EnumValues: the constant names before prefixing
  pre : Bool          -- PrefixTypeName
deriving Repr, DecidableEq

/-- `GetValues`: the constant names that will be emitted. -/
def E.vals (uc : Str → Str) (e : E) : List Str :=
  if e.pre then e.names.map (fun k => e.ty ++ uc k) else e.names

/-- some name of `a` is a name of `b` (the `for e1key := range e1.GetValues()` loop with its `break`) -/
def clash (uc : Str → Str) (a b : E) : Bool := (a.vals uc).any fun k => (b.vals uc).contains k

def E.setPre (e : E) : E := { e with pre := true }

/-- The inner loop `for j := i + 1; …`: `e1` against every later enum, both flagged on a clash. -/
def inner (uc : Str → Str) (e1 : E) : List E → E × List E
  | [] => (e1, [])
  | e2 :: r =>
    if clash uc e1 e2 then
      ((inner uc e1.setPre r).1, e2.setPre :: (inner uc e1.setPre r).2)
    else
      ((inner uc e1 r).1, e2 :: (inner uc e1 r).2)

/-- a value is called like some type of the package (`e1.Schema.EnumValues[tp.TypeName]`: unprefixed names) -/
def tyClash (types : List Str) (e : E) : Bool := types.any fun t => e.names.contains t

/-- a clash with the name of some type flags the enum -/
def markTy (types : List Str) (e : E) : E := if tyClash types e then e.setPre else e

/-- so does the enum's own type name among its current constant names (`e1.GetValues()[e1.TypeName]`) -/
def markOwn (uc : Str → Str) (e : E) : E := if (e.vals uc).contains e.ty then e.setPre else e

/-- the two checks after the inner loop, in the order of the code -/
def finish (uc : Str → Str) (types : List Str) (e : E) : E := markOwn uc (markTy types e)

def outerN (uc : Str → Str) (types : List Str) : Nat → List E → List E
  | 0, l => l
  | _ + 1, [] => []
  | n + 1, e1 :: rest => finish uc types (inner uc e1 rest).1 :: outerN uc types n (inner uc e1 rest).2

/-- `GenerateEnums`' flags: `types` are the names of all types of the package, `enums` the enums in order. -/
def resolve (uc : Str → Str) (types : List Str) (enums : List E) : List E := outerN uc types enums.length enums

def iter {α : Type} (f : α → α) : Nat → α → α
  | 0, x => x
  | n + 1, x => iter f n (f x)

/-- The repaired code repeats the whole pass until no flag changes. Flags are only ever raised, so `length + 1`
passes reach that point (`resolveFix_is_fixpoint`); the model runs exactly that many. -/
def resolveFix (uc : Str → Str) (types : List Str) (enums : List E) : List E :=
  iter (resolve uc types) (enums.length + 1) enums

/-- all constants that will be declared -/
def constants (uc : Str → Str) (l : List E) : List Str := l.flatMap (E.vals uc)

end OapiVerif.EnumClash
