/-
L3 — tag / operation-id filtering (pkg/codegen/filter.go), as the code does it:
two passes per filter kind (exclude, then include), each deleting in place the operations
for which `operationHasTag op tags == exclude` (resp. `operationHasOperationID`).
A document is abstracted to its list of operations.
-/
namespace OapiVerif.Filter

structure Op where
  path : String
  method : String
  tags : List String
  id : String          -- the *raw* operationId of the document
  refs : List String   -- `$ref`s occurring under the operation (for the pruning corollary)
deriving Repr, DecidableEq, Inhabited

structure Cfg where
  inclTags : List String
  exclTags : List String
  inclIds : List String
  exclIds : List String
deriving Repr, DecidableEq, Inhabited

/-- `operationHasTag`. -/
def hasTag (op : Op) (tags : List String) : Bool := op.tags.any (fun t => tags.contains t)
/-- `operationHasOperationID`. -/
def hasId (op : Op) (ids : List String) : Bool := ids.contains op.id

/-- `operationsWithTags paths tags exclude`: deletes the operations with `hasTag == exclude`. -/
def withTags (ops : List Op) (tags : List String) (exclude : Bool) : List Op :=
  ops.filter (fun op => hasTag op tags != exclude)
def withIds (ops : List Op) (ids : List String) (exclude : Bool) : List Op :=
  ops.filter (fun op => hasId op ids != exclude)

/-- `filterOperationsByTag`. -/
def filterByTag (cfg : Cfg) (ops : List Op) : List Op :=
  let o1 := if cfg.exclTags.length > 0 then withTags ops cfg.exclTags true else ops
  if cfg.inclTags.length > 0 then withTags o1 cfg.inclTags false else o1

/-- `filterOperationsByOperationID`. -/
def filterById (cfg : Cfg) (ops : List Op) : List Op :=
  let o1 := if cfg.exclIds.length > 0 then withIds ops cfg.exclIds true else ops
  if cfg.inclIds.length > 0 then withIds o1 cfg.inclIds false else o1

/-! the shape of filter.go as the translator writes it (Gen/FilterRules.lean is regenerated on every run) -/
inductive ListName where
  | excludeTags | includeTags | excludeIds | includeIds
deriving DecidableEq, Repr

def Cfg.list (cfg : Cfg) : ListName → List String
  | .excludeTags => cfg.exclTags
  | .includeTags => cfg.inclTags
  | .excludeIds => cfg.exclIds
  | .includeIds => cfg.inclIds

/-- a worker: the operations for which `has op set == exclude` (or `!=`, when the flag is false) are removed -/
def workerOf (has : Op → List String → Bool) (removesWhenEqual : Bool) (ops : List Op) (set : List String) (exclude : Bool) : List Op :=
  ops.filter fun op => if removesWhenEqual then has op set != exclude else has op set == exclude

/-- the guarded passes, in order -/
def runPasses (cfg : Cfg) (worker : List Op → List String → Bool → List Op) (ps : List (ListName × Bool)) (ops : List Op) : List Op :=
  ps.foldl (fun o p => if (cfg.list p.1).length > 0 then worker o (cfg.list p.1) p.2 else o) ops

/-- The two calls at the top of `Generate`. -/
def filterDoc (cfg : Cfg) (ops : List Op) : List Op := filterById cfg (filterByTag cfg ops)

/-- The property's statement: kept iff it matches no exclusion and, when an inclusion list is
given, matches it — for tags and for ids. -/
def keep (cfg : Cfg) (op : Op) : Bool :=
  (!hasTag op cfg.exclTags) && (cfg.inclTags.isEmpty || hasTag op cfg.inclTags) &&
  (!hasId op cfg.exclIds) && (cfg.inclIds.isEmpty || hasId op cfg.inclIds)

end OapiVerif.Filter
