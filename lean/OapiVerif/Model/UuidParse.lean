/-!
The typed layer of `format: uuid` (C04 typed round trip, C06 "bad uuid"): `openapi_types.UUID` is `github.com/google/uuid`'s
type; its text is read with `uuid.Parse` and written with `String()`.
-/
namespace OapiVerif.UuidParse

abbrev Str := List Nat

def hexVal (c : Nat) : Option Nat :=
  if 48 ≤ c && c ≤ 57 then some (c - 48)
  else if 97 ≤ c && c ≤ 102 then some (c - 87)
  else if 65 ≤ c && c ≤ 70 then some (c - 55)
  else none

/-- `xtob`: two hex digits at positions i, i+1 -/
def byteAt (s : Str) (i : Nat) : Option Nat :=
  match s[i]?, s[i + 1]? with
  | some a, some b => match hexVal a, hexVal b with
    | some x, some y => some (x * 16 + y)
    | _, _ => none
  | _, _ => none

def offsets : List Nat := [0, 2, 4, 6, 9, 11, 14, 16, 19, 21, 24, 26, 28, 30, 32, 34]

/-- `xxxxxxxx-xxxx-xxxx-xxxx-xxxxxxxxxxxx` (what follows position 35 is not looked at) -/
def parseCanon (s : Str) : Option (List Nat) :=
  if s[8]? == some 45 && s[13]? == some 45 && s[18]? == some 45 && s[23]? == some 45 then offsets.mapM (byteAt s) else none

def lower (c : Nat) : Nat := if 65 ≤ c && c ≤ 90 then c + 32 else c
def urnPrefix : Str := [117, 114, 110, 58, 117, 117, 105, 100, 58]   -- "urn:uuid:"

/-- `uuid.Parse`: by length — canonical; `urn:uuid:` + canonical (prefix in any letter case); one character, canonical,
one character (the code does not check that they are braces); 32 hex digits. -/
def parse (s : Str) : Option (List Nat) :=
  if s.length == 36 then parseCanon s
  else if s.length == 45 then (if (s.take 9).map lower == urnPrefix then parseCanon (s.drop 9) else none)
  else if s.length == 38 then parseCanon (s.drop 1)
  else if s.length == 32 then (List.range 16).mapM (fun i => byteAt s (2 * i))
  else none

def hexDigit (n : Nat) : Nat := if n < 10 then 48 + n else 87 + n   -- lower case

def hexByte (b : Nat) : Str := [hexDigit (b / 16), hexDigit (b % 16)]

def hexBytes (bs : List Nat) : Str := bs.flatMap hexByte

/-- `UUID.String()`: groups of 4, 2, 2, 2 and 6 bytes -/
def render (bs : List Nat) : Str :=
  hexBytes (bs.take 4) ++ [45] ++ hexBytes ((bs.drop 4).take 2) ++ [45] ++ hexBytes ((bs.drop 6).take 2) ++ [45] ++
    hexBytes ((bs.drop 8).take 2) ++ [45] ++ hexBytes (bs.drop 10)

end OapiVerif.UuidParse
