/-!
C07 — the fragment of encoding/json that generated models rely on: struct fields with json names and
`omitempty`, pointers, slices, maps with string keys, booleans, integers of every width and signedness (a type is
its range `lo ≤ n ≤ hi`: int8 … int64, uint8 … uint64; `int`/`uint` are the 64-bit ones), strings.

`decode t j` is `json.Unmarshal(j, &v)` for a zero `v` of Go type `t`; `encode t v` is `json.Marshal(v)`.
JSON objects are written with their members in canonical order (struct fields in declaration order, map keys
sorted) — the order encoding/json itself emits; the harness canonicalises inputs the same way.
-/
namespace OapiVerif.GoJson

inductive JVal where
  | null
  | bool (b : Bool)
  | num (n : Int)
  | str (s : String)
  | arr (l : List JVal)
  | obj (m : List (String × JVal))

mutual
inductive GoTy where
  | bool | int (lo hi : Int) | string
  | ptr (t : GoTy)
  | slice (t : GoTy)
  | map (t : GoTy)              -- map[string]T
  | struct (fs : Fields)
inductive Fields where
  | nil
  | cons (name : String) (omitempty : Bool) (t : GoTy) (rest : Fields)
end

inductive GoVal where
  | bool (b : Bool)
  | int (n : Int)
  | str (s : String)
  | nilv                         -- nil pointer / slice / map
  | ptr (v : GoVal)
  | slice (l : List GoVal)
  | map (m : List (String × GoVal))
  | struct (l : List GoVal)

def lookup (m : List (String × JVal)) (k : String) : Option JVal := (m.find? (·.1 = k)).map (·.2)

mutual
/-- The zero value of a Go type. -/
def zero : GoTy → GoVal
  | .bool => .bool false
  | .int _ _ => .int 0
  | .string => .str ""
  | .ptr _ => .nilv
  | .slice _ => .nilv
  | .map _ => .nilv
  | .struct fs => .struct (zeros fs)
def zeros : Fields → List GoVal
  | .nil => []
  | .cons _ _ t rest => zero t :: zeros rest
end

mutual
/-- `json.Unmarshal` into a zero value (`none` = error). A JSON null leaves the zero value. -/
def decode : GoTy → JVal → Option GoVal
  | .bool, .bool b => some (.bool b)
  | .bool, .null => some (.bool false)
  | .bool, _ => none
  | .int lo hi, .num n => if lo ≤ n ∧ n ≤ hi then some (.int n) else none   -- "cannot unmarshal number … into Go value of type …"
  | .int _ _, .null => some (.int 0)
  | .int _ _, _ => none
  | .string, .str s => some (.str s)
  | .string, .null => some (.str "")
  | .string, _ => none
  | .ptr _, .null => some .nilv
  | .ptr t, j => (decode t j).map .ptr
  | .slice _, .null => some .nilv
  | .slice t, .arr l => (l.mapM (decode t)).map .slice
  | .slice _, _ => none
  | .map _, .null => some .nilv
  | .map t, .obj m => (m.mapM fun kv => (decode t kv.2).map fun v => (kv.1, v)).map .map
  | .map _, _ => none
  | .struct fs, .null => some (.struct (zeros fs))
  | .struct fs, .obj m => (decodeFields fs m).map .struct
  | .struct _, _ => none
/-- One slot per field: the member of that name if the object has one, the zero value otherwise (other
members of the object are ignored). -/
def decodeFields : Fields → List (String × JVal) → Option (List GoVal)
  | .nil, _ => some []
  | .cons name _ t rest, m =>
    match lookup m name with
    | none => (decodeFields rest m).map (zero t :: ·)
    | some j => match decode t j, decodeFields rest m with
      | some v, some vs => some (v :: vs)
      | _, _ => none
end

/-- `omitempty`: false, 0, "", nil, and empty slices and maps are left out. -/
def isEmpty : GoVal → Bool
  | .bool b => !b
  | .int n => n == 0
  | .str s => s == ""
  | .nilv => true
  | .slice l => l.isEmpty
  | .map m => m.isEmpty
  | _ => false

mutual
/-- `json.Marshal` (`none` = the value does not have the type). -/
def encode : GoTy → GoVal → Option JVal
  | .bool, .bool b => some (.bool b)
  | .int _ _, .int n => some (.num n)
  | .string, .str s => some (.str s)
  | .ptr _, .nilv => some .null
  | .ptr t, .ptr v => encode t v
  | .slice _, .nilv => some .null
  | .slice t, .slice l => (l.mapM (encode t)).map .arr
  | .map _, .nilv => some .null
  | .map t, .map m => (m.mapM fun kv => (encode t kv.2).map fun j => (kv.1, j)).map .obj
  | .struct fs, .struct vs => (encodeFields fs vs).map .obj
  | _, _ => none
def encodeFields : Fields → List GoVal → Option (List (String × JVal))
  | .nil, [] => some []
  | .cons name om t rest, v :: vs =>
    if om && isEmpty v then encodeFields rest vs
    else match encode t v, encodeFields rest vs with
      | some j, some js => some ((name, j) :: js)
      | _, _ => none
  | _, _ => none
end



/-- The integer types of Go on a 64-bit platform. -/
def int8 : GoTy := .int (-128) 127
def int16 : GoTy := .int (-32768) 32767
def int32 : GoTy := .int (-2147483648) 2147483647
def int64 : GoTy := .int (-9223372036854775808) 9223372036854775807
def uint8 : GoTy := .int 0 255
def uint16 : GoTy := .int 0 65535
def uint32 : GoTy := .int 0 4294967295
def uint64 : GoTy := .int 0 18446744073709551615

def names : Fields → List String
  | .nil => []
  | .cons n _ _ rest => n :: names rest

/-- `uint8` is `byte`: encoding/json writes a `[]uint8` as a base64 string, not as an array of numbers. -/
def isByte : GoTy → Bool
  | .int lo hi => lo == 0 && hi == 255
  | _ => false

mutual
/-- Well-formed type: the JSON names of every struct are pairwise distinct; an integer type's range contains 0;
no slice of bytes (outside the fragment: it is not encoded as an array). -/
def wf : GoTy → Bool
  | .int lo hi => decide (lo ≤ 0 ∧ 0 ≤ hi)
  | .ptr t => wf t
  | .slice t => !isByte t && wf t
  | .map t => wf t
  | .struct fs => wfFields fs
  | _ => true
def wfFields : Fields → Bool
  | .nil => true
  | .cons n _ t rest => !(names rest).contains n && wf t && wfFields rest
end

/-- Does this JSON value decode to a Go value that `omitempty` keeps? -/
def keptByOmitempty : GoTy → JVal → Bool
  | .bool, .bool b => b
  | .int _ _, .num n => n != 0
  | .string, .str s => s != ""
  | .ptr _, j => match j with | .null => false | _ => true
  | .slice _, .arr l => !l.isEmpty
  | .map _, .obj m => !m.isEmpty
  | .struct _, .obj _ => true
  | _, _ => false

def sortedKeys (m : List (String × JVal)) : Bool :=
  match m with
  | [] => true
  | [_] => true
  | a :: b :: t => decide (a.1 < b.1) && sortedKeys (b :: t)

mutual
/-- A JSON value that the Go type represents exactly, written canonically: scalars of the right kind; null only
for pointers, slices and maps; map keys sorted; a struct's members in field order, nothing undeclared, a member
absent only where `omitempty` will also leave it out on the way back, and a member present under `omitempty`
only with a value `omitempty` keeps. -/
def valid : GoTy → JVal → Bool
  | .bool, .bool _ => true
  | .int lo hi, .num n => decide (lo ≤ n ∧ n ≤ hi)
  | .string, .str _ => true
  | .ptr _, .null => true
  | .ptr t, j => valid t j
  | .slice _, .null => true
  | .slice t, .arr l => l.all (valid t)
  | .map _, .null => true
  | .map t, .obj m => sortedKeys m && m.all (fun kv => valid t kv.2)
  | .struct fs, .obj m => validFields fs m
  | _, _ => false
def validFields : Fields → List (String × JVal) → Bool
  | .nil, m => m.isEmpty
  | .cons n om t rest, m =>
    match m with
    | (k, j) :: m' =>
      if k = n then valid t j && (!om || keptByOmitempty t j) && validFields rest m'
      else om && isEmpty (zero t) && !(m.any (·.1 = n)) && validFields rest m
    | [] => om && isEmpty (zero t) && validFields rest []
end

/-! ### The other direction: Go values, their types, and the values that survive Marshal/Unmarshal -/

def isNilV : GoVal → Bool
  | .nilv => true
  | _ => false

/-- empty but not nil: what `omitempty` drops although it is not the zero value -/
def lossyEmpty : GoVal → Bool
  | .slice l => l.isEmpty
  | .map m => m.isEmpty
  | _ => false

def sortedKeysV (m : List (String × GoVal)) : Bool :=
  match m with
  | [] => true
  | [_] => true
  | a :: b :: t => decide (a.1 < b.1) && sortedKeysV (b :: t)

mutual
/-- `v` is a value of the Go type `t`. -/
def hasTy : GoTy → GoVal → Bool
  | .bool, .bool _ => true
  | .int lo hi, .int n => decide (lo ≤ n ∧ n ≤ hi)
  | .string, .str _ => true
  | .ptr _, .nilv => true
  | .ptr t, .ptr v => hasTy t v
  | .slice _, .nilv => true
  | .slice t, .slice l => l.all (hasTy t)
  | .map _, .nilv => true
  | .map t, .map m => sortedKeysV m && m.all (fun kv => hasTy t kv.2)
  | .struct fs, .struct vs => hasTyFields fs vs
  | _, _ => false
def hasTyFields : Fields → List GoVal → Bool
  | .nil, [] => true
  | .cons _ _ t rest, v :: vs => hasTy t v && hasTyFields rest vs
  | _, _ => false
end

mutual
/-- The values `json.Unmarshal ∘ json.Marshal` returns unchanged. -/
def stable : GoTy → GoVal → Bool
  | .ptr t, .ptr v => !isNilV v && stable t v
  | .slice t, .slice l => l.all (stable t)
  | .map t, .map m => m.all (fun kv => stable t kv.2)
  | .struct fs, .struct vs => stableFields fs vs
  | _, _ => true
def stableFields : Fields → List GoVal → Bool
  | .cons _ om t rest, v :: vs => !(om && lossyEmpty v) && stable t v && stableFields rest vs
  | _, _ => true
end


end OapiVerif.GoJson
