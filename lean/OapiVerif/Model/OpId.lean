/-!
Operation identifiers (pkg/codegen/operations.go): the default id of an operation without `operationId`
(`generateDefaultOperationID`: lower-cased method, then `-` and every non-empty segment of the path, then the name
normaliser) and the check of `OperationDefinitions` that no two operations end up with one Go identifier (an error since the
repair of this session; before it the file declared every method of the two operations twice).
-/
namespace OapiVerif.OpId

abbrev Str := List Nat

def asciiLower (c : Nat) : Nat := if 65 ≤ c && c ≤ 90 then c + 32 else c

/-- `strings.Split(path, "/")` -/
def splitSlash : Str → List Str
  | [] => [[]]
  | c :: rest =>
    match splitSlash rest with
    | [] => [[c]]          -- unreachable: the result is never empty
    | seg :: segs => if c = 47 then [] :: seg :: segs else (c :: seg) :: segs

/-- the text handed to the name normaliser -/
def rawDefaultId (method path : Str) : Str :=
  method.map asciiLower ++ ((splitSlash path).filter (· ≠ [])).flatMap fun p => 45 :: p

/-- the duplicate check: identifiers in the order the operations are visited; the first repeated one is the error -/
def checkIds : List Str → List Str → Except Str Unit
  | [], _ => .ok ()
  | i :: rest, seen => if seen.contains i then .error i else checkIds rest (i :: seen)

end OapiVerif.OpId
