import OapiVerif.Model.Walks
import OapiVerif.Model.Names
import OapiVerif.Model.Embed
import OapiVerif.Model.Codec
/-!
C18 — security requirements on both sides.

Server side: `DescribeSecurityDefinition`, the operation-overrides-global rule of
`OperationDefinitions`, the `<Scheme>Scopes` constants of constants.tmpl and the context writes of the
wrappers. Client side: the request editors of pkg/securityprovider on a request record.
-/
namespace OapiVerif.Security
open OapiVerif.Walks (Key)
open OapiVerif.Names (Uni Str)

abbrev Scopes := List Key

/-- One security requirement object: scheme name ↦ scopes (a Go map: distinct keys, any order). -/
abbrev Req := List (Key × Scopes)

structure Def where
  provider : Key
  scopes : Scopes
deriving DecidableEq, Repr

/-- `DescribeSecurityDefinition`: requirements in document order, the schemes of one requirement by
sorted name. -/
def describeReq (r : Req) : List Def := Walks.sortedEmit (fun k v => ⟨k, v⟩) r

def describe (rs : List Req) : List Def := rs.flatMap describeReq

/-- The rule in `OperationDefinitions`: an operation-level list (also an empty one) replaces the global one. -/
def opDefs (global : List Req) (op : Option (List Req)) : List Def :=
  match op with
  | some rs => describe rs
  | none => describe global

/-! the rule as the translator writes it (Gen/SecurityRule.lean is regenerated from operations.go on every run) -/
inductive Src where
  | operation   -- DescribeSecurityDefinition(*op.Security)
  | global      -- DescribeSecurityDefinition(swagger.Security)
deriving DecidableEq, Repr

structure Rule where
  condNotNil : Bool   -- the condition is `op.Security != nil` (false: `== nil`)
  thenSrc : Src
  elseSrc : Src
deriving DecidableEq, Repr

def pick (global : List Req) (op : Option (List Req)) : Src → List Def
  | .operation => describe (op.getD [])
  | .global => describe global

def evalRule (r : Rule) (global : List Req) (op : Option (List Req)) : List Def :=
  if op.isSome == r.condNotNil then pick global op r.thenSrc else pick global op r.elseSrc

def scopesSuffix : Str := Names.w "Scopes"
def dotScopes : Str := Names.w ".Scopes"

/-- Name of the generated constant (constants.tmpl and every wrapper: `sanitizeGoIdentity | ucFirst`). -/
def keyIdent (U : Uni) (p : Key) : Str := Names.ucFirst U (Names.sanitizeGoIdentity U p) ++ scopesSuffix

/-- Its value, the context key. -/
def keyValue (U : Uni) (p : Key) : Str := Names.sanitizeGoIdentity U p ++ dotScopes

/-- The constants block: one constant per distinct sanitised scheme name over all operations, sorted. -/
def constants (U : Uni) (ops : List (List Def)) : List (Str × Str) :=
  let names := (ops.flatten.map (fun d => Names.sanitizeGoIdentity U d.provider)).eraseDups
  (names.mergeSort Walks.kle).map fun n => (Names.ucFirst U n ++ scopesSuffix, n ++ dotScopes)

/-- The wrapper: one context write per definition, in order (a later write under the same key wins). -/
def publish (U : Uni) (defs : List Def) : List (Str × Scopes) := defs.map fun d => (keyValue U d.provider, d.scopes)

/-- What a handler reads under a key after the writes. -/
def ctxGet (writes : List (Str × Scopes)) (key : Str) : Option Scopes :=
  (writes.reverse.find? (·.1 = key)).map (·.2)

/-! ### Client side: request editors -/

/-- The parts of an `*http.Request` an editor can touch or must leave alone. -/
structure Request where
  method : Str
  path : Str
  query : Codec.Query                 -- the parsed query (`req.URL.Query()`), keys in first-appearance order
  headers : List (Str × List Str)     -- canonical header name ↦ values, in insertion order
  body : Str
deriving DecidableEq, Repr

def hGet (h : List (Str × List Str)) (k : Str) : Option (List Str) := (h.find? (·.1 = k)).map (·.2)

/-- Update of the value list under a key (`Header.Set`, `Header.Add`, `Values.Add`). -/
def upd (f : List Str → List Str) (h : List (Str × List Str)) (k : Str) : List (Str × List Str) :=
  if h.any (·.1 = k) then h.map (fun e => if e.1 = k then (e.1, f e.2) else e) else h ++ [(k, f [])]

/-- `Header.Set` on a canonical key. -/
def hSet (h : List (Str × List Str)) (k : Str) (v : Str) : List (Str × List Str) := upd (fun _ => [v]) h k

/-- `Header.Add` on a canonical key. -/
def hAdd (h : List (Str × List Str)) (k : Str) (v : Str) : List (Str × List Str) := upd (· ++ [v]) h k

def authorization : Str := Names.w "Authorization"
def cookieHdr : Str := Names.w "Cookie"

/-- `req.SetBasicAuth(user, pass)`. -/
def basic (user pass : Str) (r : Request) : Request :=
  { r with headers := hSet r.headers authorization (Names.w "Basic " ++ Embed.b64encode (user ++ [58] ++ pass)) }

/-- `Header.Set("Authorization", "Bearer " + token)`. -/
def bearer (token : Str) (r : Request) : Request :=
  { r with headers := hSet r.headers authorization (Names.w "Bearer " ++ token) }

/-- `textproto.CanonicalMIMEHeaderKey` for a name made of token bytes; any other name is used as is. -/
def isTokenByte (b : Nat) : Bool :=
  (48 ≤ b && b ≤ 57) || (65 ≤ b && b ≤ 90) || (97 ≤ b && b ≤ 122) ||
  [33, 35, 36, 37, 38, 39, 42, 43, 45, 46, 94, 95, 96, 124, 126].contains b

def upperB (b : Nat) : Nat := if 97 ≤ b && b ≤ 122 then b - 32 else b
def lowerB (b : Nat) : Nat := if 65 ≤ b && b ≤ 90 then b + 32 else b

def canonGo (up : Bool) : Str → Str
  | [] => []
  | c :: t => (if up then upperB c else lowerB c) :: canonGo (c == 45) t

def canonHeader (n : Str) : Str := if n.all isTokenByte then canonGo true n else n

/-- `Header.Add(name, key)`. -/
def apiKeyHeader (name key : Str) (r : Request) : Request :=
  { r with headers := hAdd r.headers (canonHeader name) key }

/-- `query.Add(name, key)` on the parsed query; the wire form is `Values.Encode` (sorted by key). -/
def apiKeyQuery (name key : Str) (r : Request) : Request :=
  { r with query := Codec.qAdd r.query name key }

/-- `url.Values.Encode`. -/
def encodeQuery (q : Codec.Query) : Str :=
  let ks := (q.map (·.1)).mergeSort Walks.kle
  Codec.join [38] (ks.flatMap fun k =>
    ((Codec.qLookup q k).getD []).map fun v => Escape.escape .query k ++ [61] ++ Escape.escape .query v)

/-- net/http `sanitizeCookieName` / `sanitizeCookieValue`. -/
def sanitizeCookieName (n : Str) : Str := n.map fun b => if b == 10 || b == 13 then 45 else b

def validCookieValueByte (b : Nat) : Bool := 32 ≤ b && b < 127 && b != 34 && b != 59 && b != 92

def sanitizeCookieValue (v : Str) : Str :=
  let v' := v.filter validCookieValueByte
  if v' = [] then v' else if v'.contains 32 || v'.contains 44 then [34] ++ v' ++ [34] else v'

/-- `req.AddCookie(&http.Cookie{Name, Value})`: appended to the first `Cookie` line with `"; "`. -/
def apiKeyCookie (name key : Str) (r : Request) : Request :=
  let s := sanitizeCookieName name ++ [61] ++ sanitizeCookieValue key
  match hGet r.headers cookieHdr with
  | some (c :: _) => if c = [] then { r with headers := hSet r.headers cookieHdr s }
                     else { r with headers := hSet r.headers cookieHdr (c ++ Names.w "; " ++ s) }
  | _ => { r with headers := hSet r.headers cookieHdr s }

end OapiVerif.Security
