import OapiVerif.Model.Codec
/-
L7 — what a wrapper does with one parameter (C06): the decision structure shared by the seven
wrapper templates, over the runtime model of Model/Codec.lean.
-/
namespace OapiVerif.Reject
open OapiVerif.Codec

inductive Kind where
  | requiredParam | requiredHeader | invalidFormat | tooManyValues | unmarshaling
deriving Repr, DecidableEq, Inhabited

inductive Outcome where
  | handler (v : Option Val)   -- the user's handler runs, with the bound value (none = absent)
  | reject (k : Kind)          -- the error path; the wrapper returns, the handler never runs
deriving Repr, DecidableEq, Inhabited

def Outcome.handlerRuns : Outcome → Bool
  | .handler _ => true
  | .reject _ => false

/-- Header parameter: `valueList, found := headers[name]`. -/
def headerParam (st : Style) (explode required : Bool) (name : Str) (sh : Shape) (values : Option (List Str)) : Outcome :=
  match values with
  | none => if required then .reject .requiredHeader else .handler none
  | some [v] =>
    match bindStyled st explode required name .header sh v with
    | .ok x => .handler (some x)
    | .error _ => .reject .invalidFormat
  | some _ => .reject .tooManyValues

/-- Cookie parameter: `cookie, err := r.Cookie(name)`. -/
def cookieParam (explode required : Bool) (name : Str) (sh : Shape) (value : Option Str) : Outcome :=
  match value with
  | none => if required then .reject .requiredParam else .handler none
  | some v =>
    match bindStyled .simple explode required name .cookie sh v with
    | .ok x => .handler (some x)
    | .error _ => .reject .invalidFormat

/-- Path parameter (always present: the route matched). -/
def pathParam (st : Style) (explode : Bool) (name : Str) (sh : Shape) (v : Str) : Outcome :=
  match bindStyled st explode true name .path sh v with
  | .ok x => .handler (some x)
  | .error _ => .reject .invalidFormat

/-- Query parameter, style form. -/
def queryParam (explode required : Bool) (name : Str) (sh : Shape) (fields : List Str) (q : Query) : Outcome :=
  match bindQuery explode required name sh fields q with
  | .ok x => .handler x
  | .error _ => .reject .invalidFormat

/-! ### The measured table (regenerated into Gen/C06.lean) -/

/-- stimulus: 0 absent, 1 valid, 2 wrong type, 3 overflow, 4 bad date, 5 bad uuid, 6 malformed JSON,
7 wrong label/matrix prefix, 8 duplicated header, 9 empty value (typed), 10 malformed percent-escape (path),
11 valid with '%' and '+' (header, cookie), 12 a complete JSON value followed by more data. -/
structure Row where
  fw : Nat
  loc : Nat         -- 0 path 1 query 2 header 3 cookie
  kind : Nat        -- 0 styled 1 json 2 pass-through
  ty : Nat          -- 0 str 1 int32 2 bool 3 date 4 uuid 5 int array 6 object 7 a narrower integer (uint16, int8)
  required : Bool
  stimulus : Nat
  errh : Bool       -- a recording error handler was installed
  handlerRan : Bool
  status : Nat
  errKinds : Nat    -- number of typed errors the configured error handler received
deriving Repr, DecidableEq, Inhabited

/-- The property's statement per stimulus: is the request to be rejected? -/
def mustReject (r : Row) : Bool :=
  match r.stimulus with
  | 0 => r.required          -- lacks a required parameter
  | 1 => false               -- all present and well-formed: never rejected
  | 11 => false              -- the same with '%' and '+' in a header / cookie value (data there, not escapes)
  | _ => true                -- repeated single-valued header / unconvertible value

/-- Frameworks whose wrapper takes a configurable error handler receiving the typed error:
chi 0, gorilla 3, stdhttp 4 (ErrorHandlerFunc), gin 2 (ErrorHandler), echo 1 (HTTPErrorHandler). -/
def hasErrHandler (fw : Nat) : Bool := fw == 0 || fw == 1 || fw == 2 || fw == 3 || fw == 4

def rowOk (r : Row) : Bool :=
  if mustReject r then
    !r.handlerRan && r.status == 400 && (!(r.errh && hasErrHandler r.fw) || r.errKinds == 1)
  else
    r.handlerRan && r.status == 204 && r.errKinds == 0

/-- Cells where the unchanged tree is known to violate the statement (genuine defects recorded in
/verif/known-findings.txt; both live outside /repo's own code: fiber's header API and the pinned
runtime's handling of a missing required Date). Kept as narrow as the defect. -/
def knownDeviation (r : Row) : Bool :=
  -- fiber: a repeated header is invisible to the wrapper
  (r.fw == 5 && r.loc == 2 && r.stimulus == 8 && r.handlerRan && r.status == 204) ||
  -- echo / fiber / iris: missing required date query parameter is not rejected by the runtime
  ((r.fw == 1 || r.fw == 5 || r.fw == 6) && r.loc == 1 && r.kind == 0 && r.ty == 3 && r.required &&
    r.stimulus == 0 && r.handlerRan && r.status == 204)

end OapiVerif.Reject
