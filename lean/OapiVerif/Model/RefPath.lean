/-!
`refPathToGoType` (pkg/codegen/utils.go): the Go type a `$ref` is rendered as. A reference inside the document
(`#/components/<section>/<Name>`) becomes the generated name of that component (its `x-go-name` if it has one); a
reference into another document (`other.yaml#/components/schemas/Name`, `other.yaml#/Name`) becomes `<package>.<TypeName>`
with the package the import mapping gives for that document — and is an error when the document is not mapped.
C01, last clause (packages of a multi-document specification compile together).
-/
namespace OapiVerif.RefPath

abbrev Str := List Nat

def hash : Nat := 35   -- '#'
def slash : Nat := 47
def dot : Nat := 46

structure Env where
  /-- the generated name of the local component `#/components/<section>/<key>`, if the document has it -/
  renamed : Str → Str → Option Str
  /-- import mapping: document → package name -/
  imports : List (Str × Str)
  /-- `SchemaNameToTypeName` under the configured normaliser -/
  typeName : Str → Str

inductive Err where
  | depth | unsupported | unmapped
deriving DecidableEq, Repr

deriving instance DecidableEq for Except

def lookupImport (m : List (Str × Str)) (d : Str) : Option Str := (m.find? (·.1 = d)).map (·.2)

/-- the part that starts with `#`; `consultLocal`: look the component up in this document (the repaired function does so
for references inside the document only; before the repair it always did) -/
def fragmentType (env : Env) (frag : Str) (isLocal consultLocal : Bool) : Except Err Str :=
  let parts := frag.splitOn slash
  let depth := parts.length
  if (isLocal && depth != 4) || (!isLocal && depth != 4 && depth != 2) then .error .depth
  else
    let last := parts.getLast?.getD []
    let found : Option Str :=
      if consultLocal && depth == 4 && parts[0]! == [hash] && parts[1]! == [99, 111, 109, 112, 111, 110, 101, 110, 116, 115]
      then env.renamed parts[2]! parts[3]! else none
    match found with
    | some n => .ok n
    | none => .ok (env.typeName last)

def refPathToGoTypeWith (env : Env) (ref : Str) (consultLocalForRemote : Bool) : Except Err Str :=
  match ref with
  | [] => .error .unsupported          -- the Go function indexes refPath[0]: callers never pass an empty reference
  | c :: _ =>
    if c = hash then fragmentType env ref true true
    else
      match ref.splitOn hash with
      | [remote, flat] =>
        match lookupImport env.imports remote with
        | none => .error .unmapped
        | some pkg =>
          match fragmentType env (hash :: flat) false consultLocalForRemote with
          | .error e => .error e
          | .ok t => .ok (pkg ++ [dot] ++ t)
      | _ => .error .unsupported

/-- the function as it is now -/
def refPathToGoType (env : Env) (ref : Str) : Except Err Str := refPathToGoTypeWith env ref false

/-- the function before the repair: a reference into another document was looked up among this document's components -/
def refPathToGoTypeOld (env : Env) (ref : Str) : Except Err Str := refPathToGoTypeWith env ref true

end OapiVerif.RefPath
