/-!
The typed layer of `format: date` parameters and members (C04 typed round trip, C06 "bad date"): `openapi_types.Date`
reads its text with `time.Parse("2006-01-02", s)` and writes it with `Format("2006-01-02")`.
-/
namespace OapiVerif.DateParse

abbrev Str := List Nat

structure Date where
  y : Nat
  m : Nat
  d : Nat
deriving DecidableEq, Repr

def isLeap (y : Nat) : Bool := (y % 4 == 0 && y % 100 != 0) || y % 400 == 0

def daysIn (y m : Nat) : Nat :=
  if m == 2 then (if isLeap y then 29 else 28)
  else if m == 4 || m == 6 || m == 9 || m == 11 then 30
  else if 1 ≤ m && m ≤ 12 then 31 else 0

def Date.valid (t : Date) : Bool := t.y ≤ 9999 && 1 ≤ t.m && t.m ≤ 12 && 1 ≤ t.d && t.d ≤ daysIn t.y t.m

def dig (n : Nat) : Nat := 48 + n % 10

/-- `Format("2006-01-02")`: four-digit year, two-digit month and day -/
def format (t : Date) : Str :=
  [dig (t.y / 1000), dig (t.y / 100), dig (t.y / 10), dig t.y, 45, dig (t.m / 10), dig t.m, 45, dig (t.d / 10), dig t.d]

def isDigit (c : Nat) : Bool := 48 ≤ c && c ≤ 57

def accept (t : Date) : Option Date := if t.valid then some t else none

/-- `time.Parse("2006-01-02", s)`: exactly ten characters, digits and two hyphens, a month and a day that exist -/
def parse (s : Str) : Option Date :=
  match s with
  | [a, b, c, d, h1, e, f, h2, g, i] =>
    if h1 == 45 && h2 == 45 && isDigit a && isDigit b && isDigit c && isDigit d && isDigit e && isDigit f && isDigit g && isDigit i then
      accept ⟨(a - 48) * 1000 + (b - 48) * 100 + (c - 48) * 10 + (d - 48), (e - 48) * 10 + (f - 48), (g - 48) * 10 + (i - 48)⟩
    else none
  | _ => none

end OapiVerif.DateParse
