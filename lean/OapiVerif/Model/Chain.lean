/-
L7 — middleware chains, as the wrapper templates build them.

A handler is either the user's handler or a middleware wrapped around a handler
(`handler = middleware(handler)`); running it yields the ordered trace of what executed.
A middleware that does not call its successor (`pass = false`) ends the trace.
-/
namespace OapiVerif.Chain

structure Mw where
  name : Nat
  pass : Bool
deriving Repr, DecidableEq, Inhabited

inductive H where
  | base (op : Nat) : H
  | wrap (m : Mw) (inner : H) : H
deriving Repr

/-- Token for the user's handler of operation `op` in a trace. -/
def handlerTok (op : Nat) : Nat := 1000 + op

def run : H → List Nat
  | .base op => [handlerTok op]
  | .wrap m h => m.name :: (if m.pass then run h else [])

/-- `for _, middleware := range mws { handler = middleware(handler) }`. -/
def buildFwd (mws : List Mw) (h : H) : H := mws.foldl (fun acc m => .wrap m acc) h
/-- `for i := len(mws)-1; i >= 0; i-- { handler = mws[i](handler) }`. -/
def buildRev (mws : List Mw) (h : H) : H := mws.foldr (fun m acc => .wrap m acc) h

/-- Trace of middlewares executed in the given order, outermost first. -/
def seq : List Mw → Nat → List Nat
  | [], op => [handlerTok op]
  | m :: ms, op => m.name :: (if m.pass then seq ms op else [])

/-- gin: `for _, m := range mws { m(c); if c.IsAborted() { return } }; handler(c)`. -/
def runGin (mws : List Mw) (op : Nat) : List Nat := seq mws op

inductive Flavour where
  | chi | gorilla | stdhttp | gin | fiber | iris | echo
deriving Repr, DecidableEq, Inhabited

/-- Which construction the wrapper of a flavour uses, given its compatibility flag. -/
def wrapperTrace (f : Flavour) (firstToLast : Bool) (mws : List Mw) (op : Nat) : List Nat :=
  match f with
  | .chi | .gorilla | .stdhttp =>
      if firstToLast then run (buildRev mws (.base op)) else run (buildFwd mws (.base op))
  | .gin | .fiber | .iris => runGin mws op
  | .echo => [handlerTok op]          -- echo registers no per-operation middleware

/-- The documented order (comments of `CompatibilityOptions`, README): by default the last listed
middleware of chi/gorilla/std-http runs first; with the first-to-last flag, and always for
gin/fiber/iris, they run in list order. -/
def documentedTrace (f : Flavour) (firstToLast : Bool) (mws : List Mw) (op : Nat) : List Nat :=
  match f with
  | .chi | .gorilla | .stdhttp => if firstToLast then seq mws op else seq mws.reverse op
  | .gin | .fiber | .iris => seq mws op
  | .echo => [handlerTok op]

/-- Strict middlewares are applied as `handler = middleware(handler, operationID)` in list order:
the last listed runs first; each receives the operation id. A strict trace token carries it. -/
def strictTok (opid name : Nat) : Nat := 100000 + 1000 * opid + name
def strictTrace (mws : List Mw) (op : Nat) : List Nat :=
  run (buildFwd (mws.map fun m => { m with name := strictTok op m.name }) (.base op))

end OapiVerif.Chain

namespace OapiVerif.Chain

/-- Middlewares in execution order around an inner trace. -/
def seqThen : List Mw → List Nat → List Nat
  | [], inner => inner
  | m :: ms, inner => m.name :: (if m.pass then seqThen ms inner else [])

/-- One measured cell of the middleware table (regenerated into `Gen/C14.lean` on every run). -/
structure Row where
  fw : Nat          -- 0 chi, 1 gorilla, 2 stdhttp, 3 gin, 4 fiber, 5 iris, 6 echo
  strict : Bool
  flag : Bool       -- apply-*-middleware-first-to-last
  n : Nat           -- number of per-operation middlewares
  stop : Nat        -- index of the one that does not call its successor (≥ n: none)
  sn : Nat          -- number of strict middlewares
  sstop : Nat
  op : Nat          -- operation index (kind: 0 none, 1 path, 2 query, 3 body, 4 security)
  trace : List Nat
deriving Repr, DecidableEq, Inhabited

def flavourOf : Nat → Flavour
  | 0 => .chi | 1 => .gorilla | 2 => .stdhttp | 3 => .gin | 4 => .fiber | 5 => .iris | _ => .echo

def mkMws (n stop : Nat) : List Mw := (List.range n).map fun i => ⟨i, i != stop⟩
def mkStrict (op n stop : Nat) : List Mw := (List.range n).map fun i => ⟨strictTok op i, i != stop⟩

def perOpOrder (f : Flavour) (flag : Bool) (mws : List Mw) : List Mw :=
  match f with
  | .chi | .gorilla | .stdhttp => if flag then mws else mws.reverse
  | .gin | .fiber | .iris => mws
  | .echo => []

/-- What the documentation prescribes for a cell. -/
def expected (r : Row) : List Nat :=
  let inner := if r.strict then seqThen (mkStrict r.op r.sn r.sstop).reverse [handlerTok r.op]
               else [handlerTok r.op]
  seqThen (perOpOrder (flavourOf r.fw) r.flag (mkMws r.n r.stop)) inner

def rowOk (r : Row) : Bool := r.trace == expected r

end OapiVerif.Chain
