import OapiVerif.Model.Codec
/- Row types of the regenerated C05 tables and their (documentation-derived) expectations. -/
namespace OapiVerif.Codec

/-- style code: 0 unset, 1 simple, 2 label, 3 matrix, 4 form, 5 deepObject. loc: 0 path 1 query 2 header 3 cookie.
explode: 0 unset 1 true 2 false. -/
structure DefaultRow where
  loc : Nat
  style : Nat
  explode : Nat
  gotStyle : Nat      -- ParameterDefinition.Style()
  gotExplode : Bool   -- ParameterDefinition.Explode()
deriving Repr, DecidableEq, Inhabited

def locOf : Nat → Loc
  | 0 => .path | 1 => .query | 2 => .header | _ => .cookie

def styleCode : Style → Nat
  | .simple => 1 | .label => 2 | .matrix => 3 | .form => 4

def oasStyleCode (loc style : Nat) : Nat := if style = 0 then styleCode (oasDefaultStyle (locOf loc)) else style
/-- OAS: `explode` defaults to true for style form and to false for every other style. -/
def oasExplode (loc style explode : Nat) : Bool :=
  if explode = 1 then true else if explode = 2 then false else oasStyleCode loc style = 4

def defaultRowOk (r : DefaultRow) : Bool :=
  r.gotStyle == oasStyleCode r.loc r.style && r.gotExplode == oasExplode r.loc r.style r.explode

/-- One literal runtime call site in generated code. side: 0 client, 1.. servers.
fn: 0 StyleParamWithLocation, 1 BindStyledParameterWithOptions, 2 BindQueryParameter.
gotLoc: 0 path 1 query 2 header 3 cookie 9 none/undefined. -/
structure SiteRow where
  side : Nat
  fn : Nat
  loc : Nat
  style : Nat
  explode : Nat
  required : Bool
  gotStyle : Nat
  gotExplode : Bool
  gotRequired : Bool   -- client rows: copied from `required`
  gotLoc : Nat
deriving Repr, DecidableEq, Inhabited

/-- Cookies are (de)serialised with the `simple` value syntax (property C05). -/
def wireStyleCode (loc style : Nat) : Nat := if loc = 3 then 1 else oasStyleCode loc style

def siteRowOk (r : SiteRow) : Bool :=
  r.gotStyle == wireStyleCode r.loc r.style &&
  r.gotExplode == oasExplode r.loc r.style r.explode &&
  r.gotRequired == r.required &&
  -- query parameters are bound from parsed url.Values (no location argument); everything else
  -- must name the parameter's own location on both sides
  (if r.fn = 2 then r.loc == 1 else r.gotLoc == r.loc)

end OapiVerif.Codec
