/-!
`GenerateResponseDefinitions` (pkg/codegen/operations.go), the part that decides which response definitions of an operation
*are* a component response (`Ref` set: the strict server uses the component's type as it stands) and which get a type of
their own: status codes are visited in ascending order; a response that refers to a component takes that component's type
unless an earlier status code of the operation already did — two cases of the generated type switch must not be the same
type. Used by C12 (the response object the handler returns is written with the status code declared for *it*).
-/
namespace OapiVerif.RespDefs

abbrev Str := List Nat

/-- a declared response: status code key and, when it is a reference to a component, the Go type of that component -/
structure RIn where
  code : Str
  ref : Option Str
deriving DecidableEq, Repr

structure ROut where
  code : Str
  ref : Option Str     -- `Ref` of the definition ("" = none)
deriving DecidableEq, Repr

/-- the loop over the status codes (in ascending order); `seen` is `refSet` -/
def go : List RIn → List Str → List ROut
  | [], _ => []
  | r :: rest, seen =>
    match r.ref with
    | some t => if seen.contains t then ⟨r.code, none⟩ :: go rest seen else ⟨r.code, some t⟩ :: go rest (t :: seen)
    | none => ⟨r.code, none⟩ :: go rest seen

def respDefs (rs : List RIn) : List ROut := go rs []

end OapiVerif.RespDefs
