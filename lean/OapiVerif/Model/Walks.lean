import OapiVerif.Model.Responses
/-
L0/L8 — how the generator consumes Go maps (C02). A Go map is an association list with distinct
keys; "iteration order" is any permutation of it. Each `range`-over-map site of the generator falls
into one of the idiom classes below; `run` gives the class its fold semantics.
-/
namespace OapiVerif.Walks

abbrev Key := List Nat

/-- lexicographic order on keys (as `sort.Strings` on byte strings) -/
def klt : Key → Key → Bool := OapiVerif.Responses.lexLt

def kle (a b : Key) : Bool := !klt b a

/-- `SortedMapKeys`: collect the keys, sort them. -/
def sortedKeys {α} (m : List (Key × α)) : List Key := (m.map (·.1)).mergeSort kle

def lookup {α} (m : List (Key × α)) (k : Key) : Option α := (m.find? (·.1 = k)).map (·.2)

/-- `for _, k := range SortedMapKeys(m) { emit(k, m[k]) }` -/
def sortedEmit {α β} (f : Key → α → β) (m : List (Key × α)) : List β :=
  (sortedKeys m).filterMap fun k => (lookup m k).map (f k)

/-- `for k, v := range m { out = append(out, f k v) }` — order-sensitive. -/
def appendUnsorted {α β} (f : Key → α → β) (m : List (Key × α)) : List β := m.map fun kv => f kv.1 kv.2

/-- `for k, v := range m { if p k v { r = f k v; break } }` — order-sensitive when several match. -/
def firstMatch {α β} (p : Key → α → Bool) (f : Key → α → β) (m : List (Key × α)) : Option β :=
  (m.find? fun kv => p kv.1 kv.2).map fun kv => f kv.1 kv.2

/-- `for _, v := range m { if p v { n++ } }` / any / all. -/
def countIf {α} (p : Key → α → Bool) (m : List (Key × α)) : Nat := (m.filter fun kv => p kv.1 kv.2).length

/-- Idiom classes of a `range`-over-map site (FACT rows of Gen/C02.lean). -/
inductive Cls where
  | collectThenSort   -- keys/values appended to a slice that is sorted before use
  | insertKeyed       -- dst[k] = … / delete(m, k): the result is a map again
  | countAnyAll       -- counters and boolean flags
  | callOnly          -- the body only calls functions that themselves walk in a sorted way / have no ordered effect
  | firstMatch        -- conditional assignment followed by break / return
  | appendUnsorted    -- appends to a slice that is never sorted
  | unknown
deriving Repr, DecidableEq, Inhabited

def orderIndependent : Cls → Bool
  | .collectThenSort | .insertKeyed | .countAnyAll | .callOnly => true
  | _ => false

structure Site where
  fn : String          -- enclosing function
  expr : String        -- the ranged expression
  cls : Cls
deriving Repr, DecidableEq, Inhabited

/-- Sites that are order-sensitive on the unchanged tree (recorded defects / harmless by a side
argument); anything else that is not order-independent breaks the obligation. -/
def knownSensitive : List (String × String) :=
  [("generateUnion", "discriminator.Mapping"),        -- first key mapped to a schema wins (known finding)
   ("importMap.GoImports", "im"),                     -- import block; re-sorted by gofmt unless skip-fmt (known finding)
   ("GenerateTypesForRequestBodies", "response.Content")]  -- several JSON media types in one component body

/-- Sites whose syntactic idiom looks order-sensitive but whose effect is not, by a reviewed side
argument (each with its reason; the classifier is idiom-based and cannot see these). -/
def reviewedIndependent : List (String × String) :=
  [("resolveEnumConflicts", "e1.GetValues()"),      -- existence test with break: only booleans are set
   ("ParameterDefinition.IsJson", "p.Content"),     -- guarded by len(p.Content) == 1
   ("operationsWithTags", "ops"),                   -- collected names are only used as a set of deletions
   ("operationsWithTags", "paths.Map()"),
   ("operationsWithOperationIDs", "ops"),
   ("operationsWithOperationIDs", "paths.Map()")]

def siteOk (s : Site) : Bool :=
  orderIndependent s.cls || knownSensitive.contains (s.fn, s.expr) || reviewedIndependent.contains (s.fn, s.expr)

end OapiVerif.Walks
