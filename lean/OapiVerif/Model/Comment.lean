/-!
`stringToGoCommentWithPrefix` (pkg/codegen/utils.go): how a description of the document — any text — becomes a Go comment
above a type, a field or a parameter member (`toGoComment` in the templates, `StringToGoComment`, `DeprecationComment`).
C01: whatever the description says, all of it stays inside `//` comments.

Text is a list of code points. The function: nothing for an empty or all-blank description; `\r\n` and `\r` become `\n`;
every line gets `// ` in front (the first one `// <prefix> ` when a type name is given); a final `\n// ` is cut off.
-/
namespace OapiVerif.Comment

abbrev Str := List Nat

/-- `unicode.IsSpace` (what `strings.TrimSpace` trims) -/
def isSpace (c : Nat) : Bool :=
  c == 9 || c == 10 || c == 11 || c == 12 || c == 13 || c == 32 || c == 0x85 || c == 0xA0 || c == 0x1680 ||
  (0x2000 ≤ c && c ≤ 0x200A) || c == 0x2028 || c == 0x2029 || c == 0x202F || c == 0x205F || c == 0x3000

/-- `ReplaceAll(in, "\r\n", "\n")` followed by `ReplaceAll(in, "\r", "\n")` -/
def normalize : Str → Str
  | [] => []
  | 13 :: 10 :: t => 10 :: normalize t
  | 13 :: t => 10 :: normalize t
  | c :: t => c :: normalize t

/-- the text after the first `// `: every newline is followed by the marker of the next line -/
def body : Str → Str
  | [] => []
  | c :: t => if c = 10 then 10 :: 47 :: 47 :: 32 :: body t else c :: body t

def slashes : Str := [47, 47]

def first (prefx : Str) : Str := if prefx.isEmpty then slashes ++ [32] else slashes ++ [32] ++ prefx ++ [32]

/-- `strings.TrimSuffix(s, "\n// ")` -/
def trimTail (s : Str) : Str :=
  if [10, 47, 47, 32].isSuffixOf s then s.take (s.length - 4) else s

def comment (input prefx : Str) : Str :=
  if input.all isSpace then [] else trimTail (first prefx ++ body (normalize input))

/-- Every line of a text starts with `//` (the text itself, and whatever follows a newline). -/
def startsComment (s : Str) : Bool := s.take 2 == slashes

def linesOk : Str → Bool
  | [] => true
  | c :: t => (c != 10 || startsComment t) && linesOk t

def allCommented (s : Str) : Bool := s.isEmpty || (startsComment s && linesOk s)

end OapiVerif.Comment
