/-!
C10 — `mergeOpenapiSchemas` / `mergeSchemas` (pkg/codegen/merge_schemas.go) on flat members: the attributes the
merge looks at, nothing else. Property schemas and the additionalProperties value schema are opaque ids.
-/
namespace OapiVerif.Merge

structure Flat where
  type : Option Nat                 -- `type` (none = absent)
  format : Nat                      -- 0 = absent
  props : List (String × Nat)       -- property ↦ schema id (a Go map: distinct keys)
  required : List String
  addlHas : Option Bool             -- additionalProperties: true / false
  addlSchema : Option Nat           -- additionalProperties: <schema>
  flags : Nat                       -- uniqueItems, exclusiveMin/Max, nullable, readOnly, writeOnly, allowEmptyValue packed
  hasDefault : Bool
deriving DecidableEq, Repr

def zero : Flat := ⟨none, 0, [], [], none, none, 0, false⟩

def insertProp (m : List (String × Nat)) (k : String) (v : Nat) : List (String × Nat) :=
  if m.any (·.1 = k) then m.map (fun e => if e.1 = k then (k, v) else e) else m ++ [(k, v)]

/-- `for k, v := range s1 … for k, v := range s2 { result[k] = v }` -/
def mergeProps (p1 p2 : List (String × Nat)) : List (String × Nat) := p2.foldl (fun m e => insertProp m e.1 e.2) p1

def explicitFalse (s : Flat) : Bool := s.addlHas == some false

/-- One `mergeOpenapiSchemas(s1, s2, allOf = true)` on members without nested allOf. The result's type is the
type of whichever member has one (repaired: it used to be `s1.Type` only). -/
def merge2 (s1 s2 : Flat) : Except String Flat :=
  if s1.type.isSome && s2.type.isSome && s1.type != s2.type then .error "types"
  else if s1.format != s2.format then .error "formats"
  else if s1.hasDefault || s2.hasDefault then .error "defaults"
  else if s1.flags != s2.flags then .error "flags"
  else
    let base : Flat := { type := if s1.type.isSome then s1.type else s2.type, format := s1.format,
                         props := mergeProps s1.props s2.props, required := s1.required ++ s2.required,
                         addlHas := none, addlSchema := none, flags := s1.flags, hasDefault := false }
    if explicitFalse s1 || explicitFalse s2 then .ok { base with addlHas := some false }
    else match s1.addlSchema, s2.addlSchema with
      | some _, some _ => .error "two additionalProperties schemas"
      | some a, none => .ok { base with addlSchema := some a }
      | none, some b => .ok { base with addlSchema := some b }
      | none, none => if s1.addlHas.isSome || s2.addlHas.isSome then .ok { base with addlHas := some true } else .ok base

/-- The rule before the repair: the result kept `s1.Type` only, so an untyped first member hid the type. -/
def merge2Old (s1 s2 : Flat) : Except String Flat :=
  (merge2 s1 s2).map fun r => { r with type := s1.type }

/-- `mergeSchemas` for n ≥ 2: the first member, then each further member merged in. -/
def mergeFrom (m : Flat → Flat → Except String Flat) (acc : Flat) : List Flat → Except String Flat
  | [] => .ok acc
  | s :: rest => match m acc s with
    | .error e => .error e
    | .ok r => mergeFrom m r rest

def mergeList : List Flat → Except String Flat
  | [] => .ok zero
  | s :: rest => mergeFrom merge2 s rest

def keys (p : List (String × Nat)) : List String := p.map (·.1)

/-! ### Nested allOf -/

/-- A schema as an allOf operand: its own attributes and, possibly, a nested allOf list. -/
inductive Sch where
  | mk (flat : Flat) (allOf : List Sch)

mutual
/-- What an operand contributes: `if s.AllOf != nil { s = mergeAllOf(s.AllOf) }` — its own attributes are
replaced by the merge of its nested members (which starts from the zero schema). -/
def resolve : Sch → Except String Flat
  | .mk f [] => .ok f
  | .mk _ (m :: ms) => resolveFrom zero (m :: ms)
/-- `mergeAllOf` / the fold of `mergeSchemas`: merge every member's contribution into the accumulator. -/
def resolveFrom (acc : Flat) : List Sch → Except String Flat
  | [] => .ok acc
  | s :: rest =>
    match resolve s with
    | .error e => .error e
    | .ok r => match merge2 acc r with
      | .error e => .error e
      | .ok a => resolveFrom a rest
end

mutual
/-- The leaves that contribute to an operand. -/
def leaves : Sch → List Flat
  | .mk f [] => [f]
  | .mk _ (m :: ms) => leavesL (m :: ms)
def leavesL : List Sch → List Flat
  | [] => []
  | s :: rest => leaves s ++ leavesL rest
end


/-- `mergeSchemas` on operands that may carry nested allOf lists (n ≥ 2 members). -/
def mergeTop : List Sch → Except String Flat
  | [] => .ok zero
  | m :: rest => match resolve m with
    | .error e => .error e
    | .ok a => resolveFrom a rest

end OapiVerif.Merge
