/-!
`CombineOperationParameters` (pkg/codegen/operations.go): the parameters declared on the path item and those declared on
the operation become one list; a declaration of the operation replaces the path item's declaration of the same
(location, name). Used by every generated signature (C03: which argument a path variable arrives in; C04–C06: type,
style and requiredness of each parameter).
-/
namespace OapiVerif.Combine

abbrev Str := List Nat

/-- A parameter declaration: location (0 path, 1 query, 2 header, 3 cookie), name, and `tag` standing for everything else
it says (schema, style, required, …). -/
structure Decl where
  loc : Nat
  name : Str
  tag : Nat
deriving DecidableEq, Repr

def Decl.key (d : Decl) : Nat × Str := (d.loc, d.name)

def hasKey (ds : List Decl) (k : Nat × Str) : Bool := ds.any fun d => d.key == k

/-- the first loop: the operation's own declarations, which must not repeat a (location, name) -/
def locals : List Decl → List Decl → Except String (List Decl)
  | [], acc => .ok acc.reverse
  | d :: rest, acc => if hasKey acc d.key then .error "duplicate local parameter" else locals rest (d :: acc)

/-- the second loop: a path-item declaration is added unless the operation declares the same (location, name); two
path-item declarations of one (location, name) that no operation-level one shadows are an error. `seenG` = keys added
by this loop. -/
def globals (loc : List Decl) : List Decl → List Decl → Except String (List Decl)
  | [], acc => .ok acc.reverse
  | d :: rest, acc =>
    if hasKey loc d.key then globals loc rest acc
    else if hasKey acc d.key then .error "duplicate global parameter"
    else globals loc rest (d :: acc)

def combine (global loc : List Decl) : Except String (List Decl) :=
  match locals loc [] with
  | .error e => .error e
  | .ok l => match globals l global [] with
    | .error e => .error e
    | .ok g => .ok (l ++ g)

end OapiVerif.Combine
