import OapiVerif.Model.Codec
import OapiVerif.Model.Walks
/-!
Style `deepObject` for a flat object of strings (pinned runtime v1.1.0): `MarshalDeepObject` behind
`StyleParamWithLocation` on the client, `UnmarshalDeepObject` behind `BindQueryParameter` on the server.
-/
namespace OapiVerif.DeepObject
open OapiVerif.Codec
local notation "Str" => List Nat

/-- `name[k]=v` -/
def field (name : Str) (kv : Str × Str) : Str := name ++ [91] ++ kv.1 ++ [93, 61] ++ kv.2

def sortByKey (kvs : List (Str × Str)) : List (Str × Str) :=
  ((kvs.map (·.1)).mergeSort Walks.kle).filterMap fun k => (kvs.find? (·.1 = k))

/-- `MarshalDeepObject`: members by sorted name, joined with `&`, nothing escaped. -/
def frag (name : Str) (kvs : List (Str × Str)) : Str := join [cAmp] ((sortByKey kvs).map (field name))

/-- The OAS row `color[R]=100&color[G]=200&color[B]=150` (members in the order given). -/
def oas (name : Str) (kvs : List (Str × Str)) : Str := join [cAmp] (kvs.map (field name))

/-- The member name inside `name[…]`, when the query key has that shape. -/
def memberOf (name key : Str) : Option Str :=
  match stripPrefix (name ++ [91]) key with
  | none => none
  | some rest => if rest.getLast? = some 93 then some rest.dropLast else none

def bindStep (name : Str) (acc : List (Str × Str)) (e : Str × List Str) : Except String (List (Str × Str)) :=
  match memberOf name e.1 with
  | none => pure acc
  | some k => match e.2 with
    | [v] => pure (acc ++ [(k, v)])
    | _ => throw "multiple"

/-- `UnmarshalDeepObject` into a flat destination: every query key `name[k]` contributes member `k`; a key
with several values is an error. -/
def bind (name : Str) (q : Query) : Except String (List (Str × Str)) := q.foldlM (bindStep name) []

end OapiVerif.DeepObject
