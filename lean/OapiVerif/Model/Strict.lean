/-!
C12 — strict server: which body field a request's Content-Type selects (strict-http.tmpl and the framework
variants), what a `Visit<Op>Response` writer puts on the wire (strict-interface.tmpl and the fiber/iris
variants), and the row types of the measured tables.
-/
namespace OapiVerif.Strict

/-- `strings.HasPrefix(contentType, declared)` -/
def isPrefix : List Char → List Char → Bool
  | [], _ => true
  | _ :: _, [] => false
  | a :: p, b :: s => a == b && isPrefix p s

/-- With several request bodies the handler tests, for every declared media type in turn, whether it is a
prefix of the request's Content-Type, and fills that body field. -/
def selected (declared : List String) (contentType : String) : List String :=
  declared.filter fun d => isPrefix d.toList contentType.toList

/-- The writer: status and Content-Type are the declared ones when the declaration fixes them, otherwise
the ones supplied with the response object; exactly the declared headers are written, from the object. -/
structure Decl where
  fixedCode : Option Nat        -- none: default / range
  fixedType : Option String     -- none: wildcard media type (supplied), or no content
  hasContent : Bool
  headers : List String
deriving Repr

structure Supplied where
  status : Nat
  contentType : String
  headers : List (String × String)
deriving Repr

structure Wire where
  status : Nat
  contentType : Option String
  headers : List (String × String)
deriving Repr, DecidableEq

def write (d : Decl) (s : Supplied) : Wire :=
  { status := d.fixedCode.getD s.status,
    contentType := if d.hasContent then some (d.fixedType.getD s.contentType) else none,
    headers := d.headers.filterMap fun h => (s.headers.find? (·.1 = h)).map fun kv => (h, kv.2) }

/-- Request cells measured on the compiled servers. class: 0 none 1 json 2 +json 3 form 4 text 5 raw. -/
structure ReqRow where
  fw : Nat            -- index in chi, echo, gin, gorilla, stdhttp, fiber, iris
  op : String
  cls : Nat
  multi : Bool        -- the operation declares several request media types
  reached : Bool      -- the handler ran once
  objectOk : Bool     -- path/query parameters and the body selected by the Content-Type equal what was sent, no other body set
deriving Repr

/-- Recorded on the unchanged tree (known-findings.txt): echo's binder refuses +json request bodies. -/
def reqKnown (r : ReqRow) : Bool := r.fw == 1 && r.cls == 2

def reqRowOk (r : ReqRow) : Bool := (r.reached && r.objectOk) || reqKnown r

/-- Response cells. class: 0 none 1 json 2 +json 3 text 4 binary 5 wildcard. code = 0: default / range. -/
structure RespRow where
  fw : Nat
  type : String
  code : Nat
  supplied : Nat
  status : Nat
  cls : Nat
  ctOk : Bool
  nHeaders : Nat
  headersOk : Nat
  bodyOk : Bool
deriving Repr

/-- Recorded: iris adds the status text as body to a bodiless response with an error status. -/
def respKnown (r : RespRow) : Bool := r.fw == 6 && r.cls == 0 && r.status ≥ 400 && !r.bodyOk

def respRowOk (r : RespRow) : Bool :=
  r.status == (if r.code != 0 then r.code else r.supplied) && r.ctOk && r.headersOk == r.nHeaders && (r.bodyOk || respKnown r)

end OapiVerif.Strict
