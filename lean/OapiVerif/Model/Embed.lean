/-
L0/L8 — the embedded specification pipeline (pkg/codegen/inline.go, templates/inline.tmpl):
JSON bytes → gzip → base64 → 80-column chunks → Go string literals, and back in `decodeSpec`.
gzip and JSON marshal/load are parameters (hypotheses), the rest is modelled and proved.
-/
namespace OapiVerif.Embed

abbrev Bytes := List Nat

/-- The `for len(str) > width { … }` loop of GenerateInlinedSpec (fuel = length). -/
def chunkN {α} (width : Nat) : Nat → List α → List (List α)
  | 0, s => if s.isEmpty then [] else [s]
  | n+1, s => if s.length > width then s.take width :: chunkN width n (s.drop width)
              else if s.isEmpty then [] else [s]

def chunk {α} (width : Nat) (s : List α) : List (List α) := chunkN width s.length s

/-! ### base64 (StdEncoding: alphabet A–Z a–z 0–9 + /, padding =) -/

def encChar (i : Nat) : Nat :=
  if i < 26 then 65 + i else if i < 52 then 97 + (i - 26) else if i < 62 then 48 + (i - 52)
  else if i = 62 then 43 else 47

def decChar (c : Nat) : Option Nat :=
  if 65 ≤ c && c ≤ 90 then some (c - 65) else if 97 ≤ c && c ≤ 122 then some (c - 97 + 26)
  else if 48 ≤ c && c ≤ 57 then some (c - 48 + 52) else if c = 43 then some 62 else if c = 47 then some 63
  else none

def pad : Nat := 61

/-- The unpadded body of the encoding. -/
def encodeBody : Bytes → Bytes
  | b0 :: b1 :: b2 :: rest =>
    encChar (b0 / 4) :: encChar ((b0 % 4) * 16 + b1 / 16) :: encChar ((b1 % 16) * 4 + b2 / 64) :: encChar (b2 % 64) ::
      encodeBody rest
  | [b0, b1] => [encChar (b0 / 4), encChar ((b0 % 4) * 16 + b1 / 16), encChar ((b1 % 16) * 4)]
  | [b0] => [encChar (b0 / 4), encChar ((b0 % 4) * 16)]
  | [] => []

/-- `base64.StdEncoding.EncodeToString`: body plus `=` padding to a multiple of four. -/
def b64encode (bs : Bytes) : Bytes := encodeBody bs ++ List.replicate ((3 - bs.length % 3) % 3) pad

def decodeBody : Bytes → Option Bytes
  | [] => some []
  | [_] => none
  | [c0, c1] =>
    match decChar c0, decChar c1 with
    | some s0, some s1 => some [s0 * 4 + s1 / 16]
    | _, _ => none
  | [c0, c1, c2] =>
    match decChar c0, decChar c1, decChar c2 with
    | some s0, some s1, some s2 => some [s0 * 4 + s1 / 16, (s1 % 16) * 16 + s2 / 4]
    | _, _, _ => none
  | c0 :: c1 :: c2 :: c3 :: rest =>
    match decChar c0, decChar c1, decChar c2, decChar c3, decodeBody rest with
    | some s0, some s1, some s2, some s3, some r =>
      some ((s0 * 4 + s1 / 16) :: ((s1 % 16) * 16 + s2 / 4) :: ((s2 % 4) * 64 + s3) :: r)
    | _, _, _, _, _ => none

/-- Removes the trailing padding (at most two `=`). -/
def stripPad (s : Bytes) : Bytes :=
  match s.reverse with
  | 61 :: 61 :: r => r.reverse
  | 61 :: r => r.reverse
  | _ => s

/-- `base64.StdEncoding.DecodeString`: the padded length is a multiple of four; the body decodes. -/
def b64decode (s : Bytes) : Option Bytes :=
  if s.length % 4 ≠ 0 then none else decodeBody (stripPad s)

/-- The value of a Go interpreted string literal whose content has no quote, backslash or newline
is the content itself; anything else is outside this model. -/
def goStringLiteralValue (content : Bytes) : Option Bytes :=
  if content.all (fun c => c != 34 && c != 92 && c != 10) then some content else none

/-- The `swaggerSpec` literal as a list of chunk contents, and `decodeSpec` on it. -/
def embed (gzip : Bytes → Bytes) (json : Bytes) : List Bytes := chunk 80 (b64encode (gzip json))

def decodeSpec (gunzip : Bytes → Option Bytes) (literals : List Bytes) : Option Bytes := do
  let parts ← literals.mapM goStringLiteralValue
  let zipped ← b64decode parts.flatten
  gunzip zipped

end OapiVerif.Embed
