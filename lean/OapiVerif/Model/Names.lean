/-
L1 — identifier normalisation (pkg/codegen/utils.go). Strings are lists of code points
(`List Nat`); Go's `unicode` tables enter through a `Uni` record so that model and
implementation can never disagree because of a table.
-/
namespace OapiVerif.Names

abbrev Str := List Nat

structure Uni where
  isUpper : Nat → Bool
  isLower : Nat → Bool
  isDigit : Nat → Bool
  isLetter : Nat → Bool
  isNumber : Nat → Bool
  toUpper : Nat → Nat
  toLower : Nat → Nat

/-- The ASCII fragment of Go's `unicode` tables (used for examples; the driver extends it with
the classes the harness sends for every non-ASCII rune of an input). -/
def asciiUni : Uni where
  isUpper c := 65 ≤ c && c ≤ 90
  isLower c := 97 ≤ c && c ≤ 122
  isDigit c := 48 ≤ c && c ≤ 57
  isLetter c := (65 ≤ c && c ≤ 90) || (97 ≤ c && c ≤ 122)
  isNumber c := 48 ≤ c && c ≤ 57
  toUpper c := if 97 ≤ c && c ≤ 122 then c - 32 else c
  toLower c := if 65 ≤ c && c ≤ 90 then c + 32 else c

/-- `separators := "-#@!$&=.+:;_~ (){}[]"`. -/
def separators : List Nat := [45, 35, 64, 33, 36, 38, 61, 46, 43, 58, 59, 95, 126, 32, 40, 41, 123, 125, 91, 93]
def isSep (c : Nat) : Bool := separators.contains c

def trimSpaces (s : Str) : Str := ((s.dropWhile (· == 32)).reverse.dropWhile (· == 32)).reverse

/-- `ToCamelCase` (after `strings.Trim(str, " ")`): state = capNext. -/
def camelGo (U : Uni) : Bool → Str → Str
  | _, [] => []
  | cap, v :: rest =>
    let up := if U.isUpper v then [v] else []
    let dg := if U.isDigit v then [v] else []
    let lo := if U.isLower v then [if cap then U.toUpper v else v] else []
    up ++ dg ++ lo ++ camelGo U (isSep v) rest

def toCamelCase (U : Uni) (s : Str) : Str := camelGo U true (trimSpaces s)

/-- `ToCamelCaseWithDigits`. -/
def camelDigitsGo (U : Uni) : Bool → Str → Str
  | _, [] => []
  | cap, v :: rest =>
    if U.isUpper v then v :: camelDigitsGo U false rest
    else if U.isDigit v then v :: camelDigitsGo U true rest
    else if U.isLower v then (if cap then U.toUpper v else v) :: camelDigitsGo U false rest
    else camelDigitsGo U true rest

def toCamelCaseWithDigits (U : Uni) (s : Str) : Str := camelDigitsGo U true s

def w (s : String) : Str := s.toList.map Char.toNat

/-- `typeNamePrefix`. -/
def prefixWordL (c : Nat) : Option Str :=
  if c = 45 then some (w "Minus") else if c = 43 then some (w "Plus") else if c = 38 then some (w "And")
  else if c = 124 then some (w "Or") else if c = 126 then some (w "Tilde") else if c = 61 then some (w "Equal")
  else if c = 35 then some (w "Hash") else if c = 46 then some (w "Dot") else if c = 42 then some (w "Asterisk")
  else if c = 94 then some (w "Caret") else if c = 37 then some (w "Percent") else none

def typeNamePrefixGo (U : Uni) (whole : Str) : Str → Str → Str
  | acc, [] => acc
  | acc, r :: rest =>
    if r = 36 then  -- '$'
      if whole.length = 1 then w "DollarSign" else typeNamePrefixGo U whole acc rest
    else match prefixWordL r with
      | some word => typeNamePrefixGo U whole (acc ++ word) rest
      | none => if acc.isEmpty && U.isDigit r then w "N" else acc

def typeNamePrefix (U : Uni) (name : Str) : Str :=
  if name.isEmpty then w "Empty" else typeNamePrefixGo U name [] name

/-- `SchemaNameToTypeName` for a given normaliser. -/
def schemaNameToTypeName (U : Uni) (norm : Str → Str) (name : Str) : Str :=
  typeNamePrefix U name ++ norm name

/-- `isValidRuneForGoID`. -/
def validRune (U : Uni) (index : Nat) (c : Nat) : Bool :=
  if index = 0 && U.isNumber c then false else U.isLetter c || c == 95 || U.isNumber c

def goKeywords : List Str := ["break", "case", "chan", "const", "continue", "default", "defer", "else",
  "fallthrough", "for", "func", "go", "goto", "if", "import", "interface", "map", "package", "range",
  "return", "select", "struct", "switch", "type", "var"].map w

def predeclared : List Str := ["bool", "byte", "complex64", "complex128", "error", "float32", "float64",
  "int", "int8", "int16", "int32", "int64", "rune", "string", "uint", "uint8", "uint16", "uint32",
  "uint64", "uintptr", "true", "false", "iota", "nil", "append", "cap", "close", "complex", "copy",
  "delete", "imag", "len", "make", "new", "panic", "print", "println", "real", "recover"].map w

/-- `SanitizeGoIdentity` (the `panic("here is a bug")` branch is unreachable: see Props/C01). -/
def sanitizeGoIdentity (U : Uni) (s : Str) : Str :=
  let mapped := s.zipIdx.map fun (c, i) => if validRune U i c then c else 95
  if goKeywords.contains mapped || predeclared.contains mapped then 95 :: mapped else mapped

def ucFirst (U : Uni) : Str → Str
  | [] => []
  | c :: t => U.toUpper c :: t

def lcFirst (U : Uni) : Str → Str
  | [] => []
  | c :: t => U.toLower c :: t

/-- `LowercaseFirstCharacters`: lower-cases the leading run of characters up to (not including) the
one that is followed by a lower-case letter. -/
def lowerFirstsGo (U : Uni) : Nat → Str → Str
  | _, [] => []
  | i, c :: rest =>
    if i != 0 && (match rest with | n :: _ => U.isLower n | [] => false) then c :: rest
    else U.toLower c :: lowerFirstsGo U (i + 1) rest

def lowercaseFirstCharacters (U : Uni) (s : Str) : Str := lowerFirstsGo U 0 s

/-! ### replaceInitialism (ASCII case-insensitive, leftmost-first alternation) -/

def initialisms : List Str := ["Acl", "Api", "Ascii", "Cpu", "Css", "Dns", "Eof", "Guid", "Html", "Http",
  "Https", "Id", "Ip", "Json", "Qps", "Ram", "Rpc", "Sla", "Smtp", "Sql", "Ssh", "Tcp", "Tls", "Ttl",
  "Udp", "Ui", "Gid", "Uid", "Uuid", "Uri", "Url", "Utf8", "Vm", "Xml", "Xmpp", "Xsrf", "Xss", "Sip",
  "Rtp", "Amqp", "Db", "Ts"].map w

def asciiLower (c : Nat) : Nat := if 65 ≤ c && c ≤ 90 then c + 32 else c
def asciiUpper (c : Nat) : Nat := if 97 ≤ c && c ≤ 122 then c - 32 else c

def ciPrefix (word s : Str) : Bool :=
  word.length ≤ s.length && (word.map asciiLower == (s.take word.length).map asciiLower)

def replaceInitialismN : Nat → Str → Str
  | 0, s => s
  | _, [] => []
  | n+1, c :: rest =>
    match initialisms.find? (fun wd => ciPrefix wd (c :: rest)) with
    | some wd =>
      let m := (c :: rest).take wd.length
      let out := if 97 ≤ c && c ≤ 122 then m else m.map asciiUpper
      out ++ replaceInitialismN n ((c :: rest).drop wd.length)
    | none => c :: replaceInitialismN n rest

def replaceInitialism (s : Str) : Str := replaceInitialismN (s.length + 1) s

def toCamelCaseWithInitialism (U : Uni) (s : Str) : Str := replaceInitialism (toCamelCase U s)

def replaceFirst (c : Nat) (rep : Str) : Str → Str
  | [] => []
  | x :: t => if x = c then rep ++ t else x :: replaceFirst c rep t

/-- `mediaTypeToCamelCase`. -/
def mediaTypeToCamelCase (U : Uni) (s : Str) : Str :=
  let s1 := replaceFirst 47 (w "_") s
  let s2 := replaceFirst 42 (w "Wildcard_") s1
  let s3 := replaceFirst 43 (w "Plus_") s2
  toCamelCaseWithInitialism U s3

end OapiVerif.Names
