import OapiVerif.Model.Responses
import OapiVerif.Model.Enums
/-!
`GenerateTypes` (pkg/codegen/codegen.go): the declarations collected from every section of the document are written
once each. Two declarations of one type name are folded into one when `TypeDefinitionsEquivalent` holds (same name, deeply
equal OpenAPI schema) and are an error otherwise. This is the last gate before the text of the `type …` declarations: what it
lets through is declared exactly as listed (C01: two declarations of one name do not compile).

`constructImportMapping` (same file): the package names under which the packages of an import mapping are imported —
`externalRef<i>` where `i` is the rank of the package path among the distinct paths in ascending order.
-/
namespace OapiVerif.TypeDedup

abbrev Str := List Nat

/-- A type definition: its Go name and `body`, standing for the OpenAPI schema that `reflect.DeepEqual` compares. -/
structure TD where
  name : Str
  body : Nat
deriving DecidableEq, Repr

def find (seen : List TD) (n : Str) : Option TD := seen.find? (·.name = n)

/-- The loop of `GenerateTypes`; `acc` is `ts` in reverse (the map `m` holds the same entries). -/
def go : List TD → List TD → Except Str (List TD)
  | [], acc => .ok acc.reverse
  | t :: rest, acc =>
    match find acc t.name with
    | some p => if p.body = t.body then go rest acc else .error t.name
    | none => go rest (t :: acc)

def generateTypes (ts : List TD) : Except Str (List TD) := go ts []

/-- The three boilerplate generators (`GenerateAdditionalPropertyBoilerplate`, `GenerateUnionBoilerplate`,
`GenerateUnionAndAdditionalProopertiesBoilerplate`) are handed the *collected* list, not what `GenerateTypes` kept: each
takes the first definition of every name (`m[t.TypeName]`) and of those the ones that need its methods. -/
def firsts : List TD → List Str → List TD
  | [], _ => []
  | t :: rest, seen => if seen.contains t.name then firsts rest seen else t :: firsts rest (t.name :: seen)

def boilerplate (needs : Nat → Bool) (ts : List TD) : List TD := (firsts ts []).filter fun t => needs t.body

/-- the union generators before the repair: no look at the names -/
def boilerplateOld (needs : Nat → Bool) (ts : List TD) : List TD := ts.filter fun t => needs t.body

/-! ### constructImportMapping -/

/-- insertion into an ascending list without repeats (`sort.Strings`, byte-wise order, followed by the "not yet named" test) -/
def insertU (p : Str) : List Str → List Str
  | [] => [p]
  | q :: rest => if p = q then q :: rest else if Responses.lexLt p q then p :: q :: rest else q :: insertU p rest

def sortedDistinct (ps : List Str) : List Str := ps.foldr insertU []

/-- position of a path in a list -/
def rank : List Str → Str → Option Nat
  | [], _ => none
  | q :: rest, p => if q = p then some 0 else (rank rest p).map (· + 1)

def externalRef : Str := "externalRef".toList.map Char.toNat

/-- name of a package path: its rank among the distinct paths of the mapping -/
def pkgName (mapping : List (Str × Str)) (path : Str) : Option Str :=
  (rank (sortedDistinct (mapping.map (·.2))) path).map fun i => externalRef ++ Enums.itoa i

/-- the result: document ↦ (package name, package path) -/
def construct (mapping : List (Str × Str)) : List (Str × Str × Str) :=
  mapping.filterMap fun (doc, path) => (pkgName mapping path).map fun n => (doc, n, path)

end OapiVerif.TypeDedup
