import OapiVerif.Model.Filter
import OapiVerif.Model.Prune
/-!
What `Generate` does to the document before anything is generated from it, as a list of stages in source order
(`Gen/Pipeline.lean` is regenerated from codegen.go on every run) and an interpreter on the model's document: the operations
(Model/Filter.lean) and the components (Model/Prune.lean).
-/
namespace OapiVerif.Pipeline
open Filter Prune

inductive Stage where
  | filterTag                 -- filterOperationsByTag(spec, opts)
  | filterId                  -- filterOperationsByOperationID(spec, opts)
  | prune                     -- pruneUnusedComponents(spec), unconditionally
  | pruneUnlessSkip           -- if !opts.OutputOptions.SkipPrune { pruneUnusedComponents(spec) }
  | consumer (name : String)  -- OperationDefinitions / GenerateTypeDefinitions / GenerateInlinedSpec read the document
deriving DecidableEq, Repr

structure St where
  ops : List Op
  comps : List Comp

def pruned (s : St) : List Comp := (Prune.prune ⟨s.ops.flatMap (·.refs), s.comps⟩).comps

def step (cfg : Cfg) (skipPrune : Bool) (s : St) : Stage → St
  | .filterTag => { s with ops := filterByTag cfg s.ops }
  | .filterId => { s with ops := filterById cfg s.ops }
  | .prune => { s with comps := pruned s }
  | .pruneUnlessSkip => if skipPrune then s else { s with comps := pruned s }
  | .consumer _ => s

def isConsumer : Stage → Bool
  | .consumer _ => true
  | _ => false

/-- the document every consumer sees: the stages are run in order; `none` if some consumer runs before an editor (it would
see another document than the later consumers) -/
def seenByConsumers (cfg : Cfg) (skipPrune : Bool) : List Stage → St → Bool → Option St
  | [], s, _ => some s
  | st :: rest, s, consumed =>
    if isConsumer st then seenByConsumers cfg skipPrune rest s true
    else if consumed then none
    else seenByConsumers cfg skipPrune rest (step cfg skipPrune s st) false

end OapiVerif.Pipeline
