import OapiVerif.Model.JsonObj
/-!
C09 — `MarshalJSON` / `UnmarshalJSON` of union.tmpl for a union that has properties of its own, at the level of one JSON
object with opaque member values (as `Model/JsonObj.lean` does for additional properties). The Go value is the stored member
(`t.union`, raw JSON) and one field per own property; `From<Member>` replaces the stored member and leaves the own fields.
-/
namespace OapiVerif.UnionJson
open JsonObj

variable {V : Type}

structure U (V : Type) where
  raw : Option (List (String × V))   -- t.union as an object (none = nil)
  own : List (Option V)              -- the union's own fields (none = nil pointer)

/-- `UnmarshalJSON`: the bytes are kept as the stored member; every own property found in the object is read into its field. -/
def unmarshal (fs : List Field) (o : List (String × V)) : U V :=
  { raw := some o, own := fs.map fun f => lookup o f.name }

/-- `MarshalJSON`: the stored member's object, then `object[name] = field` for every own property that is not a nil optional
(`zero`: what a nil pointer or a zero value encodes to). -/
def marshal (zero : V) (fs : List Field) (u : U V) : List (String × V) :=
  (declaredOut zero fs u.own).foldl (fun m kv => insert m kv.1 kv.2) (u.raw.getD [])

/-- `From<Member>` on a union value: the stored member is replaced, the own fields stay. -/
def fromMember (u : U V) (member : List (String × V)) : U V := { u with raw := some member }

/-- a fresh union value: no member, every own field nil -/
def fresh (fs : List Field) : U V := { raw := none, own := fs.map fun _ => none }

end OapiVerif.UnionJson
