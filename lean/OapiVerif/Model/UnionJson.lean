import OapiVerif.Model.JsonObj
/-!
C09 — `MarshalJSON` / `UnmarshalJSON` of union.tmpl for a union that has properties of its own, at the level of one JSON
object with opaque member values (as `Model/JsonObj.lean` does for additional properties). The Go value is the stored member
(`t.union`, raw JSON) and one field per own property; `From<Member>` replaces the stored member and leaves the own fields.
-/
namespace OapiVerif.UnionJson
open JsonObj

variable {V : Type}

structure U (V : Type) where
  raw : Option (List (String × V))   -- t.union as an object (none = nil)
  own : List (Option V)              -- the union's own fields (none = nil pointer)

/-- `UnmarshalJSON`: the bytes are kept as the stored member; every own property found in the object is read into its field. -/
def unmarshal (fs : List Field) (o : List (String × V)) : U V :=
  { raw := some o, own := fs.map fun f => lookup o f.name }

/-- `MarshalJSON`: the stored member's object, then `object[name] = field` for every own property that is not a nil optional
(`zero`: what a nil pointer or a zero value encodes to). -/
def marshal (zero : V) (fs : List Field) (u : U V) : List (String × V) :=
  (declaredOut zero fs u.own).foldl (fun m kv => insert m kv.1 kv.2) (u.raw.getD [])

/-- `From<Member>` on a union value: the stored member is replaced, the own fields stay. -/
def fromMember (u : U V) (member : List (String × V)) : U V := { u with raw := some member }

/-- a fresh union value: no member, every own field nil -/
def fresh (fs : List Field) : U V := { raw := none, own := fs.map fun _ => none }

/-! ### a union that also has additional properties (union-and-additional-properties.tmpl)

`UnmarshalJSON` keeps the bytes as the stored member, reads the own properties and stores **every other member of the object**
— the stored member's own properties included — as an additional property, decoded into the additional-properties type;
`MarshalJSON` writes the stored member, the own properties over it and the additional properties over both. `re` stands for
what decoding a member into the additional-properties type and encoding it again makes of its JSON text (the identity for
the values that type represents exactly). -/

structure UA (V : Type) where
  raw : Option (List (String × V))
  own : List (Option V)
  addl : List (String × V)

def unmarshalA (re : V → V) (fs : List Field) (o : List (String × V)) : UA V :=
  { raw := some o, own := fs.map fun f => lookup o f.name,
    addl := (o.filter fun kv => !declaredName fs kv.1).map fun kv => (kv.1, re kv.2) }

def marshalA (zero : V) (fs : List Field) (u : UA V) : List (String × V) :=
  u.addl.foldl (fun m kv => insert m kv.1 kv.2) (marshal zero fs ⟨u.raw, u.own⟩)

end OapiVerif.UnionJson
