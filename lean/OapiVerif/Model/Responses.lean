/-
L5 — client response parsing (pkg/codegen/template_helpers.go genResponseUnmarshal,
operations.go GetResponseTypeDefinitions): the `switch` of Parse<Op>Response as an ordered list of
cases, and its evaluation on an actual (status, Content-Type) pair.
-/
namespace OapiVerif.Responses

abbrev Str := List Nat
def w (s : String) : Str := s.toList.map Char.toNat

/-- A response name of the document: an exact code, a range `dXX`, or `default`. -/
inductive RName where
  | code (n : Nat)
  | range (d : Nat)
  | dflt
deriving Repr, DecidableEq, Inhabited

def digit (n : Nat) : Nat := 48 + n % 10

/-- The name as it is spelled in the document (and inside the sort key). -/
def RName.str : RName → Str
  | .code n => [digit (n / 100), digit (n / 10), digit n]
  | .range d => [digit d, 88, 88]
  | .dflt => w "default"

/-- `getConditionOfResponseName`. -/
def RName.holds : RName → Nat → Bool
  | .code n, status => status == n
  | .range d, status => status / 100 == d
  | .dflt, _ => true

/-- The Go text of the status condition (it is part of the sort key of the "unhandled" clauses). -/
def RName.condStr : RName → Str
  | .code n => w "rsp.StatusCode == " ++ (RName.code n).str
  | .range d => w "rsp.StatusCode / 100 == " ++ [digit d]
  | .dflt => w "true"

/-- Content-Type condition of a case clause. -/
inductive CtCond where
  | contains (sub : Str)   -- strings.Contains(rsp.Header.Get("Content-Type"), sub)
  | equals (ct : Str)      -- rsp.Header.Get("Content-Type") == ct   (several JSON media types)
  | any                    -- "unhandled" clauses test the status only
deriving Repr, DecidableEq, Inhabited

def isInfix (sub s : Str) : Bool := (List.range (s.length + 1)).any fun i => sub.isPrefixOf (s.drop i)

def CtCond.holds : CtCond → Str → Bool
  | .contains sub, h => isInfix sub h
  | .equals ct, h => h == ct
  | .any, _ => true

structure Case where
  key : Str                 -- the map key the clauses are sorted by
  name : RName
  ct : CtCond
  field : Option Str        -- the typed field the clause fills; none: `break` / comment only
deriving Repr, DecidableEq, Inhabited

/-- Media class of a declared content type (json: in contentTypesJSON or IsMediaTypeJson). -/
inductive Media where
  | json | yaml | xml | other
deriving Repr, DecidableEq, Inhabited

structure Content where
  ct : Str
  media : Media
  hasSchema : Bool
  field : Str       -- GetResponseTypeDefinitions' TypeName for this (response, content type)
deriving Repr, DecidableEq, Inhabited

structure Resp where
  name : RName
  contents : List Content   -- in sorted order of content type
deriving Repr, DecidableEq, Inhabited

def prefixLeast : Str := w "9"

def lexLt : Str → Str → Bool
  | [], [] => false
  | [], _ :: _ => true
  | _ :: _, [] => false
  | a :: as, b :: bs => a < b || (a == b && lexLt as bs)

def lexLe (a b : Str) : Bool := !lexLt b a

def insertBy (c : Case) : List Case → List Case
  | [] => [c]
  | d :: ds => if lexLe c.key d.key then c :: d :: ds else d :: insertBy c ds

/-- sort by key; a later clause with the same key replaces the earlier one (map assignment). -/
def putCase (c : Case) (m : List Case) : List Case :=
  if m.any (·.key == c.key) then m.map (fun d => if d.key == c.key then c else d) else insertBy c m

def subOf : Media → Str
  | .json => w "json" | .yaml => w "yaml" | .xml => w "xml" | .other => []

/-- Clauses contributed by one typed (response, content) pair. -/
def casesOf (r : Resp) (c : Content) : List Case × List Case :=
  if !c.hasSchema || c.media == .other then ([], []) else
  let jsonCount := (r.contents.filter (·.media == .json)).length
  let handled : Case :=
    if c.media == .json && jsonCount > 1 then
      ⟨prefixLeast ++ w "." ++ c.ct ++ w "." ++ r.name.str, r.name, .equals c.ct, some c.field⟩
    else ⟨prefixLeast ++ w "." ++ subOf c.media ++ w "." ++ r.name.str, r.name, .contains (subOf c.media), some c.field⟩
  let unhandled : List Case :=
    if r.contents.any (·.media == .other) then
      [⟨prefixLeast ++ w "case " ++ r.name.condStr ++ w ":", r.name, .any, none⟩] else []
  ([handled], unhandled)

/-- `genResponseUnmarshal`: handled clauses sorted by key, then the unhandled ones sorted by key. -/
def genCases (rs : List Resp) : List Case :=
  let pairs := rs.flatMap fun r => r.contents.map fun c => casesOf r c
  let handled := (pairs.flatMap (·.1)).foldl (fun m c => putCase c m) []
  let unhandled := (pairs.flatMap (·.2)).foldl (fun m c => putCase c m) []
  handled ++ unhandled

/-- The Go `switch { case … }`: the first clause whose condition holds decides. -/
def firstMatch (cs : List Case) (status : Nat) (ctHeader : Str) : Option Case :=
  cs.find? fun c => c.ct.holds ctHeader && c.name.holds status

/-- Which typed field `Parse<Op>Response` fills (Body and HTTPResponse are set before the switch). -/
def parse (rs : List Resp) (status : Nat) (ctHeader : Str) : Option Str :=
  match firstMatch (genCases rs) status ctHeader with
  | some c => c.field
  | none => none

end OapiVerif.Responses

namespace OapiVerif.Responses

/-- ASCII-only `ToCamelCase` (response names and media types are ASCII). -/
def isSep (c : Nat) : Bool := [45, 35, 64, 33, 36, 38, 61, 46, 43, 58, 59, 95, 126, 32, 40, 41, 123, 125, 91, 93].contains c
def camelGo : Bool → Str → Str
  | _, [] => []
  | cap, v :: rest =>
    (if 65 ≤ v && v ≤ 90 then [v] else []) ++ (if 48 ≤ v && v ≤ 57 then [v] else []) ++
    (if 97 ≤ v && v ≤ 122 then [if cap then v - 32 else v] else []) ++ camelGo (isSep v) rest
def camel (s : Str) : Str := camelGo true s

/-- strings.ReplaceAll(s, "Json", "JSON"). -/
def jsonUpper : Str → Str
  | 74 :: 115 :: 111 :: 110 :: rest => 74 :: 83 :: 79 :: 78 :: jsonUpper rest
  | c :: rest => c :: jsonUpper rest
  | [] => []

/-- `GetResponseTypeDefinitions`: the field name for a (response name, content type) pair. -/
def fieldName (ct : Str) (isJson : Bool) (name : Str) : Option Str :=
  if ct = w "application/hal+json" then some (w "HALJSON" ++ camel name)
  else if ct = w "application/json" then some (w "JSON" ++ camel name)
  else if isJson then some (jsonUpper (camel ct ++ camel name))
  else if [w "application/yaml", w "application/x-yaml", w "text/yaml", w "text/x-yaml"].contains ct then some (w "YAML" ++ camel name)
  else if [w "application/xml", w "text/xml", w "application/problems+xml"].contains ct then some (w "XML" ++ camel name)
  else none

end OapiVerif.Responses
