import OapiVerif.Props.C04
import OapiVerif.Gen.C05
import OapiVerif.Gen.StyleDefaults
/-!
C05 — Parameter wire format follows the OpenAPI style rules.

`oasSerialize` (Model/Codec.lean) is a row-by-row transcription of the OAS 3.0.3 "Style Values /
Style Examples" table, independent of the prefix/separator computation of the runtime model.
Tie: CORR of `styleParam` with the pinned runtime (shared with C04); TAB `Gen/C05.lean` — the
generator's `ParameterDefinition.Style()/Explode()` executed on every (location, style?, explode?)
and every literal style/explode/required/location argument of the runtime calls in code generated
for the whole shape space, for the client and all seven servers; RUN — requests built by the generated
client compared with `oasWire`, and hand-serialised `oasWire` requests served by every framework.
-/
namespace OapiVerif.Codec
open OapiVerif.Escape

theorem join_singleton_sep_eq_commaList (xs : List Str) : join [cComma] xs = commaList xs := rfl

/-- `prefix ++ join (c :: p) xs = xs.flatMap (c :: p ++ ·)` — exploded label/matrix arrays. -/
theorem prefix_join_eq_flatMap (pre : Str) (xs : List Str) (hne : xs ≠ []) :
    pre ++ join pre xs = xs.flatMap (fun x => pre ++ x) := by
  induction xs with
  | nil => exact absurd rfl hne
  | cons x t ih =>
    cases t with
    | nil => simp [join]
    | cons y t' =>
      have := ih (by simp)
      simp only [join_cons_cons, List.flatMap_cons, List.append_assoc] at this ⊢
      rw [this]

theorem join_map_prefix (pre sep : Str) (xs : List Str) (hne : xs ≠ []) :
    pre ++ join (sep ++ pre) xs = join sep (xs.map (fun x => pre ++ x)) := by
  induction xs with
  | nil => exact absurd rfl hne
  | cons x t ih =>
    cases t with
    | nil => simp [join]
    | cons y t' =>
      have := ih (by simp)
      simp only [join_cons_cons, List.map_cons, List.append_assoc] at this ⊢
      rw [← this]

/-- The runtime's serialisation of a primitive is the OAS row, for every style and value. -/
theorem C05_prim_eq_oas (st : Style) (explode : Bool) (name : Str) (loc : Loc) (s : Str) :
    styleParam st explode name loc (.prim s) = oasWire st explode name loc (.prim s) := by
  cases st <;> simp [styleParam, oasWire, oasSerialize, primPrefix, Val.mapStr]

/-- … of a non-empty array … -/
theorem C05_array_eq_oas (st : Style) (explode : Bool) (name : Str) (loc : Loc) (xs : List Str)
    (hne : xs ≠ []) :
    styleParam st explode name loc (.arr xs) = oasWire st explode name loc (.arr xs) := by
  have hm : xs.map (escLoc loc) ≠ [] := by cases xs <;> simp_all
  cases st <;> cases explode <;>
    simp only [styleParam, oasWire, oasSerialize, arrPrefixSep, Val.mapStr, commaList,
      List.nil_append, List.singleton_append, List.cons_append, Bool.false_eq_true, if_false, if_true]
  all_goals first
    | rfl
    | (simp; done)
    | (have := prefix_join_eq_flatMap [cDot] (xs.map (escLoc loc)) hm; simpa using this)
    | (have := prefix_join_eq_flatMap (cSemi :: name ++ [cEq]) (xs.map (escLoc loc)) hm; simpa using this)
    | (have := join_map_prefix (name ++ [cEq]) [cAmp] (xs.map (escLoc loc)) hm
       simpa [List.map_map, Function.comp_def] using this)

theorem objParts_false (loc : Loc) (kvs : List (Str × Str)) :
    objParts false loc kvs = kvFlat (kvs.map fun kv => (kv.1, escLoc loc kv.2)) := by
  simp [objParts, kvFlat, List.flatMap_map]

theorem objParts_true (loc : Loc) (kvs : List (Str × Str)) :
    objParts true loc kvs = kvEq (kvs.map fun kv => (kv.1, escLoc loc kv.2)) := by
  simp [objParts, kvEq, List.map_map, Function.comp_def]

/-- … and of a non-empty flat object. -/
theorem C05_object_eq_oas (st : Style) (explode : Bool) (name : Str) (loc : Loc)
    (kvs : List (Str × Str)) (hne : kvs ≠ []) :
    styleParam st explode name loc (.obj kvs) = oasWire st explode name loc (.obj kvs) := by
  have hm : kvEq (kvs.map fun kv => (kv.1, escLoc loc kv.2)) ≠ [] := by cases kvs <;> simp_all [kvEq]
  cases st <;> cases explode <;>
    simp only [styleParam, oasWire, oasSerialize, objPrefixSep, Val.mapStr, commaList,
      objParts_false, objParts_true,
      List.nil_append, List.singleton_append, List.cons_append, Bool.false_eq_true, if_false, if_true]
  all_goals first
    | rfl
    | (simp; done)
    | (have := prefix_join_eq_flatMap [cDot] _ hm; simpa using this)
    | (have := prefix_join_eq_flatMap [cSemi] _ hm; simpa using this)

/-- Interoperability, server side: the OAS serialisation of a representable array / object /
primitive sent by any conforming client is decoded to the prescribed value. -/
theorem C05_bind_accepts_oas_array (st : Style) (hst : st ≠ .form) (explode required : Bool) (name : Str)
    (loc : Loc) (hloc : loc ≠ .undefined) (xs : List Str) (hR : ArrRepr st explode name loc xs)
    (hreq : required = true → oasWire st explode name loc (.arr xs) ≠ []) :
    bindStyled st explode required name loc .arr (oasWire st explode name loc (.arr xs)) = .ok (.arr xs) := by
  rw [← C05_array_eq_oas st explode name loc xs hR.ne] at hreq ⊢
  exact C04_array_roundtrip st hst explode required name loc hloc xs hR hreq

theorem C05_bind_accepts_oas_object (st : Style) (hst : st ≠ .form) (explode required : Bool) (name : Str)
    (loc : Loc) (hloc : loc ≠ .undefined) (kvs : List (Str × Str)) (hR : ObjRepr st explode name loc kvs)
    (hreq : required = true → oasWire st explode name loc (.obj kvs) ≠ []) :
    bindStyled st explode required name loc .obj (oasWire st explode name loc (.obj kvs)) = .ok (.obj kvs) := by
  rw [← C05_object_eq_oas st explode name loc kvs hR.ne] at hreq ⊢
  exact C04_object_roundtrip st hst explode required name loc hloc kvs hR hreq

/-! ### Regenerated tables -/

open OapiVerif.Gen.C05 in
/-- TAB: the generator's per-location defaults are the OAS defaults on every supported
(location, style?, explode?) triple. -/
theorem C05_defaults_eq_oas : ∀ r ∈ defaultsTable, defaultRowOk r = true := by decide +kernel

set_option maxRecDepth 1000000 in
open OapiVerif.Gen.C05 in
/-- TAB/FACT: every runtime call in the code generated for the whole shape space (client and the
seven servers) carries the OAS-prescribed style / explode, the declared `required`, and a location
consistent between client and server. -/
theorem C05_callsites_ok : ∀ r ∈ siteTable, siteRowOk r = true := by decide +kernel

/-- the name of a location / a style as the document spells it -/
def Loc.text : Loc → String
  | .path => "path" | .query => "query" | .header => "header" | .cookie => "cookie" | .undefined => ""
def Style.text : Style → String
  | .simple => "simple" | .label => "label" | .matrix => "matrix" | .form => "form"

/-- Go's `switch in { case …: return … }`: the first case that lists the location -/
def switchOn {α : Type} (cases : List (List String × α)) (loc : String) : Option α :=
  (cases.find? fun c => c.1.contains loc).map (·.2)

/-- **The per-location defaults as they stand in the source** (`ParameterDefinition.Style()` / `Explode()`, translated by
harness/styleswitch.go into `Gen/StyleDefaults.lean` on every run) **are the OpenAPI defaults**: for each of the four
locations the switch returns the default style of that location, and the default explode of that style (true exactly for
form); any other location reaches the `default:` clause, which panics rather than choosing silently. -/
theorem C05_defaults_translated :
    (∀ loc ∈ [Loc.path, .query, .header, .cookie],
      switchOn Gen.StyleDefaults.styleCases loc.text = some (oasDefaultStyle loc).text ∧
      switchOn Gen.StyleDefaults.explodeCases loc.text = some (oasDefaultExplode (oasDefaultStyle loc))) ∧
    switchOn Gen.StyleDefaults.styleCases Loc.undefined.text = none ∧
    switchOn Gen.StyleDefaults.explodeCases Loc.undefined.text = none := by
  decide

end OapiVerif.Codec
