import OapiVerif.Model.Filter
import OapiVerif.Props.C15
import OapiVerif.Gen.Pipeline
import OapiVerif.Gen.FilterRules
/-!
C16 — Tag and operation-id filtering is exact.
Tie: CORR through `VerifFilterByTag` / `VerifFilterByOperationID` and through `Generate`
(methods of the generated interfaces, operations of the embedded spec) — harness `c16`.
-/
namespace OapiVerif.Filter

theorem hasTag_nil (op : Op) : hasTag op [] = false := by
  simp [hasTag]

theorem hasId_nil (op : Op) : hasId op [] = false := by
  simp [hasId]

theorem excl_pass (ops : List Op) (l : List String) (h : Op → List String → Bool)
    (hnil : ∀ op, h op [] = false) :
    (if l.length > 0 then ops.filter (fun op => h op l != true) else ops)
      = ops.filter (fun op => !h op l) := by
  cases l with
  | nil => simp [hnil, List.filter_eq_self.mpr]
  | cons a t => simp

theorem incl_pass (ops : List Op) (l : List String) (h : Op → List String → Bool) :
    (if l.length > 0 then ops.filter (fun op => h op l != false) else ops)
      = ops.filter (fun op => l.isEmpty || h op l) := by
  cases l with
  | nil => simp [List.filter_eq_self.mpr]
  | cons a t => simp

theorem filterByTag_eq (cfg : Cfg) (ops : List Op) :
    filterByTag cfg ops =
      ops.filter (fun op => (!hasTag op cfg.exclTags) && (cfg.inclTags.isEmpty || hasTag op cfg.inclTags)) := by
  simp only [filterByTag, withTags]
  rw [excl_pass ops cfg.exclTags hasTag hasTag_nil, incl_pass _ cfg.inclTags hasTag, List.filter_filter]
  apply List.filter_congr; intro x _; exact Bool.and_comm _ _

theorem filterById_eq (cfg : Cfg) (ops : List Op) :
    filterById cfg ops =
      ops.filter (fun op => (!hasId op cfg.exclIds) && (cfg.inclIds.isEmpty || hasId op cfg.inclIds)) := by
  simp only [filterById, withIds]
  rw [excl_pass ops cfg.exclIds hasId hasId_nil, incl_pass _ cfg.inclIds hasId, List.filter_filter]
  apply List.filter_congr; intro x _; exact Bool.and_comm _ _

/-- The two-pass, in-place-deleting filter keeps exactly the operations the statement keeps. -/
theorem C16_filter_exact (cfg : Cfg) (ops : List Op) :
    filterDoc cfg ops = ops.filter (keep cfg) := by
  simp only [filterDoc]
  rw [filterByTag_eq, filterById_eq, List.filter_filter]
  apply List.filter_congr; intro x _
  simp only [keep]
  cases hasTag x cfg.exclTags <;> cases hasId x cfg.exclIds <;> cases cfg.inclTags.isEmpty <;>
    cases cfg.inclIds.isEmpty <;> cases hasTag x cfg.inclTags <;> cases hasId x cfg.inclIds <;> rfl

/-- An operation is in the result iff it was in the document and satisfies the filter. -/
theorem C16_mem_iff (cfg : Cfg) (ops : List Op) (op : Op) :
    op ∈ filterDoc cfg ops ↔ op ∈ ops ∧ keep cfg op = true := by
  rw [C16_filter_exact]; simp [List.mem_filter]

/-- Filtering does not depend on the order in which the (map of) operations is walked. -/
theorem C16_perm (cfg : Cfg) (ops ops' : List Op) (h : ops.Perm ops') :
    (filterDoc cfg ops).Perm (filterDoc cfg ops') := by
  rw [C16_filter_exact, C16_filter_exact]; exact h.filter _

/-- Filtering twice is filtering once. -/
theorem C16_idempotent (cfg : Cfg) (ops : List Op) :
    filterDoc cfg (filterDoc cfg ops) = filterDoc cfg ops := by
  simp [C16_filter_exact, List.filter_filter]

/-- Unknown names in an exclusion list change nothing; an inclusion list of only unknown names
removes everything. -/
theorem C16_unknown_exclude (ops : List Op) (ex : List String)
    (h : ∀ op ∈ ops, hasTag op ex = false) :
    filterDoc ⟨[], ex, [], []⟩ ops = ops := by
  rw [C16_filter_exact]; apply List.filter_eq_self.mpr
  intro op hop; simp [keep, h op hop, hasId_nil]

/-! Pruning after filtering (corollaries of C15): the roots of the pruned document are the
references of the *kept* operations. -/
open OapiVerif.Prune in
def docOf (cfg : Cfg) (ops : List Op) (comps : List Comp) : Doc :=
  ⟨(filterDoc cfg ops).flatMap (·.refs), comps⟩

open OapiVerif.Prune in
/-- Everything a remaining operation needs is still there. -/
theorem C16_prune_keeps_needed (cfg : Cfg) (ops : List Op) (comps : List Comp) (c : Comp)
    (h : Reach (docOf cfg ops comps) c) : c ∈ (prune (docOf cfg ops comps)).comps :=
  C15_keeps_reachable _ c h

open OapiVerif.Prune in
/-- A component used only by removed operations disappears: what is retained is referred to by
a kept operation or by a retained component. -/
theorem C16_prune_drops_unneeded (cfg : Cfg) (ops : List Op) (comps : List Comp) (c : Comp)
    (h : c ∈ (prune (docOf cfg ops comps)).comps) :
    (∃ op ∈ ops, keep cfg op = true ∧ c.ref ∈ op.refs) ∨
    (∃ c' ∈ (prune (docOf cfg ops comps)).comps, c.ref ∈ c'.out) := by
  have := C15_only_referenced _ c h
  simp only [allRefs, List.mem_append, C15_roots] at this
  simp only [docOf, List.mem_flatMap] at this
  rcases this with ⟨op, hop, hr⟩ | ⟨c', hc', ho⟩
  · left; exact ⟨op, ((C16_mem_iff cfg ops op).mp hop).1, ((C16_mem_iff cfg ops op).mp hop).2, hr⟩
  · right; exact ⟨c', hc', ho⟩

/-- **What the consumers of `Generate` see is the filtered and pruned document of the theorems above**: the stage list
`Gen/Pipeline.lean` is read from codegen.go on every run (harness/pipeline.go); run on the model's document it hands every
consumer — `OperationDefinitions` (server interface, router, client), the type definitions, the inlined specification — the
operations `filterDoc` keeps and, unless skip-prune is set, the components `prune` keeps for them. A filter moved behind the
pruning, behind a consumer, or dropped, breaks this proof. -/
theorem C16_pipeline_translated (cfg : Cfg) (skipPrune : Bool) (ops : List Op) (comps : List OapiVerif.Prune.Comp) :
    (Pipeline.seenByConsumers cfg skipPrune Gen.Pipeline.stages ⟨ops, comps⟩ false).map (fun s => (s.ops, s.comps)) =
      some (filterDoc cfg ops,
        if skipPrune then comps else (OapiVerif.Prune.prune (docOf cfg ops comps)).comps) := by
  unfold Gen.Pipeline.stages
  simp only [Pipeline.seenByConsumers, Pipeline.isConsumer, Pipeline.step, Pipeline.pruned]
  cases skipPrune <;> simp [filterDoc, docOf]

/-- **The model's two filters are filter.go as it stands**: the translator (harness/filterrules.go) reads from the source which
configured list guards and feeds each pass, its exclude flag, the order of the passes and the comparison by which the two
workers remove an operation; running that description is `filterByTag` / `filterById`. An inclusion pass moved before the
exclusion pass, a guard on the wrong list, a flipped flag or a flipped comparison breaks this proof. -/
theorem C16_filter_translated (cfg : Cfg) (ops : List Op) :
    runPasses cfg (workerOf hasTag Gen.FilterRules.tagRemovesWhenEqual) Gen.FilterRules.tagPasses ops = filterByTag cfg ops ∧
    runPasses cfg (workerOf hasId Gen.FilterRules.idRemovesWhenEqual) Gen.FilterRules.idPasses ops = filterById cfg ops := by
  unfold Gen.FilterRules.tagPasses Gen.FilterRules.idPasses Gen.FilterRules.tagRemovesWhenEqual Gen.FilterRules.idRemovesWhenEqual
  constructor <;>
    simp only [runPasses, List.foldl_cons, List.foldl_nil, Cfg.list, workerOf, if_true, filterByTag, filterById, withTags, withIds]

/-! Non-vacuity. -/
def exOps : List Op :=
  [⟨"/a", "GET", ["a"], "OpA", ["#/components/schemas/A"]⟩,
   ⟨"/a", "POST", ["a", "b"], "OpB", ["#/components/schemas/B"]⟩,
   ⟨"/b", "GET", [], "OpC", []⟩]
example : (filterDoc ⟨["a"], ["b"], [], []⟩ exOps).map (·.id) = ["OpA"] := by decide
example : (filterDoc ⟨[], [], ["OpB", "OpC", "Nope"], ["OpC"]⟩ exOps).map (·.id) = ["OpB"] := by decide

end OapiVerif.Filter
