import OapiVerif.Proofs.Responses
/-!
C13 — Client response parsing fills the declared slot.

Model: Model/Responses.lean (`genResponseUnmarshal` as an ordered clause list, its evaluation).
Tie: CORR — the (condition, field) sequence of the emitted `switch` (parsed with go/ast from
`VerifGenResponseUnmarshal`) against `genCases` on seeded operations; RUN — `Parse<Op>Response` on
synthesised responses over the (status, Content-Type) matrix against `parse` and against the
statement's own oracle.
-/
namespace OapiVerif.Responses

/-- The precedence is emergent: the clause keys are sorted as strings, and for every status code
its own spelling sorts before its range's, which sorts before `default`. -/
theorem C13_key_order : ∀ n, n < 600 → 100 ≤ n →
    lexLt (RName.code n).str (RName.range (n / 100)).str = true ∧
    lexLt (RName.range (n / 100)).str RName.dflt.str = true := by
  decide +kernel

/-- The names that can hold for a status are its exact code, its range and `default`. -/
theorem holds_cases (r : RName) (s : Nat) (h : r.holds s = true) :
    r = .code s ∨ r = .range (s / 100) ∨ r = .dflt := by
  cases r with
  | code n => simp [RName.holds] at h; left; rw [h]
  | range d => simp [RName.holds] at h; right; left; rw [h]
  | dflt => right; right; rfl

/-- Precedence, stated on any strictly key-sorted clause list (as `genCases` produces, see
`C13_handled_sorted`): among the clauses whose Content-Type condition holds for the answer — provided
these share one key prefix, i.e. one media class — an exact status code takes precedence over a range
and a range over default. -/
theorem C13_precedence (cs : List Case) (hs : Sorted cs) (pre : Str) (s : Nat) (hs1 : 100 ≤ s) (hs2 : s < 600)
    (h : Str) (x : Case) (hx : x ∈ cs) (hxct : x.ct.holds h = true) (hxs : x.name.holds s = true)
    (hkey : ∀ y ∈ cs, y.ct.holds h = true → y.key = pre ++ y.name.str)
    (hinj : ∀ y ∈ cs, y.ct.holds h = true → y.name = x.name → y = x)
    (hpref : x.name = .code s ∨
             (x.name = .range (s / 100) ∧ ∀ y ∈ cs, y.ct.holds h = true → y.name ≠ .code s) ∨
             (x.name = .dflt ∧ ∀ y ∈ cs, y.ct.holds h = true → y.name ≠ .code s ∧ y.name ≠ .range (s / 100))) :
    firstMatch cs s h = some x := by
  unfold firstMatch
  apply find_sorted _ cs hs x hx (by simp [hxct, hxs])
  intro y hy hyp hne
  simp only [Bool.and_eq_true] at hyp
  obtain ⟨hyct, hys⟩ := hyp
  rw [hkey y hy hyct, hkey x hx hxct, lexLt_append_left]
  have ko := C13_key_order s hs2 hs1
  have hyn : y.name ≠ x.name := fun e => hne (hinj y hy hyct e)
  rcases holds_cases y.name s hys with e | e | e <;> rcases hpref with p | ⟨p, q⟩ | ⟨p, q⟩
  · exact absurd (e.trans p.symm) hyn
  · exact absurd e (q y hy hyct)
  · exact absurd e (q y hy hyct).1
  · rw [e, p]; exact ko.1
  · exact absurd (e.trans p.symm) hyn
  · exact absurd e (q y hy hyct).2
  · rw [e, p]; exact lexLt_trans _ _ _ ko.1 ko.2
  · rw [e, p]; exact ko.2
  · exact absurd (e.trans p.symm) hyn

/-- The handled clauses generated for any operation are strictly sorted by key (so
`C13_precedence` applies to them). -/
theorem C13_handled_sorted (l : List Case) : Sorted (l.foldl (fun m c => putCase c m) []) :=
  handled_sorted l

/-- At most one typed field is filled: the result of the switch is the field of one clause. -/
theorem C13_single_field (rs : List Resp) (s : Nat) (h : Str) (f : Str) (hp : parse rs s h = some f) :
    ∃ c ∈ genCases rs, c.field = some f ∧ c.ct.holds h = true ∧ c.name.holds s = true := by
  unfold parse at hp
  split at hp
  · next c hc =>
    have hm := List.mem_of_find?_eq_some hc
    have hpred := List.find?_some hc
    simp only [Bool.and_eq_true] at hpred
    exact ⟨c, hm, hp, hpred.1, hpred.2⟩
  · simp at hp

/-- No clause holds ⇒ no typed field (only Body and HTTPResponse, which are set before the switch). -/
theorem C13_undeclared_none (rs : List Resp) (s : Nat) (h : Str)
    (hn : ∀ c ∈ genCases rs, ¬(c.ct.holds h = true ∧ c.name.holds s = true)) : parse rs s h = none := by
  unfold parse firstMatch
  have : (genCases rs).find? (fun c => c.ct.holds h && c.name.holds s) = none := by
    rw [List.find?_eq_none]
    intro c hc
    simpa using hn c hc
  simp [this]

/-! Non-vacuity: 200 + 2XX + default, all application/json. -/
def exResps : List Resp :=
  [⟨.code 200, [⟨w "application/json", .json, true, w "JSON200"⟩]⟩,
   ⟨.range 2, [⟨w "application/json", .json, true, w "JSON2XX"⟩]⟩,
   ⟨.dflt, [⟨w "application/json", .json, true, w "JSONDefault"⟩]⟩]
example : parse exResps 200 (w "application/json; charset=utf-8") = some (w "JSON200") := by decide
example : parse exResps 204 (w "application/json") = some (w "JSON2XX") := by decide
example : parse exResps 404 (w "application/json") = some (w "JSONDefault") := by decide
example : parse exResps 200 (w "text/plain") = none := by decide

/-! Negative findings (the full statement "exact over range over default, into the field of that
media type" is false of the generator in these corners; each is replayed by the harness and listed
in /verif/known-findings.txt). -/

/-- When one response declares several JSON media types (exact matching, key `9.<media type>.<name>`)
and a less specific one declares a single JSON media type (substring matching, key `9.json.<name>`),
the keys no longer share a prefix and the less specific clause can sort first: here status 200 with
`text/x-json` fills the 2XX field although 200 declares `text/x-json`. -/
def exMixed : List Resp :=
  [⟨.code 200, [⟨w "application/json", .json, true, w "JSON200"⟩, ⟨w "text/x-json", .json, true, w "TextxJSON200"⟩]⟩,
   ⟨.range 2, [⟨w "text/x-json", .json, true, w "TextxJSON2XX"⟩]⟩]
theorem C13_mixed_keys_witness : parse exMixed 200 (w "text/x-json") = some (w "TextxJSON2XX") := by decide

/-- Exact matching does not tolerate media type parameters. -/
theorem C13_exact_match_params_witness :
    parse exMixed 200 (w "application/json; charset=utf-8") ≠ some (w "JSON200") := by decide

/-- Substring matching is per media class, not per media type: 200 declares only problem+json, 2XX
declares text/x-json; an answer (200, text/x-json) is decoded into the 200 field. -/
def exSubstr : List Resp :=
  [⟨.code 200, [⟨w "application/problem+json", .json, true, w "ApplicationproblemJSON200"⟩]⟩,
   ⟨.range 2, [⟨w "text/x-json", .json, true, w "TextxJSON2XX"⟩]⟩]
theorem C13_substring_class_witness : parse exSubstr 200 (w "text/x-json") = some (w "ApplicationproblemJSON200") := by
  decide

end OapiVerif.Responses
