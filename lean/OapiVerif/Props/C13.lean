import OapiVerif.Proofs.Responses
import OapiVerif.Proofs.GoJsonEnc
import OapiVerif.Proofs.Form
import OapiVerif.Proofs.Bodies
import OapiVerif.Gen.MediaSwitch
import OapiVerif.Gen.BodyRules
/-!
C13 — Client response parsing fills the declared slot.

Model: Model/Responses.lean (`genResponseUnmarshal` as an ordered clause list, its evaluation).
Tie: CORR — the (condition, field) sequence of the emitted `switch` (parsed with go/ast from
`VerifGenResponseUnmarshal`) against `genCases` on seeded operations; RUN — `Parse<Op>Response` on
synthesised responses over the (status, Content-Type) matrix against `parse` and against the
statement's own oracle.
-/
namespace OapiVerif.Responses

/-- The precedence is emergent: the clause keys are sorted as strings, and for every status code
its own spelling sorts before its range's, which sorts before `default`. -/
theorem C13_key_order : ∀ n, n < 600 → 100 ≤ n →
    lexLt (RName.code n).str (RName.range (n / 100)).str = true ∧
    lexLt (RName.range (n / 100)).str RName.dflt.str = true := by
  decide +kernel

/-- The names that can hold for a status are its exact code, its range and `default`. -/
theorem holds_cases (r : RName) (s : Nat) (h : r.holds s = true) :
    r = .code s ∨ r = .range (s / 100) ∨ r = .dflt := by
  cases r with
  | code n => simp [RName.holds] at h; left; rw [h]
  | range d => simp [RName.holds] at h; right; left; rw [h]
  | dflt => right; right; rfl

/-- Precedence, stated on any strictly key-sorted clause list (as `genCases` produces, see
`C13_handled_sorted`): among the clauses whose Content-Type condition holds for the answer — provided
these share one key prefix, i.e. one media class — an exact status code takes precedence over a range
and a range over default. -/
theorem C13_precedence (cs : List Case) (hs : Sorted cs) (pre : Str) (s : Nat) (hs1 : 100 ≤ s) (hs2 : s < 600)
    (h : Str) (x : Case) (hx : x ∈ cs) (hxct : x.ct.holds h = true) (hxs : x.name.holds s = true)
    (hkey : ∀ y ∈ cs, y.ct.holds h = true → y.key = pre ++ y.name.str)
    (hinj : ∀ y ∈ cs, y.ct.holds h = true → y.name = x.name → y = x)
    (hpref : x.name = .code s ∨
             (x.name = .range (s / 100) ∧ ∀ y ∈ cs, y.ct.holds h = true → y.name ≠ .code s) ∨
             (x.name = .dflt ∧ ∀ y ∈ cs, y.ct.holds h = true → y.name ≠ .code s ∧ y.name ≠ .range (s / 100))) :
    firstMatch cs s h = some x := by
  unfold firstMatch
  apply find_sorted _ cs hs x hx (by simp [hxct, hxs])
  intro y hy hyp hne
  simp only [Bool.and_eq_true] at hyp
  obtain ⟨hyct, hys⟩ := hyp
  rw [hkey y hy hyct, hkey x hx hxct, lexLt_append_left]
  have ko := C13_key_order s hs2 hs1
  have hyn : y.name ≠ x.name := fun e => hne (hinj y hy hyct e)
  rcases holds_cases y.name s hys with e | e | e <;> rcases hpref with p | ⟨p, q⟩ | ⟨p, q⟩
  · exact absurd (e.trans p.symm) hyn
  · exact absurd e (q y hy hyct)
  · exact absurd e (q y hy hyct).1
  · rw [e, p]; exact ko.1
  · exact absurd (e.trans p.symm) hyn
  · exact absurd e (q y hy hyct).2
  · rw [e, p]; exact lexLt_trans _ _ _ ko.1 ko.2
  · rw [e, p]; exact ko.2
  · exact absurd (e.trans p.symm) hyn

/-- The handled clauses generated for any operation are strictly sorted by key (so
`C13_precedence` applies to them). -/
theorem C13_handled_sorted (l : List Case) : Sorted (l.foldl (fun m c => putCase c m) []) :=
  handled_sorted l

/-- At most one typed field is filled: the result of the switch is the field of one clause. -/
theorem C13_single_field (rs : List Resp) (s : Nat) (h : Str) (f : Str) (hp : parse rs s h = some f) :
    ∃ c ∈ genCases rs, c.field = some f ∧ c.ct.holds h = true ∧ c.name.holds s = true := by
  unfold parse at hp
  split at hp
  · next c hc =>
    have hm := List.mem_of_find?_eq_some hc
    have hpred := List.find?_some hc
    simp only [Bool.and_eq_true] at hpred
    exact ⟨c, hm, hp, hpred.1, hpred.2⟩
  · simp at hp

/-- No clause holds ⇒ no typed field (only Body and HTTPResponse, which are set before the switch). -/
theorem C13_undeclared_none (rs : List Resp) (s : Nat) (h : Str)
    (hn : ∀ c ∈ genCases rs, ¬(c.ct.holds h = true ∧ c.name.holds s = true)) : parse rs s h = none := by
  unfold parse firstMatch
  have : (genCases rs).find? (fun c => c.ct.holds h && c.name.holds s) = none := by
    rw [List.find?_eq_none]
    intro c hc
    simpa using hn c hc
  simp [this]

/-! Non-vacuity: 200 + 2XX + default, all application/json. -/
def exResps : List Resp :=
  [⟨.code 200, [⟨w "application/json", .json, true, w "JSON200"⟩]⟩,
   ⟨.range 2, [⟨w "application/json", .json, true, w "JSON2XX"⟩]⟩,
   ⟨.dflt, [⟨w "application/json", .json, true, w "JSONDefault"⟩]⟩]
example : parse exResps 200 (w "application/json; charset=utf-8") = some (w "JSON200") := by decide
example : parse exResps 204 (w "application/json") = some (w "JSON2XX") := by decide
example : parse exResps 404 (w "application/json") = some (w "JSONDefault") := by decide
example : parse exResps 200 (w "text/plain") = none := by decide

/-! Negative findings (the full statement "exact over range over default, into the field of that
media type" is false of the generator in these corners; each is replayed by the harness and listed
in /verif/known-findings.txt). -/

/-- When one response declares several JSON media types (exact matching, key `9.<media type>.<name>`)
and a less specific one declares a single JSON media type (substring matching, key `9.json.<name>`),
the keys no longer share a prefix and the less specific clause can sort first: here status 200 with
`text/x-json` fills the 2XX field although 200 declares `text/x-json`. -/
def exMixed : List Resp :=
  [⟨.code 200, [⟨w "application/json", .json, true, w "JSON200"⟩, ⟨w "text/x-json", .json, true, w "TextxJSON200"⟩]⟩,
   ⟨.range 2, [⟨w "text/x-json", .json, true, w "TextxJSON2XX"⟩]⟩]
theorem C13_mixed_keys_witness : parse exMixed 200 (w "text/x-json") = some (w "TextxJSON2XX") := by decide

/-- Exact matching does not tolerate media type parameters. -/
theorem C13_exact_match_params_witness :
    parse exMixed 200 (w "application/json; charset=utf-8") ≠ some (w "JSON200") := by decide

/-- Substring matching is per media class, not per media type: 200 declares only problem+json, 2XX
declares text/x-json; an answer (200, text/x-json) is decoded into the 200 field. -/
def exSubstr : List Resp :=
  [⟨.code 200, [⟨w "application/problem+json", .json, true, w "ApplicationproblemJSON200"⟩]⟩,
   ⟨.range 2, [⟨w "text/x-json", .json, true, w "TextxJSON2XX"⟩]⟩]
theorem C13_substring_class_witness : parse exSubstr 200 (w "text/x-json") = some (w "ApplicationproblemJSON200") := by
  decide

end OapiVerif.Responses

namespace OapiVerif.GoJson

/-- Last clause of C13 — the JSON request body a typed client method sends (`json.Marshal` of the value) is the faithful
encoding of the value: decoding it (`json.Unmarshal` into the same type, as the server does) gives the value back, for
every value of every well-formed type of the fragment, at any nesting depth. `stable` excludes the two kinds of value
that no JSON text distinguishes from another Go value (witnesses below). -/
theorem C13_json_body_decodes_to_value (t : GoTy) (v : GoVal) (hw : wf t = true) (ht : hasTy t v = true)
    (hs : stable t v = true) : ∃ j, encode t v = some j ∧ decode t j = some v := enc_dec t v hw ht hs

/-- … and such a body is never `null` unless the value is nil (an optional body that is present is not mistaken for an
absent one). -/
theorem C13_json_body_null_only_for_nil (t : GoTy) (v : GoVal) (j : JVal) (he : encode t v = some j)
    (hn : isNilV v = false) (hs : stable t v = true) : j ≠ .null := enc_ne_null t v j he hn hs

/-- Outside `stable`, first kind: an empty but non-nil slice in an `omitempty` member is left out and read back as nil. -/
theorem C13_empty_slice_under_omitempty_witness :
    (encode (.struct (.cons "xs" true (.slice .string) .nil)) (.struct [.slice []])).bind
      (decode (.struct (.cons "xs" true (.slice .string) .nil))) = some (.struct [.nilv]) := by
  simp [encode, encodeFields, isEmpty, decode, decodeFields, lookup, zero, zeros]

/-- Second kind: a non-nil pointer to a nil slice is written as `null` and read back as a nil pointer. -/
theorem C13_pointer_to_nil_witness :
    (encode (.ptr (.slice .string)) (.ptr .nilv)).bind (decode (.ptr (.slice .string))) = some .nilv := by
  simp [encode, decode]

/-- Non-vacuity: a nested value with an optional member left out, a map and a 64-bit extreme meets the hypotheses. -/
example : let t := GoTy.struct (.cons "id" false int64 (.cons "tags" true (.ptr (.slice .string)) (.cons "m" false (.map uint8) .nil)))
    let v := GoVal.struct [.int 9223372036854775807, .nilv, .map [("a", .int 1), ("b", .int 255)]]
    wf t = true ∧ hasTy t v = true ∧ stable t v = true := by decide

end OapiVerif.GoJson

namespace OapiVerif.Form
open OapiVerif.IntParse

/-- Last clause of C13, form bodies: what the typed client builder sends for a flat body struct (`MarshalForm`: one pair
per member, a nil optional member left out) is read back by `BindForm` as that struct — strings unchanged, integers of
any width within their range, booleans. -/
theorem C13_form_body_decodes_to_value (fs : List Field) (vs : List (Option SVal)) (hnd : (fs.map (·.name)).Nodup)
    (hw : wellTyped fs vs = true) : bind (marshal fs vs) fs = some vs := bind_marshal fs vs hnd hw

/-- An optional member that is nil sends nothing, and nothing else is sent in its name. -/
theorem C13_form_nil_optional_absent (f : Field) (fs : List Field) (vs : List (Option SVal))
    (hnd : ((f :: fs).map (·.name)).Nodup) : lookup (marshal (f :: fs) (none :: vs)) f.name = none := by
  simp only [List.map_cons, List.nodup_cons] at hnd
  exact lookup_absent _ _ (fun kv hkv hk => hnd.1 (hk ▸ marshal_keys fs vs kv hkv))

/-- Non-vacuity, and the shape of the pairs. -/
example : marshal [⟨wB "a", .str, false⟩, ⟨wB "n", .int 32, true⟩, ⟨wB "f", .bool, true⟩] [some (.str (wB "x y")), none, some (.bool true)] =
    [(wB "a", wB "x y"), (wB "f", wB "true")] := by decide

end OapiVerif.Form

namespace OapiVerif.Bodies
open Responses

/-- `GenerateBodyDefinitions`: **one definition per declared media type** — none dropped, none invented, whatever order the
`content` map hands its keys out in — listed in ascending order of the media type. For every set of media types and
whatever `IsMediaTypeJson` / `mediaTypeToCamelCase` compute. -/
theorem C13_one_body_definition_per_media_type (E : Env) (cts : List Str) :
    ((bodyDefs E cts).map (·.contentType)).Perm cts ∧ (bodyDefs E cts).Pairwise Le := by
  refine ⟨?_, sortBodies_sorted _⟩
  unfold bodyDefs
  have h := (sortBodies_perm (cts.map (mkBody E))).map (·.contentType)
  refine h.trans ?_
  rw [List.map_map]
  have : ((fun b : Body => b.contentType) ∘ mkBody E) = id := by funext c; simp [mkBody_ct]
  rw [this, List.map_id]

/-- The typed client method without a suffix, and the unsuffixed `<Op>JSONRequestBody`, belong to `application/json` and to
nothing else: a definition is the default one exactly when its media type is `application/json`. -/
theorem C13_default_body_is_application_json (E : Env) (cts : List Str) (b : Body) (hb : b ∈ bodyDefs E cts) :
    b.dflt = true ↔ b.contentType = appJson := by
  unfold bodyDefs at hb
  obtain ⟨ct, _, rfl⟩ := List.mem_map.mp ((sortBodies_perm _).mem_iff.mp hb)
  rw [mkBody_ct]; exact mkBody_dflt E ct

/-- The names of the methods generated for two non-default bodies (`<Op>With<Tag>Body`) coincide exactly when their tags do. -/
theorem C13_method_suffix_injective_in_tag (a b : Body) (ha : a.dflt = false) (hb : b.dflt = false) :
    a.suffix = b.suffix ↔ a.tag = b.tag := by
  unfold Body.suffix
  simp only [ha, hb, Bool.false_eq_true, if_false]
  constructor
  · intro h
    have h1 := List.append_cancel_left (by simpa [List.append_assoc] using h : w "With" ++ (a.tag ++ w "Body") = w "With" ++ (b.tag ++ w "Body"))
    exact List.append_cancel_right h1
  · intro h; rw [h]

/-- **The model's `classify` is the switch of `GenerateBodyDefinitions` as it stands in the source**: the translator
(harness/mediaswitch.go, go/ast) writes that switch into `Gen/MediaSwitch.lean` on every run; evaluating it the way Go does
(first clause whose condition holds) gives `classify`, for every media type and whatever `IsMediaTypeJson` /
`mediaTypeToCamelCase` compute. A clause added, removed, reordered or edited in operations.go breaks this proof. -/
theorem C13_body_switch_translated (E : Env) (ct : Str) :
    evalSwitch E Gen.MediaSwitch.bodySwitch ct = classify E ct := by
  unfold Gen.MediaSwitch.bodySwitch classify
  simp only [evalSwitch, Cond.holds, appJson, formUrl, textPlain, multipartPrefix]
  by_cases h1 : ct = w "application/json"
  · simp [h1]
  · by_cases h2 : E.isJson ct = true
    · simp [h1, h2]
    · by_cases h3 : (w "multipart/").isPrefixOf ct = true
      · simp [h1, h2, h3]
      · by_cases h4 : ct = w "application/x-www-form-urlencoded"
        · simp [h1, h2, h3, h4]
        · by_cases h5 : ct = w "text/plain"
          · simp [h1, h2, h3, h4, h5]
          · simp [h1, h2, h3, h4, h5]

theorem w_inj (a b : String) (h : w a = w b) : a = b := by
  unfold w at h
  have hinj : ∀ l₁ l₂ : List Char, l₁.map Char.toNat = l₂.map Char.toNat → l₁ = l₂ := by
    intro l₁
    induction l₁ with
    | nil => intro l₂ h; cases l₂ <;> simp_all
    | cons x t ih =>
      intro l₂ h
      cases l₂ with
      | nil => simp at h
      | cons y u =>
        simp only [List.map_cons, List.cons.injEq] at h
        have hxy : x = y := by
          apply Char.ext
          apply UInt32.toNat_inj.mp
          exact h.1
        rw [hxy, ih u h.2]
  exact String.ext (hinj _ _ h)

/-- **Which bodies get a typed request builder and which a typed strict-server body, as it stands in the source**
(`RequestBodyDefinition.IsSupportedByClient` / `IsSupported`, translated into `Gen/BodyRules.lean` on every run): the model's
`supportedByClient` / `supported`, for every body whose tag is the text `t`. -/
theorem C13_body_support_translated (E : Env) (b : Body) (t : String) (ht : b.tag = w t) :
    Gen.BodyRules.supportedByClient (E.isJson b.contentType) t = b.supportedByClient E ∧
    Gen.BodyRules.supported (E.isJson b.contentType) t = b.supported := by
  unfold Gen.BodyRules.supportedByClient Gen.BodyRules.supported Body.supportedByClient Body.supported
  rw [ht]
  have e1 : (t == "Formdata") = decide (w t = w "Formdata") := by
    by_cases h : t = "Formdata"
    · simp [h]
    · have : ¬ w t = w "Formdata" := fun hw => h (w_inj _ _ hw)
      simp [h, this]
  have e2 : (t == "Text") = decide (w t = w "Text") := by
    by_cases h : t = "Text"
    · simp [h]
    · have : ¬ w t = w "Text" := fun hw => h (w_inj _ _ hw)
      simp [h, this]
  have e3 : (t == "") = (w t).isEmpty := by
    by_cases h : t = ""
    · simp [h, w]
    · have : ¬ w t = w "" := fun hw => h (w_inj _ _ hw)
      have hne : (w t).isEmpty = false := by
        cases hw : w t with
        | nil => exact absurd (by rw [hw]; rfl) this
        | cons _ _ => rfl
      simp [h, hne]
  rw [e1, e2, e3]
  exact ⟨rfl, rfl⟩

def demoEnv : Env := ⟨fun ct => ct = appJson || (w "+json").isSuffixOf ct, fun _ => w "ApplicationVndApiPlusJSON"⟩

/-- non-vacuity and the recorded finding (C01 witness `two-multipart-request-media-types`): every media class gets its tag;
two `multipart/*` types of one operation share the tag `Multipart`, hence one type name declared twice. -/
theorem C13_body_tags_witness :
    (bodyDefs demoEnv [w "text/plain", w "application/vnd.api+json", w "application/json", w "image/png",
        w "multipart/form-data", w "application/x-www-form-urlencoded"]).map (fun b => (b.tag, b.dflt)) =
      [(w "JSON", true), (w "ApplicationVndApiPlusJSON", false), (w "Formdata", false), ([], false), (w "Multipart", false), (w "Text", false)] ∧
    (bodyDefs demoEnv [w "multipart/related", w "multipart/form-data"]).map (Body.typeName (w "Op")) =
      [w "OpMultipartRequestBody", w "OpMultipartRequestBody"] := by decide

end OapiVerif.Bodies
