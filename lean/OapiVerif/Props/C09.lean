import OapiVerif.Model.Union
import OapiVerif.Model.UnionJson
import OapiVerif.Props.C07
/-!
C09 — Union types store, return and dispatch the right member.

Model: Model/Union.lean (the discriminator table and dispatch). Ties (harness c09): CORR — the `case` table
of the generated `ValueByDiscriminator` and the value written by every `From*` against `table` / `written`;
RUN — every generated From/As/Merge/Discriminator/ValueByDiscriminator method of every union type of the
compiled package called through reflection on generated member values, JSON round trips of unions with fixed
properties and additional properties, unions nested in properties, arrays and maps.
-/
namespace OapiVerif.Union

theorem lookup_insert_same (m : List (String × String)) (k v : String) : lookup (insert m k v) k = some v := by
  unfold insert lookup
  split
  · rename_i h
    induction m with
    | nil => simp at h
    | cons e t ih =>
      by_cases he : e.1 = k
      · simp [he]
      · have ht : t.any (·.1 = k) = true := by simpa [he] using h
        simpa [he] using ih ht
  · rename_i h
    have : m.find? (fun x => decide (x.1 = k)) = none := by
      simp only [List.find?_eq_none, decide_eq_true_eq]
      intro e he hk
      exact h (by simp only [List.any_eq_true, decide_eq_true_eq]; exact ⟨e, he, hk⟩)
    rw [List.find?_append, this]; simp

theorem find_map_other (m : List (String × String)) (k v k' : String) (hne : k' ≠ k) :
    ((m.map (fun e => if e.1 = k then (k, v) else e)).find? (fun x => decide (x.1 = k'))).map (·.2) =
    (m.find? (fun x => decide (x.1 = k'))).map (·.2) := by
  induction m with
  | nil => rfl
  | cons e t ih =>
    by_cases he : e.1 = k
    · have h1 : ¬ e.1 = k' := fun h => hne (h.symm.trans he)
      have h2 : ¬ k = k' := fun h => hne h.symm
      simp only [List.map_cons, he, if_true, List.find?_cons, h2, decide_false, h1]
      exact ih
    · by_cases he' : e.1 = k'
      · have hk : ¬ k' = k := hne
        simp [he', hk]
      · simp only [List.map_cons, he, if_false, List.find?_cons, he', decide_false]
        exact ih

theorem lookup_insert_other (m : List (String × String)) (k v k' : String) (hne : k' ≠ k) :
    lookup (insert m k v) k' = lookup m k' := by
  unfold insert lookup
  split
  · exact find_map_other m k v k' hne
  · rw [List.find?_append]
    have : ¬ k = k' := fun h => hne h.symm
    cases hf : m.find? (fun x => decide (x.1 = k')) <;> simp [this]

/-- Entries of different elements do not overwrite each other when no value is claimed by two elements. -/
def Disjoint (explicit : Mapping) (name : String → String) (elements : List String) : Prop :=
  ∀ r₁ ∈ elements, ∀ r₂ ∈ elements, ∀ k, k ∈ elementEntries explicit name r₁ → k ∈ elementEntries explicit name r₂ → r₁ = r₂

theorem foldl_insert_lookup (m : List (String × String)) (ks : List String) (v : String) (k : String) :
    lookup (ks.foldl (fun m k => insert m k v) m) k = if k ∈ ks then some v else lookup m k := by
  induction ks generalizing m with
  | nil => simp
  | cons a t ih =>
    simp only [List.foldl_cons, ih, List.mem_cons]
    by_cases hk : k ∈ t
    · simp [hk]
    · by_cases ha : k = a
      · subst ha; simp [hk, lookup_insert_same]
      · simp [hk, ha, lookup_insert_other _ _ _ _ ha]

theorem table_lookup (explicit : Mapping) (name goType : String → String) (elements : List String) (m0 : List (String × String))
    (k : String) :
    lookup (elements.foldl (fun m r => (elementEntries explicit name r).foldl (fun m k => insert m k (goType r)) m) m0) k =
      match (elements.reverse.find? (fun r => k ∈ elementEntries explicit name r)) with
      | some r => some (goType r)
      | none => lookup m0 k := by
  induction elements generalizing m0 with
  | nil => simp
  | cons r rest ih =>
    simp only [List.foldl_cons, List.reverse_cons]
    rw [ih, List.find?_append]
    cases hf : rest.reverse.find? (fun r => decide (k ∈ elementEntries explicit name r)) with
    | some r' => simp
    | none =>
      simp only [Option.none_or, List.find?_cons, List.find?_nil]
      rw [foldl_insert_lookup]
      by_cases hk : k ∈ elementEntries explicit name r <;> simp [hk]

/-- Every explicit value whose reference is an element of the union is in the table with that element's Go
type — also when several values designate one schema. -/
theorem C09_every_mapped_value_dispatches (explicit : Mapping) (name goType : String → String) (elements : List String)
    (hd : Disjoint explicit name elements) (k ref : String) (hk : (k, ref) ∈ explicit) (hr : ref ∈ elements) :
    dispatch (table explicit name goType elements) k = some (goType ref) := by
  unfold dispatch table
  rw [table_lookup]
  have hmem : k ∈ elementEntries explicit name ref := by
    unfold elementEntries
    have : k ∈ (explicit.filter (·.2 = ref)).map (·.1) :=
      List.mem_map.mpr ⟨(k, ref), List.mem_filter.mpr ⟨hk, by simp⟩, rfl⟩
    have hne : ((explicit.filter (·.2 = ref)).map (·.1)).isEmpty = false := by
      cases h : (explicit.filter (·.2 = ref)).map (·.1) with
      | nil => rw [h] at this; cases this
      | cons _ _ => rfl
    simp only [hne, Bool.false_eq_true, if_false]
    exact this
  cases hf : elements.reverse.find? (fun r => decide (k ∈ elementEntries explicit name r)) with
  | none =>
    simp only [List.find?_eq_none, List.mem_reverse, decide_eq_true_eq] at hf
    exact absurd hmem (hf ref hr)
  | some r' =>
    have h1 := List.find?_some hf
    have h2 := List.mem_of_find?_eq_some hf
    simp only [decide_eq_true_eq] at h1
    simp only [List.mem_reverse] at h2
    have : r' = ref := hd r' h2 ref hr k h1 hmem
    simp [this]

/-- An element no explicit value designates is reachable under its schema name. -/
theorem C09_implicit_name_dispatches (explicit : Mapping) (name goType : String → String) (elements : List String)
    (hd : Disjoint explicit name elements) (ref : String) (hr : ref ∈ elements) (hn : ∀ k, (k, ref) ∉ explicit) :
    dispatch (table explicit name goType elements) (name ref) = some (goType ref) := by
  unfold dispatch table
  rw [table_lookup]
  have hmem : name ref ∈ elementEntries explicit name ref := by
    unfold elementEntries
    have : explicit.filter (·.2 = ref) = [] := by
      apply List.filter_eq_nil_iff.mpr
      intro e he
      simp only [decide_eq_true_eq]
      intro h
      exact hn e.1 (by rw [← h]; exact he)
    simp [this]
  cases hf : elements.reverse.find? (fun r => decide (name ref ∈ elementEntries explicit name r)) with
  | none =>
    simp only [List.find?_eq_none, List.mem_reverse, decide_eq_true_eq] at hf
    exact absurd hmem (hf ref hr)
  | some r' =>
    have h1 := List.find?_some hf
    have h2 := List.mem_of_find?_eq_some hf
    simp only [decide_eq_true_eq] at h1
    simp only [List.mem_reverse] at h2
    have : r' = ref := hd r' h2 ref hr _ h1 hmem
    simp [this]

/-- Any other value is an error: a value is dispatched only if some element claims it. -/
theorem C09_unknown_value_is_error (explicit : Mapping) (name goType : String → String) (elements : List String)
    (v : String) (h : ∀ r ∈ elements, v ∉ elementEntries explicit name r) :
    dispatch (table explicit name goType elements) v = none := by
  unfold dispatch table
  rw [table_lookup]
  have : elements.reverse.find? (fun r => decide (v ∈ elementEntries explicit name r)) = none := by
    simp only [List.find?_eq_none, List.mem_reverse, decide_eq_true_eq]
    exact h
  simp [this, lookup]

/-- What `From<T>` writes is a value mapped to `T`. -/
theorem C09_from_writes_a_mapped_value (t : List (String × String)) (sortedKeys : List String) (ty v : String)
    (h : written t sortedKeys ty = some v) : dispatch t v = some ty := by
  unfold written at h
  have := List.mem_of_getLast? h
  simp only [List.mem_filter, decide_eq_true_eq] at this
  exact this.2

/-- Before the repair only one of several values designating a schema reached the table (reproduced on the
real generator together with its run-to-run variation; `fixed:`). With the first designating value only: -/
def elementEntriesOld (explicit : Mapping) (name : String → String) (ref : String) : List String :=
  match (explicit.filter (·.2 = ref)).map (·.1) with
  | [] => [name ref]
  | k :: _ => [k]

theorem C09_many_to_one_witness :
    ∃ (explicit : Mapping) (k ref : String), (k, ref) ∈ explicit ∧ k ∉ elementEntriesOld explicit id ref :=
  ⟨[("cat", "Cat"), ("kitten", "Cat")], "kitten", "Cat", by decide⟩

example : table [("cat", "#/Cat"), ("kitten", "#/Cat"), ("dog", "#/Dog")] (fun r => (r.drop 2).toString) (fun r => (r.drop 2).toString)
    ["#/Cat", "#/Dog", "#/Bird"] = [("cat", "Cat"), ("kitten", "Cat"), ("dog", "Dog"), ("Bird", "Bird")] := by decide

end OapiVerif.Union

namespace OapiVerif.UnionJson
open JsonObj

variable {V : Type}

theorem declaredOut_keys_nodup (zero : V) : ∀ (fs : List Field) (ovs : List (Option V)), (fs.map (·.name)).Nodup →
    ((declaredOut zero fs ovs).map (·.1)).Nodup ∧ ∀ kv ∈ declaredOut zero fs ovs, kv.1 ∈ fs.map (·.name) := by
  intro fs
  induction fs with
  | nil => intro ovs _; cases ovs <;> simp [declaredOut]
  | cons f rest ih =>
    intro ovs hnd
    rw [List.map_cons, List.nodup_cons] at hnd
    cases ovs with
    | nil => simp [declaredOut]
    | cons ov ovs =>
      obtain ⟨h1, h2⟩ := ih ovs hnd.2
      have hsub : ∀ kv ∈ declaredOut zero rest ovs, kv.1 ∈ (f :: rest).map (·.name) :=
        fun kv h => List.mem_cons_of_mem _ (h2 kv h)
      have hcons : ∀ v : V, (((f.name, v) :: declaredOut zero rest ovs).map (·.1)).Nodup ∧
          ∀ kv ∈ (f.name, v) :: declaredOut zero rest ovs, kv.1 ∈ (f :: rest).map (·.name) := by
        intro v
        refine ⟨?_, ?_⟩
        · rw [List.map_cons, List.nodup_cons]
          refine ⟨?_, h1⟩
          intro hm
          obtain ⟨kv, hkv, e⟩ := List.mem_map.mp hm
          have hk := h2 kv hkv
          have e' : kv.1 = f.name := e
          rw [e'] at hk
          exact hnd.1 hk
        · intro kv h
          rcases List.mem_cons.mp h with e | h'
          · rw [e]; exact List.mem_cons_self
          · exact hsub kv h'
      simp only [declaredOut]
      cases ov with
      | some v => exact hcons v
      | none =>
        by_cases hn : f.optNil = true
        · simp only [hn, if_true]; exact ⟨h1, hsub⟩
        · simp only [hn, Bool.false_eq_true, if_false]; exact hcons zero

/-- **Marshalling yields the stored member's JSON merged with the union's own fixed properties**: a member name is looked up
among the own properties that are written (set fields, and nil fields of properties that are not optional) and, when it
is not one of them, in the stored member. For every union value and every member name. -/
theorem C09_marshal_is_member_overlaid_with_own (zero : V) (fs : List Field) (u : U V) (hf : (fs.map (·.name)).Nodup)
    (k : String) :
    lookup (marshal zero fs u) k = (lookup (declaredOut zero fs u.own) k).or (lookup (u.raw.getD []) k) := by
  unfold marshal
  exact lookup_foldl_insert _ _ (declaredOut_keys_nodup zero fs u.own hf).1 k

/-- a name that is no own property comes from the stored member alone -/
theorem C09_marshal_keeps_member_names (zero : V) (fs : List Field) (u : U V) (hf : (fs.map (·.name)).Nodup)
    (k : String) (hk : k ∉ fs.map (·.name)) : lookup (marshal zero fs u) k = lookup (u.raw.getD []) k := by
  rw [C09_marshal_is_member_overlaid_with_own zero fs u hf k]
  have : lookup (declaredOut zero fs u.own) k = none := by
    unfold lookup
    simp only [Option.map_eq_none_iff, List.find?_eq_none, decide_eq_true_eq]
    intro kv hkv e
    exact hk (e ▸ (declaredOut_keys_nodup zero fs u.own hf).2 kv hkv)
  rw [this]; rfl

/-- **Unmarshal followed by marshal is lossless**: every member of a valid instance (the own properties that are not
optional are present) comes back with its value, nothing is invented. -/
theorem C09_unmarshal_marshal_lossless (zero : V) (fs : List Field) (o : List (String × V))
    (hf : (fs.map (·.name)).Nodup) (hv : Valid fs o) (k : String) :
    lookup (marshal zero fs (unmarshal fs o)) k = lookup o k := by
  rw [C09_marshal_is_member_overlaid_with_own zero fs _ hf k]
  show (lookup (declaredOut zero fs (fs.map fun f => lookup o f.name)) k).or (lookup o k) = lookup o k
  rw [lookup_declaredOut zero fs o hf k]
  cases hfind : fs.find? (·.name = k) with
  | none => rfl
  | some f =>
    have hfm := List.mem_of_find?_eq_some hfind
    have hfk : f.name = k := by simpa using List.find?_some hfind
    cases ho : lookup o k with
    | some v => rfl
    | none =>
      by_cases hn : f.optNil = true
      · simp [hn]
      · have := hv f hfm (by simpa using hn)
        rw [hfk, ho] at this
        cases this

/-- After `From<Member>` on a fresh union value: the member's JSON, except that an own property which is not optional (a
required one, nullable or not) is written with its nil/zero encoding over the member's value of that name. -/
theorem C09_from_member_then_marshal (zero : V) (fs : List Field) (member : List (String × V))
    (hf : (fs.map (·.name)).Nodup) (k : String) :
    lookup (marshal zero fs (fromMember (fresh fs) member)) k =
      match fs.find? (·.name = k) with
      | some f => if f.optNil then lookup member k else some zero
      | none => lookup member k := by
  rw [C09_marshal_is_member_overlaid_with_own zero fs _ hf k]
  show (lookup (declaredOut zero fs (fs.map fun _ => (none : Option V))) k).or (lookup member k) = _
  have h := lookup_declaredOut zero fs ([] : List (String × V)) hf k
  have e : (fs.map fun f => lookup ([] : List (String × V)) f.name) = fs.map fun _ => (none : Option V) := by
    apply List.map_congr_left; intro f _; rfl
  rw [e] at h
  rw [h]
  cases fs.find? (·.name = k) with
  | none => rfl
  | some f =>
    have : lookup ([] : List (String × V)) k = none := rfl
    rw [this]
    by_cases hn : f.optNil = true <;> simp [hn]

/-- **A union with additional properties**: unmarshal followed by marshal gives every member of a valid instance back with
its value, provided the additional-properties type represents the members it captures exactly (`re v = v` for the members that
are not own properties — the stored member's own fields are among them); and no additional property carries the name of an own
property. -/
theorem C09_union_additional_lossless (re : V → V) (zero : V) (fs : List Field) (o : List (String × V))
    (hf : (fs.map (·.name)).Nodup) (ho : (o.map (·.1)).Nodup) (hv : Valid fs o)
    (hre : ∀ kv ∈ o, declaredName fs kv.1 = false → re kv.2 = kv.2) (k : String) :
    lookup (marshalA zero fs (unmarshalA re fs o)) k = lookup o k ∧
    ∀ kv ∈ (unmarshalA re fs o).addl, declaredName fs kv.1 = false := by
  constructor
  · unfold marshalA unmarshalA
    simp only
    have hmap : ((o.filter fun kv => !declaredName fs kv.1).map fun kv => (kv.1, re kv.2)) =
        o.filter fun kv => !declaredName fs kv.1 := by
      have : ∀ l : List (String × V), (∀ kv ∈ l, kv ∈ o) →
          ((l.filter fun kv => !declaredName fs kv.1).map fun kv => (kv.1, re kv.2)) = l.filter fun kv => !declaredName fs kv.1 := by
        intro l
        induction l with
        | nil => intro _; rfl
        | cons e t ih =>
          intro hl
          have ht := ih (fun kv h => hl kv (List.mem_cons_of_mem _ h))
          by_cases hd : declaredName fs e.1 = true
          · simp only [List.filter_cons, hd, Bool.not_true, Bool.false_eq_true, if_false]; exact ht
          · have hd' : declaredName fs e.1 = false := by simpa using hd
            simp only [List.filter_cons, hd', Bool.not_false, if_true, List.map_cons, ht]
            rw [hre e (hl e List.mem_cons_self) hd']
      exact this o (fun _ h => h)
    rw [hmap]
    have hnd : ((o.filter fun kv => !declaredName fs kv.1).map (·.1)).Nodup := ((List.filter_sublist).map _).nodup ho
    rw [lookup_foldl_insert _ _ hnd, lookup_filter o (fun k => !declaredName fs k) k]
    have hm := C09_unmarshal_marshal_lossless zero fs o hf hv k
    unfold unmarshal at hm
    rw [hm]
    by_cases hd : declaredName fs k = true
    · simp [hd]
    · have hd' : declaredName fs k = false := by simpa using hd
      simp only [hd', Bool.not_false, if_true]
      cases lookup o k <;> rfl
  · intro kv h
    unfold unmarshalA at h
    simp only [List.mem_map, List.mem_filter, Bool.not_eq_true'] at h
    obtain ⟨e, ⟨_, hd⟩, rfl⟩ := h
    exact hd

/-- The recorded finding as a statement about the model (replayed on the code: `lossless-big-integer:…:addl=true`): a member
the additional-properties type does not represent exactly — an integer beyond 2^53 decoded into `interface{}` — comes back
changed, even when it is a declared property of the stored member. -/
theorem C09_union_additional_inexact_member_witness :
    let re : String → String := fun v => if v = "9007199254740993" then "9007199254740992" else v
    marshalA "null" [⟨"meta", true⟩] (unmarshalA re [⟨"meta", true⟩] [("kind", "\"BigCat\""), ("size", "9007199254740993"), ("meta", "\"m\"")]) =
      [("kind", "\"BigCat\""), ("size", "9007199254740992"), ("meta", "\"m\"")] := by decide

/-- non-vacuity: own properties `meta` (optional) and `name` (required, nullable) over a stored cat -/
example : marshal "null" [⟨"meta", true⟩, ⟨"name", false⟩] (fromMember (fresh [⟨"meta", true⟩, ⟨"name", false⟩]) [("kind", "\"cat\""), ("name", "\"Tom\"")]) =
    [("kind", "\"cat\""), ("name", "null")] := by decide

end OapiVerif.UnionJson
