import OapiVerif.Model.Walks
import OapiVerif.Proofs.Responses
import OapiVerif.Gen.C02
import OapiVerif.Proofs.SchemaOrder
import OapiVerif.Proofs.TypeDedup
/-!
C02 — Generation is deterministic.

Model: Model/Walks.lean — a Go map is an association list with distinct keys, its iteration order any
permutation. Tie: FACT `Gen/C02.lean` — every `range` over a map-typed expression in pkg/codegen
(go/types) with its idiom class; RUN — every generated document is generated repeatedly in one process
and in fresh processes, and from textual permutations of its map keys; bytes (or errors) compared.
-/
namespace OapiVerif.Walks
open OapiVerif.Responses

theorem kle_total (a b : Key) : (kle a b || kle b a) = true := by
  unfold kle klt
  cases h : lexLt b a
  · simp
  · simp [lexLt_asymm _ _ h]

theorem kle_antisymm (a b : Key) (h1 : kle a b = true) (h2 : kle b a = true) : a = b := by
  unfold kle klt at *
  simp only [Bool.not_eq_true'] at h1 h2
  by_cases e : a = b
  · exact e
  · rcases lexLt_total a b e with h | h
    · rw [h] at h2; exact absurd h2 (by simp)
    · rw [h] at h1; exact absurd h1 (by simp)

theorem kle_trans (a b c : Key) (h1 : kle a b = true) (h2 : kle b c = true) : kle a c = true := by
  unfold kle klt at *
  simp only [Bool.not_eq_true'] at *
  cases hca : lexLt c a
  · rfl
  · by_cases e : a = b
    · subst e; rw [hca] at h2; exact absurd h2 (by simp)
    · rcases lexLt_total a b e with h | h
      · have := lexLt_trans c a b hca h
        rw [this] at h2; exact absurd h2 (by simp)
      · rw [h] at h1; exact absurd h1 (by simp)

/-- `SortedMapKeys` does not depend on the iteration order of the map. -/
theorem C02_sortedKeys_perm {α} (m₁ m₂ : List (Key × α)) (h : m₁.Perm m₂) :
    sortedKeys m₁ = sortedKeys m₂ := by
  unfold sortedKeys
  apply List.Perm.eq_of_pairwise (le := fun a b => kle a b = true)
  · intro a b _ _ h1 h2; exact kle_antisymm a b h1 h2
  · exact List.pairwise_mergeSort (fun a b c => kle_trans a b c) kle_total _
  · exact List.pairwise_mergeSort (fun a b c => kle_trans a b c) kle_total _
  · exact (List.mergeSort_perm _ _).trans ((h.map _).trans (List.mergeSort_perm _ _).symm)

theorem lookup_perm {α} (m₁ m₂ : List (Key × α)) (h : m₁.Perm m₂) (hnd : (m₁.map (·.1)).Nodup) (k : Key) :
    lookup m₁ k = lookup m₂ k := by
  have hnd₂ : (m₂.map (·.1)).Nodup := (h.map _).nodup_iff.mp hnd
  have key : ∀ (l : List (Key × α)), (l.map (·.1)).Nodup → ∀ a, l.find? (·.1 = k) = some a ↔ (a ∈ l ∧ a.1 = k) := by
    intro l hl a
    induction l with
    | nil => simp
    | cons x t ih =>
      simp only [List.map_cons, List.nodup_cons, List.mem_map, not_exists, not_and] at hl
      simp only [List.find?_cons]
      by_cases hx : x.1 = k
      · simp only [hx, decide_true, List.mem_cons]
        constructor
        · intro e; simp at e; subst e; exact ⟨Or.inl rfl, hx⟩
        · intro ⟨hm, ha⟩
          rcases hm with rfl | hm
          · rfl
          · exact absurd (ha.trans hx.symm) (fun e => hl.1 a hm e)
      · simp only [hx, decide_false, List.mem_cons]
        rw [ih hl.2]
        constructor
        · intro ⟨hm, ha⟩; exact ⟨Or.inr hm, ha⟩
        · intro ⟨hm, ha⟩
          rcases hm with rfl | hm
          · exact absurd ha hx
          · exact ⟨hm, ha⟩
  unfold lookup
  cases h1 : m₁.find? (·.1 = k) with
  | some a =>
    have := (key m₁ hnd a).mp h1
    rw [(key m₂ hnd₂ a).mpr ⟨h.mem_iff.mp this.1, this.2⟩]
  | none =>
    cases h2 : m₂.find? (·.1 = k) with
    | none => rfl
    | some b =>
      have := (key m₂ hnd₂ b).mp h2
      have := (key m₁ hnd b).mpr ⟨h.mem_iff.mpr this.1, this.2⟩
      rw [h1] at this; exact absurd this (by simp)

/-- A walk through `SortedMapKeys` emits the same sequence whatever the iteration order. -/
theorem C02_sortedEmit_deterministic {α β} (f : Key → α → β) (m₁ m₂ : List (Key × α)) (h : m₁.Perm m₂)
    (hnd : (m₁.map (·.1)).Nodup) : sortedEmit f m₁ = sortedEmit f m₂ := by
  unfold sortedEmit
  rw [C02_sortedKeys_perm m₁ m₂ h]
  congr 1
  funext k
  rw [lookup_perm m₁ m₂ h hnd k]

/-- Counters and any/all flags do not depend on the order. -/
theorem C02_count_deterministic {α} (p : Key → α → Bool) (m₁ m₂ : List (Key × α)) (h : m₁.Perm m₂) :
    countIf p m₁ = countIf p m₂ := (h.filter _).length_eq

/-- A first-match walk is deterministic when at most one entry matches. -/
theorem C02_firstMatch_unique {α β} (p : Key → α → Bool) (f : Key → α → β) (m₁ m₂ : List (Key × α))
    (h : m₁.Perm m₂) (huniq : ∀ a ∈ m₁, ∀ b ∈ m₁, p a.1 a.2 = true → p b.1 b.2 = true → a = b) :
    firstMatch p f m₁ = firstMatch p f m₂ := by
  unfold firstMatch
  have huniq₂ : ∀ a ∈ m₂, ∀ b ∈ m₂, p a.1 a.2 = true → p b.1 b.2 = true → a = b :=
    fun a ha b hb => huniq a (h.mem_iff.mpr ha) b (h.mem_iff.mpr hb)
  have key : ∀ (l : List (Key × α)), (∀ a ∈ l, ∀ b ∈ l, p a.1 a.2 = true → p b.1 b.2 = true → a = b) →
      ∀ x, l.find? (fun kv => p kv.1 kv.2) = some x ↔ (x ∈ l ∧ p x.1 x.2 = true) := by
    intro l hl x
    constructor
    · intro e; exact ⟨List.mem_of_find?_eq_some e, by simpa using List.find?_some e⟩
    · intro ⟨hm, hp⟩
      induction l with
      | nil => cases hm
      | cons y t ih =>
        simp only [List.find?_cons]
        by_cases hy : p y.1 y.2 = true
        · simp only [hy]
          rw [hl y (by simp) x hm hy hp]
        · simp only [hy]
          rcases List.mem_cons.mp hm with rfl | hm'
          · exact absurd hp hy
          · exact ih (fun a ha b hb => hl a (List.mem_cons_of_mem _ ha) b (List.mem_cons_of_mem _ hb)) hm'
  cases h1 : m₁.find? (fun kv => p kv.1 kv.2) with
  | some a =>
    have := (key m₁ huniq a).mp h1
    rw [(key m₂ huniq₂ a).mpr ⟨h.mem_iff.mp this.1, this.2⟩]
  | none =>
    cases h2 : m₂.find? (fun kv => p kv.1 kv.2) with
    | none => rfl
    | some b =>
      have := (key m₂ huniq₂ b).mp h2
      have := (key m₁ huniq b).mpr ⟨h.mem_iff.mpr this.1, this.2⟩
      rw [h1] at this; exact absurd this (by simp)

/-- Negative: an unsorted append and a first match among several matching entries do depend on the order. -/
theorem C02_appendUnsorted_witness :
    ∃ (m₁ m₂ : List (Key × Nat)), m₁.Perm m₂ ∧ appendUnsorted (fun _ v => v) m₁ ≠ appendUnsorted (fun _ v => v) m₂ :=
  ⟨[([1], 1), ([2], 2)], [([2], 2), ([1], 1)], List.Perm.swap _ _ _, by decide⟩

theorem C02_firstMatch_witness :
    ∃ (m₁ m₂ : List (Key × Nat)), m₁.Perm m₂ ∧
      firstMatch (fun _ v => v == 7) (fun k _ => k) m₁ ≠ firstMatch (fun _ v => v == 7) (fun k _ => k) m₂ :=
  ⟨[([1], 7), ([2], 7)], [([2], 7), ([1], 7)], List.Perm.swap _ _ _, by decide⟩

/-- FACT: every `range` over a map in pkg/codegen is of an order-independent idiom, or one of the
recorded order-sensitive sites. -/
theorem C02_sites_table : ∀ s ∈ Gen.C02.sites, siteOk s = true := by decide +kernel

/-! Non-vacuity: a two-entry map, its other iteration order, distinct keys. -/
example : ([([98], 1), ([97], 2)] : List (Key × Nat)).Perm [([97], 2), ([98], 1)] := List.Perm.swap _ _ _
example : (([([98], 1), ([97], 2)] : List (Key × Nat)).map (·.1)).Nodup := by decide

end OapiVerif.Walks

namespace OapiVerif.SchemaOrder
open OapiVerif.Walks

/-- `SortedSchemaKeys` — the order in which component schemas and the properties of an object are declared, `x-order`
included — does not depend on the iteration order of the dictionary: any two hand-out orders of the same entries give
the same key sequence. -/
theorem C02_schema_keys_perm_invariant (m₁ m₂ : List Entry) (h : m₁.Perm m₂) (hnd : (m₁.map (·.key)).Nodup) :
    sortedSchemaKeys m₁ = sortedSchemaKeys m₂ := by
  unfold sortedSchemaKeys
  rw [sortedEntries_perm_invariant m₁ m₂ h hnd]

/-- the comparison on a dictionary of four: a negative order first, no order = 4 before order 5, names among equals -/
example : ole 4 ⟨[99], some (-1)⟩ ⟨[98], none⟩ = true ∧ ole 4 ⟨[98], none⟩ ⟨[100], none⟩ = true ∧
    ole 4 ⟨[100], none⟩ ⟨[97], some 5⟩ = true ∧ ole 4 ⟨[97], some 5⟩ ⟨[98], none⟩ = false := by decide

end OapiVerif.SchemaOrder

namespace OapiVerif.TypeDedup

/-- `constructImportMapping` walks a Go map twice; the package name of a path is the same for any two hand-out orders of
the mapping (and depends on the set of package paths only). -/
theorem C02_import_names_perm_invariant (m₁ m₂ : List (Str × Str)) (h : m₁.Perm m₂) (p : Str) :
    pkgName m₁ p = pkgName m₂ p :=
  pkgName_congr m₁ m₂ (fun x => (h.map (·.2)).mem_iff) p

/-- …and the entries of the result are the same set -/
theorem C02_import_mapping_perm_invariant (m₁ m₂ : List (Str × Str)) (h : m₁.Perm m₂) :
    (construct m₁).Perm (construct m₂) := by
  unfold construct
  have : (fun (x : Str × Str) => (pkgName m₁ x.2).map fun n => (x.1, n, x.2)) =
      (fun (x : Str × Str) => (pkgName m₂ x.2).map fun n => (x.1, n, x.2)) := by
    funext x; rw [C02_import_names_perm_invariant m₁ m₂ h]
  show (m₁.filterMap fun (x : Str × Str) => (pkgName m₁ x.2).map fun n => (x.1, n, x.2)).Perm
    (m₂.filterMap fun (x : Str × Str) => (pkgName m₂ x.2).map fun n => (x.1, n, x.2))
  rw [this]
  exact h.filterMap _

example : pkgName [([1], [9]), ([2], [3])] [9] = pkgName [([2], [3]), ([1], [9])] [9] ∧
    pkgName [([1], [9]), ([2], [3])] [9] = some (externalRef ++ [49]) := by decide

end OapiVerif.TypeDedup
