import OapiVerif.Model.Merge
/-!
C10 — allOf produces the union of its members.

Model: Model/Merge.lean (flat members). Ties (harness c10): CORR — `mergeOpenapiSchemas` through the verif hook
against `merge2` / `mergeList`; RUN — every permutation of sampled compositions, merged struct of the generated
file against the statement, conflicts rejected in every order, JSON instance round trip through the compiled type.
-/
namespace OapiVerif.Merge

theorem mem_keys_insertProp (m : List (String × Nat)) (k : String) (v : Nat) (k' : String) :
    k' ∈ keys (insertProp m k v) ↔ k' ∈ keys m ∨ k' = k := by
  unfold insertProp keys
  split
  · rename_i h
    simp only [List.map_map, List.mem_map, Function.comp]
    constructor
    · rintro ⟨e, he, rfl⟩
      by_cases hk : e.1 = k
      · right; simp [hk]
      · left; exact ⟨e, he, by simp [hk]⟩
    · rintro (⟨e, he, rfl⟩ | rfl)
      · exact ⟨e, he, by by_cases hk : e.1 = k <;> simp [hk]⟩
      · simp only [List.any_eq_true, decide_eq_true_eq] at h
        obtain ⟨e, he, hk⟩ := h
        exact ⟨e, he, by simp [hk]⟩
  · simp [List.mem_append]

theorem mem_keys_mergeProps (p1 p2 : List (String × Nat)) (k : String) :
    k ∈ keys (mergeProps p1 p2) ↔ k ∈ keys p1 ∨ k ∈ keys p2 := by
  unfold mergeProps
  induction p2 generalizing p1 with
  | nil => simp [keys]
  | cons e t ih =>
    simp only [List.foldl_cons]
    rw [ih, mem_keys_insertProp]
    simp only [keys, List.map_cons, List.mem_cons]
    constructor
    · rintro ((h | h) | h)
      · exact Or.inl h
      · exact Or.inr (Or.inl h)
      · exact Or.inr (Or.inr h)
    · rintro (h | h | h)
      · exact Or.inl (Or.inl h)
      · exact Or.inl (Or.inr h)
      · exact Or.inr h

/-- What one successful merge step yields. -/
theorem merge2_ok {s1 s2 r : Flat} (h : merge2 s1 s2 = .ok r) :
    r.props = mergeProps s1.props s2.props ∧ r.required = s1.required ++ s2.required ∧
    r.type = (if s1.type.isSome then s1.type else s2.type) ∧
    ¬ (s1.type.isSome ∧ s2.type.isSome ∧ s1.type ≠ s2.type) ∧ s1.format = s2.format ∧ r.format = s1.format ∧
    (explicitFalse s1 = true ∨ explicitFalse s2 = true → r.addlHas = some false ∧ r.addlSchema = none) ∧
    (explicitFalse s1 = false → explicitFalse s2 = false →
       explicitFalse r = false ∧ ¬ (s1.addlSchema.isSome ∧ s2.addlSchema.isSome) ∧
       r.addlSchema = (if s1.addlSchema.isSome then s1.addlSchema else s2.addlSchema) ∧
       (r.addlSchema = none → (r.addlHas = some true ↔ (s1.addlHas.isSome ∨ s2.addlHas.isSome)))) := by
  unfold merge2 at h
  split at h; · cases h
  rename_i ht
  split at h; · cases h
  rename_i hf
  split at h; · cases h
  split at h; · cases h
  have hf' : s1.format = s2.format := by simpa using hf
  have ht' : ¬ (s1.type.isSome ∧ s2.type.isSome ∧ s1.type ≠ s2.type) := by
    intro ⟨a, b, c⟩; apply ht; simp [a, b, c]
  simp only at h
  split at h
  · rename_i hx
    cases h
    refine ⟨rfl, rfl, rfl, ht', hf', rfl, fun _ => ⟨rfl, rfl⟩, ?_⟩
    intro h1 h2; simp [h1, h2] at hx
  · rename_i hx
    have h1 : explicitFalse s1 = false := by
      cases hh : explicitFalse s1 <;> simp_all
    have h2 : explicitFalse s2 = false := by
      cases hh : explicitFalse s2 <;> simp_all
    split at h
    · cases h
    · cases h
      rename_i a hs1 hs2
      refine ⟨rfl, rfl, rfl, ht', hf', rfl, fun hc => by simp [h1, h2] at hc, fun _ _ => ⟨by simp [explicitFalse], by simp [hs2], by simp [hs1], by simp⟩⟩
    · cases h
      rename_i b hs1 hs2
      refine ⟨rfl, rfl, rfl, ht', hf', rfl, fun hc => by simp [h1, h2] at hc, fun _ _ => ⟨by simp [explicitFalse], by simp [hs1], by simp [hs1, hs2], by simp⟩⟩
    · rename_i hs1 hs2
      split at h
      · cases h
        rename_i hany
        refine ⟨rfl, rfl, rfl, ht', hf', rfl, fun hc => by simp [h1, h2] at hc, fun _ _ => ⟨by simp [explicitFalse], by simp [hs1], by simp [hs1, hs2], fun _ => by simpa using hany⟩⟩
      · cases h
        rename_i hany
        refine ⟨rfl, rfl, rfl, ht', hf', rfl, fun hc => by simp [h1, h2] at hc, fun _ _ => ⟨?_, by simp [hs1], by simp [hs1, hs2], fun _ => ?_⟩⟩
        · simp [explicitFalse]
        · simp only [Bool.or_eq_true, not_or, Bool.not_eq_true] at hany
          simp [hany.1, hany.2]

theorem mergeFrom_cons {acc s : Flat} {rest : List Flat} {r : Flat} (h : mergeFrom merge2 acc (s :: rest) = .ok r) :
    ∃ r0, merge2 acc s = .ok r0 ∧ mergeFrom merge2 r0 rest = .ok r := by
  simp only [mergeFrom] at h
  split at h
  · cases h
  · rename_i r0 h0; exact ⟨r0, h0, h⟩

theorem mergeFrom_props (acc : Flat) (rest : List Flat) (r : Flat) (h : mergeFrom merge2 acc rest = .ok r) (k : String) :
    k ∈ keys r.props ↔ k ∈ keys acc.props ∨ ∃ s ∈ rest, k ∈ keys s.props := by
  induction rest generalizing acc with
  | nil => simp [mergeFrom] at h; subst h; simp
  | cons s rest ih =>
    obtain ⟨r0, h0, h1⟩ := mergeFrom_cons h
    rw [ih r0 h1, (merge2_ok h0).1, mem_keys_mergeProps]
    simp only [List.mem_cons, exists_eq_or_imp]
    constructor
    · rintro ((a | a) | a)
      · exact Or.inl a
      · exact Or.inr (Or.inl a)
      · exact Or.inr (Or.inr a)
    · rintro (a | a | a)
      · exact Or.inl (Or.inl a)
      · exact Or.inl (Or.inr a)
      · exact Or.inr a

theorem mergeFrom_required (acc : Flat) (rest : List Flat) (r : Flat) (h : mergeFrom merge2 acc rest = .ok r) (k : String) :
    k ∈ r.required ↔ k ∈ acc.required ∨ ∃ s ∈ rest, k ∈ s.required := by
  induction rest generalizing acc with
  | nil => simp [mergeFrom] at h; subst h; simp
  | cons s rest ih =>
    obtain ⟨r0, h0, h1⟩ := mergeFrom_cons h
    rw [ih r0 h1, (merge2_ok h0).2.1, List.mem_append]
    simp only [List.mem_cons, exists_eq_or_imp]
    constructor
    · rintro ((a | a) | a)
      · exact Or.inl a
      · exact Or.inr (Or.inl a)
      · exact Or.inr (Or.inr a)
    · rintro (a | a | a)
      · exact Or.inl (Or.inl a)
      · exact Or.inl (Or.inr a)
      · exact Or.inr a

/-- The merged type has exactly the union of the properties of its members. -/
theorem C10_props_union (ms : List Flat) (r : Flat) (h : mergeList ms = .ok r) (k : String) :
    k ∈ keys r.props ↔ ∃ m ∈ ms, k ∈ keys m.props := by
  cases ms with
  | nil => simp [mergeList] at h; subst h; simp [zero, keys]
  | cons s rest =>
    simp only [mergeList] at h
    rw [mergeFrom_props s rest r h]
    simp [List.mem_cons, exists_eq_or_imp]

/-- A property is required iff some member requires it. -/
theorem C10_required_iff (ms : List Flat) (r : Flat) (h : mergeList ms = .ok r) (k : String) :
    k ∈ r.required ↔ ∃ m ∈ ms, k ∈ m.required := by
  cases ms with
  | nil => simp [mergeList] at h; subst h; simp [zero]
  | cons s rest =>
    simp only [mergeList] at h
    rw [mergeFrom_required s rest r h]
    simp [List.mem_cons, exists_eq_or_imp]

/-- Both are sets: the result does not depend on the order of the members. -/
theorem C10_order_independent (ms ms' : List Flat) (r r' : Flat) (hp : ms.Perm ms')
    (h : mergeList ms = .ok r) (h' : mergeList ms' = .ok r') (k : String) :
    (k ∈ keys r.props ↔ k ∈ keys r'.props) ∧ (k ∈ r.required ↔ k ∈ r'.required) := by
  rw [C10_props_union ms r h, C10_props_union ms' r' h', C10_required_iff ms r h, C10_required_iff ms' r' h']
  constructor <;> constructor <;> rintro ⟨m, hm, hk⟩
  · exact ⟨m, hp.mem_iff.mp hm, hk⟩
  · exact ⟨m, hp.mem_iff.mpr hm, hk⟩
  · exact ⟨m, hp.mem_iff.mp hm, hk⟩
  · exact ⟨m, hp.mem_iff.mpr hm, hk⟩

theorem mergeFrom_forbid (acc : Flat) (rest : List Flat) (r : Flat) (h : mergeFrom merge2 acc rest = .ok r)
    (hf : explicitFalse acc = true ∨ ∃ s ∈ rest, explicitFalse s = true) : explicitFalse r = true := by
  induction rest generalizing acc with
  | nil =>
    simp [mergeFrom] at h; subst h
    rcases hf with hf | ⟨s, hs, _⟩
    · exact hf
    · cases hs
  | cons s rest ih =>
    obtain ⟨r0, h0, h1⟩ := mergeFrom_cons h
    have hm := (merge2_ok h0).2.2.2.2.2.2.1
    rcases hf with hf | ⟨x, hx, hxf⟩
    · exact ih r0 h1 (Or.inl (by simp [explicitFalse, (hm (Or.inl hf)).1]))
    · rcases List.mem_cons.mp hx with rfl | hx
      · exact ih r0 h1 (Or.inl (by simp [explicitFalse, (hm (Or.inr hxf)).1]))
      · exact ih r0 h1 (Or.inr ⟨x, hx, hxf⟩)

/-- Additional properties are forbidden in the merged type as soon as one member forbids them. -/
theorem C10_forbid_wins (ms : List Flat) (r : Flat) (h : mergeList ms = .ok r) (hf : ∃ m ∈ ms, explicitFalse m = true) :
    explicitFalse r = true := by
  cases ms with
  | nil => obtain ⟨m, hm, _⟩ := hf; cases hm
  | cons s rest =>
    simp only [mergeList] at h
    obtain ⟨m, hm, hmf⟩ := hf
    rcases List.mem_cons.mp hm with rfl | hm
    · exact mergeFrom_forbid _ rest r h (Or.inl hmf)
    · exact mergeFrom_forbid s rest r h (Or.inr ⟨m, hm, hmf⟩)

theorem mergeFrom_addl (acc : Flat) (rest : List Flat) (r : Flat) (h : mergeFrom merge2 acc rest = .ok r)
    (hn : explicitFalse acc = false ∧ ∀ s ∈ rest, explicitFalse s = false) (a : Nat)
    (ha : acc.addlSchema = some a ∨ ∃ s ∈ rest, s.addlSchema = some a) : r.addlSchema = some a ∧ explicitFalse r = false := by
  induction rest generalizing acc with
  | nil =>
    simp [mergeFrom] at h; subst h
    rcases ha with ha | ⟨s, hs, _⟩
    · exact ⟨ha, hn.1⟩
    · cases hs
  | cons s rest ih =>
    obtain ⟨r0, h0, h1⟩ := mergeFrom_cons h
    have hs : explicitFalse s = false := hn.2 s (by simp)
    obtain ⟨hr0f, hnot, hr0s, _⟩ := (merge2_ok h0).2.2.2.2.2.2.2 hn.1 hs
    have hn' : explicitFalse r0 = false ∧ ∀ x ∈ rest, explicitFalse x = false :=
      ⟨hr0f, fun x hx => hn.2 x (List.mem_cons_of_mem _ hx)⟩
    rcases ha with ha | ⟨x, hx, hxa⟩
    · exact ih r0 h1 hn' (Or.inl (by rw [hr0s]; simp [ha]))
    · rcases List.mem_cons.mp hx with rfl | hx
      · have : acc.addlSchema = none := by
          cases hacc : acc.addlSchema with
          | none => rfl
          | some b => exact absurd ⟨by simp [hacc], by simp [hxa]⟩ hnot
        exact ih r0 h1 hn' (Or.inl (by rw [hr0s]; simp [this, hxa]))
      · exact ih r0 h1 hn' (Or.inr ⟨x, hx, hxa⟩)

/-- … and otherwise they are kept with the value type a member declares. -/
theorem C10_addl_kept (ms : List Flat) (r : Flat) (h : mergeList ms = .ok r) (hn : ∀ m ∈ ms, explicitFalse m = false)
    (a : Nat) (ha : ∃ m ∈ ms, m.addlSchema = some a) : r.addlSchema = some a ∧ explicitFalse r = false := by
  cases ms with
  | nil => obtain ⟨m, hm, _⟩ := ha; cases hm
  | cons s rest =>
    simp only [mergeList] at h
    obtain ⟨m, hm, hma⟩ := ha
    have hn' : explicitFalse s = false ∧ ∀ x ∈ rest, explicitFalse x = false :=
      ⟨hn s (by simp), fun x hx => hn x (List.mem_cons_of_mem _ hx)⟩
    rcases List.mem_cons.mp hm with rfl | hm
    · exact mergeFrom_addl _ rest r h hn' a (Or.inl hma)
    · exact mergeFrom_addl s rest r h hn' a (Or.inr ⟨m, hm, hma⟩)

def firstType (l : List Flat) : Option Nat := l.findSome? (·.type)

theorem mergeFrom_types (acc : Flat) (rest : List Flat) (r : Flat) (h : mergeFrom merge2 acc rest = .ok r) :
    ∀ s ∈ acc :: rest, ∀ t, s.type = some t → firstType (acc :: rest) = some t := by
  induction rest generalizing acc with
  | nil =>
    intro s hs t ht
    simp only [List.mem_singleton] at hs; subst hs
    simp [firstType, List.findSome?, ht]
  | cons x rest ih =>
    obtain ⟨r0, h0, h1⟩ := mergeFrom_cons h
    obtain ⟨_, _, hty, hcompat, _⟩ := merge2_ok h0
    have hfirst : firstType (acc :: x :: rest) = firstType (r0 :: rest) := by
      simp only [firstType, List.findSome?_cons]
      rw [hty]
      cases ha : acc.type <;> simp
    intro s hs t ht
    rw [hfirst]
    rcases List.mem_cons.mp hs with rfl | hs
    · -- the accumulator itself
      apply ih r0 h1 r0 (by simp) t
      rw [hty]; simp [ht]
    · rcases List.mem_cons.mp hs with rfl | hs
      · apply ih r0 h1 r0 (by simp) t
        rw [hty]
        cases ha : acc.type with
        | none => simp [ht]
        | some u =>
          have : acc.type = s.type := by
            apply Classical.byContradiction
            intro hne
            exact hcompat ⟨by simp [ha], by simp [ht], hne⟩
          simp only [ha, ht, Option.some.injEq] at this
          simp [this]
      · exact ih r0 h1 s (List.mem_cons_of_mem _ hs) t ht

/-- Members that disagree on `type` are rejected, wherever they stand in the list and whatever lies between
them (also untyped members). -/
theorem C10_type_conflict_rejected (ms : List Flat) (m₁ m₂ : Flat) (t₁ t₂ : Nat) (h₁ : m₁ ∈ ms) (h₂ : m₂ ∈ ms)
    (ht₁ : m₁.type = some t₁) (ht₂ : m₂.type = some t₂) (hne : t₁ ≠ t₂) : ∃ e, mergeList ms = .error e := by
  cases hm : mergeList ms with
  | error e => exact ⟨e, rfl⟩
  | ok r =>
    exfalso
    cases ms with
    | nil => cases h₁
    | cons s rest =>
      simp only [mergeList] at hm
      have a := mergeFrom_types s rest r hm m₁ h₁ t₁ ht₁
      have b := mergeFrom_types s rest r hm m₂ h₂ t₂ ht₂
      rw [a] at b
      exact hne (Option.some.inj b)

theorem mergeFrom_formats (acc : Flat) (rest : List Flat) (r : Flat) (h : mergeFrom merge2 acc rest = .ok r) :
    ∀ s ∈ rest, s.format = acc.format := by
  induction rest generalizing acc with
  | nil => intro s hs; cases hs
  | cons x rest ih =>
    obtain ⟨r0, h0, h1⟩ := mergeFrom_cons h
    obtain ⟨_, _, _, _, hf, hrf, _⟩ := merge2_ok h0
    intro s hs
    rcases List.mem_cons.mp hs with rfl | hs
    · exact hf.symm
    · rw [ih r0 h1 s hs, hrf]

/-- Members that disagree on `format` are rejected (the code also rejects a format next to no format:
stated as it is). -/
theorem C10_format_conflict_rejected (ms : List Flat) (m₁ m₂ : Flat) (h₁ : m₁ ∈ ms) (h₂ : m₂ ∈ ms)
    (hne : m₁.format ≠ m₂.format) : ∃ e, mergeList ms = .error e := by
  cases hm : mergeList ms with
  | error e => exact ⟨e, rfl⟩
  | ok r =>
    exfalso
    cases ms with
    | nil => cases h₁
    | cons s rest =>
      simp only [mergeList] at hm
      have hall := mergeFrom_formats s rest r hm
      have f1 : m₁.format = s.format := by
        rcases List.mem_cons.mp h₁ with rfl | h
        · rfl
        · exact hall _ h
      have f2 : m₂.format = s.format := by
        rcases List.mem_cons.mp h₂ with rfl | h
        · rfl
        · exact hall _ h
      exact hne (f1.trans f2.symm)

mutual
theorem resolve_props : ∀ (s : Sch) (r : Flat), resolve s = .ok r →
    ∀ k, (k ∈ keys r.props ↔ ∃ l ∈ leaves s, k ∈ keys l.props) ∧ (k ∈ r.required ↔ ∃ l ∈ leaves s, k ∈ l.required)
  | .mk f [], r, h, k => by
    simp only [resolve, Except.ok.injEq] at h; subst h
    simp [leaves]
  | .mk f (m :: ms), r, h, k => by
    simp only [resolve] at h
    have := resolveFrom_props zero (m :: ms) r h k
    simpa [leaves, zero, keys] using this
theorem resolveFrom_props : ∀ (acc : Flat) (ss : List Sch) (r : Flat), resolveFrom acc ss = .ok r →
    ∀ k, (k ∈ keys r.props ↔ k ∈ keys acc.props ∨ ∃ l ∈ leavesL ss, k ∈ keys l.props) ∧
         (k ∈ r.required ↔ k ∈ acc.required ∨ ∃ l ∈ leavesL ss, k ∈ l.required)
  | acc, [], r, h, k => by
    simp only [resolveFrom, Except.ok.injEq] at h; subst h
    simp [leavesL]
  | acc, s :: rest, r, h, k => by
    simp only [resolveFrom] at h
    split at h
    · cases h
    · rename_i r0 hr0
      split at h
      · cases h
      · rename_i a ha
        have h1 := resolve_props s r0 hr0 k
        have h2 := resolveFrom_props a rest r h k
        have hm := merge2_ok ha
        rw [h2.1, h2.2, hm.1, hm.2.1, mem_keys_mergeProps, List.mem_append, h1.1, h1.2]
        simp only [leavesL, List.mem_append]
        constructor
        · constructor
          · rintro ((a | ⟨l, hl, hk⟩) | ⟨l, hl, hk⟩)
            · exact Or.inl a
            · exact Or.inr ⟨l, Or.inl hl, hk⟩
            · exact Or.inr ⟨l, Or.inr hl, hk⟩
          · rintro (a | ⟨l, hl | hl, hk⟩)
            · exact Or.inl (Or.inl a)
            · exact Or.inl (Or.inr ⟨l, hl, hk⟩)
            · exact Or.inr ⟨l, hl, hk⟩
        · constructor
          · rintro ((a | ⟨l, hl, hk⟩) | ⟨l, hl, hk⟩)
            · exact Or.inl a
            · exact Or.inr ⟨l, Or.inl hl, hk⟩
            · exact Or.inr ⟨l, Or.inr hl, hk⟩
          · rintro (a | ⟨l, hl | hl, hk⟩)
            · exact Or.inl (Or.inl a)
            · exact Or.inl (Or.inr ⟨l, hl, hk⟩)
            · exact Or.inr ⟨l, hl, hk⟩
end


/-- allOf is transitive: with nested allOf members the merged type has exactly the union of the properties of all
transitively flattened members, and a property is required iff some leaf requires it (a member that carries a
nested allOf contributes its nested members, not its own attributes — stated as the code behaves). -/
theorem C10_nested_flattened (ms : List Sch) (r : Flat) (h : mergeTop ms = .ok r) (k : String) :
    (k ∈ keys r.props ↔ ∃ l ∈ leavesL ms, k ∈ keys l.props) ∧ (k ∈ r.required ↔ ∃ l ∈ leavesL ms, k ∈ l.required) := by
  cases ms with
  | nil => simp [mergeTop] at h; subst h; simp [leavesL, zero, keys]
  | cons m rest =>
    simp only [mergeTop] at h
    split at h
    · cases h
    · rename_i a ha
      have h1 := resolve_props m a ha k
      have h2 := resolveFrom_props a rest r h k
      rw [h2.1, h2.2, h1.1, h1.2]
      simp only [leavesL, List.mem_append]
      constructor
      · constructor
        · rintro (⟨l, hl, hk⟩ | ⟨l, hl, hk⟩)
          · exact ⟨l, Or.inl hl, hk⟩
          · exact ⟨l, Or.inr hl, hk⟩
        · rintro ⟨l, hl | hl, hk⟩
          · exact Or.inl ⟨l, hl, hk⟩
          · exact Or.inr ⟨l, hl, hk⟩
      · constructor
        · rintro (⟨l, hl, hk⟩ | ⟨l, hl, hk⟩)
          · exact ⟨l, Or.inl hl, hk⟩
          · exact ⟨l, Or.inr hl, hk⟩
        · rintro ⟨l, hl | hl, hk⟩
          · exact Or.inl ⟨l, hl, hk⟩
          · exact Or.inr ⟨l, hl, hk⟩

/-- Before the repair an untyped first member hid the type of the second from the third: `[untyped, object,
string]` merged without an error while `[object, string, untyped]` was rejected (reproduced; `fixed:`). -/
theorem C10_old_type_rule_witness :
    ∃ a b c : Flat, (mergeFrom merge2Old a [b, c]).toBool = true ∧ (mergeFrom merge2Old b [c, a]).toBool = false :=
  ⟨zero, { zero with type := some 1 }, { zero with type := some 2 }, by decide⟩

example : (mergeList [{ zero with type := some 1, props := [("a", 1)], required := ["a"] },
    { zero with props := [("b", 2), ("a", 1)], addlHas := some true }]).toOption.map (fun r => (keys r.props, r.required, r.addlHas)) =
    some (["a", "b"], ["a"], some true) := by decide

end OapiVerif.Merge
