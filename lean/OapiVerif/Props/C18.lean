import OapiVerif.Model.Security
import OapiVerif.Props.C02
import OapiVerif.Props.C19
import OapiVerif.Proofs.QueryWire
import OapiVerif.Gen.SecurityRule
/-!
C18 — Security requirements are carried faithfully on both sides.

Model: Model/Security.lean. Ties (harness c18): CORR in-process — `OperationDefinitions` of the real
generator against `opDefs`, the constants block against `constants`, every request editor of
pkg/securityprovider against the model on seeded requests and credentials; RUN — the context values the
stub handler of the generated server sees, on the seven frameworks, for global / per-operation
requirement lists (absent, empty, one or several schemes, AND/OR, scope lists, names needing sanitising).
-/
namespace OapiVerif.Security
open OapiVerif.Walks OapiVerif.Names

/-! ### Server side -/

/-- Operation-level requirements replace the global ones … -/
theorem C18_override (g rs : List Req) : opDefs g (some rs) = describe rs := rfl

/-- … an empty list clears them … -/
theorem C18_clear (g : List Req) : opDefs g (some []) = [] := rfl

/-- … and an operation without a list inherits the global one. -/
theorem C18_inherit (g : List Req) : opDefs g none = describe g := rfl

theorem lookup_some_iff {α} (m : List (Key × α)) (hnd : (m.map (·.1)).Nodup) (k : Key) (v : α) :
    lookup m k = some v ↔ (k, v) ∈ m := by
  induction m with
  | nil => simp [lookup]
  | cons e t ih =>
    obtain ⟨ek, ev⟩ := e
    simp only [List.map_cons, List.nodup_cons, List.mem_map, not_exists, not_and] at hnd
    by_cases h : ek = k
    · subst h
      simp only [lookup, List.find?_cons, decide_true, Option.map_some, Option.some.injEq, List.mem_cons, Prod.mk.injEq, true_and]
      constructor
      · intro h; exact Or.inl h.symm
      · rintro (h | h)
        · exact h.symm
        · exact absurd rfl (hnd.1 (ek, v) h)
    · have ih' := ih hnd.2
      simp only [lookup] at ih' ⊢
      simp only [List.find?_cons, h, decide_false, List.mem_cons, Prod.mk.injEq]
      rw [ih']
      constructor
      · intro hm; exact Or.inr hm
      · rintro (⟨hk, _⟩ | hm)
        · exact absurd hk.symm h
        · exact hm

/-- The definitions of one requirement are exactly its (scheme, scopes) pairs: nothing dropped, nothing
added, scope lists untouched. -/
theorem C18_describeReq_exact (r : Req) (hnd : (r.map (·.1)).Nodup) (d : Def) :
    d ∈ describeReq r ↔ (d.provider, d.scopes) ∈ r := by
  unfold describeReq sortedEmit sortedKeys
  simp only [List.mem_filterMap, List.mem_mergeSort, List.mem_map, Option.map_eq_some_iff]
  constructor
  · rintro ⟨k, _, v, hl, rfl⟩
    exact (lookup_some_iff r hnd k v).mp hl
  · intro hm
    exact ⟨d.provider, ⟨(d.provider, d.scopes), hm, rfl⟩, d.scopes, (lookup_some_iff r hnd _ _).mpr hm, rfl⟩

/-- … and so are the definitions of a requirement list, whatever the number of alternatives. -/
theorem C18_describe_exact (rs : List Req) (hnd : ∀ r ∈ rs, (r.map (·.1)).Nodup) (d : Def) :
    d ∈ describe rs ↔ ∃ r ∈ rs, (d.provider, d.scopes) ∈ r := by
  unfold describe
  simp only [List.mem_flatMap]
  constructor
  · rintro ⟨r, hr, hd⟩; exact ⟨r, hr, (C18_describeReq_exact r (hnd r hr) d).mp hd⟩
  · rintro ⟨r, hr, hd⟩; exact ⟨r, hr, (C18_describeReq_exact r (hnd r hr) d).mpr hd⟩

/-- The result does not depend on the iteration order of the requirement map. -/
theorem C18_describeReq_order_independent (r₁ r₂ : Req) (h : r₁.Perm r₂) (hnd : (r₁.map (·.1)).Nodup) :
    describeReq r₁ = describeReq r₂ :=
  C02_sortedEmit_deterministic _ r₁ r₂ h hnd

theorem ctxGet_append_last (ws : List (Str × Scopes)) (k : Str) (s : Scopes) :
    ctxGet (ws ++ [(k, s)]) k = some s := by
  simp [ctxGet]

theorem ctxGet_none (ws : List (Str × Scopes)) (key : Str) (h : ∀ w ∈ ws, w.1 ≠ key) : ctxGet ws key = none := by
  unfold ctxGet
  simp only [Option.map_eq_none_iff, List.find?_eq_none, List.mem_reverse, decide_eq_true_eq]
  exact h

theorem ctxGet_some_of_all (ws : List (Str × Scopes)) (key : Str) (s : Scopes)
    (hex : ∃ w ∈ ws, w.1 = key) (hall : ∀ w ∈ ws, w.1 = key → w.2 = s) : ctxGet ws key = some s := by
  unfold ctxGet
  cases hf : ws.reverse.find? (·.1 = key) with
  | none =>
    simp only [List.find?_eq_none, List.mem_reverse, decide_eq_true_eq] at hf
    obtain ⟨w, hw, hk⟩ := hex
    exact absurd hk (hf w hw)
  | some w =>
    have hm := List.mem_of_find?_eq_some hf
    have hp := List.find?_some hf
    simp only [decide_eq_true_eq] at hp
    simp only [List.mem_reverse] at hm
    simp [hall w hm hp]

/-- Under the key of a scheme that applies to the operation the handler finds exactly that scheme's
scopes (when the scheme has one scope list in the operation and no other applying scheme sanitises to the
same key). -/
theorem C18_ctx_exact (U : Uni) (defs : List Def) (p : Key) (s : Scopes)
    (hmem : ⟨p, s⟩ ∈ defs)
    (hkey : ∀ d ∈ defs, keyValue U d.provider = keyValue U p → d.scopes = s) :
    ctxGet (publish U defs) (keyValue U p) = some s := by
  apply ctxGet_some_of_all
  · exact ⟨(keyValue U p, s), by simp only [publish, List.mem_map]; exact ⟨⟨p, s⟩, hmem, rfl⟩, rfl⟩
  · intro w hw hk
    simp only [publish, List.mem_map] at hw
    obtain ⟨d, hd, rfl⟩ := hw
    exact hkey d hd hk

/-- Under any other key nothing is published: schemes that do not apply leave no trace. -/
theorem C18_ctx_nothing_else (U : Uni) (defs : List Def) (key : Str)
    (h : ∀ d ∈ defs, keyValue U d.provider ≠ key) : ctxGet (publish U defs) key = none := by
  apply ctxGet_none
  intro w hw
  simp only [publish, List.mem_map] at hw
  obtain ⟨d, hd, rfl⟩ := hw
  exact h d hd

/-- A cleared operation publishes nothing at all. -/
theorem C18_cleared_publishes_nothing (U : Uni) (g : List Req) (key : Str) :
    ctxGet (publish U (opDefs g (some []))) key = none := by
  simp [C18_clear, publish, ctxGet]

/-- When a scheme occurs in several alternatives the last scope list is the one left in the context. -/
theorem C18_last_write_wins (U : Uni) (defs : List Def) (d : Def) :
    ctxGet (publish U (defs ++ [d])) (keyValue U d.provider) = some d.scopes := by
  simp only [publish, List.map_append, List.map_cons, List.map_nil]
  exact ctxGet_append_last _ _ _

/-- Every scheme that applies to some operation has its constant, with the name the wrappers use. -/
theorem C18_constant_for_every_scheme (U : Uni) (ops : List (List Def)) (defs : List Def) (d : Def)
    (ho : defs ∈ ops) (hd : d ∈ defs) : (keyIdent U d.provider, keyValue U d.provider) ∈ constants U ops := by
  unfold constants keyIdent keyValue
  simp only [List.mem_map, List.mem_mergeSort, List.mem_eraseDups, List.mem_flatten]
  exact ⟨sanitizeGoIdentity U d.provider, ⟨d, ⟨defs, ho, hd⟩, rfl⟩, rfl⟩

/-- Two scheme names that sanitise to one identifier share one key (so `C18_ctx_exact` needs its
hypothesis): `api-key` and `api_key`. -/
theorem C18_keys_collide_witness :
    keyValue asciiUni (w "api-key") = keyValue asciiUni (w "api_key") ∧ w "api-key" ≠ w "api_key" := by decide

/-! ### Client side -/

theorem find_map_upd (f : List Str → List Str) (k k' : Str) (l : List (Str × List Str)) :
    (l.map (fun e => if e.1 = k then (e.1, f e.2) else e)).find? (fun x => decide (x.1 = k')) =
    (l.find? (fun x => decide (x.1 = k'))).map (fun e => if e.1 = k then (e.1, f e.2) else e) := by
  induction l with
  | nil => rfl
  | cons e t ih =>
    simp only [List.map_cons, List.find?_cons]
    have : (if e.1 = k then (e.1, f e.2) else e).1 = e.1 := by split <;> rfl
    rw [this]
    cases decide (e.1 = k') <;> simp [ih]

theorem hGet_upd_same (f : List Str → List Str) (h : List (Str × List Str)) (k : Str) :
    hGet (upd f h k) k = some (f ((hGet h k).getD [])) := by
  unfold upd hGet
  split
  · rename_i hany
    rw [find_map_upd]
    cases hf : h.find? (fun x => decide (x.1 = k)) with
    | none =>
      simp only [List.find?_eq_none, decide_eq_true_eq] at hf
      simp only [List.any_eq_true, decide_eq_true_eq] at hany
      obtain ⟨e, he, hk⟩ := hany
      exact absurd hk (hf e he)
    | some e =>
      have := List.find?_some hf
      simp only [decide_eq_true_eq] at this
      simp [this]
  · rename_i hany
    have hf : h.find? (fun x => decide (x.1 = k)) = none := by
      simp only [List.find?_eq_none, decide_eq_true_eq]
      intro e he hk
      exact hany (by simp only [List.any_eq_true, decide_eq_true_eq]; exact ⟨e, he, hk⟩)
    rw [List.find?_append, hf]
    simp

theorem hGet_upd_other (f : List Str → List Str) (h : List (Str × List Str)) (k k' : Str) (hne : k' ≠ k) :
    hGet (upd f h k) k' = hGet h k' := by
  unfold upd hGet
  split
  · rw [find_map_upd]
    cases hf : h.find? (fun x => decide (x.1 = k')) with
    | none => rfl
    | some e =>
      have := List.find?_some hf
      simp only [decide_eq_true_eq] at this
      have hk : ¬ e.1 = k := fun h => hne (this.symm.trans h)
      simp [hk]
  · rw [List.find?_append]
    have : ¬ k = k' := fun h => hne h.symm
    cases hf : h.find? (fun x => decide (x.1 = k')) <;> simp [this]

structure SameButHeader (k : Str) (r r' : Request) : Prop where
  method : r'.method = r.method
  path : r'.path = r.path
  query : r'.query = r.query
  body : r'.body = r.body
  others : ∀ k', k' ≠ k → hGet r'.headers k' = hGet r.headers k'

/-- Basic: the Authorization header is replaced by exactly `Basic base64(user:password)` — decoding
gives the credentials back — and nothing else changes. -/
theorem C18_basic (user pass : Str) (r : Request) (hu : ∀ b ∈ user, b < 256) (hp : ∀ b ∈ pass, b < 256) :
    (∃ enc, hGet (basic user pass r).headers authorization = some [w "Basic " ++ enc] ∧
            Embed.b64decode enc = some (user ++ [58] ++ pass)) ∧
    SameButHeader authorization r (basic user pass r) := by
  refine ⟨⟨Embed.b64encode (user ++ [58] ++ pass), ?_, ?_⟩, ?_⟩
  · simp [basic, hSet, hGet_upd_same]
  · apply Embed.C19_b64_roundtrip
    intro b hb
    simp only [List.mem_append, List.mem_singleton] at hb
    rcases hb with (hb | hb) | hb
    · exact hu b hb
    · omega
    · exact hp b hb
  · exact ⟨rfl, rfl, rfl, rfl, fun k' hne => by simp [basic, hSet, hGet_upd_other _ _ _ _ hne]⟩

/-- Bearer: exactly `Bearer <token>`, replacing any earlier Authorization, nothing else changes. -/
theorem C18_bearer (token : Str) (r : Request) :
    hGet (bearer token r).headers authorization = some [w "Bearer " ++ token] ∧
    SameButHeader authorization r (bearer token r) :=
  ⟨by simp [bearer, hSet, hGet_upd_same],
   ⟨rfl, rfl, rfl, rfl, fun k' hne => by simp [bearer, hSet, hGet_upd_other _ _ _ _ hne]⟩⟩

/-- API key in a header: the key is added as one more value of that header (earlier values stay). -/
theorem C18_apikey_header (name key : Str) (r : Request) :
    hGet (apiKeyHeader name key r).headers (canonHeader name) = some ((hGet r.headers (canonHeader name)).getD [] ++ [key]) ∧
    SameButHeader (canonHeader name) r (apiKeyHeader name key r) :=
  ⟨by simp [apiKeyHeader, hAdd, hGet_upd_same],
   ⟨rfl, rfl, rfl, rfl, fun k' hne => by simp [apiKeyHeader, hAdd, hGet_upd_other _ _ _ _ hne]⟩⟩

theorem qAdd_eq_upd (q : Codec.Query) (k v : Str) : Codec.qAdd q k v = upd (· ++ [v]) q k := rfl
theorem qLookup_eq_hGet (q : Codec.Query) (k : Str) : Codec.qLookup q k = hGet q k := rfl

/-- API key in the query: the parsed query gains exactly one value under the name, every other
parameter keeps its values, headers and the rest stay. -/
theorem C18_apikey_query (name key : Str) (r : Request) :
    Codec.qLookup (apiKeyQuery name key r).query name = some ((Codec.qLookup r.query name).getD [] ++ [key]) ∧
    (∀ k', k' ≠ name → Codec.qLookup (apiKeyQuery name key r).query k' = Codec.qLookup r.query k') ∧
    (apiKeyQuery name key r).headers = r.headers ∧ (apiKeyQuery name key r).method = r.method ∧
    (apiKeyQuery name key r).path = r.path ∧ (apiKeyQuery name key r).body = r.body := by
  refine ⟨?_, ?_, rfl, rfl, rfl, rfl⟩
  · simp [apiKeyQuery, qAdd_eq_upd, qLookup_eq_hGet, hGet_upd_same]
  · intro k' hne
    simp [apiKeyQuery, qAdd_eq_upd, qLookup_eq_hGet, hGet_upd_other _ _ _ _ hne]

def cookieSafe (key : Str) : Prop := key ≠ [] ∧ ∀ b ∈ key, validCookieValueByte b = true ∧ b ≠ 32 ∧ b ≠ 44

theorem sanitizeCookieValue_safe (key : Str) (h : cookieSafe key) : sanitizeCookieValue key = key := by
  obtain ⟨hne, hb⟩ := h
  have hf : key.filter validCookieValueByte = key := List.filter_eq_self.mpr (fun b hbm => (hb b hbm).1)
  unfold sanitizeCookieValue
  simp only [hf, hne, if_false]
  have h32 : ¬ 32 ∈ key := fun hm => (hb 32 hm).2.1 rfl
  have h44 : ¬ 44 ∈ key := fun hm => (hb 44 hm).2.2 rfl
  simp [h32, h44]

/-- API key in a cookie: for a credential made of cookie octets, `name=key` is appended to the
existing cookies (or becomes the Cookie header), nothing else changes. -/
theorem C18_apikey_cookie (name key : Str) (r : Request) (hk : cookieSafe key)
    (hn : ∀ b ∈ name, b ≠ 10 ∧ b ≠ 13) :
    (hGet (apiKeyCookie name key r).headers cookieHdr =
      some [match hGet r.headers cookieHdr with
            | some (c :: _) => if c = [] then name ++ [61] ++ key else c ++ w "; " ++ (name ++ [61] ++ key)
            | _ => name ++ [61] ++ key]) ∧
    SameButHeader cookieHdr r (apiKeyCookie name key r) := by
  have hname : sanitizeCookieName name = name := by
    unfold sanitizeCookieName
    conv => rhs; rw [← List.map_id name]
    apply List.map_congr_left
    intro b hb
    have := hn b hb
    simp [this.1, this.2]
  unfold apiKeyCookie
  simp only [sanitizeCookieValue_safe key hk, hname]
  constructor
  · split
    · rename_i c t hc
      split <;> simp [hSet, hGet_upd_same, hc, *]
    · rename_i hnone
      cases hg : hGet r.headers cookieHdr with
      | none => simp [hSet, hGet_upd_same, hg]
      | some l =>
        cases l with
        | nil => simp [hSet, hGet_upd_same, hg]
        | cons c t => exact absurd hg (hnone c t)
  · split
    · split <;> exact ⟨rfl, rfl, rfl, rfl, fun k' hne => by simp [hSet, hGet_upd_other _ _ _ _ hne]⟩
    · exact ⟨rfl, rfl, rfl, rfl, fun k' hne => by simp [hSet, hGet_upd_other _ _ _ _ hne]⟩

section QueryWire
open OapiVerif.Codec

theorem qLookup_mem (q : Query) (k : List Nat) (vs : List (List Nat)) (h : qLookup q k = some vs) : (k, vs) ∈ q := by
  unfold qLookup at h
  simp only [Option.map_eq_some_iff] at h
  obtain ⟨e, hf, rfl⟩ := h
  have h1 := List.find?_some hf
  have h2 := List.mem_of_find?_eq_some hf
  simp only [decide_eq_true_eq] at h1
  subst h1
  exact h2

theorem qLookup_none (q : Query) (k : List Nat) (h : k ∉ q.map (·.1)) : qLookup q k = none := by
  unfold qLookup
  simp only [Option.map_eq_none_iff, List.find?_eq_none, decide_eq_true_eq]
  intro e he hk
  exact h (List.mem_map.mpr ⟨e, he, hk⟩)

/-- The query editor at wire level: what `url.ParseQuery` reads from `Values.Encode` of a query has, under every
name, exactly the values of that name in their order — nothing lost to escaping, whatever bytes names and values
contain. -/
theorem C18_query_wire_roundtrip (q : Query) (hk : (q.map (·.1)).Nodup)
    (hb : ∀ e ∈ q, Bytes e.1 ∧ ∀ v ∈ e.2, Bytes v) :
    ∃ q', parseQuery (encodeQuery q) = .ok q' ∧ ∀ k, (qLookup q' k).getD [] = (qLookup q k).getD [] := by
  have hbytes : ∀ kv ∈ pairsOf q, Bytes kv.1 ∧ Bytes kv.2 := by
    intro kv hkv
    simp only [pairsOf, List.mem_flatMap, List.mem_mergeSort, List.mem_map] at hkv
    obtain ⟨k, ⟨e, he, rfl⟩, v, hv, rfl⟩ := hkv
    refine ⟨(hb e he).1, ?_⟩
    cases hl : qLookup q e.1 with
    | none => simp [hl] at hv
    | some vs =>
      simp only [hl, Option.getD_some] at hv
      have := qLookup_mem q e.1 vs hl
      exact (hb _ this).2 v hv
  refine ⟨_, parse_encode q hbytes, ?_⟩
  intro k
  rw [getD_foldl_qAdd]
  have hnd : ((q.map (·.1)).mergeSort Walks.kle).Nodup := (List.mergeSort_perm _ _).nodup_iff.mpr hk
  unfold pairsOf
  rw [filter_flatMap_key _ (fun a => (qLookup q a).getD []) hnd k]
  by_cases hm : k ∈ (q.map (·.1)).mergeSort Walks.kle
  · simp [hm, qLookup]
  · have : k ∉ q.map (·.1) := fun h => hm (List.mem_mergeSort.mpr h)
    have hn := qLookup_none q k this
    simp only [hm, if_false, List.append_nil]
    rw [hn]; simp [qLookup]

end QueryWire

example : describe [[(w "a", [w "r"])], [(w "c", [w "x", w "y"])]] = [⟨w "a", [w "r"]⟩, ⟨w "c", [w "x", w "y"]⟩] := by
  simp [describe, describeReq, sortedEmit, sortedKeys, lookup]
example : keyIdent asciiUni (w "api-key") = w "Api_keyScopes" ∧ keyValue asciiUni (w "api-key") = w "api_key.Scopes" := by decide
example : cookieSafe (w "abc123") := by unfold cookieSafe; decide

end OapiVerif.Security

namespace OapiVerif.Security

/-- **The override rule as it stands in the source** (`OperationDefinitions`, translated by harness/secrule.go into
`Gen/SecurityRule.lean` on every run) is the model's `opDefs`: an operation that has a security list of its own — an empty one
included — carries that list, an operation without one the global list. The translator also checks that the security
definitions of an operation are assigned in these two places and nowhere else. -/
theorem C18_security_rule_translated (global : List Req) (op : Option (List Req)) :
    evalRule Gen.SecurityRule.rule global op = opDefs global op := by
  unfold Gen.SecurityRule.rule evalRule opDefs pick
  cases op <;> simp

end OapiVerif.Security
