import OapiVerif.Model.Names
import OapiVerif.Gen.C01
import OapiVerif.Proofs.Comment
import OapiVerif.Proofs.RefPath
import OapiVerif.Proofs.TypeDedup
import OapiVerif.Model.OpId
/-!
C01 — Generated code compiles, for every supported spec and configuration.

What a proof can carry here is the naming layer (Model/Names.lean): the identifiers the generator
derives from arbitrary spellings. That the whole output type-checks against the framework libraries is
not expressible in any model available; it is the compile gate of the harness (RUN, sampled) and the
evidence says so — the property is claimed PARTIAL.
Tie: CORR of every function of Model/Names.lean with pkg/codegen/utils.go on seeded names (all
scripts, every separator, keywords, Nl/No numbers), FACT `Gen/C01.lean` (the real IsGoKeyword /
IsPredeclaredGoIdentifier executed on every Go keyword and every universe name).
-/
namespace OapiVerif.Names

/-- `IsValidGoIdentity` of the real code: not (all runes valid ∧ keyword), and not predeclared. -/
def isValidGoIdentity (U : Uni) (s : Str) : Bool :=
  !((s.zipIdx.all fun (c, i) => validRune U i c) && goKeywords.contains s) && !predeclared.contains s

theorem no_keyword_starts_with_underscore : ∀ k ∈ goKeywords ++ predeclared, k.head? ≠ some 95 := by decide

/-- `SanitizeGoIdentity` never reaches its `panic("here is a bug")`: the result always passes
`IsValidGoIdentity`, whatever the input and whatever the Unicode tables. -/
theorem C01_sanitize_never_panics (U : Uni) (s : Str) : isValidGoIdentity U (sanitizeGoIdentity U s) = true := by
  unfold sanitizeGoIdentity
  simp only
  generalize (s.zipIdx.map fun (x : Nat × Nat) => if validRune U x.2 x.1 then x.1 else 95) = m
  have hk : ∀ l : List Str, (∀ k ∈ l, k.head? ≠ some 95) → ∀ t : Str, l.contains (95 :: t) = false := by
    intro l hl t
    rw [Bool.eq_false_iff]; intro hc
    have := List.contains_iff_mem.mp hc
    exact hl _ this rfl
  have h1 := hk goKeywords (fun k hk' => no_keyword_starts_with_underscore k (List.mem_append_left _ hk'))
  have h2 := hk predeclared (fun k hk' => no_keyword_starts_with_underscore k (List.mem_append_right _ hk'))
  unfold isValidGoIdentity
  by_cases h : (goKeywords.contains m || predeclared.contains m) = true
  · rw [if_pos h, h1 m, h2 m]; simp
  · rw [if_neg h]
    simp only [Bool.or_eq_true, not_or, Bool.not_eq_true] at h
    rw [h.1, h.2]; simp

/-- Every rune of a sanitised name is one the sanitiser considers valid at its position. -/
theorem C01_sanitize_runes (U : Uni) (s : Str) :
    ∀ c ∈ (s.zipIdx.map fun (c, i) => if validRune U i c then c else 95), (U.isLetter c || c == 95 || U.isNumber c) = true := by
  intro c hc
  simp only [List.mem_map] at hc
  obtain ⟨⟨x, i⟩, _, rfl⟩ := hc
  by_cases hv : validRune U i x = true
  · simp only [hv, if_true]
    unfold validRune at hv
    split at hv
    · exact absurd hv (by simp)
    · exact hv
  · simp [hv]

/-- `ToCamelCase` emits only runes the tables call upper case, digit, lower case, or the upper-case
image of a lower-case rune: separators and every other symbol disappear. -/
theorem C01_camel_runes (U : Uni) : ∀ (s : Str) (cap : Bool), ∀ c ∈ camelGo U cap s,
    U.isUpper c = true ∨ U.isDigit c = true ∨ U.isLower c = true ∨ ∃ v, U.isLower v = true ∧ c = U.toUpper v := by
  intro s
  induction s with
  | nil => intro cap c hc; simp [camelGo] at hc
  | cons v rest ih =>
    intro cap c hc
    simp only [camelGo, List.mem_append] at hc
    rcases hc with ((h | h) | h) | h
    · split at h <;> simp at h
      next hu => left; rw [h]; exact hu
    · split at h <;> simp at h
      next hd => right; left; rw [h]; exact hd
    · split at h <;> simp at h
      next hl =>
        by_cases hcap : cap = true
        · simp [hcap] at h; right; right; right; exact ⟨v, hl, h⟩
        · simp [hcap] at h; right; right; left; rw [h]; exact hl
    · exact ih _ c h

/-- `typeNamePrefix` of an empty name is "Empty"; a result is never produced from nothing. -/
theorem C01_empty_name_prefixed (U : Uni) (norm : Str → Str) :
    schemaNameToTypeName U norm [] = w "Empty" ++ norm [] := rfl

/-- A name starting with a digit gets the prefix N (so the type name cannot start with a digit). -/
theorem C01_leading_digit_prefixed (U : Uni) (d : Nat) (rest : Str) (hd : U.isDigit d = true)
    (h36 : d ≠ 36) (hp : prefixWordL d = none) :
    typeNamePrefix U (d :: rest) = w "N" := by
  simp [typeNamePrefix, typeNamePrefixGo, h36, hp, hd]

/-- FACT: the keyword / predeclared lists of the model are the real predicates on every Go keyword and
every name of the universe scope. -/
theorem C01_word_tables : ∀ r ∈ Gen.C01.wordRows,
    (goKeywords.contains r.1 == r.2.1 && predeclared.contains r.1 == r.2.2) = true := by
  decide +kernel

/-- Negative finding (full statement: "the sanitised name is a valid Go identifier"). Go identifiers
admit only decimal digits (Nd) after the first letter, while the sanitiser keeps every rune
`unicode.IsNumber` accepts; with Go's tables (isNumber '²' = true) the name "a²" is returned
unchanged and the output does not parse. Replayed as witness `security-scheme-name-with-superscript`. -/
theorem C01_superscript_witness (U : Uni) (hU : U.isNumber 178 = true) (ha : U.isLetter 97 = true)
    (hn : U.isNumber 97 = false) : sanitizeGoIdentity U [97, 178] = [97, 178] := by
  have h0 : validRune U 0 97 = true := by simp [validRune, ha, hn]
  have h1 : validRune U 1 178 = true := by simp [validRune, hU]
  have hk : goKeywords.contains [97, 178] = false := by decide
  have hp : predeclared.contains [97, 178] = false := by decide
  simp [sanitizeGoIdentity, List.zipIdx, h0, h1]
  simp only [List.contains_eq_mem, decide_eq_false_iff_not] at hk hp
  exact ⟨hk, hp⟩

/-! Non-vacuity -/
example : toCamelCase asciiUni (w "get-http_pet ") = w "GetHttpPet" := by decide
example : sanitizeGoIdentity asciiUni (w "type") = w "_type" := by decide
example : schemaNameToTypeName asciiUni (toCamelCase asciiUni) (w "1abc") = w "N1abc" := by decide

end OapiVerif.Names

namespace OapiVerif.Comment

/-- A description — any text: newlines of every kind, `*/`, quotes, Go code — never leaves its comment: what
`toGoComment` / `StringToGoComment` / `DeprecationComment` render is empty or a sequence of lines each beginning with `//`
(the type name that may stand in the first line has no newline). A `//` comment ends at the newline and nowhere else, so
nothing of the description is ever read as Go. -/
theorem C01_description_stays_in_comment (input prefx : Str) (hp : 10 ∉ prefx) :
    allCommented (comment input prefx) = true := comment_all_commented input prefx hp

/-- No carriage return survives (gofmt would otherwise see a different line structure than the compiler). -/
theorem C01_comment_has_no_carriage_return (input prefx : Str) (hp : 13 ∉ prefx) : 13 ∉ comment input prefx := by
  unfold comment
  split
  · simp
  · intro h
    have h' : 13 ∈ first prefx ++ body (normalize input) := by
      unfold trimTail at h
      split at h
      · exact List.mem_of_mem_take h
      · exact h
    simp only [List.mem_append] at h'
    rcases h' with h' | h'
    · unfold first at h'
      split at h' <;> simp [slashes, hp] at h'
    · rcases mem_body _ _ h' with h'' | h'' | h'' | h''
      · exact mem_normalize _ _ h'' rfl
      all_goals omega

/-- An empty or all-blank description gives no comment at all. -/
theorem C01_blank_description_no_comment (input prefx : Str) (h : input.all isSpace = true) : comment input prefx = [] := by
  simp [comment, h]

/-- Non-vacuity: a description that tries to close the comment and open code. -/
example : comment [97, 13, 10, 42, 47, 10, 102, 117, 110, 99, 10] [84] =
    [47, 47, 32, 84, 32, 97, 10, 47, 47, 32, 42, 47, 10, 47, 47, 32, 102, 117, 110, 99] := by decide

end OapiVerif.Comment

namespace OapiVerif.RefPath

/-- Last clause of C01: the type of a reference into another document depends on that document's name, the import
mapping and the naming function only — not on what the referring document itself declares. -/
theorem C01_remote_reference_ignores_local_components (env env' : Env) (c : Nat) (t : Str) (hc : c ≠ hash)
    (himp : env.imports = env'.imports) (htn : env.typeName = env'.typeName) :
    refPathToGoType env (c :: t) = refPathToGoType env' (c :: t) :=
  remote_ignores_local env env' (c :: t) c t rfl hc himp htn

/-- A reference into another document that is rendered is a type of the package mapped to that document. -/
theorem C01_remote_reference_is_package_qualified (env : Env) (c : Nat) (t out : Str) (hc : c ≠ hash)
    (h : refPathToGoType env (c :: t) = .ok out) :
    ∃ remote pkg u, (remote, pkg) ∈ env.imports ∧ out = pkg ++ [dot] ++ u :=
  remote_is_qualified env (c :: t) c t out rfl hc h

def s (x : String) : Str := x.toList.map Char.toNat

/-- the environment of the witness: this document has a component Pet renamed to LocalPet; common.json is mapped -/
def exEnv : Env :=
  { renamed := fun sec key => if sec = s "schemas" ∧ key = s "Pet" then some (s "LocalPet") else none,
    imports := [(s "common.json", s "externalRef0")],
    typeName := id }

/-- Pre-repair witness (replayed on the code: multi-document feature `same-name`, repaired in /repo): the reference was
renamed after the local component and pointed at a type the other package does not declare. -/
theorem C01_remote_reference_old_witness :
    refPathToGoTypeOld exEnv (s "common.json#/components/schemas/Pet") = .ok (s "externalRef0.LocalPet") ∧
    refPathToGoType exEnv (s "common.json#/components/schemas/Pet") = .ok (s "externalRef0.Pet") ∧
    refPathToGoType exEnv (s "#/components/schemas/Pet") = .ok (s "LocalPet") ∧
    refPathToGoType exEnv (s "other.json#/components/schemas/Pet") = .error .unmapped ∧
    refPathToGoType exEnv (s "#/components/schemas") = .error .depth ∧
    refPathToGoType exEnv (s "common.json#/Pet") = .ok (s "externalRef0.Pet") := by decide

end OapiVerif.RefPath

namespace OapiVerif.TypeDedup

/-- `GenerateTypes`, success: **every type name is declared once** (two declarations of one name do not compile), the
declarations are exactly the collected ones (none dropped, none invented) and they keep their order. For every list of
collected definitions. -/
theorem C01_types_declared_once (ts out : List TD) (h : generateTypes ts = .ok out) :
    (out.map (·.name)).Nodup ∧ (∀ t, t ∈ out ↔ t ∈ ts) ∧ out.Sublist ts := by
  obtain ⟨h1, h2, l, hl, ho⟩ := go_ok ts [] out h (by simp)
  refine ⟨h1, fun t => by simpa using h2 t, ?_⟩
  simpa [ho] using hl

/-- `GenerateTypes`, refusal: exactly when two collected definitions share a name and differ (the error names it);
equal definitions under one name are folded, never refused. -/
theorem C01_types_conflict_rejected_iff (ts : List TD) :
    (∃ e, generateTypes ts = .error e) ↔ ∃ a ∈ ts, ∃ b ∈ ts, a.name = b.name ∧ a.body ≠ b.body := by
  constructor
  · rintro ⟨e, h⟩
    obtain ⟨a, b, ha, hb, hae, hbe, hne⟩ := go_err ts [] e h
    exact ⟨a, by simpa using ha, b, hb, by rw [hae, hbe], hne⟩
  · rintro ⟨a, ha, b, hb, hn, hne⟩
    cases hr : generateTypes ts with
    | error e => exact ⟨e, rfl⟩
    | ok out =>
      obtain ⟨h1, h2, _⟩ := C01_types_declared_once ts out hr
      have := inj_of_nodup_map (·.name) out h1 a ((h2 a).mpr ha) b ((h2 b).mpr hb) hn
      exact absurd (by rw [this]) hne

theorem C01_types_error_names_the_clash (ts : List TD) (e : Str) (h : generateTypes ts = .error e) :
    ∃ a ∈ ts, ∃ b ∈ ts, a.name = e ∧ b.name = e ∧ a.body ≠ b.body := by
  obtain ⟨a, b, ha, hb, hae, hbe, hne⟩ := go_err ts [] e h
  exact ⟨a, by simpa using ha, b, hb, hae, hbe, hne⟩

/-- The methods of a type (additional properties, union accessors) are generated for **exactly the declared types that
need them, once each, in the order of the declarations**: the boilerplate generators and `GenerateTypes` take the same
definition of every name. (A method declared twice, or for a type that is not declared, does not compile.) -/
theorem C01_boilerplate_follows_declarations (needs : Nat → Bool) (ts out : List TD) (h : generateTypes ts = .ok out) :
    boilerplate needs ts = out.filter fun t => needs t.body := by
  have := go_firsts ts [] out h
  simp only [List.reverse_nil, List.map_nil, List.nil_append] at this
  rw [this]; rfl

/-- Pre-repair witness (replayed on the code: C01 witnesses `shared-type-name-union`, `…-union-additional-properties`,
repaired in /repo): the union generators took every collected definition, so one inline union under one `x-go-type-name` in
two places was declared once and given its methods twice. -/
theorem C01_union_boilerplate_old_witness :
    generateTypes [⟨[76], 1⟩, ⟨[79], 2⟩, ⟨[76], 1⟩] = .ok [⟨[76], 1⟩, ⟨[79], 2⟩] ∧
    boilerplateOld (· == 1) [⟨[76], 1⟩, ⟨[79], 2⟩, ⟨[76], 1⟩] = [⟨[76], 1⟩, ⟨[76], 1⟩] ∧
    boilerplate (· == 1) [⟨[76], 1⟩, ⟨[79], 2⟩, ⟨[76], 1⟩] = [⟨[76], 1⟩] := by decide

/-- non-vacuity: a repeated equal definition is folded, a differing one refused -/
example : generateTypes [⟨[80], 1⟩, ⟨[81], 2⟩, ⟨[80], 1⟩] = .ok [⟨[80], 1⟩, ⟨[81], 2⟩] ∧
    generateTypes [⟨[80], 1⟩, ⟨[81], 2⟩, ⟨[80], 3⟩] = .error [80] := by decide

/-- `constructImportMapping`: every document of the mapping gets a package name, and **two documents get the same name
exactly when they are mapped to the same package path** — one import per package, no two packages under one name
(either would not compile). For every mapping. -/
theorem C01_import_names_distinct_iff_paths (m : List (Str × Str)) :
    (∀ d p, (d, p) ∈ m → ∃ n, (d, n, p) ∈ construct m) ∧
    (∀ d₁ n₁ p₁ d₂ n₂ p₂, (d₁, n₁, p₁) ∈ construct m → (d₂, n₂, p₂) ∈ construct m → (n₁ = n₂ ↔ p₁ = p₂)) := by
  have hmem : ∀ d n p, (d, n, p) ∈ construct m → (d, p) ∈ m ∧ pkgName m p = some n := by
    intro d n p h
    unfold construct at h
    obtain ⟨⟨d', p'⟩, hm, hx⟩ := List.mem_filterMap.mp h
    cases hk : pkgName m p' with
    | none => simp [hk] at hx
    | some k =>
      simp only [hk, Option.map_some, Option.some.injEq, Prod.mk.injEq] at hx
      obtain ⟨rfl, rfl, rfl⟩ := hx
      exact ⟨hm, hk⟩
  constructor
  · intro d p h
    obtain ⟨n, hn⟩ := pkgName_some m d p h
    refine ⟨n, ?_⟩
    unfold construct
    exact List.mem_filterMap.mpr ⟨(d, p), h, by simp [hn]⟩
  · intro d₁ n₁ p₁ d₂ n₂ p₂ h1 h2
    obtain ⟨_, a⟩ := hmem _ _ _ h1
    obtain ⟨_, b⟩ := hmem _ _ _ h2
    constructor
    · intro e; subst e; exact pkgName_inj m p₁ p₂ n₁ a b
    · intro e; subst e; rw [a] at b; exact Option.some.inj b

def s (x : String) : Str := x.toList.map Char.toNat

/-- non-vacuity: two documents of one package share `externalRef0`, a second package is `externalRef1` -/
example : construct [(s "b.yaml", s "x/pkg"), (s "a.yaml", s "x/pkg"), (s "c.yaml", s "x/zzz"), (s "d.yaml", s "a/pkg")] =
    [(s "b.yaml", s "externalRef1", s "x/pkg"), (s "a.yaml", s "externalRef1", s "x/pkg"),
     (s "c.yaml", s "externalRef2", s "x/zzz"), (s "d.yaml", s "externalRef0", s "a/pkg")] := by decide

end OapiVerif.TypeDedup

namespace OapiVerif.OpId

theorem checkIds_spec : ∀ (ids seen : List Str), seen.Nodup →
    (checkIds ids seen = .ok () → (ids.reverse ++ seen).Nodup) ∧
    (∀ e, checkIds ids seen = .error e → e ∈ ids ∧ (e ∈ seen ∨ 2 ≤ ids.count e)) := by
  intro ids
  induction ids with
  | nil => intro seen h; simp [checkIds, h]
  | cons i rest ih =>
    intro seen hs
    simp only [checkIds]
    by_cases hc : seen.contains i = true
    · simp only [hc, if_true]
      refine ⟨fun h => (by cases h), ?_⟩
      intro e he
      simp only [Except.error.injEq] at he
      subst he
      exact ⟨List.mem_cons_self, Or.inl (by simpa using hc)⟩
    · simp only [hc, Bool.false_eq_true, if_false]
      have hni : i ∉ seen := by simpa using hc
      have hs' : (i :: seen).Nodup := List.nodup_cons.mpr ⟨hni, hs⟩
      obtain ⟨h1, h2⟩ := ih (i :: seen) hs'
      constructor
      · intro h
        have := h1 h
        simpa [List.reverse_cons, List.append_assoc] using this
      · intro e he
        obtain ⟨hm, hor⟩ := h2 e he
        refine ⟨List.mem_cons_of_mem _ hm, ?_⟩
        rcases hor with hin | hcnt
        · rcases List.mem_cons.mp hin with e1 | e2
          · right
            subst e1
            have : 1 ≤ rest.count e := List.count_pos_iff.mpr hm
            simp only [List.count_cons_self]; omega
          · exact Or.inl e2
        · right
          by_cases e1 : i = e
          · subst e1; simp only [List.count_cons_self]; omega
          · have e1' : (i == e) = false := by simpa using e1
            simp only [List.count_cons, e1', Bool.false_eq_true, if_false, Nat.add_zero]; exact hcnt

/-- **No two operations of a generated file share an identifier**: when the check of `OperationDefinitions` lets a document
through, the identifiers of its operations are pairwise distinct; when it refuses, the identifier it names belongs to two of
them. For every list of identifiers. -/
theorem C01_operation_ids_distinct_or_refused (ids : List Str) :
    (checkIds ids [] = .ok () → ids.Nodup) ∧ (∀ e, checkIds ids [] = .error e → 2 ≤ ids.count e) := by
  obtain ⟨h1, h2⟩ := checkIds_spec ids [] (by simp)
  constructor
  · intro h
    have := h1 h
    simp only [List.append_nil] at this
    exact (List.reverse_perm ids).nodup_iff.mp this
  · intro e he
    rcases (h2 e he).2 with h | h
    · cases h
    · exact h

/-- The input of the repaired defect (C01 witness `two-operations-one-default-id`, replayed on the code): `GET /a/b` and
`GET /a-b` have one default id whatever the name normaliser does afterwards, and so have paths that differ in empty segments. -/
theorem C01_default_id_collision_witness :
    rawDefaultId [71, 69, 84] [47, 97, 47, 98] = rawDefaultId [71, 69, 84] [47, 97, 45, 98] ∧
    rawDefaultId [71, 69, 84] [47, 97, 47, 98] = rawDefaultId [71, 69, 84] [47, 97, 47, 47, 98, 47] ∧
    checkIds [[71], [72], [71]] [] = .error [71] := by decide

end OapiVerif.OpId
