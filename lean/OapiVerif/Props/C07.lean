import OapiVerif.Model.JsonObj
/-!
C07 — Generated models round-trip JSON without loss.

Model: Model/JsonObj.lean — the additional-properties template on one object with opaque members. Tie (harness
c07): RUN — seeded schemas compiled (models only), schema-directed valid instances incl. boundary values decoded
into the generated types and encoded again, semantic JSON equality. encoding/json itself (struct tags,
omitempty, pointers, maps, slices) is exercised by RUN only.
-/
namespace OapiVerif.JsonObj
variable {V : Type}

theorem lookup_insert_same (m : List (String × V)) (k : String) (v : V) : lookup (insert m k v) k = some v := by
  unfold insert lookup
  split
  · rename_i h
    induction m with
    | nil => simp at h
    | cons e t ih =>
      by_cases he : e.1 = k
      · simp [he]
      · have ht : t.any (·.1 = k) = true := by simpa [he] using h
        simpa [he] using ih ht
  · rename_i h
    have : m.find? (fun x => decide (x.1 = k)) = none := by
      simp only [List.find?_eq_none, decide_eq_true_eq]
      intro e he hk
      exact h (by simp only [List.any_eq_true, decide_eq_true_eq]; exact ⟨e, he, hk⟩)
    rw [List.find?_append, this]; simp

theorem find_map_other (m : List (String × V)) (k : String) (v : V) (k' : String) (hne : k' ≠ k) :
    ((m.map (fun e => if e.1 = k then (k, v) else e)).find? (fun x => decide (x.1 = k'))).map (·.2) =
    (m.find? (fun x => decide (x.1 = k'))).map (·.2) := by
  induction m with
  | nil => rfl
  | cons e t ih =>
    by_cases he : e.1 = k
    · have h1 : ¬ e.1 = k' := fun h => hne (h.symm.trans he)
      have h2 : ¬ k = k' := fun h => hne h.symm
      simp only [List.map_cons, he, if_true, List.find?_cons, h2, decide_false, h1]
      exact ih
    · by_cases he' : e.1 = k'
      · have hk : ¬ k' = k := hne
        simp [he', hk]
      · simp only [List.map_cons, he, if_false, List.find?_cons, he', decide_false]
        exact ih

theorem lookup_insert_other (m : List (String × V)) (k : String) (v : V) (k' : String) (hne : k' ≠ k) :
    lookup (insert m k v) k' = lookup m k' := by
  unfold insert lookup
  split
  · exact find_map_other m k v k' hne
  · rw [List.find?_append]
    have : ¬ k = k' := fun h => hne h.symm
    cases hf : m.find? (fun x => decide (x.1 = k')) <;> simp [this]

theorem lookup_foldl_insert (l m : List (String × V)) (hnd : (l.map (·.1)).Nodup) (k : String) :
    lookup (l.foldl (fun m kv => insert m kv.1 kv.2) m) k = (lookup l k).or (lookup m k) := by
  induction l generalizing m with
  | nil => simp [lookup]
  | cons e t ih =>
    simp only [List.map_cons, List.nodup_cons] at hnd
    simp only [List.foldl_cons]
    rw [ih _ hnd.2]
    by_cases he : e.1 = k
    · have : lookup t k = none := by
        unfold lookup
        simp only [Option.map_eq_none_iff, List.find?_eq_none, decide_eq_true_eq]
        intro x hx hk
        exact hnd.1 (List.mem_map.mpr ⟨x, hx, hk.trans he.symm⟩)
      subst he
      rw [this, lookup_insert_same]
      simp [lookup]
    · have hk : k ≠ e.1 := fun h => he h.symm
      rw [lookup_insert_other _ _ _ _ hk]
      simp [lookup, he]

theorem lookup_cons (e : String × V) (t : List (String × V)) (k : String) :
    lookup (e :: t) k = if e.1 = k then some e.2 else lookup t k := by
  unfold lookup
  by_cases he : e.1 = k <;> simp [List.find?_cons, he]

theorem lookup_filter (o : List (String × V)) (p : String → Bool) (k : String) :
    lookup (o.filter fun kv => p kv.1) k = if p k then lookup o k else none := by
  induction o with
  | nil => simp [lookup]
  | cons e t ih =>
    rw [List.filter_cons]
    by_cases hp : p e.1 = true
    · rw [if_pos hp, lookup_cons, lookup_cons, ih]
      by_cases he : e.1 = k
      · subst he; simp [hp]
      · simp [he]
    · rw [if_neg hp, ih, lookup_cons]
      by_cases he : e.1 = k
      · subst he
        simp only [Bool.not_eq_true] at hp
        simp [hp]
      · simp [he]

theorem lookup_declaredOut (zero : V) (fs : List Field) (o : List (String × V)) (hnd : (fs.map (·.name)).Nodup) (k : String) :
    lookup (declaredOut zero fs (fs.map fun f => lookup o f.name)) k =
      match fs.find? (·.name = k) with
      | none => none
      | some f => match lookup o k with
        | some v => some v
        | none => if f.optNil then none else some zero := by
  induction fs with
  | nil => simp [declaredOut, lookup]
  | cons f rest ih =>
    simp only [List.map_cons, List.nodup_cons] at hnd
    have ih' := ih hnd.2
    simp only [List.map_cons, declaredOut]
    by_cases hf : f.name = k
    · subst hf
      have hrest : rest.find? (fun g => decide (g.name = f.name)) = none := by
        simp only [List.find?_eq_none, decide_eq_true_eq]
        intro g hg hk
        exact hnd.1 (List.mem_map.mpr ⟨g, hg, hk⟩)
      simp only [List.find?_cons, decide_true]
      cases ho : lookup o f.name with
      | some v => simp [lookup]
      | none =>
        by_cases hn : f.optNil = true
        · simp only [hn, if_true]
          rw [ih']; simp [hrest]
        · simp [hn, lookup]
    · simp only [List.find?_cons, hf, decide_false]
      cases ho : lookup o f.name with
      | some v =>
        simp only [lookup, List.find?_cons, hf, decide_false] at ih' ⊢
        exact ih'
      | none =>
        by_cases hn : f.optNil = true
        · simp only [hn, if_true]; exact ih'
        · simp only [hn, Bool.false_eq_true, if_false, lookup, List.find?_cons, hf, decide_false] at ih' ⊢
          exact ih'

/-- An instance is valid for the struct when every member that is not optional-and-nilable is present. -/
def Valid (fs : List Field) (o : List (String × V)) : Prop :=
  ∀ f ∈ fs, f.optNil = false → (lookup o f.name).isSome

/-- Members captured as additional properties never carry a declared name. -/
theorem C07_additional_never_shadows (fs : List Field) (o : List (String × V)) :
    ∀ kv ∈ (decode fs o).addl, declaredName fs kv.1 = false := by
  intro kv h
  simp only [decode, List.mem_filter, Bool.not_eq_true'] at h
  exact h.2

/-- Decoding an object and encoding it again gives the same members with the same values: every declared
and every additional member is preserved, nothing is invented. -/
theorem C07_object_roundtrip (zero : V) (fs : List Field) (o : List (String × V))
    (hf : (fs.map (·.name)).Nodup) (ho : (o.map (·.1)).Nodup) (hv : Valid fs o) (k : String) :
    lookup (encode zero fs (decode fs o)) k = lookup o k := by
  unfold encode decode
  simp only
  have hnd : ((o.filter fun kv => !declaredName fs kv.1).map (·.1)).Nodup :=
    ((List.filter_sublist).map _).nodup ho
  rw [lookup_foldl_insert _ _ hnd, lookup_filter o (fun k => !declaredName fs k) k, lookup_declaredOut zero fs o hf]
  by_cases hd : declaredName fs k = true
  · simp only [hd, Bool.not_true, Bool.false_eq_true, if_false, Option.none_or]
    unfold declaredName at hd
    simp only [List.any_eq_true, decide_eq_true_eq] at hd
    obtain ⟨f, hfm, hfk⟩ := hd
    cases hfind : fs.find? (fun g => decide (g.name = k)) with
    | none =>
      simp only [List.find?_eq_none, decide_eq_true_eq] at hfind
      exact absurd hfk (hfind f hfm)
    | some g =>
      have hg := List.find?_some hfind
      have hgm := List.mem_of_find?_eq_some hfind
      simp only [decide_eq_true_eq] at hg
      cases hl : lookup o k with
      | some v => simp
      | none =>
        by_cases hn : g.optNil = true
        · simp [hn]
        · have := hv g hgm (by simpa using hn)
          rw [hg, hl] at this
          cases this
  · simp only [Bool.not_eq_true] at hd
    simp only [hd, Bool.not_false, if_true]
    have : fs.find? (fun g => decide (g.name = k)) = none := by
      simp only [List.find?_eq_none, decide_eq_true_eq]
      intro g hg hk
      have : declaredName fs k = true := by
        unfold declaredName; simp only [List.any_eq_true, decide_eq_true_eq]; exact ⟨g, hg, hk⟩
      rw [hd] at this; cases this
    simp [this]

/-- Outside `Valid`: a missing member that Go cannot represent as absent comes back as a zero value —
the model says so explicitly (this is the "invented member" the harness looks for). -/
theorem C07_missing_required_is_invented (zero : V) (f : Field) (hn : f.optNil = false) :
    lookup (encode zero [f] (decode [f] ([] : List (String × V)))) f.name = some zero := by
  simp [encode, decode, declaredOut, lookup, hn]

/-- Through `Set` an additional entry with a declared name can exist; `MarshalJSON` then lets it overwrite
the declared member (stated as the template behaves; never reached by decode, see `C07_additional_never_shadows`). -/
theorem C07_set_can_shadow (zero v w : V) (f : Field) :
    lookup (encode zero [f] ⟨[some v], [(f.name, w)]⟩) f.name = some w := by
  simp [encode, declaredOut, lookup_insert_same]

example : lookup (encode 0 [⟨"a", false⟩, ⟨"b", true⟩] (decode [⟨"a", false⟩, ⟨"b", true⟩] [("x", 7), ("a", 1)])) "x" = some 7 := by decide

end OapiVerif.JsonObj
