import OapiVerif.Model.JsonObj
import OapiVerif.Proofs.GoJson
import OapiVerif.Proofs.GoJsonInv
import OapiVerif.Proofs.GoJsonValid
/-!
C07 — Generated models round-trip JSON without loss.

Models: Model/GoJson.lean — the fragment of encoding/json the generated types rely on (struct fields with json
names and omitempty, pointers, slices, string-keyed maps, booleans, integers, strings), with `decode`/`encode`
and the validity predicate; Model/JsonObj.lean — the additional-properties template on one object with opaque
members. Ties (harness c07): CORR — `json.Unmarshal`/`json.Marshal` on Go types built with reflect from seeded
type descriptions against `decode`/`encode` on seeded JSON values (valid, canonical and not, and junk);
RUN — seeded schemas compiled (models only), schema-directed valid instances incl. boundary values decoded into
the generated types and encoded again, semantic JSON equality. Floats, the custom (un)marshallers of unions and
the format types (Date, UUID, …) are RUN only.
-/
namespace OapiVerif.JsonObj
variable {V : Type}

theorem lookup_insert_same (m : List (String × V)) (k : String) (v : V) : lookup (insert m k v) k = some v := by
  unfold insert lookup
  split
  · rename_i h
    induction m with
    | nil => simp at h
    | cons e t ih =>
      by_cases he : e.1 = k
      · simp [he]
      · have ht : t.any (·.1 = k) = true := by simpa [he] using h
        simpa [he] using ih ht
  · rename_i h
    have : m.find? (fun x => decide (x.1 = k)) = none := by
      simp only [List.find?_eq_none, decide_eq_true_eq]
      intro e he hk
      exact h (by simp only [List.any_eq_true, decide_eq_true_eq]; exact ⟨e, he, hk⟩)
    rw [List.find?_append, this]; simp

theorem find_map_other (m : List (String × V)) (k : String) (v : V) (k' : String) (hne : k' ≠ k) :
    ((m.map (fun e => if e.1 = k then (k, v) else e)).find? (fun x => decide (x.1 = k'))).map (·.2) =
    (m.find? (fun x => decide (x.1 = k'))).map (·.2) := by
  induction m with
  | nil => rfl
  | cons e t ih =>
    by_cases he : e.1 = k
    · have h1 : ¬ e.1 = k' := fun h => hne (h.symm.trans he)
      have h2 : ¬ k = k' := fun h => hne h.symm
      simp only [List.map_cons, he, if_true, List.find?_cons, h2, decide_false, h1]
      exact ih
    · by_cases he' : e.1 = k'
      · have hk : ¬ k' = k := hne
        simp [he', hk]
      · simp only [List.map_cons, he, if_false, List.find?_cons, he', decide_false]
        exact ih

theorem lookup_insert_other (m : List (String × V)) (k : String) (v : V) (k' : String) (hne : k' ≠ k) :
    lookup (insert m k v) k' = lookup m k' := by
  unfold insert lookup
  split
  · exact find_map_other m k v k' hne
  · rw [List.find?_append]
    have : ¬ k = k' := fun h => hne h.symm
    cases hf : m.find? (fun x => decide (x.1 = k')) <;> simp [this]

theorem lookup_foldl_insert (l m : List (String × V)) (hnd : (l.map (·.1)).Nodup) (k : String) :
    lookup (l.foldl (fun m kv => insert m kv.1 kv.2) m) k = (lookup l k).or (lookup m k) := by
  induction l generalizing m with
  | nil => simp [lookup]
  | cons e t ih =>
    simp only [List.map_cons, List.nodup_cons] at hnd
    simp only [List.foldl_cons]
    rw [ih _ hnd.2]
    by_cases he : e.1 = k
    · have : lookup t k = none := by
        unfold lookup
        simp only [Option.map_eq_none_iff, List.find?_eq_none, decide_eq_true_eq]
        intro x hx hk
        exact hnd.1 (List.mem_map.mpr ⟨x, hx, hk.trans he.symm⟩)
      subst he
      rw [this, lookup_insert_same]
      simp [lookup]
    · have hk : k ≠ e.1 := fun h => he h.symm
      rw [lookup_insert_other _ _ _ _ hk]
      simp [lookup, he]

theorem lookup_cons (e : String × V) (t : List (String × V)) (k : String) :
    lookup (e :: t) k = if e.1 = k then some e.2 else lookup t k := by
  unfold lookup
  by_cases he : e.1 = k <;> simp [List.find?_cons, he]

theorem lookup_filter (o : List (String × V)) (p : String → Bool) (k : String) :
    lookup (o.filter fun kv => p kv.1) k = if p k then lookup o k else none := by
  induction o with
  | nil => simp [lookup]
  | cons e t ih =>
    rw [List.filter_cons]
    by_cases hp : p e.1 = true
    · rw [if_pos hp, lookup_cons, lookup_cons, ih]
      by_cases he : e.1 = k
      · subst he; simp [hp]
      · simp [he]
    · rw [if_neg hp, ih, lookup_cons]
      by_cases he : e.1 = k
      · subst he
        simp only [Bool.not_eq_true] at hp
        simp [hp]
      · simp [he]

theorem lookup_declaredOut (zero : V) (fs : List Field) (o : List (String × V)) (hnd : (fs.map (·.name)).Nodup) (k : String) :
    lookup (declaredOut zero fs (fs.map fun f => lookup o f.name)) k =
      match fs.find? (·.name = k) with
      | none => none
      | some f => match lookup o k with
        | some v => some v
        | none => if f.optNil then none else some zero := by
  induction fs with
  | nil => simp [declaredOut, lookup]
  | cons f rest ih =>
    simp only [List.map_cons, List.nodup_cons] at hnd
    have ih' := ih hnd.2
    simp only [List.map_cons, declaredOut]
    by_cases hf : f.name = k
    · subst hf
      have hrest : rest.find? (fun g => decide (g.name = f.name)) = none := by
        simp only [List.find?_eq_none, decide_eq_true_eq]
        intro g hg hk
        exact hnd.1 (List.mem_map.mpr ⟨g, hg, hk⟩)
      simp only [List.find?_cons, decide_true]
      cases ho : lookup o f.name with
      | some v => simp [lookup]
      | none =>
        by_cases hn : f.optNil = true
        · simp only [hn, if_true]
          rw [ih']; simp [hrest]
        · simp [hn, lookup]
    · simp only [List.find?_cons, hf, decide_false]
      cases ho : lookup o f.name with
      | some v =>
        simp only [lookup, List.find?_cons, hf, decide_false] at ih' ⊢
        exact ih'
      | none =>
        by_cases hn : f.optNil = true
        · simp only [hn, if_true]; exact ih'
        · simp only [hn, Bool.false_eq_true, if_false, lookup, List.find?_cons, hf, decide_false] at ih' ⊢
          exact ih'

/-- An instance is valid for the struct when every member that is not optional-and-nilable is present. -/
def Valid (fs : List Field) (o : List (String × V)) : Prop :=
  ∀ f ∈ fs, f.optNil = false → (lookup o f.name).isSome

/-- Members captured as additional properties never carry a declared name. -/
theorem C07_additional_never_shadows (fs : List Field) (o : List (String × V)) :
    ∀ kv ∈ (decode fs o).addl, declaredName fs kv.1 = false := by
  intro kv h
  simp only [decode, List.mem_filter, Bool.not_eq_true'] at h
  exact h.2

/-- Decoding an object and encoding it again gives the same members with the same values: every declared
and every additional member is preserved, nothing is invented. -/
theorem C07_object_roundtrip (zero : V) (fs : List Field) (o : List (String × V))
    (hf : (fs.map (·.name)).Nodup) (ho : (o.map (·.1)).Nodup) (hv : Valid fs o) (k : String) :
    lookup (encode zero fs (decode fs o)) k = lookup o k := by
  unfold encode decode
  simp only
  have hnd : ((o.filter fun kv => !declaredName fs kv.1).map (·.1)).Nodup :=
    ((List.filter_sublist).map _).nodup ho
  rw [lookup_foldl_insert _ _ hnd, lookup_filter o (fun k => !declaredName fs k) k, lookup_declaredOut zero fs o hf]
  by_cases hd : declaredName fs k = true
  · simp only [hd, Bool.not_true, Bool.false_eq_true, if_false, Option.none_or]
    unfold declaredName at hd
    simp only [List.any_eq_true, decide_eq_true_eq] at hd
    obtain ⟨f, hfm, hfk⟩ := hd
    cases hfind : fs.find? (fun g => decide (g.name = k)) with
    | none =>
      simp only [List.find?_eq_none, decide_eq_true_eq] at hfind
      exact absurd hfk (hfind f hfm)
    | some g =>
      have hg := List.find?_some hfind
      have hgm := List.mem_of_find?_eq_some hfind
      simp only [decide_eq_true_eq] at hg
      cases hl : lookup o k with
      | some v => simp
      | none =>
        by_cases hn : g.optNil = true
        · simp [hn]
        · have := hv g hgm (by simpa using hn)
          rw [hg, hl] at this
          cases this
  · simp only [Bool.not_eq_true] at hd
    simp only [hd, Bool.not_false, if_true]
    have : fs.find? (fun g => decide (g.name = k)) = none := by
      simp only [List.find?_eq_none, decide_eq_true_eq]
      intro g hg hk
      have : declaredName fs k = true := by
        unfold declaredName; simp only [List.any_eq_true, decide_eq_true_eq]; exact ⟨g, hg, hk⟩
      rw [hd] at this; cases this
    simp [this]

/-- Outside `Valid`: a missing member that Go cannot represent as absent comes back as a zero value —
the model says so explicitly (this is the "invented member" the harness looks for). -/
theorem C07_missing_required_is_invented (zero : V) (f : Field) (hn : f.optNil = false) :
    lookup (encode zero [f] (decode [f] ([] : List (String × V)))) f.name = some zero := by
  simp [encode, decode, declaredOut, lookup, hn]

/-- Through `Set` an additional entry with a declared name can exist; `MarshalJSON` then lets it overwrite
the declared member (stated as the template behaves; never reached by decode, see `C07_additional_never_shadows`). -/
theorem C07_set_can_shadow (zero v w : V) (f : Field) :
    lookup (encode zero [f] ⟨[some v], [(f.name, w)]⟩) f.name = some w := by
  simp [encode, declaredOut, lookup_insert_same]

example : lookup (encode 0 [⟨"a", false⟩, ⟨"b", true⟩] (decode [⟨"a", false⟩, ⟨"b", true⟩] [("x", 7), ("a", 1)])) "x" = some 7 := by decide

end OapiVerif.JsonObj

namespace OapiVerif.GoJson

/-- Every JSON value that a well-formed Go type represents exactly (see `valid`) decodes into the type and
encodes back to itself: nothing lost, invented or changed, at any nesting depth of structs, pointers, slices
and maps. -/
theorem C07_json_roundtrip (t : GoTy) (j : JVal) (hw : wf t = true) (hv : valid t j = true) :
    ∃ v, decode t j = some v ∧ encode t v = some j := roundtrip t j hw hv

/-- The generator's member rules (C08) make `valid` the natural notion: an optional member is a pointer with
omitempty, and any non-null value of it is kept on the way back. -/
theorem C07_optional_member_kept (t : GoTy) (j : JVal) (hj : j ≠ .null) : keptByOmitempty (.ptr t) j = true := by
  cases j <;> simp_all [keptByOmitempty]

/-- The documented difference: an absent optional nullable member (a pointer without omitempty) reappears as null. -/
theorem C07_absent_nullable_reappears_as_null (n : String) (t : GoTy) :
    (decode (.struct (.cons n false (.ptr t) .nil)) (.obj [])).bind (encode (.struct (.cons n false (.ptr t) .nil))) =
      some (.obj [(n, .null)]) := by
  simp [decode, decodeFields, lookup, zero, encode, encodeFields, isEmpty]

/-- … and its converse, which is not among the permitted differences: an explicit null of an optional member
(pointer with omitempty) is dropped (recorded in known-findings.txt for the default configuration). -/
theorem C07_explicit_null_dropped_witness :
    (decode (.struct (.cons "a" true (.ptr .string) .nil)) (.obj [("a", .null)])).bind
      (encode (.struct (.cons "a" true (.ptr .string) .nil))) = some (.obj []) := by
  simp [decode, decodeFields, lookup, encode, encodeFields, isEmpty]

/-- A non-pointer member under omitempty loses its zero value — why required members must not be tagged
omitempty (the class of the seeded change on required read-only members). -/
theorem C07_omitempty_value_lost_witness :
    (decode (.struct (.cons "n" true int64 .nil)) (.obj [("n", .num 0)])).bind
      (encode (.struct (.cons "n" true int64 .nil))) = some (.obj []) := by
  simp [int64, decode, decodeFields, lookup, encode, encodeFields, isEmpty]

/-- Integer members: a number is accepted exactly when it lies in the range of the member's Go type, and then it is
stored and written back unchanged — for every width and signedness (`.int lo hi`). -/
theorem C07_integer_in_range_iff (lo hi n : Int) :
    (decode (.int lo hi) (.num n)).isSome = decide (lo ≤ n ∧ n ≤ hi) ∧
    (lo ≤ n → n ≤ hi → (decode (.int lo hi) (.num n)).bind (encode (.int lo hi)) = some (.num n)) := by
  constructor
  · by_cases h : lo ≤ n ∧ n ≤ hi <;> simp [decode, h]
  · intro h1 h2; simp [decode, encode, h1, h2]

/-- A member whose Go type is narrower than the schema's format loses instances of the schema: a `uint64` member
mapped to `int64` rejects 2^63, which `uint64` keeps (the class of the seeded change on integer formats). -/
theorem C07_narrowed_integer_rejects_witness :
    decode int64 (.num 9223372036854775808) = none ∧
    (decode uint64 (.num 9223372036854775808)).bind (encode uint64) = some (.num 9223372036854775808) ∧
    decode uint8 (.num 256) = none ∧ decode int8 (.num (-129)) = none ∧ decode uint32 (.num (-1)) = none := by
  simp [int64, uint64, uint8, int8, uint32, decode, encode]

/-- `[]uint8` is outside the fragment: Go's `uint8` is `byte`, and encoding/json writes a byte slice as a base64
string — an array of `format: uint8` integers comes back as a string (found by the correspondence run; replayed on
the generated models and recorded in known-findings.txt). Every other slice type is inside. -/
theorem C07_byte_slice_outside_fragment :
    wf (.slice uint8) = false ∧ wf (.slice uint16) = true ∧ wf (.slice int8) = true ∧ wf (.slice (.slice uint8)) = false := by
  decide

/-- "Nothing is invented": what a valid instance decodes to is a value of the generated type and a stable one — the
value the encoder turns back into the instance (`C07_json_roundtrip`) and that survives a further Marshal/Unmarshal
(`C13_json_body_decodes_to_value`); the two directions are inverse to each other on valid instances. -/
theorem C07_decoded_value_is_typed_and_stable (t : GoTy) (j : JVal) (v : GoVal) (hw : wf t = true) (hv : valid t j = true)
    (hd : decode t j = some v) : hasTy t v = true ∧ stable t v = true ∧ encode t v = some j := by
  obtain ⟨h1, h2⟩ := decode_typed_stable t j v hw hv hd
  obtain ⟨v', hd', he'⟩ := roundtrip t j hw hv
  rw [hd] at hd'
  cases hd'
  exact ⟨h1, h2, he'⟩

/-- … and what the encoder writes for a stable value of the type is a valid canonical instance: `decode` and `encode`
are a bijection between the valid instances of a well-formed type and its stable values. -/
theorem C07_encoded_value_is_valid_instance (t : GoTy) (v : GoVal) (hw : wf t = true) (ht : hasTy t v = true)
    (hs : stable t v = true) : ∃ j, encode t v = some j ∧ valid t j = true ∧ decode t j = some v := by
  obtain ⟨j, he, hd⟩ := enc_dec t v hw ht hs
  exact ⟨j, he, encode_valid t v j hw ht hs he, hd⟩

/-- The validity predicate is met by the extremes of every width (non-vacuity of `C07_json_roundtrip` on integers). -/
example : valid uint64 (.num 18446744073709551615) = true ∧ valid int64 (.num (-9223372036854775808)) = true ∧
    wf uint64 = true ∧ wf int8 = true := by decide

example : valid (.struct (.cons "id" false int64 (.cons "tags" true (.ptr (.slice .string)) .nil)))
    (.obj [("id", .num 7), ("tags", .arr [.str "a"])]) = true := by decide

end OapiVerif.GoJson
