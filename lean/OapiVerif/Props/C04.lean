import OapiVerif.Proofs.Codec
import OapiVerif.Proofs.QueryParam
import OapiVerif.Proofs.DeepObject
/-!
C04 — Parameters survive the generated client → generated server round trip.

Model: Model/Escape.lean (net/url escaping), Model/Codec.lean (pinned runtime v1.1.0 at string
level). Tie: in-process CORR of every model function against net/url and the runtime on seeded
and malformed inputs (harness `corrCodec`), and RUN of the whole parameter shape space through
the generated client and the generated servers of all seven frameworks (harness `c04`).

The theorems are stated for the byte strings the styles carry; the typed layer (integers,
booleans, dates, …) is covered by RUN only and the evidence says so.
-/
namespace OapiVerif.Codec
open OapiVerif.Escape

/-- Escaping then unescaping is the identity for every byte string, in both modes: values with
space, '/', '?', '#', ':', non-ASCII bytes arrive unchanged. -/
theorem C04_escape_roundtrip (m : Mode) (s : Str) (hs : ∀ b ∈ s, b < 256) :
    unescape m (escape m s) = some s := unescape_escape m s hs

/-- The delimiter an array part may not contain ("no delimiter character of the style itself"). -/
def arrDelim : Style → Bool → Nat
  | .simple, _ => cComma
  | .label, true => cDot
  | .label, false => cComma
  | .matrix, true => cSemi
  | .matrix, false => cComma
  | .form, true => cAmp
  | .form, false => cComma

/-- Representability of an array value under a style. -/
structure ArrRepr (st : Style) (explode : Bool) (name : Str) (loc : Loc) (xs : List Str) : Prop where
  ne : xs ≠ []
  nodelim : ∀ x ∈ xs, arrDelim st explode ∉ x
  bytes : ∀ x ∈ xs, ∀ b ∈ x, b < 256
  namePlain : plainStr loc name
  nameNoDelim : arrDelim st explode ∉ name

theorem plainStr_singleton (loc : Loc) (c : Nat) (h1 : c ≠ 37) (h2 : c ≠ 43) : plainStr loc [c] := by
  cases loc <;> simp [plainStr, plain, h1, h2]

theorem plainStr_matrixPrefix (loc : Loc) (name : Str) (h : plainStr loc name) :
    plainStr loc (cSemi :: name ++ [cEq]) := by
  cases loc <;> simp_all [plainStr, plain, cSemi, cEq] <;>
    (intro b hb; rcases hb with hb | rfl
     · exact h b hb
     · decide)

theorem bindStyled_arr_of (st : Style) (explode required : Bool) (name : Str) (loc : Loc)
    (wire v : Str) (parts : List Str)
    (hreq : required = true → wire ≠ [])
    (hu : unescLoc loc wire = .ok v) (hs : splitStyled st explode false name v = .ok parts) :
    bindStyled st explode required name loc .arr wire = .ok (.arr parts) := by
  unfold bindStyled
  have : (required && wire.isEmpty) = false := by
    cases required <;> simp
    exact hreq rfl
  simp [this, hu, hs]

/-- Arrays, styles simple / label / matrix (the styles the generated code binds with
`BindStyledParameterWithOptions`: path, header and cookie parameters). -/
theorem C04_array_roundtrip (st : Style) (hst : st ≠ .form) (explode required : Bool) (name : Str)
    (loc : Loc) (hloc : loc ≠ .undefined) (xs : List Str) (hR : ArrRepr st explode name loc xs)
    (hreq : required = true → styleParam st explode name loc (.arr xs) ≠ []) :
    bindStyled st explode required name loc .arr (styleParam st explode name loc (.arr xs))
      = .ok (.arr xs) := by
  obtain ⟨hne, hnd, hb, hnp, hnn⟩ := hR
  cases st with
  | form => exact absurd rfl hst
  | simple =>
    apply bindStyled_arr_of _ _ _ _ _ _ ([] ++ join [cComma] xs) _ hreq
    · simp only [styleParam, arrPrefixSep]
      exact unescLoc_wire loc hloc [] [cComma] xs (by cases loc <;> simp [plainStr])
        (plainStr_singleton loc _ (by decide) (by decide)) hb
    · simp only [splitStyled, List.nil_append]
      rw [split_join cComma xs hne (by simpa [arrDelim] using hnd)]
  | label =>
    cases explode with
    | false =>
      apply bindStyled_arr_of _ _ _ _ _ _ ([cDot] ++ join [cComma] xs) _ hreq
      · simp only [styleParam, arrPrefixSep]
        exact unescLoc_wire loc hloc [cDot] [cComma] xs (plainStr_singleton loc _ (by decide) (by decide))
          (plainStr_singleton loc _ (by decide) (by decide)) hb
      · simp only [splitStyled, List.singleton_append, Bool.false_eq_true, if_false, if_true]
        rw [split_join cComma xs hne (by simpa [arrDelim] using hnd)]
    | true =>
      apply bindStyled_arr_of _ _ _ _ _ _ ([cDot] ++ join [cDot] xs) _ hreq
      · simp only [styleParam, arrPrefixSep]
        exact unescLoc_wire loc hloc [cDot] [cDot] xs (plainStr_singleton loc _ (by decide) (by decide))
          (plainStr_singleton loc _ (by decide) (by decide)) hb
      · have h1 : [cDot] ++ join [cDot] xs = join [cDot] ([] :: xs) := by
          cases xs with
          | nil => exact absurd rfl hne
          | cons x t => simp [join]
        have h2 : split cDot (join [cDot] ([] :: xs)) = [] :: xs :=
          split_join cDot ([] :: xs) (by simp) (by
            intro x hx; simp only [List.mem_cons] at hx
            rcases hx with rfl | hx
            · simp
            · simpa [arrDelim] using hnd x hx)
        simp only [splitStyled, if_true, h1, h2]
  | matrix =>
    have hpp := plainStr_matrixPrefix loc name hnp
    cases explode with
    | false =>
      apply bindStyled_arr_of _ _ _ _ _ _ ((cSemi :: name ++ [cEq]) ++ join [cComma] xs) _ hreq
      · simp only [styleParam, arrPrefixSep]
        exact unescLoc_wire loc hloc _ [cComma] xs hpp (plainStr_singleton loc _ (by decide) (by decide)) hb
      · simp only [splitStyled, Bool.false_eq_true, if_false]
        rw [stripPrefix_append]
        simp only
        rw [split_join cComma xs hne (by simpa [arrDelim] using hnd)]
    | true =>
      apply bindStyled_arr_of _ _ _ _ _ _ ((cSemi :: name ++ [cEq]) ++ join (cSemi :: name ++ [cEq]) xs) _ hreq
      · simp only [styleParam, arrPrefixSep]
        exact unescLoc_wire loc hloc _ _ xs hpp hpp hb
      · have h1 := prefix_join_multi cSemi (name ++ [cEq]) xs hne
        have h2 : split cSemi (join [cSemi] ([] :: xs.map ((name ++ [cEq]) ++ ·))) = [] :: xs.map ((name ++ [cEq]) ++ ·) :=
          split_join cSemi _ (by simp) (by
            intro x hx; simp only [List.mem_cons, List.mem_map] at hx
            rcases hx with rfl | ⟨y, hy, rfl⟩
            · simp
            · have := hnd y hy
              simp only [arrDelim] at this hnn
              simp only [List.mem_append, List.mem_singleton, not_or]
              exact ⟨⟨hnn, by decide⟩, this⟩)
        simp only [List.cons_append] at h1
        simp only [splitStyled, if_true, List.cons_append, h1, h2, Bool.false_eq_true, if_false]
        have h3 : ∀ x : Str, trimPrefix (name ++ [cEq]) (name ++ cEq :: x) = x := by
          intro x
          have := trimPrefix_append (name ++ [cEq]) x
          simpa using this
        simp [List.map_map, Function.comp_def, h3]

/-! ### Primitives -/

/-- Primitive values under `simple` (path default, header, cookie): any byte string arrives unchanged. -/
theorem C04_prim_roundtrip (explode required : Bool) (name : Str) (loc : Loc) (hloc : loc ≠ .undefined)
    (s : Str) (hb : ∀ b ∈ s, b < 256) (hreq : required = true → escLoc loc s ≠ []) :
    bindStyled .simple explode required name loc .prim (styleParam .simple explode name loc (.prim s))
      = .ok (.prim s) := by
  have hu := (DecLoc.esc loc hloc s hb).unesc
  unfold bindStyled
  have : (required && (escLoc loc s).isEmpty) = false := by
    cases required <;> simp
    exact hreq rfl
  simp [styleParam, primPrefix, this, hu]

/-- The pinned runtime does not strip the `label` prefix for a primitive destination: a label-styled
primitive arrives with its leading dot. (Negative finding, proved for every value; replayed by the
harness as KNOWN-FINDING `roundtrip:*:path:schema:*/label/*:any`.) -/
theorem C04_label_prim_keeps_prefix (explode : Bool) (name : Str) (s : Str) (hb : ∀ b ∈ s, b < 256) :
    bindStyled .label explode true name .path .prim (styleParam .label explode name .path (.prim s))
      = .ok (.prim (cDot :: s)) := by
  have h1 : DecLoc .path ([cDot] ++ escLoc .path s) ([cDot] ++ s) :=
    (DecLoc.plain .path (by decide) [cDot] (plainStr_singleton .path _ (by decide) (by decide))).append
      (DecLoc.esc .path (by decide) s hb)
  have hu := h1.unesc
  simp only [List.singleton_append, escLoc_path] at hu
  unfold bindStyled
  simp [styleParam, primPrefix, hu]

theorem C04_matrix_prim_keeps_prefix (explode : Bool) (name : Str) (hn : plainStr .path name) (s : Str)
    (hb : ∀ b ∈ s, b < 256) :
    bindStyled .matrix explode true name .path .prim (styleParam .matrix explode name .path (.prim s))
      = .ok (.prim (cSemi :: name ++ [cEq] ++ s)) := by
  have h1 : DecLoc .path ((cSemi :: name ++ [cEq]) ++ escLoc .path s) ((cSemi :: name ++ [cEq]) ++ s) :=
    (DecLoc.plain .path (by decide) _ (plainStr_matrixPrefix .path name hn)).append
      (DecLoc.esc .path (by decide) s hb)
  have hu := h1.unesc
  simp only [List.cons_append, List.append_assoc, List.nil_append, escLoc_path] at hu
  unfold bindStyled
  simp [styleParam, primPrefix, hu]

/-! ### Objects -/

def rawParts (explode : Bool) (kvs : List (Str × Str)) : List Str :=
  if explode then kvs.map (fun kv => kv.1 ++ [cEq] ++ kv.2) else kvs.flatMap (fun kv => [kv.1, kv.2])

structure ObjRepr (st : Style) (explode : Bool) (name : Str) (loc : Loc) (kvs : List (Str × Str)) : Prop where
  ne : kvs ≠ []
  keyPlain : ∀ kv ∈ kvs, plainStr loc kv.1
  keyNoDelim : ∀ kv ∈ kvs, arrDelim st explode ∉ kv.1
  valNoDelim : ∀ kv ∈ kvs, arrDelim st explode ∉ kv.2
  noEq : explode = true → ∀ kv ∈ kvs, cEq ∉ kv.1 ∧ cEq ∉ kv.2
  bytes : ∀ kv ∈ kvs, ∀ b ∈ kv.2, b < 256
  namePlain : plainStr loc name

theorem objParts_dec (explode : Bool) (loc : Loc) (hloc : loc ≠ .undefined) (sep : Str)
    (hsep : plainStr loc sep) (kvs : List (Str × Str))
    (hk : ∀ kv ∈ kvs, plainStr loc kv.1) (hb : ∀ kv ∈ kvs, ∀ b ∈ kv.2, b < 256) :
    DecLoc loc (join sep (objParts explode loc kvs)) (join sep (rawParts explode kvs)) := by
  have hs := DecLoc.plain loc hloc sep hsep
  cases explode with
  | true =>
    have := DecLoc.join hloc hs (kvs.map (fun kv => (kv.1 ++ [cEq] ++ escLoc loc kv.2, kv.1 ++ [cEq] ++ kv.2))) (by
      intro p hp
      simp only [List.mem_map] at hp
      obtain ⟨kv, hkv, rfl⟩ := hp
      exact ((DecLoc.plain loc hloc _ (hk kv hkv)).append
        (DecLoc.plain loc hloc [cEq] (plainStr_singleton loc _ (by decide) (by decide)))).append
        (DecLoc.esc loc hloc _ (hb kv hkv)))
    simpa [objParts, rawParts, List.map_map, Function.comp_def] using this
  | false =>
    have := DecLoc.join hloc hs (kvs.flatMap (fun kv => [(kv.1, kv.1), (escLoc loc kv.2, kv.2)])) (by
      intro p hp
      simp only [List.mem_flatMap, List.mem_cons, List.not_mem_nil, or_false] at hp
      obtain ⟨kv, hkv, rfl | rfl⟩ := hp
      · exact DecLoc.plain loc hloc _ (hk kv hkv)
      · exact DecLoc.esc loc hloc _ (hb kv hkv))
    simpa [objParts, rawParts, List.map_flatMap] using this

theorem explodedPairs_raw (kvs : List (Str × Str)) (h : ∀ kv ∈ kvs, cEq ∉ kv.1 ∧ cEq ∉ kv.2) :
    explodedPairs (kvs.map (fun kv => kv.1 ++ [cEq] ++ kv.2)) = .ok kvs := by
  induction kvs with
  | nil => rfl
  | cons kv t ih =>
    have hkv := h kv (by simp)
    have hs : split cEq (kv.1 ++ [cEq] ++ kv.2) = [kv.1, kv.2] := by
      have := split_join cEq [kv.1, kv.2] (by simp) (by
        intro x hx; simp only [List.mem_cons, List.not_mem_nil, or_false] at hx
        rcases hx with rfl | rfl
        · exact hkv.1
        · exact hkv.2)
      simpa [join] using this
    simp only [List.map_cons, explodedPairs, hs, ih (fun x hx => h x (by simp [hx]))]

theorem pairUp_raw (kvs : List (Str × Str)) :
    pairUp (kvs.flatMap (fun kv => [kv.1, kv.2])) = some kvs := by
  induction kvs with
  | nil => rfl
  | cons kv t ih => simp [List.flatMap_cons, pairUp, ih]

theorem partsToPairs_raw (explode : Bool) (kvs : List (Str × Str))
    (h : explode = true → ∀ kv ∈ kvs, cEq ∉ kv.1 ∧ cEq ∉ kv.2) :
    partsToPairs explode (rawParts explode kvs) = .ok kvs := by
  cases explode with
  | true =>
    simp only [partsToPairs, rawParts, if_true]
    exact explodedPairs_raw kvs (h rfl)
  | false => simp [partsToPairs, rawParts, pairUp_raw]

theorem rawParts_ne_nil (explode : Bool) (kvs : List (Str × Str)) (h : kvs ≠ []) :
    rawParts explode kvs ≠ [] := by
  cases kvs with
  | nil => exact absurd rfl h
  | cons kv t => cases explode <;> simp [rawParts, List.flatMap_cons]

theorem rawParts_nodelim (explode : Bool) (d : Nat) (hd : d ≠ cEq) (kvs : List (Str × Str))
    (hk : ∀ kv ∈ kvs, d ∉ kv.1) (hv : ∀ kv ∈ kvs, d ∉ kv.2) :
    ∀ x ∈ rawParts explode kvs, d ∉ x := by
  intro x hx
  cases explode with
  | true =>
    simp only [rawParts, if_true, List.mem_map] at hx
    obtain ⟨kv, hkv, rfl⟩ := hx
    simp only [List.mem_append, List.mem_singleton, not_or]
    exact ⟨⟨hk kv hkv, hd⟩, hv kv hkv⟩
  | false =>
    simp only [rawParts, Bool.false_eq_true, if_false, List.mem_flatMap, List.mem_cons, List.not_mem_nil, or_false] at hx
    obtain ⟨kv, hkv, rfl | rfl⟩ := hx
    · exact hk kv hkv
    · exact hv kv hkv

theorem bindStyled_obj_of (st : Style) (explode required : Bool) (name : Str) (loc : Loc)
    (wire v : Str) (parts : List Str) (kvs : List (Str × Str))
    (hreq : required = true → wire ≠ [])
    (hu : unescLoc loc wire = .ok v) (hs : splitStyled st explode true name v = .ok parts)
    (hp : partsToPairs explode parts = .ok kvs) :
    bindStyled st explode required name loc .obj wire = .ok (.obj kvs) := by
  unfold bindStyled
  have : (required && wire.isEmpty) = false := by
    cases required <;> simp
    exact hreq rfl
  simp [this, hu, hs, hp]

/-- Flat objects, styles simple / label / matrix, exploded or not. -/
theorem C04_object_roundtrip (st : Style) (hst : st ≠ .form) (explode required : Bool) (name : Str)
    (loc : Loc) (hloc : loc ≠ .undefined) (kvs : List (Str × Str)) (hR : ObjRepr st explode name loc kvs)
    (hreq : required = true → styleParam st explode name loc (.obj kvs) ≠ []) :
    bindStyled st explode required name loc .obj (styleParam st explode name loc (.obj kvs))
      = .ok (.obj kvs) := by
  obtain ⟨hne, hkp, hkd, hvd, heq, hb, hnp⟩ := hR
  have hpp := partsToPairs_raw explode kvs heq
  have hrne := rawParts_ne_nil explode kvs hne
  have hdec := fun sep hsep => objParts_dec explode loc hloc sep hsep kvs hkp hb
  have hnd : ∀ d, d = arrDelim st explode → d ≠ cEq → ∀ x ∈ rawParts explode kvs, d ∉ x :=
    fun d hd hne' => rawParts_nodelim explode d hne' kvs (hd ▸ hkd) (hd ▸ hvd)
  have pc := plainStr_singleton loc cComma (by decide) (by decide)
  have pd := plainStr_singleton loc cDot (by decide) (by decide)
  have ps := plainStr_singleton loc cSemi (by decide) (by decide)
  cases st with
  | form => exact absurd rfl hst
  | simple =>
    apply bindStyled_obj_of _ _ _ _ _ _ (join [cComma] (rawParts explode kvs)) _ _ hreq _ _ hpp
    · simp only [styleParam, objPrefixSep, List.nil_append]; exact (hdec [cComma] pc).unesc
    · simp only [splitStyled]
      rw [split_join cComma _ hrne (hnd cComma (by cases explode <;> rfl) (by decide))]
  | label =>
    cases explode with
    | false =>
      apply bindStyled_obj_of _ _ _ _ _ _ ([cDot] ++ join [cComma] (rawParts false kvs)) _ _ hreq _ _ hpp
      · simp only [styleParam, objPrefixSep, Bool.false_eq_true, if_false]
        exact ((DecLoc.plain loc hloc _ pd).append (hdec [cComma] pc)).unesc
      · simp only [splitStyled, List.singleton_append, Bool.false_eq_true, if_false, if_true]
        rw [split_join cComma _ hrne (hnd cComma rfl (by decide))]
    | true =>
      apply bindStyled_obj_of _ _ _ _ _ _ ([cDot] ++ join [cDot] (rawParts true kvs)) _ _ hreq _ _ hpp
      · simp only [styleParam, objPrefixSep, if_true]
        exact ((DecLoc.plain loc hloc _ pd).append (hdec [cDot] pd)).unesc
      · have h1 : [cDot] ++ join [cDot] (rawParts true kvs) = join [cDot] ([] :: rawParts true kvs) := by
          cases h : rawParts true kvs with
          | nil => exact absurd h hrne
          | cons x t => simp [join]
        have h2 : split cDot (join [cDot] ([] :: rawParts true kvs)) = [] :: rawParts true kvs :=
          split_join cDot _ (by simp) (by
            intro x hx; simp only [List.mem_cons] at hx
            rcases hx with rfl | hx
            · simp
            · exact hnd cDot rfl (by decide) x hx)
        simp only [splitStyled, if_true, h1, h2]
  | matrix =>
    cases explode with
    | false =>
      have hpp' := plainStr_matrixPrefix loc name hnp
      apply bindStyled_obj_of _ _ _ _ _ _ ((cSemi :: name ++ [cEq]) ++ join [cComma] (rawParts false kvs)) _ _ hreq _ _ hpp
      · simp only [styleParam, objPrefixSep, Bool.false_eq_true, if_false]
        exact ((DecLoc.plain loc hloc _ hpp').append (hdec [cComma] pc)).unesc
      · simp only [splitStyled, Bool.false_eq_true, if_false]
        rw [stripPrefix_append]
        simp only
        rw [split_join cComma _ hrne (hnd cComma rfl (by decide))]
    | true =>
      apply bindStyled_obj_of _ _ _ _ _ _ ([cSemi] ++ join [cSemi] (rawParts true kvs)) _ _ hreq _ _ hpp
      · simp only [styleParam, objPrefixSep, if_true]
        exact ((DecLoc.plain loc hloc _ ps).append (hdec [cSemi] ps)).unesc
      · have h1 : [cSemi] ++ join [cSemi] (rawParts true kvs) = join [cSemi] ([] :: rawParts true kvs) := by
          cases h : rawParts true kvs with
          | nil => exact absurd h hrne
          | cons x t => simp [join]
        have h2 : split cSemi (join [cSemi] ([] :: rawParts true kvs)) = [] :: rawParts true kvs :=
          split_join cSemi _ (by simp) (by
            intro x hx; simp only [List.mem_cons] at hx
            rcases hx with rfl | hx
            · simp
            · exact hnd cSemi rfl (by decide) x hx)
        simp only [splitStyled, if_true, h1, h2]

/-! Non-vacuity: concrete values satisfying the hypotheses, and the model computing on them. -/
example : ArrRepr .matrix true [105, 100] .path [[97, 32, 47], [98]] :=
  ⟨by decide, by decide, by decide, by decide, by decide⟩
example : (match bindStyled .matrix true true [105, 100] .path .arr
    (styleParam .matrix true [105, 100] .path (.arr [[97, 32, 47], [98]])) with
    | .ok v => v == .arr [[97, 32, 47], [98]] | .error _ => false) = true := by
  decide
example : ObjRepr .label true [118] .header [([97], [120, 32]), ([98], [121])] :=
  ⟨by decide, by decide, by decide, by decide, by decide, by decide, by decide⟩

/-! ### Query parameters (style form): client fragment → `url.ParseQuery` → `BindQueryParameter` -/

/-- A primitive query parameter, exploded or not, arrives as the value supplied (any bytes; the unexploded
form splits on commas, so the value must not contain one). -/
theorem C04_query_prim_roundtrip (explode required : Bool) (name s : Str) (hn : Security.NameOk name)
    (hs : ∀ b ∈ s, b < 256) (hnc : cComma ∉ s) :
    ∃ q, parseQuery (styleParam .form explode name .query (.prim s)) = .ok q ∧
      bindQuery explode required name .prim [] q = .ok (some (.prim s)) :=
  ⟨_, Security.parse_form_prim explode name s hn hs,
    Security.query_prim_roundtrip explode required name s hn hs hnc _ (Security.parse_form_prim explode name s hn hs)⟩

/-- An exploded array query parameter (`name=a&name=b`, the default): any bytes in the items. -/
theorem C04_query_array_exploded_roundtrip (required : Bool) (name : Str) (xs : List Str) (hn : Security.NameOk name)
    (hne : xs ≠ []) (hb : ∀ x ∈ xs, ∀ b ∈ x, b < 256) :
    ∃ q, parseQuery (styleParam .form true name .query (.arr xs)) = .ok q ∧
      bindQuery true required name .arr [] q = .ok (some (.arr xs)) :=
  Security.query_array_exploded_roundtrip required name xs hn hne hb

/-- An unexploded array query parameter (`name=a,b,c`): items without a comma. -/
theorem C04_query_array_unexploded_roundtrip (required : Bool) (name : Str) (xs : List Str) (hn : Security.NameOk name)
    (hne : xs ≠ []) (hb : ∀ x ∈ xs, ∀ b ∈ x, b < 256) (hnc : ∀ x ∈ xs, cComma ∉ x) :
    ∃ q, parseQuery (styleParam .form false name .query (.arr xs)) = .ok q ∧
      bindQuery false required name .arr [] q = .ok (some (.arr xs)) :=
  Security.query_array_unexploded_roundtrip required name xs hn hne hb hnc

/-- An exploded object query parameter (`k1=v1&k2=v2`, the default for objects): member names that need no
escaping, any bytes in the values. -/
theorem C04_query_object_exploded_roundtrip (required : Bool) (name : Str) (kvs : List (Str × Str)) (hne : kvs ≠ [])
    (hk : ∀ kv ∈ kvs, Security.NameOk kv.1) (hnd : (kvs.map (·.1)).Nodup) (hb : ∀ kv ∈ kvs, ∀ b ∈ kv.2, b < 256) :
    ∃ q, parseQuery (styleParam .form true name .query (.obj kvs)) = .ok q ∧
      bindQuery true required name .obj (kvs.map (·.1)) q = .ok (some (.obj kvs)) :=
  Security.query_object_exploded_roundtrip required name kvs hne hk hnd hb

example : Security.NameOk [118] := by intro b hb; simp at hb; subst hb; decide

/-- An unexploded object query parameter (`name=k1,v1,k2,v2`): member names that need no escaping, names and values
without a comma, any other bytes in the values. -/
theorem C04_query_object_unexploded_roundtrip (required : Bool) (name : Str) (kvs : List (Str × Str)) (hne : kvs ≠ [])
    (hn : Security.NameOk name) (hk : ∀ kv ∈ kvs, Security.NameOk kv.1) (hkc : ∀ kv ∈ kvs, cComma ∉ kv.1)
    (hb : ∀ kv ∈ kvs, ∀ b ∈ kv.2, b < 256) (hvc : ∀ kv ∈ kvs, cComma ∉ kv.2) :
    ∃ q, parseQuery (styleParam .form false name .query (.obj kvs)) = .ok q ∧
      bindQuery false required name .obj [] q = .ok (some (.obj kvs)) := by
  let w := join [cComma] (objParts false .query kvs)
  have hfrag : styleParam .form false name .query (.obj kvs) = Security.segN name w := by
    simp [styleParam, objPrefixSep, Security.segN, w, cEq]
  have hw : ∀ c ∈ w, c ≠ 38 ∧ c ≠ 59 ∧ c ≠ 61 := by
    intro c hc
    rcases Security.mem_join _ _ c hc with hsep | ⟨l, hl, hcl⟩
    · simp only [List.mem_singleton, cComma] at hsep
      omega
    · simp only [objParts, Bool.false_eq_true, if_false, List.mem_flatMap, List.mem_cons, List.not_mem_nil, or_false] at hl
      obtain ⟨kv, hkv, rfl | rfl⟩ := hl
      · exact (hk kv hkv c hcl).2
      · exact Security.esc_ok kv.2 (hb kv hkv) c (by simpa using hcl)
  have hsep : plainStr .query [cComma] := by
    intro b hb'; simp only [List.mem_singleton] at hb'; subst hb'; decide
  have hdec := (objParts_dec false .query (by decide) [cComma] hsep kvs
    (fun kv hkv b hb' => (hk kv hkv b hb').1) hb).unesc
  have hd : unescape .query w = some (join [cComma] (rawParts false kvs)) := by
    simp only [unescLoc] at hdec
    cases hu : unescape .query (join [cComma] (objParts false .query kvs)) with
    | none => simp [hu] at hdec
    | some r => simp only [hu, Except.ok.injEq] at hdec; simp [hdec]
  refine ⟨[(name, [join [cComma] (rawParts false kvs)])], ?_, ?_⟩
  · rw [hfrag, Security.parseQuery_eq, split_no_sep cAmp _ (Security.segN_no_amp _ _ hn hw)]
    simp only [List.foldlM_cons, List.foldlM_nil, Security.parseStep_segN [] name w _ hn hw hd]
    rfl
  · have hs := split_join cComma (rawParts false kvs) (rawParts_ne_nil false kvs hne)
      (rawParts_nodelim false cComma (by decide) kvs hkc hvc)
    have hp : pairUp (rawParts false kvs) = some kvs := by simpa [rawParts] using pairUp_raw kvs
    simp [bindQuery, qLookup, hs, hp]

example : ∃ q, parseQuery (styleParam .form false [112] .query (.obj [([97], [49, 32, 38]), ([98], [])])) = .ok q ∧
    bindQuery false true [112] .obj [] q = .ok (some (.obj [([97], [49, 32, 38]), ([98], [])])) :=
  C04_query_object_unexploded_roundtrip true [112] _ (by simp)
    (by intro b hb; simp at hb; subst hb; decide)
    (by intro kv hkv b hb; simp at hkv; rcases hkv with rfl | rfl <;> (simp at hb; subst hb; decide))
    (by intro kv hkv; simp at hkv; rcases hkv with rfl | rfl <;> decide)
    (by intro kv hkv b hb; simp at hkv; rcases hkv with rfl | rfl <;> simp at hb; rcases hb with rfl | rfl | rfl <;> decide)
    (by intro kv hkv; simp at hkv; rcases hkv with rfl | rfl <;> decide)

/-! ### deepObject (flat object of strings) -/

/-- A deepObject query parameter whose member names and values need no escaping arrives as the members
supplied (the pinned runtime escapes neither names nor values, hence the restriction). -/
theorem C04_deepobject_roundtrip (name : Str) (kvs : List (Str × Str)) (hne : kvs ≠ []) (hn : Security.NameOk name)
    (hsorted : DeepObject.sortByKey kvs = kvs) (hnd : (kvs.map (·.1)).Nodup)
    (hk : ∀ kv ∈ kvs, Security.NameOk kv.1) (hv : ∀ kv ∈ kvs, Security.NameOk kv.2) :
    ∃ q, parseQuery (DeepObject.frag name kvs) = .ok q ∧ DeepObject.bind name q = .ok kvs :=
  DeepObject.deepobject_roundtrip name kvs hne hn hsorted hnd hk hv

/-- Outside that restriction the value is cut: `v[a]=x&y` is read as member a = "x" plus a stray key "y"
(pinned runtime v1.1.0; recorded as a known finding, reproduced through the generated client). -/
theorem C04_deepobject_amp_witness :
    (parseQuery (DeepObject.oas [118] [([97], [120, 38, 121])])).toOption =
      some [([118, 91, 97, 93], [[120]]), ([121], [[]])] := DeepObject.deepobject_amp_witness

end OapiVerif.Codec
