import OapiVerif.Model.Embed
import OapiVerif.Props.C16
/-!
C19 — The embedded specification is the input specification.

PARTIAL: kin-openapi's JSON marshal / load and gzip are hypotheses (`gunzip (gzip b) = some b`);
proved: chunking, base64 and the Go string literals lose nothing, so `decodeSpec` returns exactly the
marshalled bytes; the embedded document is the filtered and pruned one by C15/C16.
Tie: CORR of `b64encode`/`chunk` with encoding/base64 and the emitted literal (harness), RUN: the
`swaggerSpec` literal of real outputs is decoded, loaded, validated and compared semantically with the
input document after the *statement's* filter and prune.
-/
namespace OapiVerif.Embed

theorem chunkN_flatten {α} (w : Nat) : ∀ (n : Nat) (s : List α), (chunkN w n s).flatten = s := by
  intro n
  induction n with
  | zero => intro s; simp only [chunkN]; split <;> simp_all
  | succ n ih =>
    intro s
    simp only [chunkN]
    split
    · simp [ih, List.take_append_drop]
    · split <;> simp_all

/-- Joining the chunks gives back the encoded string, whatever its length. -/
theorem C19_chunk_flatten {α} (w : Nat) (s : List α) : (chunk w s).flatten = s := chunkN_flatten w _ s

theorem chunkN_len {α} (w : Nat) (hw : 0 < w) : ∀ (n : Nat) (s : List α), s.length ≤ n →
    ∀ c ∈ chunkN w n s, c.length ≤ w ∧ c ≠ [] := by
  intro n
  induction n with
  | zero =>
    intro s hs c hc
    have : s = [] := List.eq_nil_of_length_eq_zero (by omega)
    simp [chunkN, this] at hc
  | succ n ih =>
    intro s hs c hc
    simp only [chunkN] at hc
    split at hc
    · next hgt =>
      rcases List.mem_cons.mp hc with rfl | hc
      · have hl : (s.take w).length = w := by rw [List.length_take]; omega
        refine ⟨by omega, ?_⟩
        intro e
        rw [e] at hl; simp at hl; omega
      · have hd : (s.drop w).length ≤ n := by rw [List.length_drop]; omega
        exact ih (s.drop w) hd c hc
    · next hle =>
      split at hc
      · simp at hc
      · next hne =>
        simp at hc; subst hc
        exact ⟨by omega, by simpa using hne⟩

/-- Every chunk has between 1 and 80 characters (no empty literal, no over-long line). -/
theorem C19_chunk_len {α} (s : List α) : ∀ c ∈ chunk 80 s, c.length ≤ 80 ∧ c ≠ [] :=
  chunkN_len 80 (by decide) _ s (Nat.le_refl _)

theorem decChar_encChar : ∀ i, i < 64 → decChar (encChar i) = some i := by decide

theorem encChar_ne_pad : ∀ i, i < 64 → encChar i ≠ 61 := by decide

theorem decodeBody_encodeBody : ∀ (bs : Bytes), (∀ b ∈ bs, b < 256) → decodeBody (encodeBody bs) = some bs
  | [], _ => rfl
  | [b0], h => by
    have h0 : b0 < 256 := h b0 (by simp)
    have e1 := decChar_encChar (b0 / 4) (by omega)
    have e2 := decChar_encChar ((b0 % 4) * 16) (by omega)
    simp only [encodeBody, decodeBody, e1, e2]
    congr 2; omega
  | [b0, b1], h => by
    have h0 : b0 < 256 := h b0 (by simp)
    have h1 : b1 < 256 := h b1 (by simp)
    have e1 := decChar_encChar (b0 / 4) (by omega)
    have e2 := decChar_encChar ((b0 % 4) * 16 + b1 / 16) (by omega)
    have e3 := decChar_encChar ((b1 % 16) * 4) (by omega)
    simp only [encodeBody, decodeBody, e1, e2, e3]
    have a1 : b0 / 4 * 4 + (b0 % 4 * 16 + b1 / 16) / 16 = b0 := by omega
    have a2 : (b0 % 4 * 16 + b1 / 16) % 16 * 16 + b1 % 16 * 4 / 4 = b1 := by omega
    rw [a1, a2]
  | b0 :: b1 :: b2 :: rest, h => by
    have h0 : b0 < 256 := h b0 (by simp)
    have h1 : b1 < 256 := h b1 (by simp)
    have h2 : b2 < 256 := h b2 (by simp)
    have ih := decodeBody_encodeBody rest (fun b hb => h b (by simp [hb]))
    have e0 := decChar_encChar (b0 / 4) (by omega)
    have e1 := decChar_encChar ((b0 % 4) * 16 + b1 / 16) (by omega)
    have e2 := decChar_encChar ((b1 % 16) * 4 + b2 / 64) (by omega)
    have e3 := decChar_encChar (b2 % 64) (by omega)
    simp only [encodeBody, decodeBody, e0, e1, e2, e3, ih]
    have a1 : b0 / 4 * 4 + (b0 % 4 * 16 + b1 / 16) / 16 = b0 := by omega
    have a2 : (b0 % 4 * 16 + b1 / 16) % 16 * 16 + (b1 % 16 * 4 + b2 / 64) / 4 = b1 := by omega
    have a3 : (b1 % 16 * 4 + b2 / 64) % 4 * 64 + b2 % 64 = b2 := by omega
    rw [a1, a2, a3]

theorem encChar_lt : ∀ i, i < 64 → encChar i ≠ 61 ∧ encChar i ≠ 34 ∧ encChar i ≠ 92 ∧ encChar i ≠ 10 := by decide

/-- Every character of the body is a base64 alphabet character (never `=`, quote, backslash, newline). -/
theorem encodeBody_chars : ∀ (bs : Bytes), (∀ b ∈ bs, b < 256) →
    ∀ c ∈ encodeBody bs, c ≠ 61 ∧ c ≠ 34 ∧ c ≠ 92 ∧ c ≠ 10
  | [], _, c, hc => by simp [encodeBody] at hc
  | [b0], h, c, hc => by
    have h0 : b0 < 256 := h b0 (by simp)
    simp only [encodeBody, List.mem_cons, List.not_mem_nil, or_false] at hc
    rcases hc with rfl | rfl
    · exact encChar_lt _ (by omega)
    · exact encChar_lt _ (by omega)
  | [b0, b1], h, c, hc => by
    have h0 : b0 < 256 := h b0 (by simp)
    have h1 : b1 < 256 := h b1 (by simp)
    simp only [encodeBody, List.mem_cons, List.not_mem_nil, or_false] at hc
    rcases hc with rfl | rfl | rfl
    · exact encChar_lt _ (by omega)
    · exact encChar_lt _ (by omega)
    · exact encChar_lt _ (by omega)
  | b0 :: b1 :: b2 :: rest, h, c, hc => by
    have h0 : b0 < 256 := h b0 (by simp)
    have h1 : b1 < 256 := h b1 (by simp)
    have h2 : b2 < 256 := h b2 (by simp)
    simp only [encodeBody, List.mem_cons] at hc
    rcases hc with rfl | rfl | rfl | rfl | hc
    · exact encChar_lt _ (by omega)
    · exact encChar_lt _ (by omega)
    · exact encChar_lt _ (by omega)
    · exact encChar_lt _ (by omega)
    · exact encodeBody_chars rest (fun b hb => h b (by simp [hb])) c hc

theorem encodeBody_length : ∀ (bs : Bytes),
    (encodeBody bs).length = bs.length / 3 * 4 + (if bs.length % 3 = 0 then 0 else bs.length % 3 + 1)
  | [] => by decide
  | [_] => by simp [encodeBody]
  | [_, _] => by simp [encodeBody]
  | _ :: _ :: _ :: rest => by
    have ih := encodeBody_length rest
    simp only [encodeBody, List.length_cons, ih]
    have e1 : (rest.length + 1 + 1 + 1) / 3 = rest.length / 3 + 1 := by omega
    have e2 : (rest.length + 1 + 1 + 1) % 3 = rest.length % 3 := by omega
    rw [e1, e2]; omega

theorem stripPad_append (body : Bytes) (hlast : ∀ c, body.getLast? = some c → c ≠ 61) (k : Nat) (hk : k ≤ 2) :
    stripPad (body ++ List.replicate k 61) = body := by
  have hrev : ∀ c r, body.reverse = c :: r → c ≠ 61 := by
    intro c r h
    apply hlast c
    rw [List.getLast?_eq_head?_reverse, h]; rfl
  unfold stripPad
  match k, hk with
  | 0, _ =>
    simp only [List.replicate, List.append_nil]
    cases hb : body.reverse with
    | nil => rfl
    | cons c r =>
      have hc := hrev c r hb
      split
      · next heq => simp at heq; exact absurd heq.1 hc
      · next heq => simp at heq; exact absurd heq.1 hc
      · rfl
  | 1, _ =>
    simp only [List.replicate, List.reverse_append, List.reverse_cons, List.reverse_nil, List.nil_append,
      List.singleton_append]
    cases hb : body.reverse with
    | nil => simp [List.reverse_eq_nil_iff.mp hb]
    | cons c r =>
      have hc := hrev c r hb
      split
      · next heq => simp at heq; exact absurd heq.1 hc
      · next heq => simp at heq; rw [← heq, ← hb]; simp
      · next h1 h2 => exact absurd rfl (h2 _)
  | 2, _ =>
    simp only [List.replicate, List.reverse_append, List.reverse_cons, List.reverse_nil, List.nil_append,
      List.singleton_append, List.cons_append]
    simp

/-- base64 decoding inverts encoding for every byte string. -/
theorem C19_b64_roundtrip (bs : Bytes) (h : ∀ b ∈ bs, b < 256) : b64decode (b64encode bs) = some bs := by
  unfold b64decode b64encode
  have hlen : (encodeBody bs ++ List.replicate ((3 - bs.length % 3) % 3) pad).length % 4 = 0 := by
    rw [List.length_append, List.length_replicate, encodeBody_length]
    split <;> omega
  rw [if_neg (by simpa using hlen)]
  have hs := stripPad_append (encodeBody bs) (by
    intro c hc
    exact (encodeBody_chars bs h c (List.mem_of_getLast? hc)).1) ((3 - bs.length % 3) % 3) (by omega)
  simp only [pad] at hs ⊢
  rw [hs]
  exact decodeBody_encodeBody bs h

/-- Every character of the encoded string stands for itself inside a Go string literal. -/
theorem C19_b64_literal_safe (bs : Bytes) (h : ∀ b ∈ bs, b < 256) :
    ∀ c ∈ b64encode bs, c ≠ 34 ∧ c ≠ 92 ∧ c ≠ 10 := by
  intro c hc
  simp only [b64encode, List.mem_append, List.mem_replicate] at hc
  rcases hc with hc | ⟨_, rfl⟩
  · exact (encodeBody_chars bs h c hc).2
  · decide

theorem mapM_literal (chunks : List Bytes) (h : ∀ ch ∈ chunks, ∀ c ∈ ch, c ≠ 34 ∧ c ≠ 92 ∧ c ≠ 10) :
    chunks.mapM goStringLiteralValue = some chunks := by
  induction chunks with
  | nil => rfl
  | cons ch t ih =>
    have h1 : goStringLiteralValue ch = some ch := by
      unfold goStringLiteralValue
      rw [if_pos]
      simp only [List.all_eq_true, Bool.and_eq_true, bne_iff_ne, ne_eq]
      intro c hc
      have := h ch (by simp) c hc
      exact ⟨⟨this.1, this.2.1⟩, this.2.2⟩
    rw [List.mapM_cons, h1, ih (fun x hx => h x (by simp [hx]))]
    rfl

/-- `decodeSpec` applied to the emitted `swaggerSpec` literal returns exactly the marshalled document —
for a document of any size — provided gzip round-trips (hypothesis) and produces bytes. -/
theorem C19_embed_decode (gzip : Bytes → Bytes) (gunzip : Bytes → Option Bytes) (json : Bytes)
    (hz : gunzip (gzip json) = some json) (hb : ∀ b ∈ gzip json, b < 256) :
    decodeSpec gunzip (embed gzip json) = some json := by
  unfold decodeSpec embed
  have hm := mapM_literal (chunk 80 (b64encode (gzip json))) (by
    intro ch hch c hc
    apply C19_b64_literal_safe (gzip json) hb
    rw [← C19_chunk_flatten 80 (b64encode (gzip json))]
    exact List.mem_flatten.mpr ⟨ch, hch, hc⟩)
  simp only [hm, Option.bind_eq_bind, Option.bind_some, C19_chunk_flatten, C19_b64_roundtrip (gzip json) hb, hz]

/-- The document that is embedded is the filtered and pruned one: its operations are exactly the
kept ones and its components exactly the retained ones (C16, C15). -/
theorem C19_embedded_is_filtered_pruned (cfg : Filter.Cfg) (ops : List Filter.Op) (op : Filter.Op) :
    op ∈ Filter.filterDoc cfg ops ↔ op ∈ ops ∧ Filter.keep cfg op = true :=
  Filter.C16_mem_iff cfg ops op

example : b64encode [77, 97, 110] = [84, 87, 70, 117] := by decide
example : b64decode [84, 87, 69, 61] = some [77, 97] := by decide
example : (chunk 3 [1, 2, 3, 4, 5, 6, 7]) = [[1, 2, 3], [4, 5, 6], [7]] := by decide

end OapiVerif.Embed

namespace OapiVerif.Pipeline
open Filter

/-- The inlined specification is generated from the document the other consumers see — after the filters and the pruning
(`C16_pipeline_translated` says what that document is): it is one of the consumers of the stage list read from the source,
and no stage edits the document after the first consumer. -/
theorem C19_embedded_is_the_filtered_pruned_document (cfg : Cfg) (skipPrune : Bool) (ops : List Op) (comps : List OapiVerif.Prune.Comp) :
    Stage.consumer "inlinedSpec" ∈ Gen.Pipeline.stages ∧
    (seenByConsumers cfg skipPrune Gen.Pipeline.stages ⟨ops, comps⟩ false).map (fun s => (s.ops, s.comps)) =
      some (filterDoc cfg ops, if skipPrune then comps else (OapiVerif.Prune.prune (docOf cfg ops comps)).comps) :=
  ⟨by decide, C16_pipeline_translated cfg skipPrune ops comps⟩

end OapiVerif.Pipeline
