import OapiVerif.Proofs.Chain
import OapiVerif.Gen.C14
/-!
C14 — Every middleware wraps every operation, in the documented order.

Model: Model/Chain.lean (`handler = middleware(handler)` folds, gin's abort loop, strict chain).
Tie: TAB-by-RUN — `Gen/C14.lean` is the table of traces measured on the generated servers of all
seven flavours (per-operation and strict middlewares, every short-circuit position, both
compatibility flags, five operation kinds); `C14_table` re-checks it against `expected`.
-/
namespace OapiVerif.Chain

theorem seq_eq_seqThen (mws : List Mw) (op : Nat) : seq mws op = seqThen mws [handlerTok op] := by
  induction mws with
  | nil => rfl
  | cons m ms ih => simp [seq, seqThen, ih]

/-- The wrapper every flavour generates realises the documented order, for every list of
middlewares, whichever of them short-circuit. -/
theorem C14_wrapper_eq_documented (f : Flavour) (flag : Bool) (mws : List Mw) (op : Nat) :
    wrapperTrace f flag mws op = documentedTrace f flag mws op := by
  cases f <;> cases flag <;> simp [wrapperTrace, documentedTrace, run_buildFwd, run_buildRev, runGin]

/-- Default chi / gorilla / std-http: last listed runs first, each exactly once, then the handler. -/
theorem C14_default_order (mws : List Mw) (op : Nat) (h : ∀ m ∈ mws, m.pass = true) :
    wrapperTrace .chi false mws op = mws.reverse.map (·.name) ++ [handlerTok op] := by
  simp only [wrapperTrace, Bool.false_eq_true, if_false, run_buildFwd]
  exact seq_allPass _ _ (fun m hm => h m (List.mem_reverse.mp hm))

/-- With the first-to-last compatibility flag: list order. -/
theorem C14_flag_order (mws : List Mw) (op : Nat) (h : ∀ m ∈ mws, m.pass = true) :
    wrapperTrace .chi true mws op = mws.map (·.name) ++ [handlerTok op] := by
  simp only [wrapperTrace, if_true, run_buildRev]
  exact seq_allPass _ _ h

/-- gin / fiber / iris: list order. -/
theorem C14_gin_order (mws : List Mw) (op : Nat) (h : ∀ m ∈ mws, m.pass = true) :
    wrapperTrace .gin false mws op = mws.map (·.name) ++ [handlerTok op] := by
  simp only [wrapperTrace, runGin]; exact seq_allPass _ _ h

/-- Each middleware runs exactly once and before the handler, which runs last. -/
theorem C14_each_once (mws : List Mw) (op : Nat) (h : ∀ m ∈ mws, m.pass = true) (m : Mw) (hm : m ∈ mws)
    (hn : (mws.map (·.name)).Nodup) (hh : ∀ x ∈ mws, x.name ≠ handlerTok op) :
    (seq mws op).count m.name = 1 := by
  rw [seq_allPass _ _ h, List.count_append]
  have h1 : (mws.map (·.name)).count m.name = 1 := by
    rw [hn.count, if_pos (List.mem_map.mpr ⟨m, hm, rfl⟩)]
  have h2 : [handlerTok op].count m.name = 0 := by
    simp only [List.count_cons, List.count_nil]
    have := hh m hm
    simp [Ne.symm this]
  omega

/-- A middleware that does not call its successor prevents the handler (and everything inside it)
from running. -/
theorem C14_short_circuit (pre : List Mw) (m : Mw) (post : List Mw) (op : Nat)
    (hpre : ∀ x ∈ pre, x.pass = true) (hm : m.pass = false)
    (hh : ∀ x ∈ pre ++ [m], x.name ≠ handlerTok op) :
    handlerTok op ∉ seq (pre ++ m :: post) op := by
  rw [seq_stop pre m post op hpre hm]
  intro hc
  simp only [List.mem_append, List.mem_map, List.mem_singleton] at hc
  rcases hc with ⟨x, hx, e⟩ | e
  · exact hh x (by simp [hx]) e
  · exact hh m (by simp) e.symm

/-- Strict middlewares: last listed runs first, every one receives the operation's identifier. -/
theorem C14_strict_order (mws : List Mw) (op : Nat) (h : ∀ m ∈ mws, m.pass = true) :
    strictTrace mws op = mws.reverse.map (fun m => strictTok op m.name) ++ [handlerTok op] := by
  simp only [strictTrace, run_buildFwd]
  rw [seq_allPass]
  · simp [List.map_reverse]
  · intro m hm
    simp only [List.mem_reverse, List.mem_map] at hm
    obtain ⟨a, ha, rfl⟩ := hm
    exact h a ha

/-- TAB: every measured cell of the regenerated table shows the documented trace. -/
theorem C14_table : ∀ r ∈ Gen.C14.table, rowOk r = true := by decide +kernel

/-! Non-vacuity -/
example : wrapperTrace .chi false [⟨0, true⟩, ⟨1, true⟩] 3 = [1, 0, handlerTok 3] := by decide
example : wrapperTrace .gorilla true [⟨0, true⟩, ⟨1, false⟩, ⟨2, true⟩] 3 = [0, 1] := by decide
example : strictTrace [⟨0, true⟩, ⟨1, true⟩] 2 = [strictTok 2 1, strictTok 2 0, handlerTok 2] := by decide

end OapiVerif.Chain
