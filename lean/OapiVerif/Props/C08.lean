import OapiVerif.Model.TypeMap
import OapiVerif.Gen.C08
import OapiVerif.Proofs.SchemaOrder
import OapiVerif.Proofs.FieldTags
import OapiVerif.Gen.FieldRules
/-!
C08 — Go types follow the documented schema mapping.

The quantifier is a finite product (type × format; required × nullable × readOnly × writeOnly ×
extensions × options; one row per extension), so the tie is TAB: the generator is executed on every
cell on every run (`Gen/C08.lean`) and the kernel re-checks every cell against the documentation
oracles of Model/TypeMap.lean. Independence of the member rule from the member's own type, nesting and
names is covered by CORR on seeded schema trees (harness `c08`).
-/
namespace OapiVerif.TypeMap

/-- Every (type, format) pair — each format literal the generator knows plus an unknown one — maps to
the documented Go type, or is rejected where the documentation has no type. -/
theorem C08_type_table : ∀ r ∈ Gen.C08.typeRows, typeRowOk r = true := by decide +kernel

/-- Slices, maps for free-form and additional-properties-only objects, named types for references — at top
level and as optional members (pointers). -/
theorem C08_shape_table : Gen.C08.shapeRows.all shapeRowOk = true ∧
    (List.range 17).all (fun sh => Gen.C08.shapeRows.any (fun r => r.shape == sh && !r.asMember) &&
      Gen.C08.shapeRows.any (fun r => r.shape == sh && r.asMember)) = true := by decide +kernel

/-- The table enumerates the whole domain: 4 types × 21 formats. -/
theorem C08_type_table_complete :
    ∀ ty, ty < 4 → ∀ fmt, fmt < 21 → (Gen.C08.typeRows.any fun r => r.ty == ty && r.fmt == fmt) = true := by
  decide +kernel

set_option maxRecDepth 1000000 in
/-- Pointer, nullable wrapper, omitempty and json tag of every cell of
required × nullable × readOnly × writeOnly × skip-optional-pointer × x-omitempty × x-go-json-ignore ×
nullable-type × disable-required-readonly-as-pointer are the documented ones. -/
theorem C08_field_table : ∀ r ∈ Gen.C08.fieldRows, fieldRowOk r = true := by decide +kernel

/-- Each documented extension changes exactly the coordinate it documents and nothing else. -/
theorem C08_extension_table : ∀ r ∈ Gen.C08.extRows, extRowOk r = true := by decide +kernel

theorem C08_extension_table_complete : ∀ e, e < 11 → (Gen.C08.extRows.any fun r => r.ext == e) = true := by
  decide +kernel

/-! Properties of the documentation oracle itself (so that the table check is not vacuous). -/

/-- A required, non-nullable, plain member is neither a pointer nor omitempty. -/
theorem C08_plain_required :
    docPointer ⟨true, false, false, false, 0, 0, 0, false, false, false, false, 0, false⟩ = false ∧
    docOmit ⟨true, false, false, false, 0, 0, 0, false, false, false, false, 0, false⟩ = false := by decide

/-- Optional ⇒ pointer and omitempty; nullable ⇒ pointer and never omitempty (without nullable-type). -/
theorem C08_optional_nullable (ro wo : Bool) :
    docPointer ⟨false, false, ro, wo, 0, 0, 0, false, false, false, false, 0, false⟩ = true ∧
    docOmit ⟨false, false, ro, wo, 0, 0, 0, false, false, false, false, 0, false⟩ = true ∧
    docPointer ⟨true, true, ro, wo, 0, 0, 0, false, false, false, false, 0, false⟩ = true ∧
    docOmit ⟨true, true, ro, wo, 0, 0, 0, false, false, false, false, 0, false⟩ = false := by
  cases ro <;> cases wo <;> decide

/-- `x-go-json-ignore: false` is the same as leaving the extension out: the documentation oracle gives an
explicitly false extension the cell of the unset one, whatever the other coordinates are. -/
theorem C08_json_ignore_false_is_unset (r : FieldRow) (h : r.jsonIgnore = 2) :
    docTagName r = 0 ∧ docTagName { r with jsonIgnore := 0 } = 0 ∧
    docOmit r = docOmit { r with jsonIgnore := 0 } ∧ docPointer r = docPointer { r with jsonIgnore := 0 } := by
  simp [docTagName, docOmit, docPointer, h]

end OapiVerif.TypeMap

namespace OapiVerif.SchemaOrder
open OapiVerif.Walks

/-- `x-order` changes the order and nothing else: the keys that come out are the keys of the dictionary, each once. -/
theorem C08_x_order_keeps_every_key (m : List Entry) : (sortedSchemaKeys m).Perm (m.map (·.key)) :=
  (sortedEntries_perm m).map _

/-- … and the order is the documented one: ascending `x-order` (an entry without one counts as the size of the
dictionary), by name among equal orders. -/
theorem C08_x_order_ascending (m : List Entry) :
    (sortedEntries m).Pairwise (fun a b => eff m.length a < eff m.length b ∨
      (eff m.length a = eff m.length b ∧ kle a.key b.key = true)) := by
  refine (sortedEntries_pairwise m).imp ?_
  intro a b h
  unfold ole at h
  by_cases he : eff m.length a = eff m.length b
  · right; simp only [he, if_true] at h; exact ⟨he, h⟩
  · left; simp only [he, if_false, decide_eq_true_eq] at h; exact h

/-- Without any `x-order` the order is the plain order of the names. -/
theorem C08_without_x_order_by_name (m : List Entry) (h : ∀ e ∈ m, e.order = none) :
    (sortedSchemaKeys m).Pairwise (fun a b => kle a b = true) := by
  unfold sortedSchemaKeys
  rw [List.pairwise_map]
  refine (List.Pairwise.and_mem.mp (sortedEntries_pairwise m)).imp ?_
  intro a b ⟨ha, hb, hab⟩
  have ha' := h a ((sortedEntries_perm m).mem_iff.mp ha)
  have hb' := h b ((sortedEntries_perm m).mem_iff.mp hb)
  unfold ole eff at hab
  simpa [ha', hb'] using hab

end OapiVerif.SchemaOrder

namespace OapiVerif.FieldTags

/-- `x-oapi-codegen-extra-tags` **changes exactly its own keys**: a tag key the extension does not name has the value it
has without the extension; a key it names has the extension's value. For every member, every option, every tag map. -/
theorem C08_extra_tags_change_exactly_their_keys (o : Opts) (p : P) (hnd : (p.extra.map (·.1)).Nodup) (k : Str) :
    (k ∉ p.extra.map (·.1) → lookup (fieldTags o p) k = lookup (fieldTags o { p with extra := [] }) k) ∧
    (∀ v, (k, v) ∈ p.extra → lookup (fieldTags o p) k = some v) := by
  constructor
  · intro hk
    show lookup (p.extra.foldl _ (baseTags o p)) k = lookup (baseTags o p) k
    exact lookup_foldl_other p.extra k hk _
  · intro v hv
    exact lookup_foldl_mem p.extra hnd k v hv _

/-- Every key stands once in the tag, in ascending order (a repeated key is an error of `go vet` and the second one is
ignored by `reflect`). -/
theorem C08_tag_keys_ascending (o : Opts) (p : P) :
    (fieldTags o p).Pairwise fun a b => Responses.lexLt a.1 b.1 = true := by
  have hb : Asc (baseTags o p) := by
    unfold baseTags
    simp only
    have h0 : Asc ([] : List (Str × Str)) := by simp [Asc]
    split <;> split <;> first | exact asc_insertKV _ _ _ (asc_insertKV _ _ _ (asc_insertKV _ _ _ h0)) | exact asc_insertKV _ _ _ (asc_insertKV _ _ _ h0) | exact asc_insertKV _ _ _ h0
  exact asc_foldl p.extra _ hb

/-- The JSON tag is the property name, with `,omitempty` exactly when the member is omitted when empty — unless
`x-go-json-ignore: true` (then `-`) or an extra tag named `json` say otherwise. -/
theorem C08_json_tag_is_property_name (o : Opts) (p : P) (hi : p.jsonIgnore ≠ some true) (he : w "json" ∉ p.extra.map (·.1)) :
    lookup (fieldTags o p) (w "json") = some (if omitEmpty o p then p.jsonName ++ w ",omitempty" else p.jsonName) := by
  show lookup (p.extra.foldl _ (baseTags o p)) (w "json") = _
  rw [lookup_foldl_other p.extra _ he]
  unfold baseTags
  simp only [hi, if_false]
  split
  · rw [lookup_insertKV, if_neg (by decide), lookup_insertKV, if_pos rfl]
  · rw [lookup_insertKV, if_pos rfl]

/-- `omitempty` with the default options and no `x-omitempty`: exactly for non-nullable members that are optional,
read-only or write-only (the documented rule; the generator's table `Gen/C08.lean` measures the same on the real code). -/
theorem C08_omitempty_rule (p : P) (hx : p.xOmitEmpty = none) :
    omitEmpty ⟨false, false⟩ p = (!p.nullable && (!p.required || p.readOnly || p.writeOnly)) := by
  unfold omitEmpty shouldOmit
  rw [hx]
  cases p.nullable <;> cases p.required <;> cases p.readOnly <;> cases p.writeOnly <;> rfl

/-- **The pointer rule as it stands in the source** (`Property.GoTypeDef`, translated by harness/boolrules.go into
`Gen/FieldRules.lean` on every run) **is the documented one**: a pointer exactly for members that are optional, nullable,
write-only, or read-only — a required read-only member only while `disable-required-readonly-as-pointer` is off — unless
the optional pointer is skipped. All 128 assignments. -/
theorem C08_pointer_rule_translated (skip required nullable readOnly writeOnly disableReqRO nullableType : Bool) :
    Gen.FieldRules.pointerRule skip required nullable readOnly writeOnly disableReqRO nullableType =
      (!skip && (!required || nullable || writeOnly || (readOnly && !(required && disableReqRO)))) := by
  cases skip <;> cases required <;> cases nullable <;> cases readOnly <;> cases writeOnly <;> cases disableReqRO <;> rfl

/-- **The omitempty rule as it stands in the source** (`GenFieldsFromProperties`, translated on every run) is the model's
`omitEmpty` for a member without `x-omitempty` — hence, by `C08_omitempty_rule`, the documented rule under the default
options. -/
theorem C08_omitempty_rule_translated (skip : Bool) (o : Opts) (p : P) (hx : p.xOmitEmpty = none) :
    Gen.FieldRules.omitEmptyRule skip p.required p.nullable p.readOnly p.writeOnly o.disableRequiredReadOnlyAsPointer o.nullableType =
      omitEmpty o p := by
  unfold Gen.FieldRules.omitEmptyRule omitEmpty shouldOmit
  rw [hx]

/-- non-vacuity: an optional member of a form body with two extra tags, one of which replaces the form tag -/
example : render (fieldTags ⟨false, false⟩ ⟨w "id", false, false, false, false, true, none, none, [(w "validate", w "required"), (w "form", w "ID")]⟩) =
    w "form:\"ID\" json:\"id,omitempty\" validate:\"required\"" := by decide

end OapiVerif.FieldTags
