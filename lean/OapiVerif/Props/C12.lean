import OapiVerif.Model.Strict
import OapiVerif.Proofs.GoJsonEnc
import OapiVerif.Proofs.Form
import OapiVerif.Gen.C12
import OapiVerif.Proofs.Bodies
import OapiVerif.Proofs.RespDefs
import OapiVerif.Gen.MediaSwitch
/-!
C12 — Strict server delivers decoded requests and writes the declared responses.

Model: Model/Strict.lean. Tie: TAB by RUN — `Gen/C12.lean` holds one row per (framework, operation, request
media type) and per (framework, response object type), measured on the strict servers generated from /repo
and compiled on this run; the kernel checks every row against the statement. RUN (harness c12) reports the
failing cell with its replay.
-/
namespace OapiVerif.Strict

theorem isPrefix_refl (s : List Char) : isPrefix s s = true := by
  induction s with
  | nil => rfl
  | cons a t ih => simp [isPrefix, ih]

theorem isPrefix_append (p s : List Char) : isPrefix p (p ++ s) = true := by
  induction p with
  | nil => rfl
  | cons a t ih => simp [isPrefix, ih]

/-- The body whose declared media type the request names — with or without parameters such as
`; charset=utf-8` — is selected. -/
theorem C12_named_body_selected (declared : List String) (d : String) (params : String) (h : d ∈ declared) :
    d ∈ selected declared (d ++ params) := by
  unfold selected
  simp only [List.mem_filter, h, true_and, String.toList_append]
  exact isPrefix_append _ _

/-- … and it is the only one whenever no other declared media type is a prefix of the Content-Type. -/
theorem C12_only_named_body_selected (declared : List String) (ct d : String) (hd : d ∈ declared) (hnd : declared.Nodup)
    (hp : isPrefix d.toList ct.toList = true)
    (hothers : ∀ e ∈ declared, e ≠ d → isPrefix e.toList ct.toList = false) : selected declared ct = [d] := by
  unfold selected
  induction declared with
  | nil => cases hd
  | cons a t ih =>
    simp only [List.nodup_cons] at hnd
    rcases List.mem_cons.mp hd with rfl | hmem
    · have : t.filter (fun e => isPrefix e.toList ct.toList) = [] := by
        apply List.filter_eq_nil_iff.mpr
        intro e he
        have hne : e ≠ d := fun h => hnd.1 (h ▸ he)
        simp [hothers e (List.mem_cons_of_mem _ he) hne]
      simp [List.filter_cons, hp, this]
    · have hne : a ≠ d := fun h => hnd.1 (h ▸ hmem)
      have ha : isPrefix a.toList ct.toList = false := hothers a (by simp) hne
      simp only [List.filter_cons, ha, Bool.false_eq_true, if_false]
      exact ih hmem hnd.2 (fun e he hne => hothers e (List.mem_cons_of_mem _ he) hne)

/-- Overlapping declarations select two bodies: `application/json` is a prefix of
`application/json-patch+json` (stated as the template behaves; such an operation decodes the body twice). -/
theorem C12_overlapping_prefix_witness :
    selected ["application/json", "application/json-patch+json"] "application/json-patch+json" =
      ["application/json", "application/json-patch+json"] := by decide

/-- A response with a fixed code and media type goes out with exactly those, whatever the object carries. -/
theorem C12_fixed_response (code : Nat) (ct : String) (hs : List String) (s : Supplied) :
    (write ⟨some code, some ct, true, hs⟩ s).status = code ∧ (write ⟨some code, some ct, true, hs⟩ s).contentType = some ct := by
  simp [write]

/-- A default / range / wildcard response goes out with the status and media type supplied with it. -/
theorem C12_supplied_response (hs : List String) (s : Supplied) :
    (write ⟨none, none, true, hs⟩ s).status = s.status ∧ (write ⟨none, none, true, hs⟩ s).contentType = some s.contentType := by
  simp [write]

/-- Only declared headers are written, each with the value the object carries. -/
theorem C12_headers_declared_only (d : Decl) (s : Supplied) :
    ∀ kv ∈ (write d s).headers, kv.1 ∈ d.headers ∧ ∃ e ∈ s.headers, e.1 = kv.1 ∧ e.2 = kv.2 := by
  intro kv hkv
  simp only [write, List.mem_filterMap, Option.map_eq_some_iff] at hkv
  obtain ⟨h, hh, e, hf, rfl⟩ := hkv
  have h1 := List.find?_some hf
  have h2 := List.mem_of_find?_eq_some hf
  simp only [decide_eq_true_eq] at h1
  exact ⟨hh, e, h2, h1, rfl⟩

/-- A response without content carries no Content-Type. -/
theorem C12_no_content (c : Option Nat) (t : Option String) (hs : List String) (s : Supplied) :
    (write ⟨c, t, false, hs⟩ s).contentType = none := by simp [write]

set_option maxRecDepth 100000 in
/-- TAB: on every framework, for every operation and request media type, the handler ran once and received the
path and query parameters and exactly the body the Content-Type selects, equal to what was sent. -/
theorem C12_request_table : Gen.C12.reqRows.all reqRowOk = true := by decide +kernel

set_option maxRecDepth 100000 in
/-- TAB: on every framework, every response object type goes out with the declared (or supplied) status and
media type, all declared headers with the supplied values, and the faithful body. -/
theorem C12_response_table : Gen.C12.respRows.all respRowOk = true := by decide +kernel

set_option maxRecDepth 100000 in
/-- TAB coverage: all seven frameworks, every request class and every response class are in the tables. -/
theorem C12_tables_cover :
    (List.range 7).all (fun fw => Gen.C12.reqRows.any (·.fw == fw) && Gen.C12.respRows.any (·.fw == fw)) = true ∧
    (List.range 6).all (fun c => Gen.C12.reqRows.any (·.cls == c)) = true ∧
    (List.range 6).all (fun c => Gen.C12.respRows.any (·.cls == c)) = true ∧
    Gen.C12.respRows.any (fun r => r.code == 0) = true ∧ Gen.C12.respRows.any (fun r => r.nHeaders > 0) = true := by
  decide +kernel

end OapiVerif.Strict

namespace OapiVerif.GoJson

/-- "the body decoded according to the request's Content-Type …, equal to what the client sent", JSON class: the strict
handler decodes the body into the request object's body type with `json.Unmarshal`; for what `json.Marshal` wrote from a
stable value of that type this is the value itself. -/
theorem C12_json_body_equals_sent (t : GoTy) (v : GoVal) (j : JVal) (hw : wf t = true) (ht : hasTy t v = true)
    (hs : stable t v = true) (he : encode t v = some j) : decode t j = some v := by
  obtain ⟨j', he', hd⟩ := enc_dec t v hw ht hs
  rw [he] at he'
  cases he'
  exact hd

/-- "a body that is the faithful encoding of the value", JSON responses: what the response writer marshals decodes, on
the client, to the value the handler returned. -/
theorem C12_json_response_body_faithful (t : GoTy) (v : GoVal) (hw : wf t = true) (ht : hasTy t v = true)
    (hs : stable t v = true) : (encode t v).bind (decode t) = some v := by
  obtain ⟨j, he, hd⟩ := enc_dec t v hw ht hs
  simp [he, hd]

end OapiVerif.GoJson

namespace OapiVerif.Form

/-- Form class of "the body decoded according to the request's Content-Type, equal to what the client sent": the strict
handler binds the parsed form into the body struct; for the pairs of a well-typed body struct that is the struct. -/
theorem C12_form_body_equals_sent (fs : List Field) (vs : List (Option SVal)) (hnd : (fs.map (·.name)).Nodup)
    (hw : wellTyped fs vs = true) : bind (marshal fs vs) fs = some vs := bind_marshal fs vs hnd hw

end OapiVerif.Form

namespace OapiVerif.Bodies

/-- What the strict server decodes into a typed body: exactly the media classes the documentation names — JSON and
other JSON types, multipart, form, text — and the raw reader for everything else: a definition is supported exactly when
its media type falls into one of the five classes. -/
theorem C12_supported_iff_media_class (E : Env) (ct : Str) (hc : ∀ c, E.isJson c = true → E.camel c ≠ []) :
    (mkBody E ct).supported = true ↔
      (ct = appJson ∨ E.isJson ct = true ∨ multipartPrefix.isPrefixOf ct = true ∨ ct = formUrl ∨ ct = textPlain) := by
  unfold mkBody classify Body.supported
  by_cases h : ct = appJson
  · rw [if_pos h]; simp [h, w]
  · rw [if_neg h]
    by_cases h1 : E.isJson ct = true
    · rw [if_pos h1]
      have := hc ct h1
      simp [h1, this]
    · rw [if_neg h1]
      by_cases h2 : multipartPrefix.isPrefixOf ct = true
      · rw [if_pos h2]; simp [h2, w]
      · rw [if_neg h2]
        by_cases h3 : ct = formUrl
        · rw [if_pos h3]; simp [h3, w]
        · rw [if_neg h3]
          by_cases h4 : ct = textPlain
          · rw [if_pos h4]; simp [h4, w]
          · rw [if_neg h4]; simp [h, h1, h2, h3, h4]

/-- The switch of `GenerateResponseDefinitions`, as translated from the source on every run, names a response content like
the request-body switch names a body (its clauses stand in another order and there is no default flag): the same five media
classes get a typed response, everything else is written from a reader. -/
theorem C12_response_switch_translated (E : Env) (ct : Str) :
    (evalSwitch E Gen.MediaSwitch.respSwitch ct).map (·.1) = (classify E ct).map (·.1) := by
  have hform : multipartPrefix.isPrefixOf formUrl = false := by decide
  unfold Gen.MediaSwitch.respSwitch classify
  simp only [evalSwitch, Cond.holds]
  have e1 : (decide (ct = w "application/json") = true) = (ct = appJson) := by simp [appJson]
  have e4 : (decide (ct = w "application/x-www-form-urlencoded") = true) = (ct = formUrl) := by simp [formUrl]
  have e5 : (decide (ct = w "text/plain") = true) = (ct = textPlain) := by simp [textPlain]
  have e3 : ((w "multipart/").isPrefixOf ct = true) = (multipartPrefix.isPrefixOf ct = true) := rfl
  simp only [e1, e4, e5, e3]
  by_cases h1 : ct = appJson
  · rw [if_pos h1, if_pos h1]; rfl
  · rw [if_neg h1, if_neg h1]
    by_cases h2 : E.isJson ct = true
    · rw [if_pos h2, if_pos h2]
    · rw [if_neg h2, if_neg h2]
      by_cases h4 : ct = formUrl
      · have h3 : ¬ multipartPrefix.isPrefixOf ct = true := by rw [h4, hform]; simp
        rw [if_pos h4, if_neg h3, if_pos h4]
      · rw [if_neg h4]
        by_cases h3 : multipartPrefix.isPrefixOf ct = true
        · rw [if_pos h3, if_pos h3]
        · rw [if_neg h3, if_neg h3, if_neg h4]
          by_cases h5 : ct = textPlain
          · rw [if_pos h5, if_pos h5]
          · rw [if_neg h5, if_neg h5]
            simp

end OapiVerif.Bodies

namespace OapiVerif.RespDefs

/-- `GenerateResponseDefinitions`: one definition per declared status code, in the same (ascending) order; **no two
definitions of an operation are the same component type** — the cases of the generated type switch are distinct types, so a
response object is written with the status code declared for it and not with another one's; and the `Ref` of a definition is
never anything but the component its own response refers to. For every list of responses. -/
theorem C12_component_response_used_once (rs : List RIn) :
    (respDefs rs).map (·.code) = rs.map (·.code) ∧ ((respDefs rs).filterMap (·.ref)).Nodup ∧ Matches rs (respDefs rs) :=
  ⟨go_codes rs [], (go_refs rs []).1, go_pointwise rs []⟩

/-- …and every component some response of the operation refers to is the type of one of its definitions (the first
status code that refers to it, by the theorem above no other): the component is not replaced by copies throughout. -/
theorem C12_component_response_used (rs : List RIn) (r : RIn) (t : Str) (hr : r ∈ rs) (ht : r.ref = some t) :
    ∃ o ∈ respDefs rs, o.ref = some t :=
  go_takes rs [] r t hr ht (by simp)

/-- non-vacuity: 401 and 403 → one component response: the first is the component, the second gets a type of its own -/
example : respDefs [⟨[50], none⟩, ⟨[52, 48, 49], some [69]⟩, ⟨[52, 48, 51], some [69]⟩, ⟨[53], some [70]⟩] =
    [⟨[50], none⟩, ⟨[52, 48, 49], some [69]⟩, ⟨[52, 48, 51], none⟩, ⟨[53], some [70]⟩] := by decide

end OapiVerif.RespDefs
