import OapiVerif.Proofs.Prune
import OapiVerif.Gen.Pipeline
/-!
C15 — Pruning keeps exactly the referenced components.

Model: `OapiVerif.Prune` (Model/Prune.lean).  Tie to /repo: CORR through the `verif`
hooks `VerifPrune`, with the abstraction `Doc` computed by an *independent* `$ref`
scanner over the marshalled JSON (harness `c15`).
-/
namespace OapiVerif.Prune

/-- The result is a fixpoint of one find-refs/remove-orphans round. -/
theorem C15_fixpoint (d : Doc) : step (prune d) = prune d :=
  pruneN_fix _ d (Nat.lt_succ_self _)

/-- Pruning an already pruned document changes nothing. -/
theorem C15_idempotent (d : Doc) : prune (prune d) = prune d := by
  have h := C15_fixpoint d
  have hl : (step (prune d)).comps.length = (prune d).comps.length := by rw [h]
  show pruneN ((prune d).comps.length + 1) (prune d) = prune d
  unfold pruneN; rw [if_pos hl]

/-- What operations refer to is never touched. -/
theorem C15_roots (d : Doc) : (prune d).roots = d.roots := pruneN_roots _ d

/-- Nothing is invented: the retained components are components of the input. -/
theorem C15_sub (d : Doc) : ∀ c, c ∈ (prune d).comps → c ∈ d.comps := pruneN_sub _ d

/-- Every component an operation refers to, directly or through other components, is kept. -/
theorem C15_keeps_reachable (d : Doc) (c : Comp) (h : Reach d c) : c ∈ (prune d).comps := by
  apply pruneN_greatest (Reach d) _ d _ c h
  intro c hc
  cases hc with
  | root hm hr => exact ⟨hm, Or.inl hr⟩
  | via hm hr ho => exact ⟨hm, Or.inr ⟨_, hr, ho⟩⟩

/-- Every component that nothing retained refers to is removed (contrapositive form:
what is retained is referred to by an operation or by something retained). -/
theorem C15_only_referenced (d : Doc) (c : Comp) (h : c ∈ (prune d).comps) :
    c.ref ∈ allRefs (prune d) := by
  have := C15_fixpoint d
  rw [← this] at h
  exact (mem_step.mp h).2

/-- No dangling reference is created: a reference that survives in the pruned document and
resolved to a component of the input still resolves. -/
theorem C15_closed (d : Doc) (c : Comp) (hc : c ∈ d.comps)
    (hr : c.ref ∈ allRefs (prune d)) : c ∈ (prune d).comps :=
  pruneN_closed _ d c hc hr

/-- The retained set is the *greatest* self-supporting subset. -/
theorem C15_greatest (d : Doc) (S : Comp → Prop)
    (hS : ∀ c, S c → c ∈ d.comps ∧ (c.ref ∈ d.roots ∨ ∃ c', S c' ∧ c.ref ∈ c'.out)) :
    ∀ c, S c → c ∈ (prune d).comps :=
  pruneN_greatest S _ d hS

/-! Non-vacuity: a concrete document with a reachable chain, an orphan chain that is
removed in two rounds, and a self-referencing orphan that (as in the code) stays. -/
def exDoc : Doc :=
  ⟨["A"], [⟨"A", ["B"]⟩, ⟨"B", []⟩, ⟨"C", ["D"]⟩, ⟨"D", []⟩, ⟨"E", ["E"]⟩]⟩

example : (prune exDoc).comps.map (·.ref) = ["A", "B", "E"] := by decide
example : Reach exDoc ⟨"B", []⟩ :=
  .via (by decide) (.root (c := ⟨"A", ["B"]⟩) (by decide) (by decide)) (by decide)

end OapiVerif.Prune

namespace OapiVerif.Pipeline

/-- **Pruning comes before every consumer of the document and after the filters**, in the source as it stands (the stage
list is regenerated from codegen.go on every run): among the calls of `Generate` before its first consumer are the two
filters followed by the pruning under `!skip-prune`, and after the first consumer nothing edits the document any more —
so what `OperationDefinitions`, the type definitions and the inlined specification see is one and the same pruned document. -/
theorem C15_pruning_precedes_every_consumer :
    Gen.Pipeline.stages.takeWhile (fun s => !isConsumer s) = [.filterTag, .filterId, .pruneUnlessSkip] ∧
    (Gen.Pipeline.stages.dropWhile (fun s => !isConsumer s)).all isConsumer = true ∧
    Stage.consumer "operationDefinitions" ∈ Gen.Pipeline.stages ∧ Stage.consumer "typeDefinitions" ∈ Gen.Pipeline.stages := by
  decide

end OapiVerif.Pipeline
