import OapiVerif.Proofs.Paths
import OapiVerif.Proofs.Combine
/-!
C03 — Every operation is routed to its own handler with its own path variables.

Model: Model/Paths.lean. Tie: CORR of `scan`/`orderedParams`/`translate`/`sortParamsByPath` with
`OrderedParamsFromUri`, the seven `SwaggerUriTo…Uri` functions and `SortParamsByPath` (seeded and
exhaustive short templates over the alphabet `{ } * . ; ? a /`), and RUN: generated documents ×
concrete request paths × 7 frameworks × base URL, the observed (handler, arguments by name) compared
with `route`.
-/
namespace OapiVerif.Paths

@[simp] theorem tokVar_lit (c : Nat) : tokVar (.lit c) = none := rfl
@[simp] theorem tokVar_var (n : Str) : tokVar (.var n) = some n := rfl
@[simp] theorem segVar_static (s : Str) : segVar (.static s) = none := rfl
@[simp] theorem segVar_var (n : Str) : segVar (.var n) = some n := rfl

theorem filterMap_lits (s : Str) : (s.map Tok.lit).filterMap tokVar = [] := by
  induction s with
  | nil => rfl
  | cons a t ih => simp [tokVar, ih]

theorem flatMap_lits (op cl : Str) (s : Str) : (s.map Tok.lit).flatMap (tokStr op cl) = s := by
  induction s with
  | nil => rfl
  | cons a t ih => simp [tokStr, ih]

/-- On every OAS-conforming template (variables are whole segments named by name characters) the
regular expression finds exactly the declared variables, in path order … -/
theorem C03_ordered_params (segs : List Seg) (hwf : ∀ sg ∈ segs, wfSeg sg = true) :
    orderedParams (render segs) = segs.filterMap segVar := by
  simp only [orderedParams, scan_render segs hwf]
  induction segs with
  | nil => rfl
  | cons sg t ih =>
    have iht := ih (fun x hx => hwf x (by simp [hx]))
    rw [toks_cons]
    cases sg with
    | static s => simp [segToks, List.filterMap_cons, List.filterMap_append, filterMap_lits, iht]
    | var n => simp [segToks, List.filterMap_cons, iht]

/-- … the chi / gorilla / std-http translation leaves such a template unchanged (its static text
and its variable names) … -/
theorem C03_translate_chi (segs : List Seg) (hwf : ∀ sg ∈ segs, wfSeg sg = true) :
    toChi (render segs) = render segs := by
  simp only [toChi, translate, scan_render segs hwf]
  induction segs with
  | nil => rfl
  | cons sg t ih =>
    have iht := ih (fun x hx => hwf x (by simp [hx]))
    rw [toks_cons, render_cons]
    cases sg with
    | static s => simp [segToks, tokStr, renderSeg, List.flatMap_append, flatMap_lits, iht]
    | var n => simp [segToks, tokStr, renderSeg, iht]

/-- … the std-http translation is the same text, closed with `{$}` exactly when the template ends in a slash (a
ServeMux pattern ending in a slash would otherwise stand for every path below it) … -/
theorem C03_translate_stdhttp (segs : List Seg) (hwf : ∀ sg ∈ segs, wfSeg sg = true) :
    toStdHttp (render segs) =
      if (render segs).getLast? = some cSlash then render segs ++ [cOpen, 36, cClose] else render segs := by
  simp only [toStdHttp, C03_translate_chi segs hwf]

/-- … and the echo / gin / fiber / iris translation replaces each `{name}` by `:name`, nothing else. -/
theorem C03_translate_colon (segs : List Seg) (hwf : ∀ sg ∈ segs, wfSeg sg = true) :
    toColon (render segs) = segs.flatMap fun sg => cSlash :: colonSeg sg := by
  simp only [toColon, translate, scan_render segs hwf]
  induction segs with
  | nil => rfl
  | cons sg t ih =>
    have iht := ih (fun x hx => hwf x (by simp [hx]))
    rw [toks_cons]
    cases sg with
    | static s => simp [segToks, tokStr, colonSeg, List.flatMap_append, flatMap_lits, iht]
    | var n => simp [segToks, tokStr, colonSeg, iht]

/-! ### SortParamsByPath: arguments follow the order of the variables in the path, whatever the
order of declaration -/

theorem pick_names (ps : List Param) (names : List Str) (out : List Param)
    (h : pick ps names = .ok out) : out.map (·.name) = names := by
  induction names generalizing out with
  | nil => simp [pick] at h; simp [← h]
  | cons n ns ih =>
    simp only [pick] at h
    cases hf : findByName ps n with
    | none => simp [hf] at h
    | some p =>
      cases hp : pick ps ns with
      | error e => simp [hf, hp] at h
      | ok r =>
        simp [hf, hp] at h
        have hn : p.name = n := by
          have := List.find?_some hf
          simpa using this
        simp [← h, ih r hp, hn]

theorem C03_sort_names (path : Str) (ps out : List Param) (h : sortParamsByPath path ps = .ok out) :
    out.map (·.name) = orderedParams path := by
  unfold sortParamsByPath at h
  split at h
  · simp at h
  · exact pick_names ps _ out h

theorem pick_mem (ps : List Param) (names : List Str) (out : List Param)
    (h : pick ps names = .ok out) : ∀ p ∈ out, p ∈ ps := by
  induction names generalizing out with
  | nil =>
    simp only [pick, Except.ok.injEq] at h
    subst h; intro p hp; cases hp
  | cons n ns ih =>
    simp only [pick] at h
    cases hf : findByName ps n with
    | none => simp [hf] at h
    | some p =>
      cases hp : pick ps ns with
      | error e => simp [hf, hp] at h
      | ok r =>
        simp [hf, hp] at h
        intro q hq
        rw [← h] at hq
        simp only [List.mem_cons] at hq
        rcases hq with rfl | hq
        · exact List.mem_of_find?_eq_some hf
        · exact ih r hp q hq

/-- Every argument handed to the handler is one of the declared parameters. -/
theorem C03_sort_mem (path : Str) (ps out : List Param) (h : sortParamsByPath path ps = .ok out) :
    ∀ p ∈ out, p ∈ ps := by
  unfold sortParamsByPath at h
  split at h
  · simp at h
  · exact pick_mem ps _ out h

theorem find_perm (ps ps' : List Param) (hp : ps.Perm ps') (hnd : (ps.map (·.name)).Nodup) (n : Str) :
    findByName ps n = findByName ps' n := by
  have hnd' : (ps'.map (·.name)).Nodup := (hp.map _).nodup_iff.mp hnd
  have key : ∀ (l : List Param), (l.map (·.name)).Nodup → ∀ a, l.find? (·.name = n) = some a ↔ (a ∈ l ∧ a.name = n) := by
    intro l hl a
    induction l with
    | nil => simp
    | cons x t ih =>
      simp only [List.map_cons, List.nodup_cons, List.mem_map, not_exists, not_and] at hl
      simp only [List.find?_cons]
      by_cases hx : x.name = n
      · simp only [hx, decide_true, List.mem_cons]
        constructor
        · intro h; simp at h; subst h; exact ⟨Or.inl rfl, hx⟩
        · intro ⟨hm, ha⟩
          rcases hm with rfl | hm
          · rfl
          · exact absurd (ha.trans hx.symm) (fun e => hl.1 a hm e)
      · simp only [hx, decide_false, List.mem_cons]
        rw [ih hl.2]
        constructor
        · intro ⟨hm, ha⟩; exact ⟨Or.inr hm, ha⟩
        · intro ⟨hm, ha⟩
          rcases hm with rfl | hm
          · exact absurd ha hx
          · exact ⟨hm, ha⟩
  unfold findByName
  cases h1 : ps.find? (·.name = n) with
  | some a =>
    have := (key ps hnd a).mp h1
    exact ((key ps' hnd' a).mpr ⟨hp.mem_iff.mp this.1, this.2⟩).symm
  | none =>
    cases h2 : ps'.find? (·.name = n) with
    | none => rfl
    | some b =>
      have := (key ps' hnd' b).mp h2
      have := (key ps hnd b).mpr ⟨hp.mem_iff.mpr this.1, this.2⟩
      rw [h1] at this; exact absurd this (by simp)

theorem pick_perm (ps ps' : List Param) (hp : ps.Perm ps') (hnd : (ps.map (·.name)).Nodup) (names : List Str) :
    pick ps names = pick ps' names := by
  induction names with
  | nil => rfl
  | cons n ns ih => simp only [pick, find_perm ps ps' hp hnd n, ih]

/-- The generated signature does not depend on the order in which the path parameters are declared
(path-level before operation-level, or any shuffle). -/
theorem C03_sort_order_independent (path : Str) (ps ps' : List Param) (hp : ps.Perm ps')
    (hnd : (ps.map (·.name)).Nodup) : sortParamsByPath path ps = sortParamsByPath path ps' := by
  unfold sortParamsByPath
  simp only [hp.length_eq, pick_perm ps ps' hp hnd]

/-! ### The router -/

theorem foldl_better_mem (c : Op) (cs : List Op) : cs.foldl better c ∈ c :: cs := by
  induction cs generalizing c with
  | nil => simp
  | cons x t ih =>
    simp only [List.foldl_cons]
    have := ih (better c x)
    have hb : better c x = c ∨ better c x = x := by unfold better; split <;> simp
    simp only [List.mem_cons] at this ⊢
    rcases this with h | h
    · rcases hb with e | e
      · left; rw [h, e]
      · right; left; rw [h, e]
    · right; right; exact h

/-- A request is dispatched only to an operation whose method and path template match it, with the
variables bound to the request's own segments. -/
theorem C03_route_sound (ops : List Op) (m : Nat) (path : List Str) (o : Op) (b : List (Str × Str))
    (h : route ops m path = some (o, b)) :
    o ∈ ops ∧ o.method = m ∧ matchSegs o.segs path = some b := by
  unfold route at h
  split at h
  · simp at h
  · next c cs hc =>
    have hmem := foldl_better_mem c cs
    rw [← hc] at hmem
    simp only [candidates, List.mem_filter, Bool.and_eq_true, beq_iff_eq] at hmem
    simp only [Option.map_eq_some_iff] at h
    obtain ⟨b', hb', heq⟩ := h
    simp only [Prod.mk.injEq] at heq
    obtain ⟨rfl, rfl⟩ := heq
    exact ⟨hmem.1, hmem.2.1, hb'⟩

/-- A request matching no operation reaches no handler. -/
theorem C03_route_none (ops : List Op) (m : Nat) (path : List Str)
    (h : ∀ o ∈ ops, ¬(o.method = m ∧ (matchSegs o.segs path).isSome = true)) :
    route ops m path = none := by
  unfold route
  have : candidates ops m path = [] := by
    simp only [candidates, List.filter_eq_nil_iff, Bool.and_eq_true, beq_iff_eq]
    exact h
  simp [this]

/-- A request matching some operation is dispatched. -/
theorem C03_route_complete (ops : List Op) (m : Nat) (path : List Str) (o : Op) (ho : o ∈ ops)
    (hm : o.method = m) (hs : (matchSegs o.segs path).isSome = true) :
    (route ops m path).isSome = true := by
  unfold route
  split
  · next hc =>
    have : o ∈ candidates ops m path := by
      simp [candidates, List.mem_filter, ho, hm, hs]
    rw [hc] at this; simp at this
  · next c cs hc =>
    have hmem := foldl_better_mem c cs
    rw [← hc] at hmem
    simp only [candidates, List.mem_filter, Bool.and_eq_true] at hmem
    simp only [Option.isSome_map]
    exact hmem.2.2

/-- A concrete path wins over a templated sibling that also matches, whichever is declared first. -/
theorem C03_static_wins (a b : Op) (m : Nat) (path : List Str)
    (ha : a.method = m ∧ (matchSegs a.segs path).isSome = true)
    (hb : b.method = m ∧ (matchSegs b.segs path).isSome = true)
    (hs : moreSpecific a.segs b.segs = true) (hns : moreSpecific b.segs a.segs = false) :
    (route [a, b] m path).map (·.1) = some a ∧ (route [b, a] m path).map (·.1) = some a := by
  obtain ⟨ham, has⟩ := ha
  obtain ⟨hbm, hbs⟩ := hb
  have hva : ∃ x, matchSegs a.segs path = some x := Option.isSome_iff_exists.mp has
  obtain ⟨x, hx⟩ := hva
  constructor
  · simp [route, candidates, List.filter, ham, hbm, has, hbs, better, hns, hx]
  · simp [route, candidates, List.filter, ham, hbm, has, hbs, better, hs, hx]

/-! Non-vacuity -/
example : orderedParams [47, 97, 47, 123, 120, 125, 47, 123, 46, 121, 42, 125] = [[120], [121]] := by decide
example : (route [⟨0, [.static [97], .var [120]], 1⟩, ⟨0, [.static [97], .static [98]], 2⟩] 0 [[97], [98]]).map (·.1.id)
    = some 2 := by decide

end OapiVerif.Paths

namespace OapiVerif.Props.C03
open OapiVerif.Combine

/-! ### path-item and operation declarations of one parameter (`CombineOperationParameters`, Model/Combine.lean) -/

/-- **The operation's declaration wins.** When the two lists combine, the result is the operation's declarations
as given, followed by the path item's declarations of the (location, name) pairs the operation does not declare, in
order; and no (location, name) occurs twice. -/
theorem C03_operation_declaration_wins (pathItem operation combined : List Decl)
    (h : combine pathItem operation = .ok combined) :
    combined = operation ++ pathItem.filter (fun d => !hasKey operation d.key) ∧ (combined.map Decl.key).Nodup :=
  combine_ok pathItem operation combined h

/-- In particular a declaration of the path item that the operation re-declares is not in the result. -/
theorem C03_overridden_declaration_absent (pathItem operation combined : List Decl)
    (h : combine pathItem operation = .ok combined) (d : Decl) (hd : d ∈ pathItem) (ho : hasKey operation d.key = true)
    (hnot : d ∉ operation) : d ∉ combined := by
  rw [(combine_ok pathItem operation combined h).1]
  simp [hnot, ho]

/-- Declarations that repeat nothing always combine (the function fails only on a repeated (location, name) inside one
of the two lists). -/
theorem C03_combine_total (pathItem operation : List Decl) (ho : (operation.map Decl.key).Nodup)
    (hp : ((pathItem.filter (fun d => !hasKey operation d.key)).map Decl.key).Nodup) :
    ∃ combined, combine pathItem operation = .ok combined := by
  unfold combine
  rw [locals_nodup_ok operation [] ho (by intro d _; rfl)]
  simp only [List.reverse_nil, List.nil_append]
  suffices ∀ acc, (acc.map Decl.key).Nodup →
      (∀ d ∈ pathItem.filter (fun d => !hasKey operation d.key), hasKey acc d.key = false) →
      ((pathItem.filter (fun d => !hasKey operation d.key)).map Decl.key).Nodup →
      ∃ g, globals operation pathItem acc = .ok g by
    obtain ⟨g, hg⟩ := this [] (by simp) (by intro d _; rfl) hp
    exact ⟨operation ++ g, by simp [hg]⟩
  clear hp
  induction pathItem with
  | nil => intro acc _ _ _; exact ⟨acc.reverse, rfl⟩
  | cons d rest ih =>
    intro acc hacc hdis hnd
    unfold globals
    by_cases hk : hasKey operation d.key = true
    · simp only [hk, if_true]
      have hf : (d :: rest).filter (fun d => !hasKey operation d.key) = rest.filter (fun d => !hasKey operation d.key) := by
        simp [List.filter_cons, hk]
      rw [hf] at hdis hnd
      exact ih acc hacc hdis hnd
    · have hk' : hasKey operation d.key = false := by simpa using hk
      have hf : (d :: rest).filter (fun d => !hasKey operation d.key) = d :: rest.filter (fun d => !hasKey operation d.key) := by
        simp [List.filter_cons, hk']
      rw [hf] at hdis hnd
      have hd := hdis d (by simp)
      simp only [hk', hd, Bool.false_eq_true, if_false]
      have hnd' : d.key ∉ (rest.filter (fun d => !hasKey operation d.key)).map Decl.key ∧
          ((rest.filter (fun d => !hasKey operation d.key)).map Decl.key).Nodup := by
        simpa only [List.map_cons, List.nodup_cons] using hnd
      refine ih (d :: acc) ?_ ?_ hnd'.2
      · simp only [List.map_cons, List.nodup_cons]
        refine ⟨?_, hacc⟩
        intro hmem
        obtain ⟨e, he, hke⟩ := List.mem_map.mp hmem
        have : hasKey acc d.key = true := (hasKey_iff acc d.key).mpr ⟨e, he, hke⟩
        simp [this] at hd
      · intro e he
        have h1 := hdis e (List.mem_cons_of_mem _ he)
        have hne : d.key ≠ e.key := fun heq => hnd'.1 (List.mem_map.mpr ⟨e, he, heq.symm⟩)
        simp only [hasKey, List.any_cons, Bool.or_eq_false_iff]
        exact ⟨by simpa using hne, by simpa [hasKey] using h1⟩

/-- Non-vacuity: the path item declares `id` (path) and `limit` (query), the operation re-declares `limit` and adds a header. -/
example : combine [⟨0, [105, 100], 1⟩, ⟨1, [108], 2⟩] [⟨1, [108], 7⟩, ⟨2, [120], 8⟩] =
    .ok [⟨1, [108], 7⟩, ⟨2, [120], 8⟩, ⟨0, [105, 100], 1⟩] := by rfl

end OapiVerif.Props.C03
