import OapiVerif.Model.Globals
import OapiVerif.Gen.C17
/-!
C17 — A generation is independent of earlier generations in the process.

Model: Model/Globals.lean. Tie: FACT `Gen/C17.lean` — every package-level `var` of pkg/codegen with
the functions that assign it (go/ast), re-checked by `C17_globals_table`; RUN — for every pair of
option settings (predecessor, successor) and for seeded longer histories (other documents, failing
calls, user templates) the last output is compared with a fresh process.
-/
namespace OapiVerif.Globals

/-- What a call renders with does not depend on the state it starts from. -/
theorem step_out_indep (g g' : State) (c : Call) : (step g c).2 = (step g' c).2 := by
  simp [step]

/-- The state a call leaves behind does not depend on the state it starts from either (so aborted
calls leave nothing behind that a later call could observe). -/
theorem step_state_indep (g g' : State) (c : Call) : (step g c).1 = (step g' c).1 := by
  simp [step]

/-- The output of a generation depends only on its own document and configuration: any finite history
of earlier calls — other documents, other options, failing calls — leaves it equal to the output of the
same call in a fresh process. -/
theorem C17_history_independent (hist : List Call) (c : Call) :
    lastOut step init (hist ++ [c]) = lastOut step init [c] := by
  suffices h : ∀ g, lastOut step g (hist ++ [c]) = some (step g c).2 by
    rw [h]; simp [lastOut]
  induction hist with
  | nil => intro g; simp [lastOut]
  | cons x rest ih =>
    intro g
    cases hr : rest ++ [c] with
    | nil => simp at hr
    | cons y ys =>
      have := ih (step g x).1
      rw [hr] at this
      simp only [List.cons_append, hr, lastOut]
      rw [this]
      exact congrArg some (step_out_indep _ _ c)

/-- Before the repair the full statement was false: a call with `response-type-suffix: Resp` made the
next call without the option use `Resp` (reproduced on the real code; see known-findings.txt `fixed:`). -/
theorem C17_old_suffix_leak_witness :
    ∃ hist c, lastOut stepOld init (hist ++ [c]) ≠ lastOut stepOld init [c] :=
  ⟨[⟨⟨some [82], 0, none, 0, 0⟩, 0⟩], ⟨⟨none, 0, none, 0, 0⟩, 0⟩, by decide⟩

/-- FACT: every package-level variable is either never written after initialisation or assigned
unconditionally at the top of Generate (and otherwise only by the public setters). -/
theorem C17_globals_table : ∀ r ∈ Gen.C17.vars, varOk r = true := by decide +kernel

/-- FACT: the mutable package state is exactly what the model covers — a new cache, counter or
memo table at package level breaks this obligation. -/
theorem C17_mutables_modelled :
    ((Gen.C17.vars.filter (fun r => !r.initOnly)).map (·.name)).all (modelledMutables.contains ·) = true := by
  decide +kernel

example : lastOut step init [⟨⟨some [82], 0, none, 0, 0⟩, 0⟩, ⟨⟨none, 9, none, 0, 0⟩, 1⟩, ⟨⟨none, 0, none, 0, 0⟩, 2⟩]
    = some (some ⟨defaultSuffix, 0, defaultClient, 0, 0, 2⟩) := by decide

end OapiVerif.Globals
