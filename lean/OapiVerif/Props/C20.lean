import OapiVerif.Model.Cli
import OapiVerif.Gen.C20
/-!
C20 — The command-line tool is equivalent to the library for the same configuration.

Model: Model/Cli.lean (generate targets, defaults, validation, style detection, translation tables).
Ties: FACT+TAB `Gen/C20.lean` — the target names of the `generationTargets` switch (go/ast) and, from the
binary built from /repo on this run, what `-output-config` reports for every single target, every pair of
targets and selected longer lists (through the flag and through an old-style file); every key of
configuration-schema.json and of the configuration struct through a new-style file; every old-style key
and every legacy flag. RUN — seeded (document, configuration) pairs expressed as new-style file, old-style
file and legacy flags: output bytes of the tool against `codegen.Generate` with the equivalent
configuration; rejections leave no output; `-output-config` fed back reproduces the output.
-/
namespace OapiVerif.Cli

theorem targetFlags_some {ts : List String} {fs : List Flag} (h : targetFlags ts = some fs) :
    ∀ f, fs.contains f = ts.any (fun t => docTarget t == some f) := by
  induction ts generalizing fs with
  | nil => simp [targetFlags] at h; subst h; simp
  | cons t ts ih =>
    simp only [targetFlags] at h
    split at h
    · rename_i f0 fs0 h1 h2
      cases h
      intro f
      have := ih h2 f
      simp only [List.contains_cons, List.any_cons, this, h1]
      congr 1
      by_cases hf : f = f0
      · subst hf; simp
      · simp
        cases f <;> cases f0 <;> first | rfl | exact absurd rfl hf
    · cases h

theorem targetFlags_none_iff (ts : List String) :
    targetFlags ts = none ↔ ∃ t ∈ ts, docTarget t = none := by
  induction ts with
  | nil => simp [targetFlags]
  | cons t ts ih =>
    simp only [targetFlags, List.mem_cons, exists_eq_or_imp]
    cases h1 : docTarget t <;> cases h2 : targetFlags ts <;> simp_all

/-- A list of targets that contains a name outside the documented table is rejected, wherever the
name stands and whatever else is selected. -/
theorem C20_unknown_target_rejected (base : Eff) (ts : List String) (h : ∃ t ∈ ts, docTarget t = none) :
    cli base ts = none := by
  have := (targetFlags_none_iff ts).mpr h
  simp [cli, generationTargets, this]

/-- Accepted targets select exactly their documented switches: a generate option is on iff one of the
listed names is documented to turn it on (earlier values of the generate options are discarded); the two
output options are on iff listed or already on. -/
theorem C20_targets_exact (base : Eff) (ts : List String) (e : Eff) (h : generationTargets base ts = some e) (f : Flag) :
    e f = ((match f with | .skipFmt | .skipPrune => base f | _ => false) || ts.any (fun t => docTarget t == some f)) := by
  simp only [generationTargets, Option.map_eq_some_iff] at h
  obtain ⟨fs, hfs, rfl⟩ := h
  have := targetFlags_some hfs f
  cases f <;> simp [effOf, ← this]

/-- The order of the targets and repetitions do not matter. -/
theorem C20_targets_order_irrelevant (base : Eff) (ts ts' : List String) (e e' : Eff)
    (hp : ∀ t, t ∈ ts ↔ t ∈ ts') (h : generationTargets base ts = some e) (h' : generationTargets base ts' = some e') :
    e = e' := by
  funext f
  rw [C20_targets_exact base ts e h f, C20_targets_exact base ts' e' h' f]
  congr 1
  rw [Bool.eq_iff_iff]
  simp only [List.any_eq_true]
  constructor
  · rintro ⟨t, ht, h⟩; exact ⟨t, (hp t).mp ht, h⟩
  · rintro ⟨t, ht, h⟩; exact ⟨t, (hp t).mpr ht, h⟩

theorem validate_iff (pkgEmpty : Bool) (e : Eff) :
    validate pkgEmpty e = true ↔ pkgEmpty = false ∧ nServers e ≤ 1 := by
  simp [validate]

theorem two_le_nServers (e : Eff) (f g : Flag) (hf : f.isServer = true) (hg : g.isServer = true) (hne : f ≠ g)
    (ef : e f = true) (eg : e g = true) : 2 ≤ nServers e := by
  unfold nServers serverFlags
  cases f <;> simp [Flag.isServer] at hf <;> cases g <;> simp [Flag.isServer] at hg <;>
    first | exact absurd rfl hne | (simp [ef, eg]; omega)

/-- A configuration that selects more than one server flavour never validates. -/
theorem C20_two_servers_invalid (pkgEmpty : Bool) (e : Eff) (f g : Flag) (hf : f.isServer = true) (hg : g.isServer = true)
    (hne : f ≠ g) (ef : e f = true) (eg : e g = true) : validate pkgEmpty e = false := by
  have := two_le_nServers e f g hf hg hne ef eg
  simp [validate]; omega

theorem updateDefaults_server (e : Eff) (f : Flag) (h : e f = true) (hs : f.isServer = true) : updateDefaults e f = true := by
  have : genIsZero e = false := by
    unfold genIsZero genFlags
    cases f <;> simp [Flag.isServer] at hs <;> simp [h]
  simp [updateDefaults, this, h]

/-- … and so is every target list naming two different server flavours, whatever else it names. -/
theorem C20_two_server_targets_rejected (base : Eff) (ts : List String) (t u : String) (f g : Flag)
    (ht : t ∈ ts) (hu : u ∈ ts) (dt : docTarget t = some f) (du : docTarget u = some g)
    (hf : f.isServer = true) (hg : g.isServer = true) (hne : f ≠ g) : cli base ts = none := by
  unfold cli
  cases h : generationTargets base ts with
  | none => rfl
  | some e =>
    have ef : e f = true := by
      rw [C20_targets_exact base ts e h f]; simp only [Bool.or_eq_true, List.any_eq_true]; right; exact ⟨t, ht, by simp [dt]⟩
    have eg : e g = true := by
      rw [C20_targets_exact base ts e h g]; simp only [Bool.or_eq_true, List.any_eq_true]; right; exact ⟨u, hu, by simp [du]⟩
    have := C20_two_servers_invalid false (updateDefaults e) f g hf hg hne
      (updateDefaults_server e f ef hf) (updateDefaults_server e g eg hg)
    simp [this]

/-- Defaults only fill an empty selection and are stable. -/
theorem C20_defaults_idempotent (e : Eff) : updateDefaults (updateDefaults e) = updateDefaults e := by
  by_cases h : genIsZero e = true
  · have hz : genIsZero (updateDefaults e) = false := by
      rw [updateDefaults, if_pos h]; simp [genIsZero, genFlags]
    rw [updateDefaults, if_neg (by simp [hz])]
  · have : updateDefaults e = e := by rw [updateDefaults, if_neg h]
    rw [this, this]

/-- A configuration file is only ever used in a style under which it parses strictly — a file with a key
that neither style knows is rejected, also when the old style is forced. -/
theorem C20_selected_style_parses (d : Detect) (s : Style) (h : detectStyle d = some s) (hf : d.hasFile = true) :
    (s = .old → d.oldOk = true) ∧ (s = .new → d.newOk = true) := by
  obtain ⟨fo, hfile, o, n, dep⟩ := d
  cases fo <;> cases hfile <;> cases o <;> cases n <;> cases dep <;> cases s <;> simp_all [detectStyle]

theorem C20_unknown_key_rejected (d : Detect) (hf : d.hasFile = true) (ho : d.oldOk = false) (hn : d.newOk = false) :
    detectStyle d = none := by
  obtain ⟨fo, hfile, o, n, dep⟩ := d
  cases fo <;> simp_all [detectStyle]

/-- Before the repair the forced old style accepted such a file (reproduced on the real tool; `fixed:`). -/
theorem C20_forced_old_witness :
    ∃ d : Detect, d.hasFile = true ∧ d.oldOk = false ∧ d.newOk = false ∧ detectStyleOld d ≠ none :=
  ⟨⟨true, true, false, false, false⟩, by decide⟩

/-- FACT: the names accepted by the `generationTargets` switch are exactly the names of the documented table. -/
theorem C20_switch_names_documented :
    Gen.C20.switchNames.all (fun n => (docTarget n).isSome) = true ∧
    documentedNames.all (fun n => Gen.C20.switchNames.contains n && (docTarget n).isSome) = true := by
  decide +kernel

set_option maxRecDepth 1000000 in
/-- TAB: for every target list tried on the built tool, what it reported is what the model computes. -/
theorem C20_targets_table : Gen.C20.targetRows.all targetRowOk = true := by decide +kernel

/-- TAB coverage: every documented name, alone, is a row; so is a name outside the table. -/
theorem C20_targets_table_covers :
    documentedNames.all (fun n => Gen.C20.targetRows.any (fun r => r.targets == [n])) = true ∧
    Gen.C20.targetRows.any (fun r => r.targets.any (fun t => (docTarget t).isNone)) = true := by
  decide +kernel

/-- TAB: every documented configuration key is a key of the configuration struct and vice versa, is
accepted, changes exactly itself in the effective configuration and reads back what was written. -/
theorem C20_keys_table :
    Gen.C20.keyRows.all keyRowOk = true ∧
    documentedKeys.all (fun k => Gen.C20.keyRows.any (fun r => r.key == k)) = true := by decide +kernel

/-- TAB: every old-style key and every legacy flag lands in its documented configuration key,
in every style it can be combined with. -/
theorem C20_translation_table :
    Gen.C20.transRows.all transRowOk = true ∧
    oldKeys.all (fun k => Gen.C20.transRows.any (fun r => r.style == "old-file" && r.name == k)) = true ∧
    legacyFlags.all (fun k => Gen.C20.transRows.any (fun r => r.style != "old-file" && r.name == k)) = true := by
  decide +kernel

example : (cli Eff.none ["chi", "client", "types"]).map Eff.toList = some [.chi, .client, .models] := by decide
example : (cli Eff.none ["skip-prune"]).map Eff.toList = some [.echo, .models, .spec, .skipPrune] := by decide
example : cli Eff.none ["chi", "gin"] = none := by decide
example : cli Eff.none ["chi", "bogus"] = none := by decide


/-- TAB: for every combination of `-old-config-style`, kind of configuration file (old-only, new-only, readable as
both, readable as neither) and presence of a deprecated flag, the tool built from the working tree settles on the
style `detectStyle` prescribes (or refuses where it refuses); all 16 combinations are in the table. (Without a file
both styles read the same flags and cannot be told apart from outside.) -/
theorem C20_detect_table : Gen.C20.detectRows.all detectRowOk = true ∧ Gen.C20.detectRows.length = 16 := by
  decide +kernel

end OapiVerif.Cli
