import OapiVerif.Props.C04
import OapiVerif.Model.Reject
import OapiVerif.Gen.C06
import OapiVerif.Proofs.IntParse
import OapiVerif.Proofs.DateParse
import OapiVerif.Proofs.UuidParse
/-!
C06 — Malformed or missing parameters never reach the user's handler.

Model: Model/Reject.lean (the per-parameter decision structure of the wrappers over the runtime
model). Tie: TAB-by-RUN `Gen/C06.lean` — for every framework × location × {styled, JSON, pass-through}
× required × stimulus the generated server is run and (handler ran?, status, typed error delivered?)
is recorded; `C06_table` re-checks every cell against the statement. Values inside a stimulus class
are covered by the CORR of the runtime model (shared with C04).
-/
namespace OapiVerif.Reject
open OapiVerif.Codec OapiVerif.Escape

/-- A missing required header / cookie never reaches the handler. -/
theorem C06_missing_required_header (st : Style) (explode : Bool) (name : Str) (sh : Shape) :
    (headerParam st explode true name sh none).handlerRuns = false := rfl

theorem C06_missing_required_cookie (explode : Bool) (name : Str) (sh : Shape) :
    (cookieParam explode true name sh none).handlerRuns = false := rfl

/-- A missing required query parameter (primitive or array) never reaches the handler. -/
theorem C06_missing_required_query (explode : Bool) (name : Str) (sh : Shape) (hsh : sh ≠ .obj)
    (fields : List Str) (q : Query) (h : qLookup q name = none) :
    (queryParam explode true name sh fields q).handlerRuns = false := by
  cases sh <;> cases explode <;> simp_all [queryParam, bindQuery, Outcome.handlerRuns]

/-- A repeated single-valued header never reaches the handler. -/
theorem C06_duplicate_header (st : Style) (explode required : Bool) (name : Str) (sh : Shape)
    (a b : Str) (rest : List Str) :
    (headerParam st explode required name sh (some (a :: b :: rest))).handlerRuns = false := rfl

/-- A value the runtime cannot bind never reaches the handler, in any location. -/
theorem C06_unbindable_header (st : Style) (explode required : Bool) (name : Str) (sh : Shape) (v : Str) (e : String)
    (h : bindStyled st explode required name .header sh v = .error e) :
    (headerParam st explode required name sh (some [v])).handlerRuns = false := by
  simp [headerParam, h, Outcome.handlerRuns]

theorem C06_unbindable_path (st : Style) (explode : Bool) (name : Str) (sh : Shape) (v : Str) (e : String)
    (h : bindStyled st explode true name .path sh v = .error e) :
    (pathParam st explode name sh v).handlerRuns = false := by
  simp [pathParam, h, Outcome.handlerRuns]

theorem C06_unbindable_cookie (explode required : Bool) (name : Str) (sh : Shape) (v : Str) (e : String)
    (h : bindStyled .simple explode required name .cookie sh v = .error e) :
    (cookieParam explode required name sh (some v)).handlerRuns = false := by
  simp [cookieParam, h, Outcome.handlerRuns]

theorem C06_unbindable_query (explode required : Bool) (name : Str) (sh : Shape) (fields : List Str) (q : Query)
    (e : String) (h : bindQuery explode required name sh fields q = .error e) :
    (queryParam explode required name sh fields q).handlerRuns = false := by
  simp [queryParam, h, Outcome.handlerRuns]

/-- Instances of "cannot be bound": an empty required value, a label array without its dot, a matrix
array without its prefix, an odd key/value list, a malformed percent-escape in a path. -/
theorem C06_empty_required (st : Style) (explode : Bool) (name : Str) (loc : Loc) (sh : Shape) :
    ∃ e, bindStyled st explode true name loc sh [] = .error e := ⟨"empty", by simp [bindStyled]⟩

theorem C06_label_without_dot (explode required : Bool) (name : Str) (loc : Loc) (c : Nat) (rest : Str)
    (hc : c ≠ cDot) (hu : unescLoc loc (c :: rest) = .ok (c :: rest)) :
    ∃ e, bindStyled .label explode required name loc .arr (c :: rest) = .error e := by
  cases explode
  · refine ⟨"label-prefix", ?_⟩
    simp [bindStyled, hu, splitStyled, hc]
  · have hne : split cDot (c :: rest) ≠ [] := by simp [split]
    cases hs : split cDot (c :: rest) with
    | nil => exact absurd hs hne
    | cons first tl =>
      have hf : first ≠ [] := by
        intro e; subst e
        have := List.intercalate_splitOn (xs := c :: rest) cDot
        simp only [split] at hs
        rw [hs] at this
        cases tl with
        | nil => simp at this
        | cons y t' =>
          rw [List.intercalate_cons_of_ne_nil (by simp)] at this
          simp at this
          exact hc this.1.symm
      exact ⟨"label-prefix", by simp [bindStyled, hu, splitStyled, hs, hf]⟩

theorem C06_odd_pairs (st : Style) (name : Str) (loc : Loc) (required : Bool) (v : Str) (x : Str)
    (hne : (required && v.isEmpty) = false) (hu : unescLoc loc v = .ok v)
    (hs : splitStyled st false true name v = .ok [x]) :
    ∃ e, bindStyled st false required name loc .obj v = .error e :=
  ⟨"pairs", by simp [bindStyled, hne, hu, hs, partsToPairs, pairUp]⟩

theorem C06_bad_escape_path (st : Style) (explode required : Bool) (name : Str) (sh : Shape) (v : Str)
    (hne : (required && v.isEmpty) = false) (h : unescape .path v = none) :
    ∃ e, bindStyled st explode required name .path sh v = .error e :=
  ⟨"unescape", by simp [bindStyled, hne, unescLoc, h]⟩

/-- Conversely a request whose parameter is present and representable is never rejected (arrays;
objects and primitives follow from `C04_object_roundtrip`, `C04_prim_roundtrip` the same way). -/
theorem C06_wellformed_accepted_header (st : Style) (hst : st ≠ .form) (explode required : Bool) (name : Str)
    (xs : List Str) (hR : ArrRepr st explode name .header xs)
    (hreq : required = true → styleParam st explode name .header (.arr xs) ≠ []) :
    headerParam st explode required name .arr (some [styleParam st explode name .header (.arr xs)])
      = .handler (some (.arr xs)) := by
  simp [headerParam, C04_array_roundtrip st hst explode required name .header (by decide) xs hR hreq]

/-- TAB. Full statement: `∀ r ∈ Gen.C06.table, rowOk r = true`. It is false on the unchanged tree for
exactly the cells of `knownDeviation` (see there); what is re-checked on every run is that every
other cell agrees with the statement. -/
theorem C06_table_partial : ∀ r ∈ Gen.C06.table, (rowOk r || knownDeviation r) = true := by
  decide +kernel

example : (headerParam .simple false true [88] .arr none) = .reject .requiredHeader := by decide
example : mustReject ⟨0, 2, 0, 1, true, 8, false, false, 400, 0⟩ = true := by decide

end OapiVerif.Reject

namespace OapiVerif.Props.C06
open OapiVerif.IntParse

/-! ### the typed layer of integer parameters (Model/IntParse.lean: `strconv.ParseInt` + the destination's range) -/

/-- "Conversely, a request whose parameters are … well-formed is never rejected": the decimal text of every value of
the destination's range (`bits` = 32 for int32, 64 for int64 / int) is accepted and gives that value — negative
values, zero and both bounds included. -/
theorem C06_integer_in_range_accepted (bits : Nat) (v : Int) (h : InRange bits v) :
    parseInt bits (renderInt v) = .ok v := parseInt_render bits v h

/-- "a value that cannot be converted to the declared type never reaches the handler" — overflow: the text of a value
outside the destination's range is refused, -/
theorem C06_integer_overflow_rejected (bits : Nat) (v : Int) (h : ¬InRange bits v) :
    parseInt bits (renderInt v) = .error .rejected := parseInt_render_out_of_range bits v h

/-- wrong type: a text with any character besides digits and a sign is refused, -/
theorem C06_integer_malformed_rejected (bits : Nat) (s : Str) (c : Nat) (hc : c ∈ s) (hnd : isDigit c = false)
    (h45 : c ≠ 45) (h43 : c ≠ 43) : parseInt bits s = .error .rejected := parseInt_syntax bits s c hc hnd h45 h43

/-- and nothing outside the range is ever produced. -/
theorem C06_integer_accepted_fits (bits : Nat) (s : Str) (v : Int) (h : parseInt bits s = .ok v) : InRange bits v :=
  parseInt_ok_inRange bits s v h

example : parseInt 32 (renderInt 2147483647) = .ok 2147483647 := parseInt_render _ _ (by decide)
example : parseInt 32 (renderInt 2147483648) = .error .rejected := parseInt_render_out_of_range _ _ (by decide)
example : parseInt 64 [45, 57] = .ok (-9) := by rfl
example : parseInt 64 [49, 46, 53] = .error .rejected := by rfl
example : parseInt 64 [] = .error .rejected := by rfl
example : parseInt 64 [45] = .error .rejected := by rfl
example : parseInt 64 [43, 48, 55] = .ok 7 := by rfl

/-- Booleans: what the client writes is read back, and only the twelve spellings of `strconv.ParseBool` are accepted. -/
theorem C06_boolean_roundtrip_and_accepted_set (b : Bool) (s : Str) :
    parseBool (renderBool b) = some b ∧
    (parseBool s = some true → s ∈ trueTexts) ∧ (parseBool s = some false → s ∈ falseTexts) := by
  refine ⟨by cases b <;> decide, ?_, ?_⟩
  · intro h
    unfold parseBool at h
    split at h
    · rename_i hc; simpa using hc
    · split at h <;> simp at h
  · intro h
    unfold parseBool at h
    split at h
    · simp at h
    · split at h
      · rename_i hc; simpa using hc
      · simp at h

/-! ### the typed layer of `format: date` (Model/DateParse.lean: `time.Parse("2006-01-02")` / `Format`) -/

/-- A date that exists (year up to 9999, month 1–12, a day of that month, leap years counted) is written as ten
characters that are read back as the same date: never rejected. -/
theorem C06_date_written_is_read (t : DateParse.Date) (h : t.valid = true) :
    DateParse.parse (DateParse.format t) = some t := DateParse.parse_format t h

/-- Conversely a text is accepted only if it is the one spelling of a date that exists: a month 13, a 30th of
February, a missing leading zero, a trailing character are all refused ("bad date"). -/
theorem C06_date_accepted_only_if_exists (s : DateParse.Str) (t : DateParse.Date) (h : DateParse.parse s = some t) :
    t.valid = true ∧ DateParse.format t = s := DateParse.parse_some s t h

def wD (s : String) : DateParse.Str := s.toList.map Char.toNat

example : DateParse.parse (wD "2024-02-29") = some ⟨2024, 2, 29⟩ ∧ DateParse.parse (wD "2023-02-29") = none ∧
    DateParse.parse (wD "1900-02-29") = none ∧ DateParse.parse (wD "2000-02-29") = some ⟨2000, 2, 29⟩ ∧
    DateParse.parse (wD "2021-13-01") = none ∧ DateParse.parse (wD "2021-1-01") = none ∧
    DateParse.parse (wD "2021-04-31") = none ∧ DateParse.parse (wD "2021-04-30x") = none ∧
    DateParse.parse (wD "2021-00-10") = none := by decide

/-! ### the typed layer of `format: uuid` (Model/UuidParse.lean: `github.com/google/uuid` `Parse` / `String`) -/

/-- Every 16-byte value is written as 36 characters that are read back as the same 16 bytes. -/
theorem C06_uuid_written_is_read (bs : List Nat) (hl : bs.length = 16) (hb : ∀ x ∈ bs, x < 256) :
    UuidParse.parse (UuidParse.render bs) = some bs := UuidParse.parse_render bs hl hb

/-- A text of any other length than the four the library knows (36; 45 with `urn:uuid:`; 38; 32) is refused. -/
theorem C06_uuid_other_lengths_rejected (s : UuidParse.Str)
    (h : s.length ≠ 36 ∧ s.length ≠ 45 ∧ s.length ≠ 38 ∧ s.length ≠ 32) : UuidParse.parse s = none := by
  obtain ⟨h1, h2, h3, h4⟩ := h
  simp [UuidParse.parse, h1, h2, h3, h4]

example : UuidParse.parse (wD "123e4567-e89b-12d3-a456-426614174000") =
    some [0x12, 0x3e, 0x45, 0x67, 0xe8, 0x9b, 0x12, 0xd3, 0xa4, 0x56, 0x42, 0x66, 0x14, 0x17, 0x40, 0x00] := by decide
example : UuidParse.parse (wD "123e4567-e89b-12d3-a456-42661417400g") = none := by decide
example : UuidParse.parse (wD "123e4567e89b-12d3-a456-4266141740000") = none := by decide

end OapiVerif.Props.C06
