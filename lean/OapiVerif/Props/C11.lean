import OapiVerif.Model.Enums
import OapiVerif.Proofs.EnumClash
import OapiVerif.Proofs.Itoa
/-!
C11 — Enum constants are complete and carry the exact specification values.

Model: Model/Enums.lean (`SanitizeEnumNames`, the `%q` rendering and the Go lexer's reading of it).
Ties (harness c11): CORR — `codegen.SanitizeEnumNames` vs `sanitizeEnumNames`, `strconv.Quote`/`Unquote` vs
`quoteGo`/`unquoteGo`; RUN — the generated file type-checked with go/types: the multiset of value sets of the
generated enum types equals the multiset of distinct-value sets of the document's enum schemas.
Model/EnumClash.lean: `GenerateEnums`' choice of the enums whose constants get the type name as prefix (one pass =
the code before the repair, `resolveFix` = the repeated pass); CORR — the constant blocks `GenerateEnums` renders for
seeded enum/type name sets vs `resolveFix`.
-/
namespace OapiVerif.Enums
open OapiVerif.Names

/-! ### First pass: each distinct value exactly once -/

theorem go_spec (ns vs seen : List Str) :
    (∀ v ∈ vs, v ∈ seen ∨ v ∈ (stage1.go ns vs seen).map (·.2)) ∧
    (∀ p ∈ stage1.go ns vs seen, p.2 ∈ vs ∧ p.2 ∉ seen) ∧
    ((stage1.go ns vs seen).map (·.2)).Nodup := by
  induction vs generalizing ns seen with
  | nil => simp [stage1.go]
  | cons v vs ih =>
    unfold stage1.go
    by_cases hs : seen.contains v = true
    · simp only [hs, if_true]
      obtain ⟨h1, h2, h3⟩ := ih ns.tail seen
      refine ⟨?_, ?_, h3⟩
      · intro x hx
        rcases List.mem_cons.mp hx with rfl | hx
        · left; simpa using hs
        · exact h1 x hx
      · intro p hp; exact ⟨List.mem_cons_of_mem _ (h2 p hp).1, (h2 p hp).2⟩
    · simp only [hs, Bool.false_eq_true, if_false]
      have hs' : v ∉ seen := by simpa using hs
      obtain ⟨h1, h2, h3⟩ := ih ns.tail (v :: seen)
      refine ⟨?_, ?_, ?_⟩
      · intro x hx
        rcases List.mem_cons.mp hx with rfl | hx
        · right; simp
        · rcases h1 x hx with h | h
          · rcases List.mem_cons.mp h with rfl | h
            · right; simp
            · left; exact h
          · right; simp only [List.map_cons, List.mem_cons]; right; exact h
      · intro p hp
        rcases List.mem_cons.mp hp with rfl | hp
        · exact ⟨by simp, hs'⟩
        · have := h2 p hp
          exact ⟨List.mem_cons_of_mem _ this.1, fun h => this.2 (List.mem_cons_of_mem _ h)⟩
      · simp only [List.map_cons, List.nodup_cons]
        refine ⟨?_, h3⟩
        intro hm
        obtain ⟨p, hp, hpv⟩ := List.mem_map.mp hm
        exact (h2 p hp).2 (by rw [hpv]; simp)

/-- After the first pass every value of the list occurs exactly once (duplicates collapse, nothing else does —
whatever the variable names are), and nothing is invented. -/
theorem C11_stage1_each_value_once (names values : List Str) :
    (∀ v ∈ values, v ∈ (stage1 names values).map (·.2)) ∧
    (∀ p ∈ stage1 names values, p.2 ∈ values) ∧
    ((stage1 names values).map (·.2)).Nodup := by
  obtain ⟨h1, h2, h3⟩ := go_spec names values []
  exact ⟨fun v hv => (h1 v hv).resolve_left (by simp), fun p hp => (h2 p hp).1, h3⟩

/-! ### Second pass: renaming never drops or merges a value -/

theorem stage2_values (san : Str → Str) (ps out : List (Str × Str)) (cnt : List (Str × Nat)) (res : List (Str × Str))
    (h : stage2 san ps out cnt = some res) : res.map (·.2) = (out.reverse.map (·.2)) ++ ps.map (·.2) := by
  induction ps generalizing out cnt with
  | nil => simp [stage2] at h; subst h; simp
  | cons p rest ih =>
    obtain ⟨n, v⟩ := p
    simp only [stage2] at h
    split at h
    · cases h
    · rename_i name cnt' _
      have := ih _ _ h
      simp [this]

theorem freeName_not_taken (taken : List Str) (base : Str) (fuel k : Nat) (name : Str) (k' : Nat)
    (h : freeName taken base fuel k = some (name, k')) : name ∉ taken := by
  induction fuel generalizing k with
  | zero => simp [freeName] at h
  | succ fuel ih =>
    simp only [freeName] at h
    split at h
    · exact ih _ h
    · rename_i hc
      cases h
      simpa using hc

theorem pickName_not_taken (taken : List Str) (cnt : List (Str × Nat)) (s name : Str) (cnt' : List (Str × Nat))
    (h : pickName taken cnt s = some (name, cnt')) : name ∉ taken := by
  unfold pickName at h
  generalize firstCand cnt s = first at h
  by_cases hc : taken.contains first.1 = true
  · simp only [hc, if_true, Option.map_eq_some_iff] at h
    obtain ⟨⟨nm, k'⟩, hf, he⟩ := h
    simp only [Prod.mk.injEq] at he
    obtain ⟨rfl, _⟩ := he
    exact freeName_not_taken _ _ _ _ _ _ hf
  · simp only [hc, Bool.false_eq_true, if_false, Option.some.injEq, Prod.mk.injEq] at h
    obtain ⟨rfl, _⟩ := h
    simpa using hc

theorem stage2_names_nodup (san : Str → Str) (ps out : List (Str × Str)) (cnt : List (Str × Nat)) (res : List (Str × Str))
    (hout : (out.map (·.1)).Nodup) (h : stage2 san ps out cnt = some res) : (res.map (·.1)).Nodup := by
  induction ps generalizing out cnt with
  | nil =>
    simp [stage2] at h; subst h
    rw [List.map_reverse]; exact (List.reverse_perm _).nodup_iff.mpr hout
  | cons p rest ih =>
    obtain ⟨n, v⟩ := p
    simp only [stage2] at h
    split at h
    · cases h
    · rename_i name cnt' hp
      apply ih _ _ _ h
      simp only [List.map_cons, List.nodup_cons]
      exact ⟨pickName_not_taken _ _ _ _ _ hp, hout⟩

/-- `SanitizeEnumNames`: whenever the model's counting loop finds a name within its fuel (always, on every
sample compared with the real function), the constant names are pairwise distinct and the values are exactly
the distinct values of the list, each once — no value is dropped or merged by the renaming. -/
theorem C11_sanitize_complete_partial (U : Uni) (names values : List Str) (res : List (Str × Str))
    (h : sanitizeEnumNames U names values = some res) :
    (res.map (·.1)).Nodup ∧ (res.map (·.2)).Nodup ∧ (∀ v ∈ values, v ∈ res.map (·.2)) ∧ (∀ p ∈ res, p.2 ∈ values) := by
  unfold sanitizeEnumNames at h
  have hv := stage2_values _ _ _ _ _ h
  simp only [List.reverse_nil, List.map_nil, List.nil_append] at hv
  obtain ⟨h1, h2, h3⟩ := C11_stage1_each_value_once names values
  refine ⟨stage2_names_nodup _ _ _ _ _ (by simp) h, by rw [hv]; exact h3, by rw [hv]; exact h1, ?_⟩
  intro p hp
  have : p.2 ∈ res.map (·.2) := List.mem_map.mpr ⟨p, hp, rfl⟩
  rw [hv] at this
  obtain ⟨q, hq, hqp⟩ := List.mem_map.mp this
  rw [← hqp]; exact h2 q hq

theorem freeName_none (taken : List Str) (base : Str) (fuel k : Nat) (h : freeName taken base fuel k = none) :
    ∀ i, i < fuel → base ++ itoa (k + i) ∈ taken := by
  induction fuel generalizing k with
  | zero => intro i hi; omega
  | succ fuel ih =>
    simp only [freeName] at h
    split at h
    · rename_i hc
      intro i hi
      cases i with
      | zero => simpa using hc
      | succ j =>
        have := ih (k + 1) h j (by omega)
        have e : k + 1 + j = k + (j + 1) := by omega
        rw [e] at this; exact this
    · cases h

theorem freeName_some (taken : List Str) (base : Str) (k : Nat) :
    ∃ r, freeName taken base (taken.length + 1) k = some r := by
  cases h : freeName taken base (taken.length + 1) k with
  | some r => exact ⟨r, rfl⟩
  | none =>
    exfalso
    have hall := freeName_none taken base _ k h
    let cands := (List.range (taken.length + 1)).map (fun i => base ++ itoa (k + i))
    have hsub : cands ⊆ taken := by
      intro x hx
      simp only [cands, List.mem_map, List.mem_range] at hx
      obtain ⟨i, hi, rfl⟩ := hx
      exact hall i hi
    have hnd : cands.Nodup := by
      simp only [cands, List.Nodup, List.pairwise_map]
      apply List.Pairwise.imp _ (List.pairwise_lt_range (n := taken.length + 1))
      intro i j hij heq
      have := itoa_inj _ _ (List.append_cancel_left heq)
      omega
    have := hnd.length_le_of_subset hsub
    simp only [cands, List.length_map, List.length_range] at this
    omega

theorem pickName_some (taken : List Str) (cnt : List (Str × Nat)) (s : Str) : ∃ r, pickName taken cnt s = some r := by
  unfold pickName
  split
  · obtain ⟨r, hr⟩ := freeName_some taken s (firstCand cnt s).2
    rw [hr]; exact ⟨_, rfl⟩
  · exact ⟨_, rfl⟩

theorem stage2_some (san : Str → Str) (ps out : List (Str × Str)) (cnt : List (Str × Nat)) :
    ∃ res, stage2 san ps out cnt = some res := by
  induction ps generalizing out cnt with
  | nil => exact ⟨_, rfl⟩
  | cons p rest ih =>
    obtain ⟨n, v⟩ := p
    obtain ⟨⟨name, cnt'⟩, hr⟩ := pickName_some (out.map (·.1)) cnt (san n)
    simp only [stage2, hr]
    exact ih _ _

/-- `SanitizeEnumNames` (full statement): for every list of values and variable names the function yields
pairwise distinct constant names for exactly the distinct values of the list, each once — no value is dropped,
merged or invented. -/
theorem C11_sanitize_complete (U : Uni) (names values : List Str) :
    ∃ res, sanitizeEnumNames U names values = some res ∧
      (res.map (·.1)).Nodup ∧ (res.map (·.2)).Nodup ∧ (∀ v ∈ values, v ∈ res.map (·.2)) ∧ (∀ p ∈ res, p.2 ∈ values) := by
  obtain ⟨res, h⟩ := stage2_some (sanitizeName U) (stage1 names values) [] []
  exact ⟨res, h, C11_sanitize_complete_partial U names values res h⟩

/-! ### The literal -/

/-! ### Third pass -/

theorem pass3_spec (norm : Str → Str) (ps out : List (Str × Str)) (hout : (out.map (·.1)).Nodup) :
    ∃ res, pass3 norm ps out = some res ∧ (res.map (·.1)).Nodup ∧ res.map (·.2) = out.reverse.map (·.2) ++ ps.map (·.2) := by
  induction ps generalizing out with
  | nil =>
    refine ⟨out.reverse, rfl, ?_, by simp⟩
    rw [List.map_reverse]; exact (List.reverse_perm _).nodup_iff.mpr hout
  | cons p rest ih =>
    obtain ⟨n, v⟩ := p
    simp only [pass3]
    split
    · obtain ⟨⟨name, k⟩, hf⟩ := freeName_some (out.map (·.1)) (norm n) 1
      rw [hf]
      have hnt := freeName_not_taken _ _ _ _ _ _ hf
      obtain ⟨res, h1, h2, h3⟩ := ih ((name, v) :: out) (by simp only [List.map_cons, List.nodup_cons]; exact ⟨hnt, hout⟩)
      exact ⟨res, h1, h2, by simp [h3]⟩
    · rename_i hc
      obtain ⟨res, h1, h2, h3⟩ := ih ((norm n, v) :: out) (by
        simp only [List.map_cons, List.nodup_cons]; exact ⟨by simpa using hc, hout⟩)
      exact ⟨res, h1, h2, by simp [h3]⟩

/-- **The constants `GenerateGoSchema` declares for an enum** (`SanitizeEnumNames`, then the type-name renaming of every
name, in whatever order the names are walked): pairwise distinct names, and as values exactly the distinct values of the
schema, each once — no value is dropped or merged by either renaming. For every value list, every variable-name list, every
renaming function. -/
theorem C11_declared_constants_complete (U : Uni) (norm : Str → Str) (names values : List Str) :
    ∃ res, sanitizeEnumNames U names values = some res ∧
      ∀ ps : List (Str × Str), ps.Perm res →
        ∃ out, pass3 norm ps [] = some out ∧ (out.map (·.1)).Nodup ∧ (out.map (·.2)).Nodup ∧
          (∀ v ∈ values, v ∈ out.map (·.2)) ∧ (∀ p ∈ out, p.2 ∈ values) := by
  obtain ⟨res, hr, _, hv, hall, hin⟩ := C11_sanitize_complete U names values
  refine ⟨res, hr, ?_⟩
  intro ps hp
  obtain ⟨out, h1, h2, h3⟩ := pass3_spec norm ps [] (by simp)
  simp only [List.reverse_nil, List.map_nil, List.nil_append] at h3
  have hperm : (out.map (·.2)).Perm (res.map (·.2)) := by rw [h3]; exact hp.map _
  refine ⟨out, h1, h2, hperm.nodup_iff.mpr hv, fun v hvv => hperm.mem_iff.mpr (hall v hvv), ?_⟩
  intro p hpo
  have : p.2 ∈ res.map (·.2) := hperm.mem_iff.mp (List.mem_map.mpr ⟨p, hpo, rfl⟩)
  obtain ⟨q, hq, e⟩ := List.mem_map.mp this
  rw [← e]; exact hin q hq

/-- Pre-repair witness (replayed on the code: enum `[" 1a", "a"]` declared the single constant `A = "a"`; repaired in
/repo): the renamed names were map keys, the second value replaced the first. `ucFirstA` stands for the renaming on these
two names. -/
theorem C11_third_pass_old_witness :
    let norm : Str → Str := fun n => if n = [95, 97] then [65] else n      -- "_a" ↦ "A"
    pass3Old norm [([95, 97], [32, 49, 97]), ([65], [97])] = [([65], [97])] ∧
    pass3 norm [([65], [97]), ([95, 97], [32, 49, 97])] [] = some [([65], [97]), ([65, 49], [32, 49, 97])] := by decide

theorem unhexL_lowerHex (n : Nat) (h : n < 16) : unhexL (lowerHex n) = some n := by
  have : ∀ n, n < 16 → unhexL (lowerHex n) = some n := by decide
  exact this n h

theorem lex_escByte (b : Nat) (hb : b < 256) (acc : Str) :
    (escByte b).foldl lexStep (.normal, acc) = (.normal, acc ++ [b]) := by
  unfold escByte
  by_cases h34 : b = 34
  · subst h34; simp [lexStep, simpleEsc]
  by_cases h92 : b = 92
  · subst h92; simp [lexStep, simpleEsc]
  by_cases h7 : b = 7
  · subst h7; simp [lexStep, simpleEsc]
  by_cases h8 : b = 8
  · subst h8; simp [lexStep, simpleEsc]
  by_cases h12 : b = 12
  · subst h12; simp [lexStep, simpleEsc]
  by_cases h10 : b = 10
  · subst h10; simp [lexStep, simpleEsc]
  by_cases h13 : b = 13
  · subst h13; simp [lexStep, simpleEsc]
  by_cases h9 : b = 9
  · subst h9; simp [lexStep, simpleEsc]
  by_cases h11 : b = 11
  · subst h11; simp [lexStep, simpleEsc]
  simp only [h34, h92, h7, h8, h12, h10, h13, h9, h11, if_false]
  by_cases hc : (b < 32 || b = 127) = true
  · simp only [hc, if_true]
    have hhi : b / 16 < 16 := by omega
    have hlo : b % 16 < 16 := by omega
    have hsum : 16 * (b / 16) + b % 16 = b := by omega
    simp [lexStep, unhexL_lowerHex _ hhi, unhexL_lowerHex _ hlo, hsum]
  · simp only [hc, Bool.false_eq_true, if_false]
    simp [lexStep, h34, h10, h92]

theorem lex_quoteBody (s : Str) (hs : ∀ b ∈ s, b < 256) (acc : Str) :
    (quoteBody s).foldl lexStep (.normal, acc) = (.normal, acc ++ s) := by
  induction s generalizing acc with
  | nil => simp [quoteBody]
  | cons b t ih =>
    have hb : b < 256 := hs b (by simp)
    have ht : ∀ x ∈ t, x < 256 := fun x hx => hs x (by simp [hx])
    simp only [quoteBody, List.flatMap_cons, List.foldl_append] at ih ⊢
    rw [lex_escByte b hb, ih ht]
    simp

theorem unqBody_quoteBody (s : Str) (hs : ∀ b ∈ s, b < 256) : unqBody (quoteBody s ++ [34]) = some s := by
  unfold unqBody
  rw [List.foldl_append, lex_quoteBody s hs]
  simp [lexStep]

/-- The constant's compiled value is the specification's value, for every byte string: quotes, backslashes,
newlines and control characters included. -/
theorem C11_literal_exact (s : Str) (hs : ∀ b ∈ s, b < 256) : unquoteGo (quoteGo s) = some s := by
  simp only [quoteGo, List.cons_append, List.nil_append, unquoteGo]
  exact unqBody_quoteBody s hs

def Plain (v : Str) : Prop := ∀ b ∈ v, b ≠ 34 ∧ b ≠ 92 ∧ b ≠ 10

theorem lex_plain (v : Str) (h : Plain v) (acc : Str) : v.foldl lexStep (.normal, acc) = (.normal, acc ++ v) := by
  induction v generalizing acc with
  | nil => simp
  | cons b t ih =>
    have hb := h b (by simp)
    have ht : Plain t := fun x hx => h x (by simp [hx])
    simp only [List.foldl_cons]
    have : lexStep (.normal, acc) b = (.normal, acc ++ [b]) := by simp [lexStep, hb.1, hb.2.1, hb.2.2]
    rw [this, ih ht]
    simp

theorem unqBody_plain (v : Str) (h : Plain v) : unqBody (v ++ [34]) = some v := by
  unfold unqBody
  rw [List.foldl_append, lex_plain v h]
  simp [lexStep]

/-- Before the repair the value was pasted between quotes: exact only for values without quote, backslash
and newline … -/
theorem C11_raw_literal_exact_partial (v : Str) (h : Plain v) : unquoteGo (rawLit v) = some v := by
  simp only [rawLit, List.cons_append, List.nil_append, unquoteGo]
  exact unqBody_plain v h

/-- … a literal backslash-t became a TAB and a quote made the file unparsable (both reproduced on the real
generator; `fixed:`). -/
theorem C11_raw_literal_witnesses :
    unquoteGo (rawLit [97, 92, 116, 98]) = some [97, 9, 98] ∧ unquoteGo (rawLit [113, 34, 120]) = none := by
  constructor <;> decide

example : sanitizeEnumNames asciiUni [] [w "foo1", w "Foo", w "foo"] =
    some [(w "Foo1", w "foo1"), (w "Foo", w "Foo"), (w "Foo2", w "foo")] := by decide

example : ∀ b ∈ w "a\\tb\"\n", b < 256 := by decide

end OapiVerif.Enums

namespace OapiVerif.Props.C11
open OapiVerif.EnumClash

/-! ### `GenerateEnums`: which enums are prefixed (Model/EnumClash.lean) -/

/-- One pass only ever raises flags: same enums, same order, same names. -/
theorem C11_pass_keeps_enums (uc : Str → Str) (types : List Str) (l : List E) :
    (resolve uc types l).map (fun e => (e.ty, e.names)) = l.map (fun e => (e.ty, e.names)) := by
  have h := resolve_le uc types l
  generalize resolve uc types l = l' at h
  induction h with
  | nil => rfl
  | cons hab _ ih => simp [hab.1, hab.2.1, ih]

/-- After one pass (the code before the repair), two enums that both stay unprefixed share no constant name … -/
theorem C11_unprefixed_enums_share_no_name (uc : Str → Str) (types : List Str) (l : List E) :
    (resolve uc types l).Pairwise fun a b => a.pre = false → b.pre = false → ∀ k, k ∈ a.names → k ∉ b.names :=
  outerN_pairwise uc types l.length l (Nat.le_refl _)

/-- … and an unprefixed enum has no constant called like a type of the package, its own type included. -/
theorem C11_unprefixed_enum_avoids_type_names (uc : Str → Str) (types : List Str) (l : List E) :
    ∀ e ∈ resolve uc types l, e.pre = false → (∀ t ∈ types, t ∉ e.names) ∧ e.ty ∉ e.names := by
  intro e he hp
  have h := outerN_mem_unprefixed uc types l.length l (Nat.le_refl _) e he hp
  refine ⟨?_, h.2⟩
  intro t ht hmem
  have : tyClash types e = true := by
    simp only [tyClash, List.any_eq_true]
    exact ⟨t, ht, by simpa using hmem⟩
  simp [h.1] at this

/-- The repaired code repeats the pass until nothing changes; `length + 1` passes are enough. -/
theorem C11_resolveFix_is_fixpoint (uc : Str → Str) (types : List Str) (l : List E) :
    resolve uc types (resolveFix uc types l) = resolveFix uc types l :=
  iter_reaches_fixpoint uc types l.length l (cnt_le_length l)

theorem length_iter_resolve (uc : Str → Str) (types : List Str) (n : Nat) (l : List E) :
    (iter (resolve uc types) n l).length = l.length := by
  induction n generalizing l with
  | zero => rfl
  | succ n ih => simp only [iter]; rw [ih]; exact (resolve_le uc types l).length_eq.symm

/-- **Constants of different enums.** In the final flags, the constant names two enums emit (`GetValues`, prefix
applied) intersect only if both enums are prefixed: every clash that involves an unprefixed enum is resolved. -/
theorem C11_clash_only_between_prefixed (uc : Str → Str) (types : List Str) (l : List E) :
    (resolveFix uc types l).Pairwise fun a b => clash uc a b = true → a.pre = true ∧ b.pre = true := by
  have hfix := C11_resolveFix_is_fixpoint uc types l
  unfold resolve at hfix
  exact outerN_fix_pairwise uc types _ _ (Nat.le_refl _) hfix

/-- and an unprefixed enum has no constant called like a type (the fixpoint is the result of a pass). -/
theorem C11_final_unprefixed_avoids_type_names (uc : Str → Str) (types : List Str) (l : List E) :
    ∀ e ∈ resolveFix uc types l, e.pre = false → (∀ t ∈ types, t ∉ e.names) ∧ e.ty ∉ e.names := by
  intro e he
  rw [← C11_resolveFix_is_fixpoint uc types l] at he
  exact C11_unprefixed_enum_avoids_type_names uc types _ e he

def wS (s : String) : Str := s.toList.map Char.toNat

/-- Non-vacuity and the pre-repair defect: enum `Abc [ZedX]` before `Zed [X]`, `Zee [X]`. One pass prefixes
Zed and Zee — after `Abc` has been compared with them — and `ZedX` is declared twice; the repeated pass prefixes
`Abc` as well. (Replayed on the code: known-findings.txt.) -/
theorem C11_single_pass_witness :
    let l := [E.mk (wS "Abc") [wS "ZedX"] false, E.mk (wS "Zed") [wS "X"] false, E.mk (wS "Zee") [wS "X"] false]
    constants id (resolve id [] l) = [wS "ZedX", wS "ZedX", wS "ZeeX"] ∧
    constants id (resolveFix id [] l) = [wS "AbcZedX", wS "ZedX", wS "ZeeX"] := by decide

/-- What prefixing cannot resolve: two prefixed enums whose type names overlap (`AB`+`C` = `A`+`BC`). -/
theorem C11_prefixed_clash_witness :
    let l := [E.mk (wS "A") [wS "BC", wS "x"] false, E.mk (wS "AB") [wS "C", wS "x"] false]
    constants id (resolveFix id [] l) = [wS "ABC", wS "Ax", wS "ABC", wS "ABx"] := by decide

end OapiVerif.Props.C11
