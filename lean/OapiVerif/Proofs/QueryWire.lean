import OapiVerif.Model.Security
import OapiVerif.Proofs.Codec
/-!
Wire-level lemmas for the API-key-in-query request editor (C18): `url.ParseQuery (Values.Encode q)` gives back
every value of every name, in order. Used by `C18_apikey_query_wire`.
-/
namespace OapiVerif.Security
open OapiVerif.Codec OapiVerif.Escape
local notation "Str" => List Nat

/-- Query-escaped text contains none of `&`, `;`, `=`. -/
theorem escape_query_safe (s : Str) (hs : ∀ b ∈ s, b < 256) :
    ∀ c ∈ escape .query s, c ≠ 38 ∧ c ≠ 59 ∧ c ≠ 61 := by
  intro c hc
  simp only [escape, List.mem_flatMap] at hc
  obtain ⟨b, hb, hcb⟩ := hc
  have hb256 := hs b hb
  unfold escByte at hcb
  split at hcb
  · simp at hcb; omega
  · split at hcb
    · simp only [List.mem_cons, List.not_mem_nil, or_false] at hcb
      have h1 : b / 16 < 16 := by omega
      have h2 : b % 16 < 16 := by omega
      rcases hcb with rfl | rfl | rfl
      · omega
      · unfold hexDigit; split <;> omega
      · unfold hexDigit; split <;> omega
    · next h =>
      simp only [List.mem_singleton] at hcb
      subst hcb
      simp only [shouldEscape, isAlnum, Bool.not_eq_true] at h
      refine ⟨?_, ?_, ?_⟩ <;> intro hc <;> subst hc <;> simp at h

def seg (kv : Str × Str) : Str := escape .query kv.1 ++ [61] ++ escape .query kv.2

/-- The pairs `Values.Encode` writes: names in sorted order, the values of a name in their order. -/
def pairsOf (q : Query) : List (Str × Str) :=
  ((q.map (·.1)).mergeSort Walks.kle).flatMap fun k => ((qLookup q k).getD []).map fun v => (k, v)

theorem encodeQuery_eq (q : Query) : encodeQuery q = join [38] ((pairsOf q).map seg) := by
  unfold encodeQuery pairsOf seg
  simp only [List.map_flatMap, List.map_map, Function.comp_def]

def Bytes (s : Str) : Prop := ∀ b ∈ s, b < 256

theorem seg_no_amp (kv : Str × Str) (hk : Bytes kv.1) (hv : Bytes kv.2) : 38 ∉ seg kv := by
  intro h
  simp only [seg, List.mem_append, List.mem_singleton] at h
  rcases h with (h | h) | h
  · exact (escape_query_safe _ hk 38 h).1 rfl
  · omega
  · exact (escape_query_safe _ hv 38 h).1 rfl

theorem seg_no_semi (kv : Str × Str) (hk : Bytes kv.1) (hv : Bytes kv.2) : (seg kv).contains cSemi = false := by
  simp only [List.contains_eq_mem, decide_eq_false_iff_not, cSemi]
  intro h
  simp only [seg, List.mem_append, List.mem_singleton] at h
  rcases h with (h | h) | h
  · exact (escape_query_safe _ hk 59 h).2.1 rfl
  · omega
  · exact (escape_query_safe _ hv 59 h).2.1 rfl

theorem span_loop (p : Nat → Bool) (a : Str) (x : Nat) (rest acc : Str) (ha : ∀ c ∈ a, p c = true) (hx : p x = false) :
    List.span.loop p (a ++ x :: rest) acc = (acc.reverse ++ a, x :: rest) := by
  induction a generalizing acc with
  | nil => simp [List.span.loop, hx]
  | cons c t ih =>
    have hc : p c = true := ha c (by simp)
    simp only [List.cons_append, List.span.loop, hc]
    rw [ih _ (fun y hy => ha y (by simp [hy]))]
    simp

theorem span_no_eq (a : Str) (rest : Str) (h : ∀ c ∈ a, c ≠ 61) :
    (a ++ 61 :: rest).span (· != cEq) = (a, 61 :: rest) := by
  unfold List.span
  rw [span_loop _ a 61 rest [] (fun c hc => by simp [cEq, h c hc]) (by simp [cEq])]
  simp

/-- One step of `url.ParseQuery` on a segment written by `Values.Encode`. -/
def parseStep (q : Query) (s : Str) : Except String Query :=
  if s = [] then pure q else
  if s.contains cSemi then throw "semicolon" else
  let (k, v) := match s.span (· != cEq) with
    | (k, []) => (k, [])
    | (k, _ :: v) => (k, v)
  match unescape .query k, unescape .query v with
  | some k', some v' => pure (qAdd q k' v')
  | _, _ => throw "unescape"

theorem parseQuery_eq (s : Str) : parseQuery s = (split cAmp s).foldlM parseStep [] := rfl

theorem parseStep_seg (acc : Query) (kv : Str × Str) (hk : Bytes kv.1) (hv : Bytes kv.2) :
    parseStep acc (seg kv) = .ok (qAdd acc kv.1 kv.2) := by
  unfold parseStep
  have hne : seg kv ≠ [] := by simp [seg]
  simp only [hne, if_false, seg_no_semi kv hk hv, Bool.false_eq_true]
  have hspan : (seg kv).span (· != cEq) = (escape .query kv.1, 61 :: escape .query kv.2) := by
    unfold seg
    rw [List.append_assoc]
    exact span_no_eq _ _ (fun c hc => (escape_query_safe _ hk c hc).2.2)
  rw [hspan]
  simp only [unescape_escape .query kv.1 hk, unescape_escape .query kv.2 hv]
  rfl

theorem foldlM_segs (acc : Query) (ps : List (Str × Str)) (hb : ∀ kv ∈ ps, Bytes kv.1 ∧ Bytes kv.2) :
    (ps.map seg).foldlM parseStep acc = .ok (ps.foldl (fun m kv => qAdd m kv.1 kv.2) acc) := by
  induction ps generalizing acc with
  | nil => rfl
  | cons kv t ih =>
    have h0 := hb kv (by simp)
    simp only [List.map_cons, List.foldlM_cons, parseStep_seg acc kv h0.1 h0.2, List.foldl_cons]
    exact ih _ (fun x hx => hb x (by simp [hx]))

/-- `ParseQuery (Encode q)` is the fold of `Add` over the written pairs. -/
theorem parse_encode (q : Query) (hb : ∀ kv ∈ pairsOf q, Bytes kv.1 ∧ Bytes kv.2) :
    parseQuery (encodeQuery q) = .ok ((pairsOf q).foldl (fun m kv => qAdd m kv.1 kv.2) []) := by
  rw [encodeQuery_eq, parseQuery_eq]
  cases hp : pairsOf q with
  | nil => simp [join, split, cAmp, parseStep]; rfl
  | cons kv t =>
    have hne : ((kv :: t).map seg) ≠ [] := by simp
    have hno : ∀ x ∈ (kv :: t).map seg, cAmp ∉ x := by
      intro x hx
      obtain ⟨p, hpm, rfl⟩ := List.mem_map.mp hx
      have := hb p (by rw [hp]; exact hpm)
      exact seg_no_amp p this.1 this.2
    rw [show ([38] : Str) = [cAmp] from rfl, split_join cAmp _ hne hno]
    exact foldlM_segs [] (kv :: t) (fun x hx => hb x (by rw [hp]; exact hx))

theorem find_map_qadd_other (m : Query) (a v k : Str) (h : ¬ a = k) :
    ((m.map (fun e => if e.1 = a then (e.1, e.2 ++ [v]) else e)).find? (fun x => decide (x.1 = k))).map (·.2) =
    (m.find? (fun x => decide (x.1 = k))).map (·.2) := by
  induction m with
  | nil => rfl
  | cons e t ih =>
    by_cases he : e.1 = a
    · have h1 : ¬ e.1 = k := fun hh => h (he.symm.trans hh)
      simp only [List.map_cons, he, if_true, List.find?_cons, h, decide_false]
      simp only [he] at h1
      exact ih
    · by_cases he' : e.1 = k
      · have hk : ¬ k = a := fun hh => h hh.symm
        simp [he', hk]
      · simp only [List.map_cons, he, if_false, List.find?_cons, he', decide_false]
        exact ih

theorem getD_qAdd (m : Query) (a v k : Str) :
    (qLookup (qAdd m a v) k).getD [] = if a = k then (qLookup m k).getD [] ++ [v] else (qLookup m k).getD [] := by
  by_cases h : a = k
  · subst h
    simp only [if_true]
    unfold qAdd qLookup
    split
    · rename_i hany
      induction m with
      | nil => simp at hany
      | cons e t ih =>
        by_cases he : e.1 = a
        · simp [he]
        · have ht : t.any (·.1 = a) = true := by simpa [he] using hany
          simpa [he] using ih ht
    · rename_i hany
      have : m.find? (fun x => decide (x.1 = a)) = none := by
        simp only [List.find?_eq_none, decide_eq_true_eq]
        intro e he hk
        exact hany (by simp only [List.any_eq_true, decide_eq_true_eq]; exact ⟨e, he, hk⟩)
      rw [List.find?_append, this]; simp
  · simp only [h, if_false]
    unfold qAdd qLookup
    split
    · rw [find_map_qadd_other m a v k h]
    · rw [List.find?_append]
      cases hf : m.find? (fun x => decide (x.1 = k)) <;> simp [h]

theorem getD_foldl_qAdd (ps : List (Str × Str)) (m : Query) (k : Str) :
    (qLookup (ps.foldl (fun m kv => qAdd m kv.1 kv.2) m) k).getD [] =
      (qLookup m k).getD [] ++ (ps.filter (·.1 = k)).map (·.2) := by
  induction ps generalizing m with
  | nil => simp
  | cons kv t ih =>
    simp only [List.foldl_cons, ih, getD_qAdd]
    by_cases h : kv.1 = k
    · simp [h, List.filter_cons]
    · simp [h, List.filter_cons]

theorem filter_flatMap_key (ks : List Str) (f : Str → List Str) (hnd : ks.Nodup) (k : Str) :
    ((ks.flatMap fun a => (f a).map fun v => (a, v)).filter (·.1 = k)).map (·.2) = if k ∈ ks then f k else [] := by
  induction ks with
  | nil => simp
  | cons a t ih =>
    simp only [List.nodup_cons] at hnd
    simp only [List.flatMap_cons, List.filter_append, List.map_append, ih hnd.2, List.mem_cons]
    by_cases ha : a = k
    · subst ha
      have : ¬ a ∈ t := hnd.1
      simp [this, List.filter_map, Function.comp_def]
    · have hk : ¬ k = a := fun h => ha h.symm
      have : ((f a).map fun v => (a, v)).filter (fun x => decide (x.1 = k)) = [] := by
        apply List.filter_eq_nil_iff.mpr
        intro x hx
        obtain ⟨v, _, rfl⟩ := List.mem_map.mp hx
        simp [ha]
      simp [this, hk]

end OapiVerif.Security
