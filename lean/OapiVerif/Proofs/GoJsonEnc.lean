import OapiVerif.Model.GoJson
import OapiVerif.Proofs.GoJson
/-!
The other direction of the encoding/json fragment: what `json.Marshal` writes for a Go value of a type is read back by
`json.Unmarshal` as that value (the client's typed request-body builders marshal, the server decodes; C13 last clause,
C12 "body equal to what the client sent").

Go values are the model's `GoVal`; `hasTy t v` says that `v` is a value of type `t` (a map is its entries in key order,
the order `json.Marshal` emits). Two kinds of value do not come back as themselves, and `stable` excludes exactly those:
a non-nil pointer to a nil pointer/slice/map (written as `null`, read as a nil pointer), and an empty but non-nil slice
or map in a field tagged `omitempty` (left out, read as nil).
-/
namespace OapiVerif.GoJson

/-- An `omitempty` field that is left out held the zero value, unless it was an empty non-nil slice or map. -/
theorem empty_is_zero (t : GoTy) (v : GoVal) (ht : hasTy t v = true) (he : isEmpty v = true) (hl : lossyEmpty v = false) :
    v = zero t := by
  cases t <;> cases v <;> simp_all [hasTy, isEmpty, lossyEmpty, zero]

/-- `json.Marshal` never writes `null` for a value that is not nil. -/
theorem encode_ne_null (t : GoTy) (v : GoVal) (j : JVal) (he : encode t v = some j) (hn : isNilV v = false)
    (hp : ∀ t' w, v = .ptr w → t = .ptr t' → encode t' w ≠ some .null) : j ≠ .null := by
  cases t <;> cases v <;> simp_all [encode, isNilV]
  all_goals first
    | (subst he; simp)
    | (obtain ⟨_, _, rfl⟩ := he; simp)
    | (intro h; subst h; exact hp _ _ rfl rfl he)

theorem lookup_of_not_mem (m : List (String × JVal)) (n : String) (h : ∀ kv ∈ m, kv.1 ≠ n) : lookup m n = none := by
  unfold lookup
  simp only [Option.map_eq_none_iff, List.find?_eq_none, decide_eq_true_eq]
  intro e he hk
  exact h e he hk

/-- The members `encodeFields` writes carry names of the fields only. -/
theorem encodeFields_names : ∀ (fs : Fields) (vs : List GoVal) (js : List (String × JVal)),
    encodeFields fs vs = some js → ∀ kv ∈ js, kv.1 ∈ names fs
  | .nil, [], js, h => by simp [encodeFields] at h; subst h; simp
  | .nil, _ :: _, js, h => by simp [encodeFields] at h
  | .cons n om t rest, [], js, h => by simp [encodeFields] at h
  | .cons n om t rest, v :: vs, js, h => by
    intro kv hkv
    simp only [encodeFields] at h
    split at h
    · have := encodeFields_names rest vs js h kv hkv
      simp [names, this]
    · cases hj : encode t v with
      | none => simp [hj] at h
      | some j =>
        cases hr : encodeFields rest vs with
        | none => simp [hj, hr] at h
        | some js' =>
          simp only [hj, hr, Option.some.injEq] at h
          subst h
          simp only [List.mem_cons] at hkv
          rcases hkv with rfl | hkv
          · simp [names]
          · have := encodeFields_names rest vs js' hr kv hkv
            simp [names, this]

theorem mapM_encode_decode {α β} (p : α → Bool) (f : α → Option β) (g : β → Option α)
    (h : ∀ x, p x = true → ∃ j, f x = some j ∧ g j = some x) (l : List α) (hl : l.all p = true) :
    ∃ js, l.mapM f = some js ∧ js.mapM g = some l :=
  mapM_roundtrip p f g h l hl

end OapiVerif.GoJson

namespace OapiVerif.GoJson

/-- A stable value that is not nil is not written as `null`. -/
theorem enc_ne_null : ∀ (t : GoTy) (v : GoVal) (j : JVal), encode t v = some j → isNilV v = false → stable t v = true →
    j ≠ .null
  | .ptr t, .ptr w, j, he, _, hs => by
    simp only [encode] at he
    simp only [stable, Bool.and_eq_true, Bool.not_eq_true'] at hs
    exact enc_ne_null t w j he hs.1 hs.2
  | .ptr _, .nilv, _, _, hn, _ => by simp [isNilV] at hn
  | .ptr _, .bool _, _, he, _, _ => by simp [encode] at he
  | .ptr _, .int _, _, he, _, _ => by simp [encode] at he
  | .ptr _, .str _, _, he, _, _ => by simp [encode] at he
  | .ptr _, .slice _, _, he, _, _ => by simp [encode] at he
  | .ptr _, .map _, _, he, _, _ => by simp [encode] at he
  | .ptr _, .struct _, _, he, _, _ => by simp [encode] at he
  | .bool, v, j, he, _, _ => by cases v <;> simp_all [encode] <;> (subst he; simp)
  | .int _ _, v, j, he, _, _ => by cases v <;> simp_all [encode] <;> (subst he; simp)
  | .string, v, j, he, _, _ => by cases v <;> simp_all [encode] <;> (subst he; simp)
  | .slice _, v, j, he, hn, _ => by
    cases v <;> simp_all [encode, isNilV]
    obtain ⟨_, _, rfl⟩ := he; simp
  | .map _, v, j, he, hn, _ => by
    cases v <;> simp_all [encode, isNilV]
    obtain ⟨_, _, rfl⟩ := he; simp
  | .struct _, v, j, he, _, _ => by
    cases v <;> simp_all [encode]
    obtain ⟨_, _, rfl⟩ := he; simp

theorem all_and {α} (p q : α → Bool) (l : List α) (hp : l.all p = true) (hq : l.all q = true) :
    l.all (fun x => p x && q x) = true := by
  simp only [List.all_eq_true, Bool.and_eq_true] at *
  exact fun x hx => ⟨hp x hx, hq x hx⟩

mutual
/-- `json.Unmarshal(json.Marshal(v)) = v` for every stable value of a well-formed type. -/
theorem enc_dec : ∀ (t : GoTy) (v : GoVal), wf t = true → hasTy t v = true → stable t v = true →
    ∃ j, encode t v = some j ∧ decode t j = some v
  | .bool, v, _, ht, _ => by cases v <;> simp_all [hasTy, encode, decode]
  | .int lo hi, v, _, ht, _ => by cases v <;> simp_all [hasTy, encode, decode]
  | .string, v, _, ht, _ => by cases v <;> simp_all [hasTy, encode, decode]
  | .ptr t, v, hw, ht, hs => by
    have hw' : wf t = true := by simpa [wf] using hw
    cases v with
    | nilv => exact ⟨.null, by simp [encode], by simp [decode]⟩
    | ptr w =>
      simp only [stable, Bool.and_eq_true, Bool.not_eq_true'] at hs
      obtain ⟨j, he, hd⟩ := enc_dec t w hw' (by simpa [hasTy] using ht) hs.2
      have hne := enc_ne_null t w j he hs.1 hs.2
      refine ⟨j, by simp [encode, he], ?_⟩
      cases j with
      | null => exact absurd rfl hne
      | bool b => simp [decode, hd]
      | num n => simp [decode, hd]
      | str s => simp [decode, hd]
      | arr l => simp [decode, hd]
      | obj m => simp [decode, hd]
    | bool b => simp [hasTy] at ht
    | int n => simp [hasTy] at ht
    | str s => simp [hasTy] at ht
    | slice l => simp [hasTy] at ht
    | map m => simp [hasTy] at ht
    | struct l => simp [hasTy] at ht
  | .slice t, v, hw, ht, hs => by
    have hw' : wf t = true := by simp only [wf, Bool.and_eq_true] at hw; exact hw.2
    cases v with
    | nilv => exact ⟨.null, by simp [encode], by simp [decode]⟩
    | slice l =>
      have h1 : l.all (hasTy t) = true := by simpa [hasTy] using ht
      have h2 : l.all (stable t) = true := by simpa [stable] using hs
      obtain ⟨js, he, hd⟩ := mapM_roundtrip (fun x => hasTy t x && stable t x) (encode t) (decode t)
        (fun x hx => by
          simp only [Bool.and_eq_true] at hx
          exact enc_dec t x hw' hx.1 hx.2) l (all_and _ _ l h1 h2)
      exact ⟨.arr js, by simp [encode, he], by simp [decode, hd]⟩
    | bool b => simp [hasTy] at ht
    | int n => simp [hasTy] at ht
    | str s => simp [hasTy] at ht
    | ptr w => simp [hasTy] at ht
    | map m => simp [hasTy] at ht
    | struct l => simp [hasTy] at ht
  | .map t, v, hw, ht, hs => by
    have hw' : wf t = true := by simpa [wf] using hw
    cases v with
    | nilv => exact ⟨.null, by simp [encode], by simp [decode]⟩
    | map m =>
      have h1 : m.all (fun kv => hasTy t kv.2) = true := by
        simp only [hasTy, Bool.and_eq_true] at ht; exact ht.2
      have h2 : m.all (fun kv => stable t kv.2) = true := by simpa [stable] using hs
      obtain ⟨js, he, hd⟩ := mapM_roundtrip (fun kv : String × GoVal => hasTy t kv.2 && stable t kv.2)
        (fun kv => (encode t kv.2).map fun j => (kv.1, j)) (fun kv : String × JVal => (decode t kv.2).map fun v => (kv.1, v))
        (fun kv hkv => by
          simp only [Bool.and_eq_true] at hkv
          obtain ⟨j, he, hd⟩ := enc_dec t kv.2 hw' hkv.1 hkv.2
          exact ⟨(kv.1, j), by simp [he], by simp [hd]⟩) m (all_and _ _ m h1 h2)
      exact ⟨.obj js, by simp [encode, he], by simp [decode, hd]⟩
    | bool b => simp [hasTy] at ht
    | int n => simp [hasTy] at ht
    | str s => simp [hasTy] at ht
    | ptr w => simp [hasTy] at ht
    | slice l => simp [hasTy] at ht
    | struct l => simp [hasTy] at ht
  | .struct fs, v, hw, ht, hs => by
    have hw' : wfFields fs = true := by simpa [wf] using hw
    cases v with
    | struct vs =>
      obtain ⟨js, he, hd⟩ := enc_dec_fields fs vs hw' (by simpa [hasTy] using ht) (by simpa [stable] using hs)
      exact ⟨.obj js, by simp [encode, he], by simp [decode, hd]⟩
    | nilv => simp [hasTy] at ht
    | bool b => simp [hasTy] at ht
    | int n => simp [hasTy] at ht
    | str s => simp [hasTy] at ht
    | ptr w => simp [hasTy] at ht
    | slice l => simp [hasTy] at ht
    | map m => simp [hasTy] at ht
theorem enc_dec_fields : ∀ (fs : Fields) (vs : List GoVal), wfFields fs = true → hasTyFields fs vs = true →
    stableFields fs vs = true → ∃ js, encodeFields fs vs = some js ∧ decodeFields fs js = some vs
  | .nil, [], _, _, _ => ⟨[], by simp [encodeFields], by simp [decodeFields]⟩
  | .nil, _ :: _, _, ht, _ => by simp [hasTyFields] at ht
  | .cons _ _ _ _, [], _, ht, _ => by simp [hasTyFields] at ht
  | .cons n om t rest, v :: vs, hw, ht, hs => by
    simp only [wfFields, Bool.and_eq_true, Bool.not_eq_true'] at hw
    obtain ⟨⟨hnot, hwt⟩, hwr⟩ := hw
    simp only [hasTyFields, Bool.and_eq_true] at ht
    simp only [stableFields, Bool.and_eq_true, Bool.not_eq_true'] at hs
    obtain ⟨⟨hloss, hst⟩, hsr⟩ := hs
    obtain ⟨js, her, hdr⟩ := enc_dec_fields rest vs hwr ht.2 hsr
    have hnames : ∀ kv ∈ js, kv.1 ≠ n := by
      intro kv hkv hk
      have hm := encodeFields_names rest vs js her kv hkv
      rw [hk] at hm
      have : (names rest).contains n = true := by simpa using hm
      rw [this] at hnot
      exact absurd hnot (by simp)
    by_cases hom : (om && isEmpty v) = true
    · -- the member is left out, and it was the zero value
      simp only [Bool.and_eq_true] at hom
      have hl : lossyEmpty v = false := by
        cases h : lossyEmpty v with
        | false => rfl
        | true => simp [hom.1, h] at hloss
      have hz := empty_is_zero t v ht.1 hom.2 hl
      refine ⟨js, by simp [encodeFields, hom.1, hom.2, her], ?_⟩
      simp [decodeFields, lookup_of_not_mem js n hnames, hdr, hz]
    · obtain ⟨j, he, hd⟩ := enc_dec t v hwt ht.1 hst
      have hom' : (om && isEmpty v) = false := by simpa using hom
      refine ⟨(n, j) :: js, by simp [encodeFields, hom', he, her], ?_⟩
      simp only [decodeFields, lookup_cons_eq, hd, decodeFields_skip rest n j js hnot, hdr]
end

end OapiVerif.GoJson
