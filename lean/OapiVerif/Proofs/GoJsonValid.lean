import OapiVerif.Proofs.GoJsonInv
/-!
What `json.Marshal` writes for a stable value of a type is a valid canonical instance of the type: together with
`roundtrip`, `enc_dec` and `decode_typed_stable` this makes `decode`/`encode` a bijection between the valid canonical JSON
values of a well-formed type and its stable values.
-/
namespace OapiVerif.GoJson

theorem sortedKeys_of_mapM (g : GoVal → Option JVal) :
    ∀ (m : List (String × GoVal)) (r : List (String × JVal)),
      (m.mapM fun kv => (g kv.2).map fun j => (kv.1, j)) = some r → sortedKeysV m = true → sortedKeys r = true
  | [], r, hr, _ => by simp at hr; subst hr; simp [sortedKeys]
  | [a], r, hr, _ => by
    simp only [List.mapM_cons, List.mapM_nil] at hr
    cases ha : g a.2 with
    | none => simp [ha] at hr
    | some v => simp [ha] at hr; subst hr; simp [sortedKeys]
  | a :: b :: t, r, hr, hs => by
    simp only [sortedKeysV, Bool.and_eq_true, decide_eq_true_eq] at hs
    simp only [List.mapM_cons] at hr
    cases ha : g a.2 with
    | none => simp [ha] at hr
    | some va =>
      cases hb : g b.2 with
      | none => simp [ha, hb] at hr
      | some vb =>
        cases ht : (t.mapM fun kv => (g kv.2).map fun j => (kv.1, j)) with
        | none => simp [ha, hb, ht] at hr
        | some rt =>
          have hrec := sortedKeys_of_mapM g (b :: t) ((b.1, vb) :: rt) (by simp [List.mapM_cons, hb, ht]) hs.2
          simp [ha, hb, ht] at hr
          subst hr
          simp [sortedKeys, hs.1]
          simpa [sortedKeys] using hrec

/-- A value that `omitempty` keeps is written as a JSON value that `keptByOmitempty` accepts. -/
theorem kept_of_not_empty (t : GoTy) (v : GoVal) (j : JVal) (ht : hasTy t v = true) (hs : stable t v = true)
    (he : encode t v = some j) (hne : isEmpty v = false) : keptByOmitempty t j = true := by
  cases t with
  | bool => cases v <;> simp_all [hasTy, encode, isEmpty, keptByOmitempty]; subst he; simp [keptByOmitempty, hne]
  | int lo hi => cases v <;> simp_all [hasTy, encode, isEmpty, keptByOmitempty]; subst he; simp [keptByOmitempty, hne]
  | string => cases v <;> simp_all [hasTy, encode, isEmpty, keptByOmitempty]; subst he; simp [keptByOmitempty, hne]
  | ptr t' =>
    cases v with
    | nilv => simp [isEmpty] at hne
    | ptr w =>
      have hnn := enc_ne_null (.ptr t') (.ptr w) j he (by simp [isNilV]) hs
      cases j <;> simp_all [keptByOmitempty]
    | bool b => simp [hasTy] at ht
    | int n => simp [hasTy] at ht
    | str s => simp [hasTy] at ht
    | slice l => simp [hasTy] at ht
    | map m => simp [hasTy] at ht
    | struct l => simp [hasTy] at ht
  | slice t' =>
    cases v with
    | nilv => simp [isEmpty] at hne
    | slice l =>
      simp only [encode, Option.map_eq_some_iff] at he
      obtain ⟨js, hjs, rfl⟩ := he
      simp only [isEmpty] at hne
      have : js ≠ [] := mapM_ne_nil _ _ _ hjs (by intro h; subst h; simp at hne)
      simp [keptByOmitempty, isEmpty_false_of_ne_nil js this]
    | bool b => simp [hasTy] at ht
    | int n => simp [hasTy] at ht
    | str s => simp [hasTy] at ht
    | ptr w => simp [hasTy] at ht
    | map m => simp [hasTy] at ht
    | struct l => simp [hasTy] at ht
  | map t' =>
    cases v with
    | nilv => simp [isEmpty] at hne
    | map m =>
      simp only [encode, Option.map_eq_some_iff] at he
      obtain ⟨js, hjs, rfl⟩ := he
      simp only [isEmpty] at hne
      have : js ≠ [] := mapM_ne_nil _ _ _ hjs (by intro h; subst h; simp at hne)
      simp [keptByOmitempty, isEmpty_false_of_ne_nil js this]
    | bool b => simp [hasTy] at ht
    | int n => simp [hasTy] at ht
    | str s => simp [hasTy] at ht
    | ptr w => simp [hasTy] at ht
    | slice l => simp [hasTy] at ht
    | struct l => simp [hasTy] at ht
  | struct fs =>
    cases v with
    | struct vs =>
      simp only [encode, Option.map_eq_some_iff] at he
      obtain ⟨js, _, rfl⟩ := he
      simp [keptByOmitempty]
    | nilv => simp [hasTy] at ht
    | bool b => simp [hasTy] at ht
    | int n => simp [hasTy] at ht
    | str s => simp [hasTy] at ht
    | ptr w => simp [hasTy] at ht
    | slice l => simp [hasTy] at ht
    | map m => simp [hasTy] at ht

theorem not_any_of_forall (m : List (String × JVal)) (n : String) (h : ∀ kv ∈ m, kv.1 ≠ n) : m.any (·.1 = n) = false := by
  simp only [List.any_eq_false, decide_eq_true_eq]
  exact h

mutual
/-- `json.Marshal` of a stable value of a well-formed type is a valid canonical instance of the type. -/
theorem encode_valid : ∀ (t : GoTy) (v : GoVal) (j : JVal), wf t = true → hasTy t v = true → stable t v = true →
    encode t v = some j → valid t j = true
  | .bool, v, j, _, ht, _, he => by cases v <;> simp_all [hasTy, encode] <;> (subst he; simp [valid])
  | .int lo hi, v, j, _, ht, _, he => by cases v <;> simp_all [hasTy, encode]; subst he; simp [valid, ht]
  | .string, v, j, _, ht, _, he => by cases v <;> simp_all [hasTy, encode] <;> (subst he; simp [valid])
  | .ptr t, v, j, hw, ht, hs, he => by
    have hw' : wf t = true := by simpa [wf] using hw
    cases v with
    | nilv => simp [encode] at he; subst he; simp [valid]
    | ptr w =>
      simp only [stable, Bool.and_eq_true, Bool.not_eq_true'] at hs
      have hv := encode_valid t w j hw' (by simpa [hasTy] using ht) hs.2 (by simpa [encode] using he)
      cases j <;> simp_all [valid]
    | bool b => simp [hasTy] at ht
    | int n => simp [hasTy] at ht
    | str s => simp [hasTy] at ht
    | slice l => simp [hasTy] at ht
    | map m => simp [hasTy] at ht
    | struct l => simp [hasTy] at ht
  | .slice t, v, j, hw, ht, hs, he => by
    have hw' : wf t = true := by simp only [wf, Bool.and_eq_true] at hw; exact hw.2
    cases v with
    | nilv => simp [encode] at he; subst he; simp [valid]
    | slice l =>
      simp only [encode, Option.map_eq_some_iff] at he
      obtain ⟨js, hjs, rfl⟩ := he
      have h1 : l.all (hasTy t) = true := by simpa [hasTy] using ht
      have h2 : l.all (stable t) = true := by simpa [stable] using hs
      have := mapM_all (encode t) (fun x => hasTy t x && stable t x) (valid t)
        (fun x y hx hy => by
          simp only [Bool.and_eq_true] at hx
          exact encode_valid t x y hw' hx.1 hx.2 hy) l js (all_and _ _ l h1 h2) hjs
      simp [valid, this]
    | bool b => simp [hasTy] at ht
    | int n => simp [hasTy] at ht
    | str s => simp [hasTy] at ht
    | ptr w => simp [hasTy] at ht
    | map m => simp [hasTy] at ht
    | struct l => simp [hasTy] at ht
  | .map t, v, j, hw, ht, hs, he => by
    have hw' : wf t = true := by simpa [wf] using hw
    cases v with
    | nilv => simp [encode] at he; subst he; simp [valid]
    | map m =>
      simp only [encode, Option.map_eq_some_iff] at he
      obtain ⟨js, hjs, rfl⟩ := he
      simp only [hasTy, Bool.and_eq_true] at ht
      have h2 : m.all (fun kv => stable t kv.2) = true := by simpa [stable] using hs
      have hsort := sortedKeys_of_mapM (encode t) m js hjs ht.1
      have := mapM_all (fun kv : String × GoVal => (encode t kv.2).map fun j => (kv.1, j))
        (fun kv => hasTy t kv.2 && stable t kv.2) (fun kv : String × JVal => valid t kv.2)
        (fun x y hx hy => by
          simp only [Bool.and_eq_true] at hx
          simp only [Option.map_eq_some_iff] at hy
          obtain ⟨w, hw2, rfl⟩ := hy
          exact encode_valid t x.2 w hw' hx.1 hx.2 hw2) m js (all_and _ _ m ht.2 h2) hjs
      simp [valid, hsort, this]
    | bool b => simp [hasTy] at ht
    | int n => simp [hasTy] at ht
    | str s => simp [hasTy] at ht
    | ptr w => simp [hasTy] at ht
    | slice l => simp [hasTy] at ht
    | struct l => simp [hasTy] at ht
  | .struct fs, v, j, hw, ht, hs, he => by
    have hw' : wfFields fs = true := by simpa [wf] using hw
    cases v with
    | struct vs =>
      simp only [encode, Option.map_eq_some_iff] at he
      obtain ⟨js, hjs, rfl⟩ := he
      simp only [valid]
      exact encodeFields_valid fs vs js hw' (by simpa [hasTy] using ht) (by simpa [stable] using hs) hjs
    | nilv => simp [hasTy] at ht
    | bool b => simp [hasTy] at ht
    | int n => simp [hasTy] at ht
    | str s => simp [hasTy] at ht
    | ptr w => simp [hasTy] at ht
    | slice l => simp [hasTy] at ht
    | map m => simp [hasTy] at ht
theorem encodeFields_valid : ∀ (fs : Fields) (vs : List GoVal) (js : List (String × JVal)), wfFields fs = true →
    hasTyFields fs vs = true → stableFields fs vs = true → encodeFields fs vs = some js → validFields fs js = true
  | .nil, [], js, _, _, _, he => by simp [encodeFields] at he; subst he; simp [validFields]
  | .nil, _ :: _, _, _, ht, _, _ => by simp [hasTyFields] at ht
  | .cons _ _ _ _, [], _, _, ht, _, _ => by simp [hasTyFields] at ht
  | .cons n om t rest, v :: vs, js, hw, ht, hs, he => by
    simp only [wfFields, Bool.and_eq_true, Bool.not_eq_true'] at hw
    obtain ⟨⟨hnot, hwt⟩, hwr⟩ := hw
    simp only [hasTyFields, Bool.and_eq_true] at ht
    simp only [stableFields, Bool.and_eq_true, Bool.not_eq_true'] at hs
    obtain ⟨⟨hloss, hst⟩, hsr⟩ := hs
    have hnames : ∀ (js' : List (String × JVal)), encodeFields rest vs = some js' → ∀ kv ∈ js', kv.1 ≠ n := by
      intro js' her kv hkv hk
      have hm := encodeFields_names rest vs js' her kv hkv
      rw [hk] at hm
      have : (names rest).contains n = true := by simpa using hm
      rw [this] at hnot
      exact absurd hnot (by simp)
    by_cases hom : (om && isEmpty v) = true
    · -- the member is left out
      simp only [Bool.and_eq_true] at hom
      simp only [encodeFields, hom.1, hom.2, Bool.and_self, if_true] at he
      have ih := encodeFields_valid rest vs js hwr ht.2 hsr he
      have hl : lossyEmpty v = false := by
        cases h : lossyEmpty v with
        | false => rfl
        | true => simp [hom.1, h] at hloss
      have hz := empty_is_zero t v ht.1 hom.2 hl
      have hez : isEmpty (zero t) = true := by rw [← hz]; exact hom.2
      cases js with
      | nil => simp [validFields, hom.1, hez, ih]
      | cons kj js' =>
        obtain ⟨k, j⟩ := kj
        have hk : k ≠ n := hnames _ he (k, j) (by simp)
        have hany := not_any_of_forall ((k, j) :: js') n (hnames _ he)
        simp [validFields, hk, hom.1, hez, hany, ih]
    · have hom' : (om && isEmpty v) = false := by simpa using hom
      simp only [encodeFields, hom'] at he
      cases hj : encode t v with
      | none => simp [hj] at he
      | some j =>
        cases hr : encodeFields rest vs with
        | none => simp [hj, hr] at he
        | some js' =>
          simp [hj, hr] at he
          subst he
          have hvj := encode_valid t v j hwt ht.1 hst hj
          have ih := encodeFields_valid rest vs js' hwr ht.2 hsr hr
          have hkept : (!om || keptByOmitempty t j) = true := by
            cases hom2 : om with
            | false => simp
            | true =>
              have hne : isEmpty v = false := by simpa [hom2] using hom'
              simp [kept_of_not_empty t v j ht.1 hst hj hne]
          simp only [validFields, if_true, hvj, ih, Bool.and_true, Bool.true_and]
          exact hkept
end

end OapiVerif.GoJson
