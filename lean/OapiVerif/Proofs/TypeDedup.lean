import OapiVerif.Model.TypeDedup
import OapiVerif.Proofs.Responses
import OapiVerif.Proofs.Itoa
namespace OapiVerif.TypeDedup

theorem find_some {seen : List TD} {n : Str} {p : TD} (h : find seen n = some p) : p ∈ seen ∧ p.name = n := by
  unfold find at h
  exact ⟨List.mem_of_find?_eq_some h, by simpa using List.find?_some h⟩

theorem find_none {seen : List TD} {n : Str} (h : find seen n = none) : ∀ q ∈ seen, q.name ≠ n := by
  unfold find at h
  intro q hq
  have := List.find?_eq_none.mp h q hq
  simpa using this

theorem td_ext (a b : TD) (h1 : a.name = b.name) (h2 : a.body = b.body) : a = b := by
  cases a; cases b; simp_all

/-- what a successful run returns, for any state of the loop -/
theorem go_ok : ∀ (rest acc out : List TD), go rest acc = .ok out → (acc.map (·.name)).Nodup →
    (out.map (·.name)).Nodup ∧ (∀ t, t ∈ out ↔ t ∈ acc ∨ t ∈ rest) ∧ ∃ l, l.Sublist rest ∧ out = acc.reverse ++ l := by
  intro rest
  induction rest with
  | nil =>
    intro acc out h hnd
    simp only [go, Except.ok.injEq] at h
    subst h
    refine ⟨?_, by simp, [], List.Sublist.refl _, by simp⟩
    rw [List.map_reverse]
    unfold List.Nodup at hnd ⊢
    rw [List.pairwise_reverse]
    exact hnd.imp fun h e => h e.symm
  | cons t rest ih =>
    intro acc out h hnd
    simp only [go] at h
    split at h
    · rename_i p hp
      obtain ⟨hpm, hpn⟩ := find_some hp
      split at h
      · rename_i hb
        have hpt : p = t := td_ext p t hpn hb
        obtain ⟨h1, h2, l, hl, ho⟩ := ih acc out h hnd
        refine ⟨h1, ?_, l, List.Sublist.cons _ hl, ho⟩
        intro x
        rw [h2 x]
        constructor
        · rintro (h | h)
          · exact Or.inl h
          · exact Or.inr (List.mem_cons_of_mem _ h)
        · rintro (h | h)
          · exact Or.inl h
          · rcases List.mem_cons.mp h with h | h
            · left; rw [h, ← hpt]; exact hpm
            · exact Or.inr h
      · cases h
    · rename_i hn
      have hne := find_none hn
      have hnd' : ((t :: acc).map (·.name)).Nodup := by
        rw [List.map_cons, List.nodup_cons]
        refine ⟨?_, hnd⟩
        intro hm
        obtain ⟨q, hq, hqn⟩ := List.mem_map.mp hm
        exact hne q hq hqn
      obtain ⟨h1, h2, l, hl, ho⟩ := ih (t :: acc) out h hnd'
      refine ⟨h1, ?_, t :: l, List.Sublist.cons_cons _ hl, by simp [ho]⟩
      intro x
      rw [h2 x]
      simp only [List.mem_cons]
      constructor
      · rintro ((h | h) | h)
        · exact Or.inr (Or.inl h)
        · exact Or.inl h
        · exact Or.inr (Or.inr h)
      · rintro (h | h | h)
        · exact Or.inl (Or.inr h)
        · exact Or.inl (Or.inl h)
        · exact Or.inr h

/-- what a refusal means, for any state of the loop -/
theorem go_err : ∀ (rest acc : List TD) (e : Str), go rest acc = .error e →
    ∃ a b, (a ∈ acc ∨ a ∈ rest) ∧ b ∈ rest ∧ a.name = e ∧ b.name = e ∧ a.body ≠ b.body := by
  intro rest
  induction rest with
  | nil => intro acc e h; simp [go] at h
  | cons t rest ih =>
    intro acc e h
    simp only [go] at h
    split at h
    · rename_i p hp
      obtain ⟨hpm, hpn⟩ := find_some hp
      split at h
      · obtain ⟨a, b, ha, hb, r⟩ := ih acc e h
        refine ⟨a, b, ?_, List.mem_cons_of_mem _ hb, r⟩
        rcases ha with ha | ha
        · exact Or.inl ha
        · exact Or.inr (List.mem_cons_of_mem _ ha)
      · rename_i hb
        simp only [Except.error.injEq] at h
        exact ⟨p, t, Or.inl hpm, List.mem_cons_self, by rw [hpn, h], h, hb⟩
    · obtain ⟨a, b, ha, hb, r⟩ := ih (t :: acc) e h
      refine ⟨a, b, ?_, List.mem_cons_of_mem _ hb, r⟩
      rcases ha with ha | ha
      · rcases List.mem_cons.mp ha with ha | ha
        · right; rw [ha]; exact List.mem_cons_self
        · exact Or.inl ha
      · exact Or.inr (List.mem_cons_of_mem _ ha)

/-- what `GenerateTypes` keeps is the first definition of every name -/
theorem go_firsts : ∀ (rest acc out : List TD), go rest acc = .ok out → out = acc.reverse ++ firsts rest (acc.map (·.name)) := by
  intro rest
  induction rest with
  | nil => intro acc out h; simp only [go, Except.ok.injEq] at h; simp [firsts, h]
  | cons t rest ih =>
    intro acc out h
    simp only [go] at h
    split at h
    · rename_i p hp
      obtain ⟨hpm, hpn⟩ := find_some hp
      have hc : (acc.map (·.name)).contains t.name = true := by
        rw [List.contains_iff_mem]; exact List.mem_map.mpr ⟨p, hpm, hpn⟩
      split at h
      · rw [ih acc out h]
        have e : firsts (t :: rest) (acc.map (·.name)) = firsts rest (acc.map (·.name)) := by
          simp only [firsts, hc, if_true]
        rw [e]
      · cases h
    · rename_i hn
      have hne := find_none hn
      have hc : (acc.map (·.name)).contains t.name = false := by
        rw [Bool.eq_false_iff]; intro hc
        obtain ⟨q, hq, hqn⟩ := List.mem_map.mp (List.contains_iff_mem.mp hc)
        exact hne q hq hqn
      rw [ih (t :: acc) out h]
      have e : firsts (t :: rest) (acc.map (·.name)) = t :: firsts rest (t.name :: acc.map (·.name)) := by
        simp only [firsts, hc]; rfl
      rw [e]
      simp

theorem inj_of_nodup_map {α β : Type} (f : α → β) : ∀ (l : List α), (l.map f).Nodup → ∀ a ∈ l, ∀ b ∈ l, f a = f b → a = b := by
  intro l
  induction l with
  | nil => intro _ a ha; cases ha
  | cons x t ih =>
    intro hnd a ha b hb hab
    rw [List.map_cons, List.nodup_cons] at hnd
    rcases List.mem_cons.mp ha with ha' | ha' <;> rcases List.mem_cons.mp hb with hb' | hb'
    · rw [ha', hb']
    · rw [ha'] at hab; exact absurd (List.mem_map.mpr ⟨b, hb', hab.symm⟩ : f x ∈ t.map f) hnd.1
    · rw [hb'] at hab; exact absurd (List.mem_map.mpr ⟨a, ha', hab⟩ : f x ∈ t.map f) hnd.1
    · exact ih hnd.2 a ha' b hb' hab

/-! ### constructImportMapping -/
open Responses

def Asc (l : List Str) : Prop := l.Pairwise fun a b => lexLt a b = true

theorem mem_insertU (p : Str) : ∀ (l : List Str) (x : Str), x ∈ insertU p l ↔ x = p ∨ x ∈ l := by
  intro l
  induction l with
  | nil => intro x; simp [insertU]
  | cons q rest ih =>
    intro x
    simp only [insertU]
    split
    · rename_i h; subst h; simp
    · split
      · simp
      · simp only [List.mem_cons, ih x]
        constructor
        · rintro (h | h | h)
          · exact Or.inr (Or.inl h)
          · exact Or.inl h
          · exact Or.inr (Or.inr h)
        · rintro (h | h | h)
          · exact Or.inr (Or.inl h)
          · exact Or.inl h
          · exact Or.inr (Or.inr h)

theorem asc_insertU (p : Str) : ∀ (l : List Str), Asc l → Asc (insertU p l) := by
  intro l
  induction l with
  | nil => intro _; simp [insertU, Asc]
  | cons q rest ih =>
    intro h
    unfold Asc at h ih ⊢
    rw [List.pairwise_cons] at h
    simp only [insertU]
    split
    · exact List.pairwise_cons.mpr h
    · rename_i hne
      split
      · rename_i hlt
        refine List.pairwise_cons.mpr ⟨?_, List.pairwise_cons.mpr h⟩
        intro x hx
        rcases List.mem_cons.mp hx with hx | hx
        · rw [hx]; exact hlt
        · exact lexLt_trans p q x hlt (h.1 x hx)
      · rename_i hnlt
        refine List.pairwise_cons.mpr ⟨?_, ih h.2⟩
        intro x hx
        rcases (mem_insertU p rest x).mp hx with hx | hx
        · rw [hx]
          rcases lexLt_total p q hne with h' | h'
          · exact absurd h' hnlt
          · exact h'
        · exact h.1 x hx

theorem asc_sortedDistinct (ps : List Str) : Asc (sortedDistinct ps) := by
  unfold sortedDistinct
  induction ps with
  | nil => simp [Asc]
  | cons p t ih => exact asc_insertU p _ ih

theorem mem_sortedDistinct (ps : List Str) (x : Str) : x ∈ sortedDistinct ps ↔ x ∈ ps := by
  unfold sortedDistinct
  induction ps with
  | nil => simp
  | cons p t ih => simp only [List.foldr_cons, mem_insertU, ih, List.mem_cons]

theorem asc_nodup (l : List Str) (h : Asc l) : l.Nodup := by
  unfold Asc at h
  refine List.Pairwise.imp ?_ h
  intro a b hab e
  rw [e, lexLt_irrefl] at hab
  cases hab

/-- The ascending list of distinct paths depends only on which paths occur (not on their order or multiplicity):
two ascending lists with the same members are equal. -/
theorem asc_unique : ∀ (l₁ l₂ : List Str), Asc l₁ → Asc l₂ → (∀ x, x ∈ l₁ ↔ x ∈ l₂) → l₁ = l₂ := by
  intro l₁
  induction l₁ with
  | nil =>
    intro l₂ _ _ h
    cases l₂ with
    | nil => rfl
    | cons y t => exact absurd ((h y).mpr List.mem_cons_self) (by simp)
  | cons x s ih =>
    intro l₂ h1 h2 h
    cases l₂ with
    | nil => exact absurd ((h x).mp List.mem_cons_self) (by simp)
    | cons y t =>
      unfold Asc at h1 h2
      rw [List.pairwise_cons] at h1 h2
      have hxy : x = y := by
        rcases List.mem_cons.mp ((h x).mp List.mem_cons_self) with e | hx
        · exact e
        · rcases List.mem_cons.mp ((h y).mpr List.mem_cons_self) with e | hy
          · exact e.symm
          · have a := h2.1 x hx
            have b := h1.1 y hy
            rw [lexLt_asymm _ _ a] at b
            cases b
      subst hxy
      congr 1
      refine ih t h1.2 h2.2 ?_
      intro z
      constructor
      · intro hz
        rcases List.mem_cons.mp ((h z).mp (List.mem_cons_of_mem _ hz)) with e | hz'
        · subst e
          have := h1.1 z hz
          rw [lexLt_irrefl] at this; cases this
        · exact hz'
      · intro hz
        rcases List.mem_cons.mp ((h z).mpr (List.mem_cons_of_mem _ hz)) with e | hz'
        · subst e
          have := h2.1 z hz
          rw [lexLt_irrefl] at this; cases this
        · exact hz'

theorem rank_get : ∀ (l : List Str) (p : Str) (i : Nat), rank l p = some i → l[i]? = some p := by
  intro l
  induction l with
  | nil => intro p i h; simp [rank] at h
  | cons q rest ih =>
    intro p i h
    simp only [rank] at h
    split at h
    · rename_i e; simp only [Option.some.injEq] at h; subst h; simp [e]
    · cases hr : rank rest p with
      | none => simp [hr] at h
      | some k =>
        simp only [hr, Option.map_some, Option.some.injEq] at h
        subst h
        simpa using ih p k hr

theorem rank_mem : ∀ (l : List Str) (p : Str), p ∈ l → ∃ i, rank l p = some i := by
  intro l
  induction l with
  | nil => intro p h; cases h
  | cons q rest ih =>
    intro p h
    simp only [rank]
    split
    · exact ⟨0, rfl⟩
    · rename_i hne
      rcases List.mem_cons.mp h with e | h'
      · exact absurd e.symm hne
      · obtain ⟨i, hi⟩ := ih p h'
        exact ⟨i + 1, by simp [hi]⟩

/-- two paths with the same package name are the same path -/
theorem pkgName_inj (m : List (Str × Str)) (p q n : Str) (hp : pkgName m p = some n) (hq : pkgName m q = some n) : p = q := by
  unfold pkgName at hp hq
  cases hi : rank (sortedDistinct (m.map (·.2))) p with
  | none => simp [hi] at hp
  | some i =>
    cases hj : rank (sortedDistinct (m.map (·.2))) q with
    | none => simp [hj] at hq
    | some j =>
      simp only [hi, hj, Option.map_some, Option.some.injEq] at hp hq
      have h := List.append_cancel_left (hp.trans hq.symm)
      have hij : i = j := Enums.itoa_inj i j h
      subst hij
      have a := rank_get _ _ _ hi
      have b := rank_get _ _ _ hj
      rw [a] at b
      exact Option.some.inj b

theorem pkgName_some (m : List (Str × Str)) (d p : Str) (h : (d, p) ∈ m) : ∃ n, pkgName m p = some n := by
  unfold pkgName
  have : p ∈ sortedDistinct (m.map (·.2)) := (mem_sortedDistinct _ _).mpr (List.mem_map.mpr ⟨(d, p), h, rfl⟩)
  obtain ⟨i, hi⟩ := rank_mem _ _ this
  exact ⟨_, by rw [hi]; rfl⟩

/-- the names depend on the set of package paths only -/
theorem pkgName_congr (m₁ m₂ : List (Str × Str)) (h : ∀ x, x ∈ m₁.map (·.2) ↔ x ∈ m₂.map (·.2)) (p : Str) :
    pkgName m₁ p = pkgName m₂ p := by
  unfold pkgName
  have : sortedDistinct (m₁.map (·.2)) = sortedDistinct (m₂.map (·.2)) :=
    asc_unique _ _ (asc_sortedDistinct _) (asc_sortedDistinct _) (fun x => by rw [mem_sortedDistinct, mem_sortedDistinct]; exact h x)
  rw [this]

end OapiVerif.TypeDedup
