import OapiVerif.Model.SchemaOrder
import OapiVerif.Proofs.Responses
/-! Order facts about `SortedSchemaKeys`. -/
namespace OapiVerif.SchemaOrder
open OapiVerif.Walks OapiVerif.Responses

theorem kle_total' (a b : Key) : (kle a b || kle b a) = true := by
  unfold kle klt
  cases h : lexLt b a
  · simp
  · simp [lexLt_asymm _ _ h]

theorem kle_antisymm' (a b : Key) (h1 : kle a b = true) (h2 : kle b a = true) : a = b := by
  unfold kle klt at *
  simp only [Bool.not_eq_true'] at h1 h2
  by_cases e : a = b
  · exact e
  · rcases lexLt_total a b e with h | h
    · rw [h] at h2; exact absurd h2 (by simp)
    · rw [h] at h1; exact absurd h1 (by simp)

theorem kle_trans' (a b c : Key) (h1 : kle a b = true) (h2 : kle b c = true) : kle a c = true := by
  unfold kle klt at *
  simp only [Bool.not_eq_true'] at *
  cases hca : lexLt c a
  · rfl
  · by_cases e : a = b
    · subst e; rw [hca] at h2; exact absurd h2 (by simp)
    · rcases lexLt_total a b e with h | h
      · have := lexLt_trans c a b hca h
        rw [this] at h2; exact absurd h2 (by simp)
      · rw [h] at h1; exact absurd h1 (by simp)

theorem ole_total (n : Nat) (a b : Entry) : (ole n a b || ole n b a) = true := by
  unfold ole
  by_cases h : eff n a = eff n b
  · simp [h, kle_total']
  · have h' : ¬ eff n b = eff n a := fun e => h e.symm
    simp only [h, h', if_false, Bool.or_eq_true, decide_eq_true_eq]
    omega

theorem ole_trans (n : Nat) (a b c : Entry) (h1 : ole n a b = true) (h2 : ole n b c = true) : ole n a c = true := by
  unfold ole at *
  by_cases hab : eff n a = eff n b <;> by_cases hbc : eff n b = eff n c
  · have hac : eff n a = eff n c := hab.trans hbc
    simp only [hab, hbc, hac, if_true] at *
    exact kle_trans' _ _ _ h1 h2
  · have hac : ¬ eff n a = eff n c := fun e => hbc (hab.symm.trans e)
    simp only [hab, hbc, hac, if_true, if_false, decide_eq_true_eq] at *
    omega
  · have hac : ¬ eff n a = eff n c := fun e => hab (e.trans hbc.symm)
    simp only [hab, hbc, hac, if_true, if_false, decide_eq_true_eq] at *
    omega
  · simp only [hab, hbc, if_false, decide_eq_true_eq] at h1 h2
    have hac : ¬ eff n a = eff n c := by omega
    simp only [hac, if_false, decide_eq_true_eq]
    omega

/-- Two entries each "not after" the other have the same key. -/
theorem ole_antisymm_key (n : Nat) (a b : Entry) (h1 : ole n a b = true) (h2 : ole n b a = true) : a.key = b.key := by
  unfold ole at *
  by_cases h : eff n a = eff n b
  · simp only [h, if_true] at h1 h2
    exact kle_antisymm' _ _ h1 h2
  · have h' : ¬ eff n b = eff n a := fun e => h e.symm
    simp only [h, h', if_false, decide_eq_true_eq] at h1 h2
    omega

/-- In a dictionary (distinct keys) the key determines the entry. -/
theorem entry_of_key (m : List Entry) (hnd : (m.map (·.key)).Nodup) (a b : Entry) (ha : a ∈ m) (hb : b ∈ m)
    (hk : a.key = b.key) : a = b := by
  induction m with
  | nil => simp at ha
  | cons x t ih =>
    simp only [List.map_cons, List.nodup_cons, List.mem_map, not_exists, not_and] at hnd
    simp only [List.mem_cons] at ha hb
    rcases ha with rfl | ha <;> rcases hb with rfl | hb
    · rfl
    · exact absurd hk.symm (hnd.1 b hb)
    · exact absurd hk (hnd.1 a ha)
    · exact ih hnd.2 ha hb

theorem sortedEntries_pairwise (m : List Entry) : (sortedEntries m).Pairwise (fun a b => ole m.length a b = true) :=
  List.pairwise_mergeSort (fun a b c => ole_trans m.length a b c) (ole_total m.length) _

theorem sortedEntries_perm (m : List Entry) : (sortedEntries m).Perm m := List.mergeSort_perm _ _

/-- The result does not depend on the order in which the map hands out its entries. -/
theorem sortedEntries_perm_invariant (m₁ m₂ : List Entry) (h : m₁.Perm m₂) (hnd : (m₁.map (·.key)).Nodup) :
    sortedEntries m₁ = sortedEntries m₂ := by
  have hlen : m₁.length = m₂.length := h.length_eq
  apply List.Perm.eq_of_pairwise (le := fun a b => ole m₁.length a b = true)
  · intro a b ha hb h1 h2
    have ha' : a ∈ m₁ := (sortedEntries_perm m₁).mem_iff.mp ha
    have hb' : b ∈ m₁ := h.mem_iff.mpr ((sortedEntries_perm m₂).mem_iff.mp hb)
    exact entry_of_key m₁ hnd a b ha' hb' (ole_antisymm_key _ a b h1 h2)
  · exact sortedEntries_pairwise m₁
  · have := sortedEntries_pairwise m₂
    rw [← hlen] at this
    exact this
  · exact (sortedEntries_perm m₁).trans (h.trans (sortedEntries_perm m₂).symm)

end OapiVerif.SchemaOrder
