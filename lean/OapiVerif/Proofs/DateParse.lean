import OapiVerif.Model.DateParse
namespace OapiVerif.DateParse

theorem daysIn_le (y m : Nat) : daysIn y m ≤ 31 := by
  unfold daysIn; split
  · split <;> omega
  · split
    · omega
    · split <;> omega

theorem dig_isDigit (n : Nat) : isDigit (dig n) = true := by
  have h1 : 48 ≤ 48 + n % 10 := by omega
  have h2 : 48 + n % 10 ≤ 57 := by omega
  simp [isDigit, dig, h1, h2]

/-- what is written is read back -/
theorem parse_format (t : Date) (h : t.valid = true) : parse (format t) = some t := by
  obtain ⟨y, m, d⟩ := t
  simp only [Date.valid, Bool.and_eq_true, decide_eq_true_eq] at h
  obtain ⟨⟨⟨⟨hy, hm1⟩, hm2⟩, hd1⟩, hd2⟩ := h
  have hd3 : d ≤ 31 := Nat.le_trans hd2 (daysIn_le y m)
  have ey : (dig (y / 1000) - 48) * 1000 + (dig (y / 100) - 48) * 100 + (dig (y / 10) - 48) * 10 + (dig y - 48) = y := by
    simp only [dig]; omega
  have em : (dig (m / 10) - 48) * 10 + (dig m - 48) = m := by simp only [dig]; omega
  have ed : (dig (d / 10) - 48) * 10 + (dig d - 48) = d := by simp only [dig]; omega
  simp only [format, parse, dig_isDigit, beq_self_eq_true, Bool.and_self, if_true, ey, em, ed]
  have hv : (Date.mk y m d).valid = true := by
    simp only [Date.valid, Bool.and_eq_true, decide_eq_true_eq]
    exact ⟨⟨⟨⟨hy, hm1⟩, hm2⟩, hd1⟩, hd2⟩
  simp [accept, hv]

/-- what is accepted is a date that exists, in its one spelling -/
theorem parse_some (s : Str) (t : Date) (h : parse s = some t) : t.valid = true ∧ format t = s := by
  unfold parse at h
  split at h
  · rename_i a b c d h1 e f h2 g i
    split at h
    · rename_i hc
      simp only [Bool.and_eq_true, beq_iff_eq, isDigit, decide_eq_true_eq] at hc
      unfold accept at h
      split at h
      · rename_i hv
        simp only [Option.some.injEq] at h
        subst h
        refine ⟨hv, ?_⟩
        obtain ⟨⟨⟨⟨⟨⟨⟨⟨⟨hh1, hh2⟩, ha⟩, hb⟩, hcc⟩, hd⟩, he⟩, hf⟩, hg⟩, hi⟩ := hc
        subst hh1; subst hh2
        simp only [format, dig, List.cons.injEq, and_true]
        refine ⟨?_, ?_, ?_, ?_, trivial, ?_, ?_, trivial, ?_, ?_⟩ <;> omega
      · simp at h
    · simp at h
  · simp at h

end OapiVerif.DateParse
