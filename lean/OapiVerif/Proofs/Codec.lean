import OapiVerif.Model.Codec
import OapiVerif.Proofs.Escape
namespace OapiVerif.Codec
open OapiVerif.Escape

theorem join_cons_cons (sep : Str) (x y : Str) (t : List Str) :
    join sep (x :: y :: t) = x ++ sep ++ join sep (y :: t) := rfl

theorem join_eq_intercalate (sep : Str) (xs : List Str) : join sep xs = sep.intercalate xs := by
  induction xs with
  | nil => simp [join]
  | cons x t ih =>
    cases t with
    | nil => simp [join]
    | cons y t' =>
      rw [join_cons_cons, ih, List.intercalate_cons_of_ne_nil (zs := y :: t') (by simp)]

/-- `strings.Split(strings.Join(xs, c), c) = xs` when no part contains `c` and there is a part. -/
theorem split_join (c : Nat) (xs : List Str) (hne : xs ≠ []) (h : ∀ x ∈ xs, c ∉ x) :
    split c (join [c] xs) = xs := by
  rw [split, join_eq_intercalate]; exact List.splitOn_intercalate c h hne

theorem split_no_sep (c : Nat) (x : Str) (h : c ∉ x) : split c x = [x] :=
  List.splitOn_eq_singleton h

theorem join_map_ne_nil {α} (f : α → Str) (xs : List α) (h : xs ≠ []) : xs.map f ≠ [] := by
  cases xs <;> simp_all

/-- `prefix ++ join (c :: p) xs` is `join [c]` of an empty first part followed by the parts
each prefixed with `p` — how the exploded matrix / form arrays look to a server splitting on `c`. -/
theorem prefix_join_multi (c : Nat) (p : Str) (xs : List Str) (hne : xs ≠ []) :
    (c :: p) ++ join (c :: p) xs = join [c] ([] :: xs.map (p ++ ·)) := by
  induction xs with
  | nil => exact absurd rfl hne
  | cons x t ih =>
    cases t with
    | nil => simp [join]
    | cons y t' =>
      have := ih (by simp)
      simp only [List.map_cons, join_cons_cons, List.nil_append, List.singleton_append,
        List.cons_append, List.append_assoc] at this ⊢
      rw [← this]

theorem trimPrefix_append (p x : Str) : trimPrefix p (p ++ x) = x := by
  simp [trimPrefix, stripPrefix, List.isPrefixOf_iff_prefix.mpr (List.prefix_append p x)]

theorem stripPrefix_append (p x : Str) : stripPrefix p (p ++ x) = some x := by
  simp [stripPrefix, List.isPrefixOf_iff_prefix.mpr (List.prefix_append p x)]

/-! ### un-escaping the whole wire string -/

theorem unescape_join (m : Mode) (sep : Str) (hsep : ∀ b ∈ sep, plain m b = true)
    (xs : List Str) (hb : ∀ x ∈ xs, ∀ b ∈ x, b < 256) (rest : Str) :
    unescape m (join sep (xs.map (escape m)) ++ rest) = (unescape m rest).map (join sep xs ++ ·) := by
  induction xs with
  | nil => simp [join]
  | cons x t ih =>
    cases t with
    | nil =>
      simp only [List.map_cons, List.map_nil, join]
      exact unescape_escape_append m x (hb x (by simp)) rest
    | cons y t' =>
      simp only [List.map_cons, join_cons_cons, List.append_assoc] at ih ⊢
      rw [unescape_escape_append m x (hb x (by simp)), unescape_plain_append m sep hsep,
        ih (fun z hz => hb z (by simp [hz]))]
      cases unescape m rest <;> simp

def plainStr (loc : Loc) (s : Str) : Prop :=
  match loc with
  | .path => ∀ b ∈ s, plain .path b = true
  | .query | .undefined => ∀ b ∈ s, plain .query b = true
  | _ => True

@[simp] theorem escLoc_header : escLoc .header = id := by funext s; rfl
@[simp] theorem escLoc_cookie : escLoc .cookie = id := by funext s; rfl
@[simp] theorem escLoc_undefined : escLoc .undefined = id := by funext s; rfl
@[simp] theorem escLoc_path : escLoc .path = escape .path := by funext s; rfl
@[simp] theorem escLoc_query : escLoc .query = escape .query := by funext s; rfl

instance (loc : Loc) (s : Str) : Decidable (plainStr loc s) := by
  unfold plainStr; cases loc <;> infer_instance

/-- The server's un-escaping step undoes the client's escaping of the parts and leaves the
(plain) prefix and separators alone. (Client and server agree on the location.) -/
theorem unescLoc_wire (loc : Loc) (hloc : loc ≠ .undefined) (p sep : Str) (xs : List Str)
    (hp : plainStr loc p) (hsep : plainStr loc sep) (hb : ∀ x ∈ xs, ∀ b ∈ x, b < 256) :
    unescLoc loc (p ++ join sep (xs.map (escLoc loc))) = .ok (p ++ join sep xs) := by
  cases loc with
  | header => simp [unescLoc]
  | cookie => simp [unescLoc]
  | undefined => exact absurd rfl hloc
  | path =>
    simp only [unescLoc, escLoc_path]
    have := unescape_join .path sep hsep xs hb []
    simp only [List.append_nil] at this
    rw [unescape_plain_append .path p hp, this]; simp [unescape]
  | query =>
    simp only [unescLoc, escLoc_query]
    have := unescape_join .query sep hsep xs hb []
    simp only [List.append_nil] at this
    rw [unescape_plain_append .query p hp, this]; simp [unescape]

end OapiVerif.Codec

namespace OapiVerif.Codec
open OapiVerif.Escape

/-- `w` decodes to `r` in front of anything. -/
def Dec (m : Mode) (w r : Str) : Prop :=
  ∀ rest, unescape m (w ++ rest) = (unescape m rest).map (r ++ ·)

theorem Dec.escape (m : Mode) (x : Str) (hb : ∀ b ∈ x, b < 256) : Dec m (escape m x) x :=
  fun rest => unescape_escape_append m x hb rest

theorem Dec.plain (m : Mode) (p : Str) (hp : ∀ b ∈ p, plain m b = true) : Dec m p p :=
  fun rest => unescape_plain_append m p hp rest

theorem Dec.nil (m : Mode) : Dec m [] [] := by
  intro rest; cases h : unescape m rest <;> simp [h]

theorem Dec.append {m : Mode} {w1 r1 w2 r2 : Str} (h1 : Dec m w1 r1) (h2 : Dec m w2 r2) :
    Dec m (w1 ++ w2) (r1 ++ r2) := by
  intro rest
  rw [List.append_assoc, h1, h2]
  cases unescape m rest <;> simp

/-- Decoding relation by parameter location (client and server use the same location). -/
def DecLoc (loc : Loc) (w r : Str) : Prop :=
  match loc with
  | .path => Dec .path w r
  | .query => Dec .query w r
  | .header | .cookie => w = r
  | .undefined => False

theorem DecLoc.unesc {loc : Loc} {w r : Str} (h : DecLoc loc w r) : unescLoc loc w = .ok r := by
  cases loc with
  | path => have := h []; simp [unescape] at this; simp [unescLoc, this]
  | query => have := h []; simp [unescape] at this; simp [unescLoc, this]
  | header => simp [DecLoc] at h; simp [unescLoc, h]
  | cookie => simp [DecLoc] at h; simp [unescLoc, h]
  | undefined => exact absurd h (by simp [DecLoc])

theorem DecLoc.esc (loc : Loc) (hloc : loc ≠ .undefined) (x : Str) (hb : ∀ b ∈ x, b < 256) :
    DecLoc loc (escLoc loc x) x := by
  cases loc with
  | path => exact Dec.escape .path x hb
  | query => exact Dec.escape .query x hb
  | header => simp [DecLoc]
  | cookie => simp [DecLoc]
  | undefined => exact absurd rfl hloc

theorem DecLoc.plain (loc : Loc) (hloc : loc ≠ .undefined) (p : Str) (hp : plainStr loc p) :
    DecLoc loc p p := by
  cases loc with
  | path => exact Dec.plain .path p hp
  | query => exact Dec.plain .query p hp
  | header => simp [DecLoc]
  | cookie => simp [DecLoc]
  | undefined => exact absurd rfl hloc

theorem DecLoc.nil (loc : Loc) (hloc : loc ≠ .undefined) : DecLoc loc [] [] := by
  cases loc with
  | path => exact Dec.nil _
  | query => exact Dec.nil _
  | header => simp [DecLoc]
  | cookie => simp [DecLoc]
  | undefined => exact absurd rfl hloc

theorem DecLoc.append {loc : Loc} {w1 r1 w2 r2 : Str} (h1 : DecLoc loc w1 r1) (h2 : DecLoc loc w2 r2) :
    DecLoc loc (w1 ++ w2) (r1 ++ r2) := by
  cases loc with
  | path => exact Dec.append h1 h2
  | query => exact Dec.append h1 h2
  | header => simp [DecLoc] at *; rw [h1, h2]
  | cookie => simp [DecLoc] at *; rw [h1, h2]
  | undefined => exact absurd h1 (by simp [DecLoc])

theorem DecLoc.join {loc : Loc} (hloc : loc ≠ .undefined) {sep : Str} (hsep : DecLoc loc sep sep) :
    ∀ (ps : List (Str × Str)), (∀ p ∈ ps, DecLoc loc p.1 p.2) →
      DecLoc loc (join sep (ps.map (·.1))) (join sep (ps.map (·.2))) := by
  intro ps
  induction ps with
  | nil => intro _; exact DecLoc.nil loc hloc
  | cons p t ih =>
    intro h
    have h1 := h p (by simp)
    have ht : ∀ q ∈ t, DecLoc loc q.1 q.2 := fun q hq => h q (by simp [hq])
    cases t with
    | nil => simpa [Codec.join] using h1
    | cons q t' =>
      simp only [List.map_cons, join_cons_cons] at ih ⊢
      exact (h1.append hsep).append (ih ht)

end OapiVerif.Codec
