import OapiVerif.Model.GoJson
/-!
Round trip through the encoding/json fragment: a valid canonical JSON value decodes into the Go type and encodes
back to itself.
-/
namespace OapiVerif.GoJson

theorem lookup_cons_ne (k n : String) (j : JVal) (m : List (String × JVal)) (h : k ≠ n) :
    lookup ((k, j) :: m) n = lookup m n := by
  simp [lookup, List.find?_cons, h]

theorem lookup_cons_eq (n : String) (j : JVal) (m : List (String × JVal)) : lookup ((n, j) :: m) n = some j := by
  simp [lookup, List.find?_cons]

theorem lookup_none_of_not_any (m : List (String × JVal)) (n : String) (h : m.any (·.1 = n) = false) : lookup m n = none := by
  unfold lookup
  simp only [Option.map_eq_none_iff, List.find?_eq_none, decide_eq_true_eq]
  intro e he hk
  simp only [List.any_eq_false, decide_eq_true_eq] at h
  exact h e he hk

/-- A member whose name no remaining field carries does not influence the remaining fields. -/
theorem decodeFields_skip : ∀ (fs : Fields) (k : String) (j : JVal) (m : List (String × JVal)),
    (names fs).contains k = false → decodeFields fs ((k, j) :: m) = decodeFields fs m
  | .nil, _, _, _, _ => by simp [decodeFields]
  | .cons n om t rest, k, j, m, h => by
    simp only [names, List.contains_cons, Bool.or_eq_false_iff, beq_eq_false_iff_ne] at h
    have hne : k ≠ n := h.1
    simp only [decodeFields, lookup_cons_ne k n j m hne, decodeFields_skip rest k j m h.2]

theorem mapM_ne_nil {α β} (f : α → Option β) (l : List α) (w : List β) (h : l.mapM f = some w) (hne : l ≠ []) : w ≠ [] := by
  cases l with
  | nil => exact absurd rfl hne
  | cons a t =>
    simp only [List.mapM_cons] at h
    cases hf : f a with
    | none => simp [hf] at h
    | some b =>
      cases ht : t.mapM f with
      | none => simp [hf, ht] at h
      | some bs => simp [hf, ht] at h; subst h; simp

theorem isEmpty_false_of_ne_nil {α} (w : List α) (h : w ≠ []) : w.isEmpty = false := by
  cases w with
  | nil => exact absurd rfl h
  | cons _ _ => rfl

/-- What `omitempty` keeps: a value decoded from JSON that `keptByOmitempty` accepts is not empty. -/
theorem kept_not_empty (t : GoTy) (j : JVal) (v : GoVal) (hd : decode t j = some v) (hk : keptByOmitempty t j = true) :
    isEmpty v = false := by
  cases t with
  | bool =>
    cases j <;> simp_all [keptByOmitempty, decode]
    subst hd; simp [isEmpty]
  | int lo hi =>
    cases j <;> simp_all [keptByOmitempty, decode]
    obtain ⟨_, rfl⟩ := hd; simp [isEmpty, hk]
  | string =>
    cases j <;> simp_all [keptByOmitempty, decode]
    subst hd; simp [isEmpty, hk]
  | ptr t =>
    cases j <;> simp_all [keptByOmitempty, decode] <;>
      (obtain ⟨w, _, rfl⟩ := hd; simp [isEmpty])
  | slice t =>
    cases j <;> simp_all [keptByOmitempty, decode]
    obtain ⟨w, hw, rfl⟩ := hd
    simp only [isEmpty]
    exact isEmpty_false_of_ne_nil _ (mapM_ne_nil _ _ _ hw hk)
  | map t =>
    cases j <;> simp_all [keptByOmitempty, decode]
    obtain ⟨w, hw, rfl⟩ := hd
    simp only [isEmpty]
    exact isEmpty_false_of_ne_nil _ (mapM_ne_nil _ _ _ hw hk)
  | struct fs =>
    cases j <;> simp_all [keptByOmitempty, decode]
    obtain ⟨w, _, rfl⟩ := hd
    simp [isEmpty]

theorem mapM_roundtrip {α β} (p : α → Bool) (f : α → Option β) (g : β → Option α)
    (h : ∀ x, p x = true → ∃ v, f x = some v ∧ g v = some x) (l : List α) (hl : l.all p = true) :
    ∃ vs, l.mapM f = some vs ∧ vs.mapM g = some l := by
  induction l with
  | nil => exact ⟨[], rfl, rfl⟩
  | cons x t ih =>
    simp only [List.all_cons, Bool.and_eq_true] at hl
    obtain ⟨v, hf, hg⟩ := h x hl.1
    obtain ⟨vs, hfs, hgs⟩ := ih hl.2
    exact ⟨v :: vs, by simp [List.mapM_cons, hf, hfs], by simp [List.mapM_cons, hg, hgs]⟩

mutual
/-- `json.Marshal(json.Unmarshal(j)) = j` for every valid canonical value of a well-formed type. -/
theorem roundtrip : ∀ (t : GoTy) (j : JVal), wf t = true → valid t j = true →
    ∃ v, decode t j = some v ∧ encode t v = some j
  | .bool, j, _, hv => by cases j <;> simp_all [valid, decode, encode]
  | .int lo hi, j, _, hv => by cases j <;> simp_all [valid, decode, encode]
  | .string, j, _, hv => by cases j <;> simp_all [valid, decode, encode]
  | .ptr t, j, hw, hv => by
    have hw' : wf t = true := by simpa [wf] using hw
    cases j with
    | null => exact ⟨.nilv, by simp [decode], by simp [encode]⟩
    | bool b =>
      obtain ⟨v, hd, he⟩ := roundtrip t (.bool b) hw' (by simpa [valid] using hv)
      exact ⟨.ptr v, by simp [decode, hd], by simp [encode, he]⟩
    | num n =>
      obtain ⟨v, hd, he⟩ := roundtrip t (.num n) hw' (by simpa [valid] using hv)
      exact ⟨.ptr v, by simp [decode, hd], by simp [encode, he]⟩
    | str s =>
      obtain ⟨v, hd, he⟩ := roundtrip t (.str s) hw' (by simpa [valid] using hv)
      exact ⟨.ptr v, by simp [decode, hd], by simp [encode, he]⟩
    | arr l =>
      obtain ⟨v, hd, he⟩ := roundtrip t (.arr l) hw' (by simpa [valid] using hv)
      exact ⟨.ptr v, by simp [decode, hd], by simp [encode, he]⟩
    | obj m =>
      obtain ⟨v, hd, he⟩ := roundtrip t (.obj m) hw' (by simpa [valid] using hv)
      exact ⟨.ptr v, by simp [decode, hd], by simp [encode, he]⟩
  | .slice t, j, hw, hv => by
    have hw' : wf t = true := by simp only [wf, Bool.and_eq_true] at hw; exact hw.2
    cases j with
    | null => exact ⟨.nilv, by simp [decode], by simp [encode]⟩
    | arr l =>
      have hl : l.all (valid t) = true := by simpa [valid] using hv
      obtain ⟨vs, hd, he⟩ := mapM_roundtrip (valid t) (decode t) (encode t) (fun x hx => roundtrip t x hw' hx) l hl
      exact ⟨.slice vs, by simp [decode, hd], by simp [encode, he]⟩
    | bool b => simp [valid] at hv
    | num n => simp [valid] at hv
    | str s => simp [valid] at hv
    | obj m => simp [valid] at hv
  | .map t, j, hw, hv => by
    have hw' : wf t = true := by simpa [wf] using hw
    cases j with
    | null => exact ⟨.nilv, by simp [decode], by simp [encode]⟩
    | obj m =>
      have hm : m.all (fun kv => valid t kv.2) = true := by
        simp only [valid, Bool.and_eq_true] at hv; exact hv.2
      obtain ⟨vs, hd, he⟩ := mapM_roundtrip (fun kv : String × JVal => valid t kv.2)
        (fun kv => (decode t kv.2).map fun v => (kv.1, v)) (fun kv : String × GoVal => (encode t kv.2).map fun j => (kv.1, j))
        (fun kv hkv => by
          obtain ⟨v, hd, he⟩ := roundtrip t kv.2 hw' hkv
          exact ⟨(kv.1, v), by simp [hd], by simp [he]⟩) m hm
      exact ⟨.map vs, by simp [decode, hd], by simp [encode, he]⟩
    | bool b => simp [valid] at hv
    | num n => simp [valid] at hv
    | str s => simp [valid] at hv
    | arr l => simp [valid] at hv
  | .struct fs, j, hw, hv => by
    have hw' : wfFields fs = true := by simpa [wf] using hw
    cases j with
    | obj m =>
      obtain ⟨vs, hd, he⟩ := roundtripFields fs m hw' (by simpa [valid] using hv)
      exact ⟨.struct vs, by simp [decode, hd], by simp [encode, he]⟩
    | null => simp [valid] at hv
    | bool b => simp [valid] at hv
    | num n => simp [valid] at hv
    | str s => simp [valid] at hv
    | arr l => simp [valid] at hv
theorem roundtripFields : ∀ (fs : Fields) (m : List (String × JVal)), wfFields fs = true → validFields fs m = true →
    ∃ vs, decodeFields fs m = some vs ∧ encodeFields fs vs = some m
  | .nil, m, _, hv => by
    have : m = [] := by simpa [validFields] using hv
    subst this
    exact ⟨[], by simp [decodeFields], by simp [encodeFields]⟩
  | .cons n om t rest, m, hw, hv => by
    simp only [wfFields, Bool.and_eq_true, Bool.not_eq_true'] at hw
    obtain ⟨⟨hnot, hwt⟩, hwr⟩ := hw
    cases m with
    | nil =>
      simp only [validFields, Bool.and_eq_true] at hv
      obtain ⟨⟨hom, hz⟩, hr⟩ := hv
      obtain ⟨vs, hd, he⟩ := roundtripFields rest [] hwr hr
      refine ⟨zero t :: vs, ?_, ?_⟩
      · simp [decodeFields, lookup, hd]
      · simp [encodeFields, hom, hz, he]
    | cons kj m' =>
      obtain ⟨k, j⟩ := kj
      by_cases hk : k = n
      · subst hk
        simp only [validFields, if_true, Bool.and_eq_true, Bool.or_eq_true, Bool.not_eq_true'] at hv
        obtain ⟨⟨hvj, hkept⟩, hr⟩ := hv
        obtain ⟨v, hdv, hev⟩ := roundtrip t j hwt hvj
        obtain ⟨vs, hd, he⟩ := roundtripFields rest m' hwr hr
        refine ⟨v :: vs, ?_, ?_⟩
        · simp only [decodeFields, lookup_cons_eq, hdv, decodeFields_skip rest k j m' hnot, hd]
        · have hne : (om && isEmpty v) = false := by
            rcases hkept with h | h
            · simp [h]
            · simp [kept_not_empty t j v hdv h]
          simp [encodeFields, hne, hev, he]
      · simp only [validFields, hk, if_false, Bool.and_eq_true, Bool.not_eq_true'] at hv
        obtain ⟨⟨⟨hom, hz⟩, hany⟩, hr⟩ := hv
        obtain ⟨vs, hd, he⟩ := roundtripFields rest ((k, j) :: m') hwr hr
        refine ⟨zero t :: vs, ?_, ?_⟩
        · simp [decodeFields, lookup_none_of_not_any _ n hany, hd]
        · simp [encodeFields, hom, hz, he]
end

end OapiVerif.GoJson
