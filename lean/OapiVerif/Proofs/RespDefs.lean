import OapiVerif.Model.RespDefs
namespace OapiVerif.RespDefs

theorem go_codes : ∀ (rs : List RIn) (seen : List Str), (go rs seen).map (·.code) = rs.map (·.code) := by
  intro rs
  induction rs with
  | nil => intro _; rfl
  | cons r rest ih =>
    intro seen
    simp only [go]
    split
    · split <;> simp [ih]
    · simp [ih]

/-- the refs handed out are pairwise different and none of them was handed out before -/
theorem go_refs : ∀ (rs : List RIn) (seen : List Str),
    ((go rs seen).filterMap (·.ref)).Nodup ∧ ∀ t ∈ (go rs seen).filterMap (·.ref), t ∉ seen := by
  intro rs
  induction rs with
  | nil => intro _; simp [go]
  | cons r rest ih =>
    intro seen
    simp only [go]
    split
    · rename_i t ht
      split
      · simpa using ih seen
      · rename_i hc
        obtain ⟨h1, h2⟩ := ih (t :: seen)
        have e : (({ code := r.code, ref := some t } : ROut) :: go rest (t :: seen)).filterMap (·.ref) =
            t :: (go rest (t :: seen)).filterMap (·.ref) := by simp [List.filterMap_cons]
        rw [e]
        simp only [List.nodup_cons, List.mem_cons]
        refine ⟨⟨?_, h1⟩, ?_⟩
        · intro hm; exact (h2 t hm) List.mem_cons_self
        · rintro x (rfl | hx)
          · simpa using hc
          · exact fun hs => h2 x hx (List.mem_cons_of_mem _ hs)
    · simpa using ih seen

/-- position by position: a definition keeps the code of its response, and its ref is that response's or none -/
def Matches : List RIn → List ROut → Prop
  | [], [] => True
  | i :: is, o :: os => (o.code = i.code ∧ (o.ref = none ∨ o.ref = i.ref)) ∧ Matches is os
  | _, _ => False

theorem go_pointwise : ∀ (rs : List RIn) (seen : List Str), Matches rs (go rs seen) := by
  intro rs
  induction rs with
  | nil => intro _; simp [go, Matches]
  | cons r rest ih =>
    intro seen
    simp only [go]
    split
    · rename_i t ht
      split
      · exact ⟨⟨rfl, Or.inl rfl⟩, ih seen⟩
      · exact ⟨⟨rfl, Or.inr ht.symm⟩, ih _⟩
    · exact ⟨⟨rfl, Or.inl rfl⟩, ih seen⟩

/-- a component not yet taken is taken by some definition -/
theorem go_takes : ∀ (rs : List RIn) (seen : List Str) (r : RIn) (t : Str), r ∈ rs → r.ref = some t → t ∉ seen →
    ∃ o ∈ go rs seen, o.ref = some t := by
  intro rs
  induction rs with
  | nil => intro _ r _ h; cases h
  | cons x rest ih =>
    intro seen r t hr ht hs
    simp only [go]
    rcases List.mem_cons.mp hr with e | hr'
    · subst e
      rw [ht]
      have : seen.contains t = false := by simpa using hs
      simp only [this]
      exact ⟨_, List.mem_cons_self, rfl⟩
    · split
      · rename_i u hu
        split
        · obtain ⟨o, ho, h⟩ := ih seen r t hr' ht hs
          exact ⟨o, List.mem_cons_of_mem _ ho, h⟩
        · by_cases e : t = u
          · subst e; exact ⟨_, List.mem_cons_self, rfl⟩
          · obtain ⟨o, ho, h⟩ := ih (u :: seen) r t hr' ht (by simp [e, hs])
            exact ⟨o, List.mem_cons_of_mem _ ho, h⟩
      · obtain ⟨o, ho, h⟩ := ih seen r t hr' ht hs
        exact ⟨o, List.mem_cons_of_mem _ ho, h⟩

end OapiVerif.RespDefs
