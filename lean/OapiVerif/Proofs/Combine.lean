import OapiVerif.Model.Combine
namespace OapiVerif.Combine

theorem hasKey_iff (ds : List Decl) (k : Nat × Str) : hasKey ds k = true ↔ ∃ d ∈ ds, d.key = k := by
  simp [hasKey, List.any_eq_true]

theorem hasKey_reverse (ds : List Decl) (k : Nat × Str) : hasKey ds.reverse k = hasKey ds k := by
  simp [hasKey, List.any_reverse]

/-- the first loop succeeds exactly with the list it was given, and only if its keys are distinct -/
theorem locals_ok (l acc r : List Decl) (h : locals l acc = .ok r) :
    r = acc.reverse ++ l ∧ (l.map Decl.key).Nodup ∧ ∀ d ∈ l, hasKey acc d.key = false := by
  induction l generalizing acc with
  | nil => simp [locals] at h; subst h; simp
  | cons d rest ih =>
    unfold locals at h
    split at h
    · simp at h
    · rename_i hk
      have hk' : hasKey acc d.key = false := by simpa using hk
      obtain ⟨hr, hnd, hacc⟩ := ih (d :: acc) h
      refine ⟨by simp [hr], ?_, ?_⟩
      · simp only [List.map_cons, List.nodup_cons]
        refine ⟨?_, hnd⟩
        intro hmem
        obtain ⟨e, he, hke⟩ := List.mem_map.mp hmem
        have := hacc e he
        simp [hasKey, hke] at this
      · intro e he
        rcases List.mem_cons.mp he with rfl | he
        · exact hk'
        · have := hacc e he
          simp only [hasKey, List.any_cons, Bool.or_eq_false_iff] at this
          exact this.2

theorem locals_nodup_ok (l acc : List Decl) (hnd : (l.map Decl.key).Nodup) (hacc : ∀ d ∈ l, hasKey acc d.key = false) :
    locals l acc = .ok (acc.reverse ++ l) := by
  induction l generalizing acc with
  | nil => simp [locals]
  | cons d rest ih =>
    have hd := hacc d (by simp)
    have hnd' : d.key ∉ rest.map Decl.key ∧ (rest.map Decl.key).Nodup := by
      simpa only [List.map_cons, List.nodup_cons] using hnd
    simp only [locals, hd, Bool.false_eq_true, if_false]
    rw [ih (d :: acc) hnd'.2]
    · simp
    · intro e he
      have h1 := hacc e (by simp [he])
      have hne : d.key ≠ e.key := fun heq => hnd'.1 (List.mem_map.mpr ⟨e, he, heq.symm⟩)
      simp only [hasKey, List.any_cons, Bool.or_eq_false_iff]
      exact ⟨by simpa using hne, by simpa [hasKey] using h1⟩

/-- what the second loop returns: the path-item declarations the operation does not shadow, in order -/
theorem globals_ok (loc g acc r : List Decl) (h : globals loc g acc = .ok r) :
    r = acc.reverse ++ g.filter (fun d => !hasKey loc d.key) := by
  induction g generalizing acc with
  | nil => simp [globals] at h; subst h; simp
  | cons d rest ih =>
    unfold globals at h
    split at h
    · rename_i hk
      rw [ih acc h]; simp [hk]
    · rename_i hk
      split at h
      · simp at h
      · rw [ih (d :: acc) h]; simp [hk]

/-- the second loop refuses repeated keys among what it adds -/
theorem globals_nodup (loc g acc r : List Decl) (h : globals loc g acc = .ok r) (hacc : (acc.map Decl.key).Nodup) :
    (r.map Decl.key).Nodup := by
  induction g generalizing acc with
  | nil =>
    simp [globals] at h; subst h
    simpa [List.map_reverse] using (List.reverse_perm (acc.map Decl.key)).nodup_iff.mpr hacc
  | cons d rest ih =>
    unfold globals at h
    split at h
    · exact ih acc h hacc
    · split at h
      · simp at h
      · rename_i hk
        refine ih (d :: acc) h ?_
        simp only [List.map_cons, List.nodup_cons]
        refine ⟨?_, hacc⟩
        intro hmem
        obtain ⟨e, he, hke⟩ := List.mem_map.mp hmem
        have : hasKey acc d.key = true := (hasKey_iff acc d.key).mpr ⟨e, he, hke⟩
        simp [this] at hk

theorem combine_ok (g l r : List Decl) (h : combine g l = .ok r) :
    r = l ++ g.filter (fun d => !hasKey l d.key) ∧ (r.map Decl.key).Nodup := by
  unfold combine at h
  cases hl : locals l [] with
  | error e => simp [hl] at h
  | ok l' =>
    simp only [hl] at h
    obtain ⟨hl', hnd, _⟩ := locals_ok l [] l' hl
    simp only [List.reverse_nil, List.nil_append] at hl'
    subst hl'
    cases hg : globals l' g [] with
    | error e => simp [hg] at h
    | ok g' =>
      simp only [hg, Except.ok.injEq] at h
      have hg' := globals_ok l' g [] g' hg
      simp only [List.reverse_nil, List.nil_append] at hg'
      have hgn := globals_nodup l' g [] g' hg (by simp)
      subst h
      refine ⟨by rw [hg'], ?_⟩
      rw [List.map_append, List.nodup_append]
      refine ⟨hnd, hgn, ?_⟩
      intro a ha b hb hab
      subst hab
      obtain ⟨d, hd, hkd⟩ := List.mem_map.mp ha
      obtain ⟨e, he, hke⟩ := List.mem_map.mp hb
      rw [hg'] at he
      have hf := (List.mem_filter.mp he).2
      have : hasKey l' e.key = true := (hasKey_iff l' e.key).mpr ⟨d, hd, by rw [hkd, hke]⟩
      simp [this] at hf

end OapiVerif.Combine
