import OapiVerif.Model.Comment
/-! A description never leaves its comment. -/
namespace OapiVerif.Comment

theorem linesOk_body : ∀ s : Str, linesOk (body s) = true
  | [] => by simp [body, linesOk]
  | c :: t => by
    by_cases h : c = 10
    · subst h
      simp [body, linesOk, startsComment, slashes, linesOk_body t]
    · simp [body, h, linesOk, linesOk_body t]

theorem linesOk_append_of_no_nl : ∀ (a b : Str), 10 ∉ a → linesOk b = true → linesOk (a ++ b) = true
  | [], b, _, hb => by simpa using hb
  | c :: t, b, ha, hb => by
    simp only [List.mem_cons, not_or] at ha
    have hc : c ≠ 10 := fun e => ha.1 e.symm
    simp [linesOk, hc, linesOk_append_of_no_nl t b ha.2 hb]

/-- Cutting a text in front of a newline keeps every line a comment. -/
theorem linesOk_of_append_nl : ∀ (a b : Str), linesOk (a ++ 10 :: b) = true → linesOk a = true
  | [], _, _ => by simp [linesOk]
  | c :: t, b, h => by
    simp only [List.cons_append, linesOk, Bool.and_eq_true, Bool.or_eq_true, bne_iff_ne, ne_eq] at h
    obtain ⟨h1, h2⟩ := h
    have ih := linesOk_of_append_nl t b h2
    simp only [linesOk, Bool.and_eq_true, Bool.or_eq_true, bne_iff_ne, ne_eq, ih, and_true]
    rcases h1 with h1 | h1
    · exact Or.inl h1
    · right
      cases t with
      | nil => simp [startsComment, slashes] at h1
      | cons x t' =>
        cases t' with
        | nil => simp [startsComment, slashes] at h1
        | cons y t'' => simpa [startsComment] using h1

theorem take_of_suffix (s suf : Str) (h : suf.isSuffixOf s = true) : s = s.take (s.length - suf.length) ++ suf := by
  rw [List.isSuffixOf_iff_suffix] at h
  obtain ⟨t, rfl⟩ := h
  simp

theorem trimTail_ok (s : Str) (h1 : startsComment s = true) (h2 : linesOk s = true) : allCommented (trimTail s) = true := by
  unfold trimTail
  split
  · rename_i hs
    have hsplit := take_of_suffix s [10, 47, 47, 32] hs
    simp only [List.length_cons, List.length_nil] at hsplit
    generalize hA : s.take (s.length - (0 + 1 + 1 + 1 + 1)) = a at hsplit
    clear hA
    have hl : linesOk a = true := by
      rw [hsplit] at h2
      exact linesOk_of_append_nl a [47, 47, 32] h2
    unfold allCommented
    cases a with
    | nil => simp
    | cons x t =>
      cases t with
      | nil =>
        rw [hsplit] at h1
        simp [startsComment, slashes] at h1
      | cons y t' =>
        rw [hsplit] at h1
        have : startsComment (x :: y :: t') = true := by simpa [startsComment] using h1
        simp [this, hl]
  · simp [allCommented, h1, h2]

theorem startsComment_first (p rest : Str) : startsComment (first p ++ rest) = true := by
  unfold first
  split <;> simp [startsComment, slashes]

theorem no_nl_first (p : Str) (hp : 10 ∉ p) : 10 ∉ first p := by
  unfold first
  split <;> simp [slashes, hp]

/-- Whatever the description and the type name (which has no newline), the rendered comment is empty or consists of
lines that all begin with `//`. -/
theorem comment_all_commented (input prefx : Str) (hp : 10 ∉ prefx) : allCommented (comment input prefx) = true := by
  unfold comment
  split
  · simp [allCommented]
  · exact trimTail_ok _ (startsComment_first _ _)
      (linesOk_append_of_no_nl _ _ (no_nl_first prefx hp) (linesOk_body _))

theorem mem_normalize : ∀ (s : Str) (c : Nat), c ∈ normalize s → c ≠ 13
  | [], _, h => by simp [normalize] at h
  | x :: t, c, h => by
    intro hc
    subst hc
    by_cases hx : x = 13
    · subst hx
      cases t with
      | nil => simp [normalize] at h
      | cons y t' =>
        by_cases hy : y = 10
        · subst hy
          simp only [normalize, List.mem_cons] at h
          rcases h with h | h
          · omega
          · exact mem_normalize t' 13 h rfl
        · have : normalize (13 :: y :: t') = 10 :: normalize (y :: t') := by
            simp [normalize, hy]
          rw [this] at h
          simp only [List.mem_cons] at h
          rcases h with h | h
          · omega
          · exact mem_normalize (y :: t') 13 h rfl
    · have : normalize (x :: t) = x :: normalize t := by
        cases t <;> simp [normalize, hx]
      rw [this] at h
      simp only [List.mem_cons] at h
      rcases h with h | h
      · exact hx h.symm
      · exact mem_normalize t 13 h rfl

theorem mem_body : ∀ (s : Str) (c : Nat), c ∈ body s → c ∈ s ∨ c = 10 ∨ c = 47 ∨ c = 32
  | [], _, h => by simp [body] at h
  | x :: t, c, h => by
    by_cases hx : x = 10
    · subst hx
      simp only [body, if_true, List.mem_cons] at h
      rcases h with h | h | h | h | h
      · right; left; exact h
      · right; right; left; exact h
      · right; right; left; exact h
      · right; right; right; exact h
      · rcases mem_body t c h with h | h
        · left; simp [h]
        · right; exact h
    · simp only [body, hx, if_false, List.mem_cons] at h
      rcases h with h | h
      · left; simp [h]
      · rcases mem_body t c h with h | h
        · left; simp [h]
        · right; exact h

end OapiVerif.Comment
