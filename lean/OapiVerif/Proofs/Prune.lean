import OapiVerif.Model.Prune
namespace OapiVerif.Prune

theorem allRefs_mono {d d' : Doc} (hr : d'.roots = d.roots)
    (hc : ∀ c, c ∈ d'.comps → c ∈ d.comps) : ∀ r, r ∈ allRefs d' → r ∈ allRefs d := by
  intro r h
  simp only [allRefs, List.mem_append, List.mem_flatMap] at *
  rcases h with h | ⟨c, hc', hr'⟩
  · exact Or.inl (hr ▸ h)
  · exact Or.inr ⟨c, hc c hc', hr'⟩

@[simp] theorem step_roots (d : Doc) : (step d).roots = d.roots := rfl

theorem mem_step {d : Doc} {c : Comp} :
    c ∈ (step d).comps ↔ c ∈ d.comps ∧ c.ref ∈ allRefs d := by
  simp [step, List.mem_filter]

theorem step_sub (d : Doc) : ∀ c, c ∈ (step d).comps → c ∈ d.comps :=
  fun _ h => (mem_step.mp h).1

theorem step_length_le (d : Doc) : (step d).comps.length ≤ d.comps.length := by
  simp [step]; exact List.length_filter_le _ _

theorem step_eq_of_length {d : Doc} (h : (step d).comps.length = d.comps.length) : step d = d := by
  have : d.comps.filter (fun c => (allRefs d).contains c.ref) = d.comps := by
    apply List.filter_eq_self.mpr
    exact (List.length_filter_eq_length_iff).mp (by simpa [step] using h)
  cases d; simp_all [step]

@[simp] theorem pruneN_roots (n : Nat) (d : Doc) : (pruneN n d).roots = d.roots := by
  induction n generalizing d with
  | zero => rfl
  | succ n ih => unfold pruneN; split <;> simp [ih]

theorem pruneN_sub (n : Nat) (d : Doc) : ∀ c, c ∈ (pruneN n d).comps → c ∈ d.comps := by
  induction n generalizing d with
  | zero => intro c h; exact h
  | succ n ih =>
    intro c h; unfold pruneN at h; split at h
    · exact h
    · exact step_sub d c (ih _ c h)

theorem pruneN_fix (n : Nat) (d : Doc) (h : d.comps.length < n) :
    step (pruneN n d) = pruneN n d := by
  induction n generalizing d with
  | zero => omega
  | succ n ih =>
    unfold pruneN; split
    · next heq => exact step_eq_of_length heq
    · next hne =>
      have := step_length_le d
      exact ih _ (by omega)

theorem pruneN_refs_sub (n : Nat) (d : Doc) : ∀ r, r ∈ allRefs (pruneN n d) → r ∈ allRefs d :=
  allRefs_mono (pruneN_roots n d) (pruneN_sub n d)

/-- A component of the input whose reference survives among the final references is
itself retained: pruning never creates a dangling reference. -/
theorem pruneN_closed (n : Nat) (d : Doc) (c : Comp) (hc : c ∈ d.comps)
    (hr : c.ref ∈ allRefs (pruneN n d)) : c ∈ (pruneN n d).comps := by
  induction n generalizing d with
  | zero => exact hc
  | succ n ih =>
    unfold pruneN at hr ⊢; split
    · exact hc
    · next hne =>
      rw [if_neg hne] at hr
      have h1 : c.ref ∈ allRefs (step d) := pruneN_refs_sub n (step d) _ hr
      have h2 : c.ref ∈ allRefs d := allRefs_mono (step_roots d) (step_sub d) _ h1
      exact ih (step d) (mem_step.mpr ⟨hc, h2⟩) hr

/-- Any self-supporting family of components survives (greatest-fixpoint direction). -/
theorem pruneN_greatest (S : Comp → Prop) (n : Nat) (d : Doc)
    (hS : ∀ c, S c → c ∈ d.comps ∧ (c.ref ∈ d.roots ∨ ∃ c', S c' ∧ c.ref ∈ c'.out)) :
    ∀ c, S c → c ∈ (pruneN n d).comps := by
  induction n generalizing d with
  | zero => intro c h; exact (hS c h).1
  | succ n ih =>
    intro c h; unfold pruneN; split
    · exact (hS c h).1
    · apply ih (step d) _ c h
      intro c hc
      obtain ⟨hm, hsup⟩ := hS c hc
      refine ⟨mem_step.mpr ⟨hm, ?_⟩, ?_⟩
      · simp only [allRefs, List.mem_append, List.mem_flatMap]
        rcases hsup with h | ⟨c', hc', ho⟩
        · exact Or.inl h
        · exact Or.inr ⟨c', (hS c' hc').1, ho⟩
      · simpa using hsup

end OapiVerif.Prune
