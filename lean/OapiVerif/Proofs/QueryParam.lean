import OapiVerif.Proofs.QueryWire
/-!
C04, query parameters (style form): the fragment written by `StyleParamWithLocation("form", …, ParamLocationQuery)`
is read back by `url.ParseQuery` + `BindQueryParameter` as the value the caller supplied.
-/
namespace OapiVerif.Security
open OapiVerif.Codec OapiVerif.Escape
local notation "Str" => List Nat

/-- A parameter or member name that needs no escaping and contains no query delimiter. -/
def NameOk (k : Str) : Prop := ∀ b ∈ k, plain .query b = true ∧ b ≠ 38 ∧ b ≠ 59 ∧ b ≠ 61

/-- `name=value` with the name as it stands (the runtime does not escape it) and the value query-escaped. -/
def segN (k w : Str) : Str := k ++ [61] ++ w

theorem unescape_plain (k : Str) (hk : NameOk k) : unescape .query k = some k := by
  have := unescape_plain_append .query k (fun b hb => (hk b hb).1) []
  simpa [unescape] using this

/-- One `url.ParseQuery` step on `name=w` where `w` decodes to `v` and holds no delimiter. -/
theorem parseStep_segN (acc : Query) (k w v : Str) (hk : NameOk k) (hw : ∀ c ∈ w, c ≠ 38 ∧ c ≠ 59 ∧ c ≠ 61)
    (hd : unescape .query w = some v) : parseStep acc (segN k w) = .ok (qAdd acc k v) := by
  unfold parseStep
  have hne : segN k w ≠ [] := by simp [segN]
  have hsemi : (segN k w).contains cSemi = false := by
    simp only [List.contains_eq_mem, decide_eq_false_iff_not, cSemi, segN, List.mem_append, List.mem_singleton]
    rintro ((h | h) | h)
    · exact (hk 59 h).2.2.1 rfl
    · omega
    · exact (hw 59 h).2.1 rfl
  simp only [hne, if_false, hsemi, Bool.false_eq_true]
  have hspan : (segN k w).span (· != cEq) = (k, 61 :: w) := by
    unfold segN
    rw [List.append_assoc]
    exact span_no_eq _ _ (fun c hc => (hk c hc).2.2.2)
  rw [hspan]
  simp only [unescape_plain k hk, hd]
  rfl

theorem esc_ok (s : Str) (hs : Bytes s) : ∀ c ∈ escape .query s, c ≠ 38 ∧ c ≠ 59 ∧ c ≠ 61 :=
  escape_query_safe s hs

theorem segN_no_amp (k w : Str) (hk : NameOk k) (hw : ∀ c ∈ w, c ≠ 38 ∧ c ≠ 59 ∧ c ≠ 61) : cAmp ∉ segN k w := by
  simp only [segN, List.mem_append, List.mem_singleton, cAmp]
  rintro ((h | h) | h)
  · exact (hk 38 h).2.1 rfl
  · omega
  · exact (hw 38 h).1 rfl

/-- Primitive, exploded or not: `name=<escaped value>` parses to one value under the name. -/
theorem parse_form_prim (explode : Bool) (name s : Str) (hn : NameOk name) (hs : Bytes s) :
    parseQuery (styleParam .form explode name .query (.prim s)) = .ok [(name, [s])] := by
  have hfrag : styleParam .form explode name .query (.prim s) = segN name (escape .query s) := by
    simp [styleParam, primPrefix, escLoc, segN, cEq]
  rw [hfrag, parseQuery_eq, split_no_sep cAmp _ (segN_no_amp _ _ hn (esc_ok s hs))]
  simp only [List.foldlM_cons, List.foldlM_nil, parseStep_segN [] name _ s hn (esc_ok s hs) (unescape_escape .query s hs)]
  rfl

/-- A primitive query parameter arrives as the value the caller supplied. -/
theorem query_prim_roundtrip (explode required : Bool) (name s : Str) (hn : NameOk name) (hs : Bytes s)
    (hnc : cComma ∉ s) (q : Query) (hq : parseQuery (styleParam .form explode name .query (.prim s)) = .ok q) :
    bindQuery explode required name .prim [] q = .ok (some (.prim s)) := by
  rw [parse_form_prim explode name s hn hs] at hq
  cases hq
  cases explode
  · simp [bindQuery, qLookup, split_no_sep cComma s hnc]
  · simp [bindQuery, qLookup]

theorem form_exploded_frag (name : Str) (ys : List Str) (hne : ys ≠ []) :
    (name ++ [cEq]) ++ join (cAmp :: (name ++ [cEq])) ys = join [cAmp] (ys.map (segN name)) := by
  induction ys with
  | nil => exact absurd rfl hne
  | cons y t ih =>
    cases t with
    | nil => simp [join, segN, cEq]
    | cons z t' =>
      have := ih (by simp)
      simp only [List.map_cons, join_cons_cons, segN, cEq] at this ⊢
      simp only [List.append_assoc, List.cons_append, List.nil_append] at this ⊢
      rw [← this]

theorem foldlM_segN (acc : Query) (name : Str) (xs : List Str) (hn : NameOk name) (hb : ∀ x ∈ xs, Bytes x) :
    ((xs.map (escape .query)).map (segN name)).foldlM parseStep acc =
      .ok (xs.foldl (fun m x => qAdd m name x) acc) := by
  induction xs generalizing acc with
  | nil => rfl
  | cons x t ih =>
    have hx := hb x (by simp)
    simp only [List.map_cons, List.foldlM_cons, parseStep_segN acc name _ x hn (esc_ok x hx) (unescape_escape .query x hx),
      List.foldl_cons]
    exact ih _ (fun y hy => hb y (by simp [hy]))

theorem foldl_qAdd_same (name : Str) (xs : List Str) (m : Query) :
    qLookup (xs.foldl (fun m x => qAdd m name x) m) name =
      if xs = [] then qLookup m name else some ((qLookup m name).getD [] ++ xs) := by
  induction xs generalizing m with
  | nil => simp
  | cons x t ih =>
    simp only [List.foldl_cons, ih]
    have h1 : (qLookup (qAdd m name x) name) = some ((qLookup m name).getD [] ++ [x]) := by
      have := getD_qAdd m name x name
      simp only [if_true] at this
      cases hq : qLookup (qAdd m name x) name with
      | none =>
        -- qAdd always leaves an entry under the name
        exfalso
        unfold qAdd qLookup at hq
        split at hq
        · rename_i hany
          simp only [Option.map_eq_none_iff, List.find?_eq_none, List.mem_map, decide_eq_true_eq] at hq
          simp only [List.any_eq_true, decide_eq_true_eq] at hany
          obtain ⟨e, he, hk⟩ := hany
          exact hq _ ⟨e, he, rfl⟩ (by simp [hk])
        · simp only [Option.map_eq_none_iff, List.find?_eq_none, List.mem_append, List.mem_singleton, decide_eq_true_eq] at hq
          exact hq (name, [x]) (Or.inr rfl) rfl
      | some vs => rw [hq] at this; simp only [Option.getD_some] at this; rw [this]
    by_cases ht : t = []
    · simp [ht, h1]
    · simp [ht, h1, List.append_assoc]

/-- An exploded array: `name=a&name=b&…` arrives as the list the caller supplied, any bytes. -/
theorem query_array_exploded_roundtrip (required : Bool) (name : Str) (xs : List Str) (hn : NameOk name)
    (hne : xs ≠ []) (hb : ∀ x ∈ xs, Bytes x) :
    ∃ q, parseQuery (styleParam .form true name .query (.arr xs)) = .ok q ∧
      bindQuery true required name .arr [] q = .ok (some (.arr xs)) := by
  have hfrag : styleParam .form true name .query (.arr xs) = join [cAmp] ((xs.map (escape .query)).map (segN name)) := by
    simp only [styleParam, arrPrefixSep, escLoc, if_true]
    exact form_exploded_frag name _ (by simpa using hne)
  have hsegs : ((xs.map (escape .query)).map (segN name)) ≠ [] := by simpa using hne
  have hno : ∀ s ∈ (xs.map (escape .query)).map (segN name), cAmp ∉ s := by
    intro s hs
    simp only [List.mem_map] at hs
    obtain ⟨w, ⟨x, hx, rfl⟩, rfl⟩ := hs
    exact segN_no_amp _ _ hn (esc_ok x (hb x hx))
  refine ⟨xs.foldl (fun m x => qAdd m name x) [], ?_, ?_⟩
  · rw [hfrag, parseQuery_eq, split_join cAmp _ hsegs hno]
    exact foldlM_segN [] name xs hn hb
  · simp only [bindQuery, if_true, foldl_qAdd_same, hne, if_false]
    simp [qLookup]

theorem mem_join (sep : Str) (xs : List Str) (c : Nat) (h : c ∈ join sep xs) : c ∈ sep ∨ ∃ x ∈ xs, c ∈ x := by
  induction xs with
  | nil => simp [join] at h
  | cons x t ih =>
    cases t with
    | nil => simp only [join] at h; exact Or.inr ⟨x, by simp, h⟩
    | cons y t' =>
      simp only [join_cons_cons, List.mem_append] at h
      rcases h with (h | h) | h
      · exact Or.inr ⟨x, by simp, h⟩
      · exact Or.inl h
      · rcases ih h with h' | ⟨z, hz, hc⟩
        · exact Or.inl h'
        · exact Or.inr ⟨z, List.mem_cons_of_mem _ hz, hc⟩

/-- An unexploded array: `name=a,b,c` arrives as the list supplied, for parts without a comma. -/
theorem query_array_unexploded_roundtrip (required : Bool) (name : Str) (xs : List Str) (hn : NameOk name)
    (hne : xs ≠ []) (hb : ∀ x ∈ xs, Bytes x) (hnc : ∀ x ∈ xs, cComma ∉ x) :
    ∃ q, parseQuery (styleParam .form false name .query (.arr xs)) = .ok q ∧
      bindQuery false required name .arr [] q = .ok (some (.arr xs)) := by
  let w := join [cComma] (xs.map (escape .query))
  have hfrag : styleParam .form false name .query (.arr xs) = segN name w := by
    simp [styleParam, arrPrefixSep, escLoc, segN, w, cEq]
  have hw : ∀ c ∈ w, c ≠ 38 ∧ c ≠ 59 ∧ c ≠ 61 := by
    intro c hc
    rcases mem_join _ _ c hc with hsep | ⟨l, hl, hcl⟩
    · simp only [List.mem_singleton, cComma] at hsep
      omega
    · obtain ⟨x, hx, rfl⟩ := List.mem_map.mp hl
      exact esc_ok x (hb x hx) c hcl
  have hd : unescape .query w = some (join [cComma] xs) := by
    have := unescape_join .query [cComma] (by decide) xs hb []
    simpa [unescape] using this
  refine ⟨[(name, [join [cComma] xs])], ?_, ?_⟩
  · rw [hfrag, parseQuery_eq, split_no_sep cAmp _ (segN_no_amp _ _ hn hw)]
    simp only [List.foldlM_cons, List.foldlM_nil, parseStep_segN [] name w _ hn hw hd]
    rfl
  · simp [bindQuery, qLookup, split_join cComma xs hne hnc]


theorem foldlM_pairs (acc : Query) (kvs : List (Str × Str)) (hk : ∀ kv ∈ kvs, NameOk kv.1) (hb : ∀ kv ∈ kvs, Bytes kv.2) :
    (kvs.map fun kv => segN kv.1 (escape .query kv.2)).foldlM parseStep acc =
      .ok (kvs.foldl (fun m kv => qAdd m kv.1 kv.2) acc) := by
  induction kvs generalizing acc with
  | nil => rfl
  | cons kv t ih =>
    have h1 := hk kv (by simp)
    have h2 := hb kv (by simp)
    simp only [List.map_cons, List.foldlM_cons, parseStep_segN acc kv.1 _ kv.2 h1 (esc_ok kv.2 h2) (unescape_escape .query kv.2 h2),
      List.foldl_cons]
    exact ih _ (fun x hx => hk x (by simp [hx])) (fun x hx => hb x (by simp [hx]))

theorem filter_key_nodup (kvs : List (Str × Str)) (hnd : (kvs.map (·.1)).Nodup) (kv : Str × Str) (hm : kv ∈ kvs) :
    (kvs.filter (·.1 = kv.1)).map (·.2) = [kv.2] := by
  induction kvs with
  | nil => cases hm
  | cons e t ih =>
    simp only [List.map_cons, List.nodup_cons] at hnd
    rcases List.mem_cons.mp hm with rfl | hmt
    · have : t.filter (fun x => decide (x.1 = kv.1)) = [] := by
        apply List.filter_eq_nil_iff.mpr
        intro x hx
        simp only [decide_eq_true_eq]
        intro hk
        exact hnd.1 (List.mem_map.mpr ⟨x, hx, hk⟩)
      simp [this]
    · have hne : ¬ e.1 = kv.1 := fun h => hnd.1 (List.mem_map.mpr ⟨kv, hmt, h.symm⟩)
      simp only [List.filter_cons, hne, decide_false, Bool.false_eq_true, if_false]
      exact ih hnd.2 hmt

theorem lookup_pairs (kvs : List (Str × Str)) (hnd : (kvs.map (·.1)).Nodup) (kv : Str × Str) (hm : kv ∈ kvs) :
    qLookup (kvs.foldl (fun m e => qAdd m e.1 e.2) []) kv.1 = some [kv.2] := by
  have hg := getD_foldl_qAdd kvs [] kv.1
  rw [filter_key_nodup kvs hnd kv hm] at hg
  have h0 : (qLookup ([] : Query) kv.1).getD [] = [] := rfl
  rw [h0, List.nil_append] at hg
  cases hq : qLookup (kvs.foldl (fun m e => qAdd m e.1 e.2) []) kv.1 with
  | none => rw [hq] at hg; simp at hg
  | some vs => rw [hq] at hg; simp only [Option.getD_some] at hg; rw [hg]

/-- An exploded object (the default for query objects): `k1=v1&k2=v2` arrives as the members supplied, for
member names that need no escaping; any bytes in the values. -/
theorem query_object_exploded_roundtrip (required : Bool) (name : Str) (kvs : List (Str × Str)) (hne : kvs ≠ [])
    (hk : ∀ kv ∈ kvs, NameOk kv.1) (hnd : (kvs.map (·.1)).Nodup) (hb : ∀ kv ∈ kvs, Bytes kv.2) :
    ∃ q, parseQuery (styleParam .form true name .query (.obj kvs)) = .ok q ∧
      bindQuery true required name .obj (kvs.map (·.1)) q = .ok (some (.obj kvs)) := by
  have hfrag : styleParam .form true name .query (.obj kvs) = join [cAmp] (kvs.map fun kv => segN kv.1 (escape .query kv.2)) := by
    simp [styleParam, objPrefixSep, objParts, escLoc, segN, cEq]
  have hsegs : (kvs.map fun kv => segN kv.1 (escape .query kv.2)) ≠ [] := by simpa using hne
  have hno : ∀ s ∈ (kvs.map fun kv => segN kv.1 (escape .query kv.2)), cAmp ∉ s := by
    intro s hs
    obtain ⟨kv, hkv, rfl⟩ := List.mem_map.mp hs
    exact segN_no_amp _ _ (hk kv hkv) (esc_ok kv.2 (hb kv hkv))
  refine ⟨kvs.foldl (fun m e => qAdd m e.1 e.2) [], ?_, ?_⟩
  · rw [hfrag, parseQuery_eq, split_join cAmp _ hsegs hno]
    exact foldlM_pairs [] kvs hk hb
  · have hfound : ∀ l : List (Str × Str), (∀ kv ∈ l, kv ∈ kvs) →
        (l.map (·.1)).filterMap (fun f => (qLookup (kvs.foldl (fun m e => qAdd m e.1 e.2) []) f).map (fun vs => (f, vs))) =
          l.map (fun kv => (kv.1, [kv.2])) := by
      intro l
      induction l with
      | nil => intro _; rfl
      | cons kv t ih =>
        intro hl
        have := lookup_pairs kvs hnd kv (hl kv (by simp))
        simp only [List.map_cons, List.filterMap_cons, this, Option.map_some]
        rw [ih (fun x hx => hl x (by simp [hx]))]
    simp only [bindQuery, if_true, hfound kvs (fun _ h => h)]
    have h1 : (kvs.map (fun kv => (kv.1, [kv.2]))).any (fun fv => fv.2.length != 1) = false := by
      simp [List.any_eq_false]
    have h2 : (kvs.map (fun kv => (kv.1, [kv.2]))).isEmpty = false := by
      cases kvs with
      | nil => exact absurd rfl hne
      | cons _ _ => rfl
    simp [h1, h2, Function.comp_def]

end OapiVerif.Security
