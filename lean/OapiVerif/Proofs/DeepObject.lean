import OapiVerif.Model.DeepObject
import OapiVerif.Proofs.QueryParam
/-!
deepObject (flat object of strings): the fragment `MarshalDeepObject` writes is read back by `url.ParseQuery` and
`UnmarshalDeepObject` as the members supplied — for member names and values that need no escaping, because the
pinned runtime escapes neither (the witness shows what happens otherwise).
-/
namespace OapiVerif.DeepObject
open OapiVerif.Codec OapiVerif.Escape OapiVerif.Security
local notation "Str" => List Nat

theorem qAdd_fresh (m : Query) (k v : Str) (h : ∀ e ∈ m, e.1 ≠ k) : qAdd m k v = m ++ [(k, [v])] := by
  unfold qAdd
  have : m.any (fun e => decide (e.1 = k)) = false := by
    simp only [List.any_eq_false, decide_eq_true_eq]
    exact h
  simp [this]

theorem foldl_qAdd_distinct (ps : List (Str × Str)) (m : Query) (hnd : (ps.map (·.1)).Nodup)
    (hdis : ∀ e ∈ m, ∀ p ∈ ps, e.1 ≠ p.1) :
    ps.foldl (fun m kv => qAdd m kv.1 kv.2) m = m ++ ps.map (fun kv => (kv.1, [kv.2])) := by
  induction ps generalizing m with
  | nil => simp
  | cons p t ih =>
    simp only [List.map_cons, List.nodup_cons] at hnd
    simp only [List.foldl_cons]
    rw [qAdd_fresh m p.1 p.2 (fun e he => hdis e he p (by simp))]
    rw [ih _ hnd.2]
    · simp
    · intro e he q hq
      rcases List.mem_append.mp he with he | he
      · exact hdis e he q (by simp [hq])
      · simp only [List.mem_singleton] at he
        subst he
        intro heq
        exact hnd.1 (List.mem_map.mpr ⟨q, hq, heq.symm⟩)

def keyOf (name : Str) (k : Str) : Str := name ++ [91] ++ k ++ [93]

theorem field_eq (name : Str) (kv : Str × Str) : field name kv = segN (keyOf name kv.1) kv.2 := by
  simp [field, segN, keyOf]

theorem keyOf_inj (name a b : Str) (h : keyOf name a = keyOf name b) : a = b := by
  unfold keyOf at h
  simp only [List.append_assoc] at h
  have h1 := List.append_cancel_left h
  have h2 := List.append_cancel_left h1
  exact List.append_cancel_right h2

theorem memberOf_keyOf (name k : Str) : memberOf name (keyOf name k) = some k := by
  unfold memberOf keyOf
  have : stripPrefix (name ++ [91]) (name ++ [91] ++ k ++ [93]) = some (k ++ [93]) := by
    rw [List.append_assoc (name ++ [91])]
    exact stripPrefix_append _ _
  rw [this]
  simp

theorem unescape_nameok (v : Str) (hv : NameOk v) : unescape .query v = some v := unescape_plain v hv

theorem foldlM_fields (name : Str) (acc : Query) (kvs : List (Str × Str)) (hn : NameOk name)
    (hk : ∀ kv ∈ kvs, NameOk kv.1) (hv : ∀ kv ∈ kvs, NameOk kv.2) :
    (kvs.map (field name)).foldlM parseStep acc = .ok (kvs.foldl (fun m kv => qAdd m (keyOf name kv.1) kv.2) acc) := by
  induction kvs generalizing acc with
  | nil => rfl
  | cons kv t ih =>
    have h1 := hk kv (by simp)
    have h2 := hv kv (by simp)
    have hkey : NameOk (keyOf name kv.1) := by
      intro b hb
      simp only [keyOf, List.mem_append, List.mem_singleton] at hb
      rcases hb with ((hb | hb) | hb) | hb
      · exact hn b hb
      · subst hb; decide
      · exact h1 b hb
      · subst hb; decide
    simp only [List.map_cons, List.foldlM_cons, field_eq,
      parseStep_segN acc _ kv.2 kv.2 hkey (fun c hc => (h2 c hc).2) (unescape_nameok kv.2 h2), List.foldl_cons]
    exact ih (qAdd acc (keyOf name kv.1) kv.2) (fun x hx => hk x (by simp [hx])) (fun x hx => hv x (by simp [hx]))

theorem bind_fields (name : Str) (kvs : List (Str × Str)) (acc : List (Str × Str)) :
    (kvs.map (fun kv => (keyOf name kv.1, [kv.2]))).foldlM (bindStep name) acc = .ok (acc ++ kvs) := by
  induction kvs generalizing acc with
  | nil => simp; rfl
  | cons kv t ih =>
    simp only [List.map_cons, List.foldlM_cons, bindStep, memberOf_keyOf]
    have := ih (acc ++ [(kv.1, kv.2)])
    simp only [List.append_assoc, List.singleton_append] at this
    exact this

/-- The deepObject pipeline on members that need no escaping: client fragment → `url.ParseQuery` →
`UnmarshalDeepObject` gives the members back (by sorted name, as the client writes them). -/
theorem deepobject_roundtrip (name : Str) (kvs : List (Str × Str)) (hne : kvs ≠ []) (hn : NameOk name)
    (hsorted : sortByKey kvs = kvs)
    (hnd : (kvs.map (·.1)).Nodup) (hk : ∀ kv ∈ kvs, NameOk kv.1) (hv : ∀ kv ∈ kvs, NameOk kv.2) :
    ∃ q, parseQuery (frag name kvs) = .ok q ∧ bind name q = .ok kvs := by
  refine ⟨kvs.map (fun kv => (keyOf name kv.1, [kv.2])), ?_, ?_⟩
  · unfold frag
    rw [hsorted, parseQuery_eq]
    have hsegs : kvs.map (field name) ≠ [] := by simpa using hne
    have hno : ∀ s ∈ kvs.map (field name), cAmp ∉ s := by
      intro s hs
      obtain ⟨kv, hkv, rfl⟩ := List.mem_map.mp hs
      rw [field_eq]
      have hkey : NameOk (keyOf name kv.1) := by
        intro b hb
        simp only [keyOf, List.mem_append, List.mem_singleton] at hb
        rcases hb with ((hb | hb) | hb) | hb
        · exact hn b hb
        · subst hb; decide
        · exact hk kv hkv b hb
        · subst hb; decide
      exact segN_no_amp _ _ hkey (fun c hc => (hv kv hkv c hc).2)
    rw [split_join cAmp _ hsegs hno, foldlM_fields name [] kvs hn hk hv]
    have hnd' : ((kvs.map (fun kv => (keyOf name kv.1, kv.2))).map (·.1)).Nodup := by
      simp only [List.map_map, Function.comp_def]
      rw [show (kvs.map fun kv => keyOf name kv.1) = (kvs.map (·.1)).map (keyOf name) by simp]
      rw [List.Nodup, List.pairwise_map]
      exact List.Pairwise.imp (fun h heq => h (keyOf_inj name _ _ heq)) hnd
    have := foldl_qAdd_distinct (kvs.map (fun kv => (keyOf name kv.1, kv.2))) [] hnd' (by simp)
    simp only [List.foldl_map, List.map_map, Function.comp_def, List.nil_append] at this
    rw [this]
  · unfold bind
    have := bind_fields name kvs []
    simpa using this

/-- The runtime escapes nothing: a value with `&` is cut and invents a member-less key (reproduced through the
generated client; recorded in known-findings.txt). -/
theorem deepobject_amp_witness :
    (parseQuery (oas [118] [([97], [120, 38, 121])])).toOption = some [([118, 91, 97, 93], [[120]]), ([121], [[]])] := by decide

end OapiVerif.DeepObject
