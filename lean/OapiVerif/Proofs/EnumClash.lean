import OapiVerif.Model.EnumClash
/-! Helper lemmas for the `GenerateEnums` flag computation. -/
namespace OapiVerif.EnumClash

/-- `b` is `a` with the flag possibly raised -/
def Le (a b : E) : Prop := b.ty = a.ty ∧ b.names = a.names ∧ (a.pre = true → b.pre = true)

theorem Le.refl (a : E) : Le a a := ⟨rfl, rfl, id⟩
theorem Le.trans {a b c : E} (h₁ : Le a b) (h₂ : Le b c) : Le a c :=
  ⟨h₂.1.trans h₁.1, h₂.2.1.trans h₁.2.1, fun h => h₂.2.2 (h₁.2.2 h)⟩
theorem le_setPre (a : E) : Le a a.setPre := ⟨rfl, rfl, fun _ => rfl⟩

theorem vals_of_not_pre {uc : Str → Str} {e : E} (h : e.pre = false) : e.vals uc = e.names := by
  simp [E.vals, h]

/-- pointwise relation of two lists (core has no `Forall₂`) -/
inductive All₂ (R : E → E → Prop) : List E → List E → Prop
  | nil : All₂ R [] []
  | cons {a b : E} {l₁ l₂ : List E} : R a b → All₂ R l₁ l₂ → All₂ R (a :: l₁) (b :: l₂)

theorem All₂.length_eq {R : E → E → Prop} {l₁ l₂ : List E} (h : All₂ R l₁ l₂) : l₁.length = l₂.length := by
  induction h with
  | nil => rfl
  | cons _ _ ih => simp [ih]

/-- names of two enums share nothing -/
def Disj (a b : E) : Prop := ∀ k, k ∈ a.names → k ∉ b.names

theorem disj_of_not_clash {uc : Str → Str} {a b : E} (ha : a.pre = false) (hb : b.pre = false)
    (h : clash uc a b = false) : Disj a b := by
  intro k hk hk'
  have : clash uc a b = true := by
    simp only [clash, vals_of_not_pre ha, vals_of_not_pre hb, List.any_eq_true]
    exact ⟨k, hk, by simpa using hk'⟩
  simp [h] at this

/-! ### the inner loop -/

theorem inner_cons_clash {uc : Str → Str} {e1 e2 : E} (r : List E) (h : clash uc e1 e2 = true) :
    inner uc e1 (e2 :: r) = ((inner uc e1.setPre r).1, e2.setPre :: (inner uc e1.setPre r).2) := by
  simp [inner, h]

theorem inner_cons_noclash {uc : Str → Str} {e1 e2 : E} (r : List E) (h : clash uc e1 e2 = false) :
    inner uc e1 (e2 :: r) = ((inner uc e1 r).1, e2 :: (inner uc e1 r).2) := by
  simp [inner, h]

theorem inner_fst_le (uc : Str → Str) (e1 : E) (r : List E) : Le e1 (inner uc e1 r).1 := by
  induction r generalizing e1 with
  | nil => exact Le.refl _
  | cons e2 r ih =>
    cases hc : clash uc e1 e2 with
    | true => rw [inner_cons_clash r hc]; exact (le_setPre e1).trans (ih e1.setPre)
    | false => rw [inner_cons_noclash r hc]; exact ih e1

theorem inner_snd_all₂ (uc : Str → Str) (e1 : E) (r : List E) : All₂ Le r (inner uc e1 r).2 := by
  induction r generalizing e1 with
  | nil => exact All₂.nil
  | cons e2 r ih =>
    cases hc : clash uc e1 e2 with
    | true => rw [inner_cons_clash r hc]; exact All₂.cons (le_setPre e2) (ih e1.setPre)
    | false => rw [inner_cons_noclash r hc]; exact All₂.cons (Le.refl e2) (ih e1)

theorem inner_snd_length (uc : Str → Str) (e1 : E) (r : List E) : (inner uc e1 r).2.length = r.length :=
  (inner_snd_all₂ uc e1 r).length_eq.symm

theorem not_pre_of_le {a b : E} (h : Le a b) (hb : b.pre = false) : a.pre = false := by
  cases hp : a.pre with
  | false => rfl
  | true => have := h.2.2 hp; simp [hb] at this

/-- the copy of `e1` that leaves the inner loop unflagged was unflagged all along, and every later enum that is
still unflagged shares no name with it -/
theorem inner_disj (uc : Str → Str) (e1 : E) (r : List E) (h : (inner uc e1 r).1.pre = false) :
    ∀ b ∈ (inner uc e1 r).2, b.pre = false → Disj e1 b := by
  induction r generalizing e1 with
  | nil => intro b hb; simp [inner] at hb
  | cons e2 r ih =>
    have h1 : e1.pre = false := not_pre_of_le (inner_fst_le uc e1 (e2 :: r)) h
    cases hc : clash uc e1 e2 with
    | true =>
      -- a clash flags the copy for good
      rw [inner_cons_clash r hc] at h
      have := not_pre_of_le (inner_fst_le uc e1.setPre r) h
      simp [E.setPre] at this
    | false =>
      rw [inner_cons_noclash r hc] at h ⊢
      intro b hb hbp
      rcases List.mem_cons.mp hb with rfl | hb
      · exact disj_of_not_clash h1 hbp hc
      · exact ih e1 h b hb hbp

/-! ### the checks against type names -/

theorem le_markTy (types : List Str) (e : E) : Le e (markTy types e) := by
  unfold markTy; split
  · exact le_setPre e
  · exact Le.refl e

theorem le_markOwn (uc : Str → Str) (e : E) : Le e (markOwn uc e) := by
  unfold markOwn; split
  · exact le_setPre e
  · exact Le.refl e

theorem le_finish (uc : Str → Str) (types : List Str) (e : E) : Le e (finish uc types e) :=
  (le_markTy types e).trans (le_markOwn uc _)

theorem finish_not_pre {uc : Str → Str} {types : List Str} {e : E} (h : (finish uc types e).pre = false) :
    e.pre = false ∧ tyClash types e = false ∧ e.ty ∉ e.names := by
  have hp : e.pre = false := not_pre_of_le (le_finish uc types e) h
  have hm : (markTy types e).pre = false := not_pre_of_le (le_markOwn uc _) h
  have ht : tyClash types e = false := by
    cases ht : tyClash types e with
    | false => rfl
    | true => simp [markTy, ht, E.setPre] at hm
  have hme : markTy types e = e := by simp [markTy, ht]
  refine ⟨hp, ht, ?_⟩
  intro hmem
  have : (finish uc types e).pre = true := by
    simp [finish, hme, markOwn, vals_of_not_pre hp, hmem, E.setPre]
  simp [h] at this

/-! ### the outer loop -/

theorem outerN_all₂ (uc : Str → Str) (types : List Str) (n : Nat) (l : List E) :
    All₂ Le l (outerN uc types n l) := by
  induction n generalizing l with
  | zero =>
    simp only [outerN]
    induction l with
    | nil => exact All₂.nil
    | cons a l ih => exact All₂.cons (Le.refl a) ih
  | succ n ih =>
    cases l with
    | nil => exact All₂.nil
    | cons e1 rest =>
      simp only [outerN]
      refine All₂.cons ((inner_fst_le uc e1 rest).trans (le_finish uc types _)) ?_
      -- rest ≤ inner's rest ≤ outer's result
      have h1 := inner_snd_all₂ uc e1 rest
      have h2 := ih (inner uc e1 rest).2
      clear ih
      revert h2
      generalize outerN uc types n (inner uc e1 rest).2 = out
      revert h1
      generalize (inner uc e1 rest).2 = mid
      intro h1
      induction h1 generalizing out with
      | nil => intro h2; cases h2; exact All₂.nil
      | cons hab _ ih' =>
        intro h2
        cases h2 with
        | cons hbc htl => exact All₂.cons (hab.trans hbc) (ih' _ htl)

theorem all₂_mem_right {R : E → E → Prop} {l₁ l₂ : List E} (h : All₂ R l₁ l₂) :
    ∀ b ∈ l₂, ∃ a ∈ l₁, R a b := by
  induction h with
  | nil => intro b hb; cases hb
  | cons hab _ ih =>
    intro b hb
    rcases List.mem_cons.mp hb with rfl | hb
    · exact ⟨_, List.mem_cons_self, hab⟩
    · obtain ⟨a, ha, hr⟩ := ih b hb
      exact ⟨a, List.mem_cons_of_mem _ ha, hr⟩

theorem outerN_pairwise (uc : Str → Str) (types : List Str) (n : Nat) (l : List E) (hn : l.length ≤ n) :
    (outerN uc types n l).Pairwise fun a b => a.pre = false → b.pre = false → Disj a b := by
  induction n generalizing l with
  | zero =>
    have : l = [] := List.eq_nil_of_length_eq_zero (Nat.le_zero.mp hn)
    subst this; simp [outerN]
  | succ n ih =>
    cases l with
    | nil => simp [outerN]
    | cons e1 rest =>
      simp only [outerN]
      refine List.Pairwise.cons ?_ (ih _ (by rw [inner_snd_length]; simpa using hn))
      intro b hb hhead hbp
      -- `b` comes from an element of inner's rest with the same names and a flag no higher
      obtain ⟨a, ha, hab⟩ := all₂_mem_right (outerN_all₂ uc types n (inner uc e1 rest).2) b hb
      have hap : a.pre = false := not_pre_of_le hab hbp
      have hf := finish_not_pre hhead
      have hd := inner_disj uc e1 rest hf.1 a ha hap
      have hle := (inner_fst_le uc e1 rest).trans (le_finish uc types (inner uc e1 rest).1)
      intro k hk
      rw [hle.2.1] at hk
      rw [hab.2.1]
      exact hd k hk

theorem outerN_mem_unprefixed (uc : Str → Str) (types : List Str) (n : Nat) (l : List E) (hn : l.length ≤ n) :
    ∀ b ∈ outerN uc types n l, b.pre = false → tyClash types b = false ∧ b.ty ∉ b.names := by
  induction n generalizing l with
  | zero =>
    have : l = [] := List.eq_nil_of_length_eq_zero (Nat.le_zero.mp hn)
    subst this; intro b hb; simp [outerN] at hb
  | succ n ih =>
    cases l with
    | nil => intro b hb; simp [outerN] at hb
    | cons e1 rest =>
      simp only [outerN]
      intro b hb hbp
      rcases List.mem_cons.mp hb with rfl | hb
      · have hf := finish_not_pre hbp
        have hle := le_finish uc types (inner uc e1 rest).1
        refine ⟨?_, ?_⟩
        · have := hf.2.1
          simpa [tyClash, hle.2.1] using this
        · rw [hle.1, hle.2.1]; exact hf.2.2
      · exact ih _ (by rw [inner_snd_length]; simpa using hn) b hb hbp

/-! ### repeating the pass -/

theorem le_antisymm {a b : E} (h₁ : Le a b) (h₂ : Le b a) : a = b := by
  cases a with | mk ta na pa => cases b with | mk tb nb pb =>
  obtain ⟨ht, hn, hp⟩ := h₁
  obtain ⟨_, _, hp'⟩ := h₂
  simp only at ht hn hp hp'
  subst ht; subst hn
  cases pa <;> cases pb <;> simp_all

theorem all₂_le_refl (l : List E) : All₂ Le l l := by
  induction l with
  | nil => exact All₂.nil
  | cons a l ih => exact All₂.cons (Le.refl a) ih

theorem all₂_le_trans {l₁ l₂ l₃ : List E} (h₁ : All₂ Le l₁ l₂) (h₂ : All₂ Le l₂ l₃) : All₂ Le l₁ l₃ := by
  induction h₁ generalizing l₃ with
  | nil => cases h₂; exact All₂.nil
  | cons hab _ ih => cases h₂ with | cons hbc htl => exact All₂.cons (hab.trans hbc) (ih htl)

theorem all₂_le_antisymm {l₁ l₂ : List E} (h₁ : All₂ Le l₁ l₂) (h₂ : All₂ Le l₂ l₁) : l₁ = l₂ := by
  induction h₁ with
  | nil => rfl
  | cons hab _ ih => cases h₂ with | cons hba htl => rw [le_antisymm hab hba, ih htl]

/-- number of enums not (yet) prefixed -/
def cnt : List E → Nat
  | [] => 0
  | e :: l => (if e.pre then 0 else 1) + cnt l

theorem cnt_le_length (l : List E) : cnt l ≤ l.length := by
  induction l with
  | nil => simp [cnt]
  | cons e l ih => simp only [cnt, List.length_cons]; split <;> omega

theorem cnt_mono {l l' : List E} (h : All₂ Le l l') : cnt l' ≤ cnt l := by
  induction h with
  | nil => simp [cnt]
  | @cons a b _ _ hab _ ih =>
    simp only [cnt]
    cases ha : a.pre <;> cases hb : b.pre <;> simp <;> first | omega | (have := hab.2.2 ha; simp [hb] at this)

theorem eq_of_cnt_eq {l l' : List E} (h : All₂ Le l l') (hc : cnt l' = cnt l) : l' = l := by
  induction h with
  | nil => rfl
  | @cons a b l₁ l₂ hab htl ih =>
    have hm := cnt_mono htl
    simp only [cnt] at hc
    cases ha : a.pre <;> cases hb : b.pre <;> simp [ha, hb] at hc
    · have : b = a := (le_antisymm hab ⟨hab.1.symm, hab.2.1.symm, fun h => by simp [hb] at h⟩).symm
      rw [this, ih hc]
    · omega
    · have := hab.2.2 ha; simp [hb] at this
    · have : b = a := (le_antisymm hab ⟨hab.1.symm, hab.2.1.symm, fun _ => ha⟩).symm
      rw [this, ih hc]

theorem resolve_le (uc : Str → Str) (types : List Str) (l : List E) : All₂ Le l (resolve uc types l) :=
  outerN_all₂ uc types l.length l

theorem iter_fix {α : Type} {f : α → α} {x : α} (h : f x = x) (n : Nat) : iter f n x = x := by
  induction n with
  | zero => rfl
  | succ n ih => simp [iter, h, ih]

theorem iter_reaches_fixpoint (uc : Str → Str) (types : List Str) (n : Nat) (l : List E) (hn : cnt l ≤ n) :
    resolve uc types (iter (resolve uc types) (n + 1) l) = iter (resolve uc types) (n + 1) l := by
  induction n generalizing l with
  | zero =>
    have h1 : resolve uc types l = l := eq_of_cnt_eq (resolve_le uc types l) (by have := cnt_mono (resolve_le uc types l); omega)
    simp [iter, h1]
  | succ n ih =>
    by_cases h : resolve uc types l = l
    · rw [iter_fix h]; exact h
    · have hlt : cnt (resolve uc types l) < cnt l := by
        have hm := cnt_mono (resolve_le uc types l)
        rcases Nat.lt_or_ge (cnt (resolve uc types l)) (cnt l) with h' | h'
        · exact h'
        · exact absurd (eq_of_cnt_eq (resolve_le uc types l) (by omega)) h
      show resolve uc types (iter (resolve uc types) (n + 1) (resolve uc types l)) = _
      exact ih _ (by omega)

/-! ### what a fixpoint of the pass looks like -/

theorem inner_fix {uc : Str → Str} {e1 : E} {r : List E} (h : inner uc e1 r = (e1, r)) :
    ∀ b ∈ r, clash uc e1 b = true → e1.pre = true ∧ b.pre = true := by
  induction r with
  | nil => intro b hb; cases hb
  | cons e2 r ih =>
    cases hc : clash uc e1 e2 with
    | true =>
      rw [inner_cons_clash r hc] at h
      have h1 : (inner uc e1.setPre r).1 = e1 := congrArg Prod.fst h
      have h2 : e2.setPre :: (inner uc e1.setPre r).2 = e2 :: r := congrArg Prod.snd h
      have he2 : e2.pre = true := by
        have := (List.cons.inj h2).1
        rw [← this]; rfl
      have he1 : e1.pre = true := by
        have hle := inner_fst_le uc e1.setPre r
        rw [h1] at hle
        exact hle.2.2 rfl
      have hs : e1.setPre = e1 := by cases e1; simp_all [E.setPre]
      rw [hs] at h1 h2
      have h' : inner uc e1 r = (e1, r) := Prod.ext h1 (List.cons.inj h2).2
      intro b hb hcb
      rcases List.mem_cons.mp hb with rfl | hb
      · exact ⟨he1, he2⟩
      · exact ih h' b hb hcb
    | false =>
      rw [inner_cons_noclash r hc] at h
      have h1 : (inner uc e1 r).1 = e1 := congrArg Prod.fst h
      have h2 : e2 :: (inner uc e1 r).2 = e2 :: r := congrArg Prod.snd h
      have h' : inner uc e1 r = (e1, r) := Prod.ext h1 (List.cons.inj h2).2
      intro b hb hcb
      rcases List.mem_cons.mp hb with rfl | hb
      · simp [hc] at hcb
      · exact ih h' b hb hcb

theorem outerN_fix_pairwise (uc : Str → Str) (types : List Str) (n : Nat) (l : List E) (hn : l.length ≤ n)
    (h : outerN uc types n l = l) :
    l.Pairwise fun a b => clash uc a b = true → a.pre = true ∧ b.pre = true := by
  induction n generalizing l with
  | zero =>
    have : l = [] := List.eq_nil_of_length_eq_zero (Nat.le_zero.mp hn)
    subst this; exact List.Pairwise.nil
  | succ n ih =>
    cases l with
    | nil => exact List.Pairwise.nil
    | cons e1 rest =>
      simp only [outerN] at h
      have hh := (List.cons.inj h).1
      have ht := (List.cons.inj h).2
      -- squeeze: e1 ≤ e1' ≤ finish e1' = e1 and rest ≤ rest' ≤ outer rest' = rest
      have he1 : (inner uc e1 rest).1 = e1 := by
        have a := inner_fst_le uc e1 rest
        have b := le_finish uc types (inner uc e1 rest).1
        rw [hh] at b
        exact (le_antisymm a b).symm
      have hrest : (inner uc e1 rest).2 = rest := by
        have a := inner_snd_all₂ uc e1 rest
        have b := outerN_all₂ uc types n (inner uc e1 rest).2
        rw [ht] at b
        exact (all₂_le_antisymm a b).symm
      rw [hrest] at ht
      refine List.Pairwise.cons ?_ (ih rest (by simpa using hn) ht)
      exact inner_fix (Prod.ext he1 hrest)

end OapiVerif.EnumClash
