import OapiVerif.Model.Chain
namespace OapiVerif.Chain

theorem run_buildRev (mws : List Mw) (op : Nat) : run (buildRev mws (.base op)) = seq mws op := by
  induction mws with
  | nil => rfl
  | cons m ms ih => simp [buildRev, List.foldr, run, seq] at *; rw [ih]

theorem run_foldl_wrap (mws : List Mw) (h : H) :
    run (mws.foldl (fun acc m => H.wrap m acc) h) =
      match mws.reverse with
      | [] => run h
      | _ => (mws.reverse.foldr (fun m acc => H.wrap m acc) h) |> run := by
  have : mws.foldl (fun acc m => H.wrap m acc) h = mws.reverse.foldr (fun m acc => H.wrap m acc) h := by
    rw [List.foldr_reverse]
  rw [this]
  cases mws.reverse <;> rfl

theorem run_buildFwd (mws : List Mw) (op : Nat) :
    run (buildFwd mws (.base op)) = seq mws.reverse op := by
  have : buildFwd mws (.base op) = buildRev mws.reverse (.base op) := by
    simp [buildFwd, buildRev, List.foldr_reverse]
  rw [this, run_buildRev]

theorem seq_allPass (mws : List Mw) (op : Nat) (h : ∀ m ∈ mws, m.pass = true) :
    seq mws op = mws.map (·.name) ++ [handlerTok op] := by
  induction mws with
  | nil => rfl
  | cons m ms ih =>
    have hm : m.pass = true := h m (by simp)
    simp [seq, hm, ih (fun x hx => h x (by simp [hx]))]

theorem seq_stop (pre : List Mw) (m : Mw) (post : List Mw) (op : Nat)
    (hpre : ∀ x ∈ pre, x.pass = true) (hm : m.pass = false) :
    seq (pre ++ m :: post) op = pre.map (·.name) ++ [m.name] := by
  induction pre with
  | nil => simp [seq, hm]
  | cons p ps ih =>
    have hp : p.pass = true := hpre p (by simp)
    simp [seq, hp, ih (fun x hx => hpre x (by simp [hx]))]

end OapiVerif.Chain
