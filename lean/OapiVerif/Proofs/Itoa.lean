import OapiVerif.Model.Enums
namespace OapiVerif.Enums

/-- the decimal rendering of a number determines it -/
theorem itoa_inj (a b : Nat) (h : itoa a = itoa b) : a = b := by
  unfold itoa at h
  have hinj : ∀ l₁ l₂ : List Char, l₁.map Char.toNat = l₂.map Char.toNat → l₁ = l₂ := by
    intro l₁
    induction l₁ with
    | nil => intro l₂ h; cases l₂ <;> simp_all
    | cons x t ih =>
      intro l₂ h
      cases l₂ with
      | nil => simp at h
      | cons y u =>
        simp only [List.map_cons, List.cons.injEq] at h
        have hxy : x = y := by
          apply Char.ext
          apply UInt32.toNat_inj.mp
          exact h.1
        rw [hxy, ih u h.2]
  have h1 : (toString a).toList = (toString b).toList := hinj _ _ h
  have h2 : Nat.toDigits 10 a = Nat.toDigits 10 b := by
    have ha : (toString a) = String.ofList (Nat.toDigits 10 a) := Nat.repr_eq_ofList_toDigits
    have hb : (toString b) = String.ofList (Nat.toDigits 10 b) := Nat.repr_eq_ofList_toDigits
    rw [ha, hb] at h1
    simpa using h1
  have := congrArg (fun l => Nat.ofDigitChars 10 l 0) h2
  simpa [Nat.ofDigitChars_ten_toDigits] using this

end OapiVerif.Enums
