import OapiVerif.Model.UuidParse
namespace OapiVerif.UuidParse

theorem hex_of_lt (n : Nat) (h : n < 16) : hexVal (hexDigit n) = some n := by
  unfold hexDigit
  split
  · rename_i h10
    unfold hexVal
    have h1 : (decide (48 ≤ 48 + n) && decide (48 + n ≤ 57)) = true := by
      simp only [Bool.and_eq_true, decide_eq_true_eq]; omega
    rw [if_pos h1]
    congr 1; omega
  · rename_i h10
    unfold hexVal
    have h1 : ¬((decide (48 ≤ 87 + n) && decide (87 + n ≤ 57)) = true) := by
      simp only [Bool.and_eq_true, decide_eq_true_eq]; omega
    have h2 : (decide (97 ≤ 87 + n) && decide (87 + n ≤ 102)) = true := by
      simp only [Bool.and_eq_true, decide_eq_true_eq]; omega
    rw [if_neg h1, if_pos h2]
    congr 1; omega

/-- two hex digits written for a byte are read back as that byte, wherever they stand -/
theorem byteAt_hexByte (pre post : Str) (b : Nat) (h : b < 256) :
    byteAt (pre ++ hexByte b ++ post) pre.length = some b := by
  have e0 : (pre ++ hexByte b ++ post)[pre.length]? = some (hexDigit (b / 16)) := by
    simp [hexByte, List.getElem?_append_right]
  have e1 : (pre ++ hexByte b ++ post)[pre.length + 1]? = some (hexDigit (b % 16)) := by
    simp [hexByte, List.getElem?_append_right]
  unfold byteAt
  rw [e0, e1]
  simp only [hex_of_lt (b / 16) (by omega), hex_of_lt (b % 16) (by omega)]
  congr 1; omega

end OapiVerif.UuidParse

namespace OapiVerif.UuidParse

theorem render16 (a b c d e f g h i j k l m n o p : Nat) : render [a, b, c, d, e, f, g, h, i, j, k, l, m, n, o, p] = hexByte a ++ hexByte b ++ hexByte c ++ hexByte d ++ [45] ++ hexByte e ++ hexByte f ++ [45] ++ hexByte g ++ hexByte h ++ [45] ++ hexByte i ++ hexByte j ++ [45] ++ hexByte k ++ hexByte l ++ hexByte m ++ hexByte n ++ hexByte o ++ hexByte p := by
  simp [render, hexBytes, List.append_assoc]

/-- what `String()` writes, `Parse` reads back -/
theorem parse_render16 (a b c d e f g h i j k l m n o p : Nat)
    (ha' : a < 256) (hb' : b < 256) (hc' : c < 256) (hd' : d < 256) (he' : e < 256) (hf' : f < 256) (hg' : g < 256) (hh' : h < 256) (hi' : i < 256) (hj' : j < 256) (hk' : k < 256) (hl' : l < 256) (hm' : m < 256) (hn' : n < 256) (ho' : o < 256) (hp' : p < 256) :
    parse (render [a, b, c, d, e, f, g, h, i, j, k, l, m, n, o, p]) = some [a, b, c, d, e, f, g, h, i, j, k, l, m, n, o, p] := by
  rw [render16]
  have hlen : (hexByte a ++ hexByte b ++ hexByte c ++ hexByte d ++ [45] ++ hexByte e ++ hexByte f ++ [45] ++ hexByte g ++ hexByte h ++ [45] ++ hexByte i ++ hexByte j ++ [45] ++ hexByte k ++ hexByte l ++ hexByte m ++ hexByte n ++ hexByte o ++ hexByte p).length = 36 := by simp [hexByte]
  have b0 : byteAt (hexByte a ++ hexByte b ++ hexByte c ++ hexByte d ++ [45] ++ hexByte e ++ hexByte f ++ [45] ++ hexByte g ++ hexByte h ++ [45] ++ hexByte i ++ hexByte j ++ [45] ++ hexByte k ++ hexByte l ++ hexByte m ++ hexByte n ++ hexByte o ++ hexByte p) 0 = some a := by
    have hr : (hexByte a ++ hexByte b ++ hexByte c ++ hexByte d ++ [45] ++ hexByte e ++ hexByte f ++ [45] ++ hexByte g ++ hexByte h ++ [45] ++ hexByte i ++ hexByte j ++ [45] ++ hexByte k ++ hexByte l ++ hexByte m ++ hexByte n ++ hexByte o ++ hexByte p) = (([] : Str)) ++ hexByte a ++ (hexByte b ++ hexByte c ++ hexByte d ++ [45] ++ hexByte e ++ hexByte f ++ [45] ++ hexByte g ++ hexByte h ++ [45] ++ hexByte i ++ hexByte j ++ [45] ++ hexByte k ++ hexByte l ++ hexByte m ++ hexByte n ++ hexByte o ++ hexByte p) := by simp [List.append_assoc]
    have hp : (([] : Str)).length = 0 := by simp [hexByte]
    rw [hr, ← hp]; exact byteAt_hexByte _ _ a ha'
  have b1 : byteAt (hexByte a ++ hexByte b ++ hexByte c ++ hexByte d ++ [45] ++ hexByte e ++ hexByte f ++ [45] ++ hexByte g ++ hexByte h ++ [45] ++ hexByte i ++ hexByte j ++ [45] ++ hexByte k ++ hexByte l ++ hexByte m ++ hexByte n ++ hexByte o ++ hexByte p) 2 = some b := by
    have hr : (hexByte a ++ hexByte b ++ hexByte c ++ hexByte d ++ [45] ++ hexByte e ++ hexByte f ++ [45] ++ hexByte g ++ hexByte h ++ [45] ++ hexByte i ++ hexByte j ++ [45] ++ hexByte k ++ hexByte l ++ hexByte m ++ hexByte n ++ hexByte o ++ hexByte p) = (hexByte a) ++ hexByte b ++ (hexByte c ++ hexByte d ++ [45] ++ hexByte e ++ hexByte f ++ [45] ++ hexByte g ++ hexByte h ++ [45] ++ hexByte i ++ hexByte j ++ [45] ++ hexByte k ++ hexByte l ++ hexByte m ++ hexByte n ++ hexByte o ++ hexByte p) := by simp [List.append_assoc]
    have hp : (hexByte a).length = 2 := by simp [hexByte]
    rw [hr, ← hp]; exact byteAt_hexByte _ _ b hb'
  have b2 : byteAt (hexByte a ++ hexByte b ++ hexByte c ++ hexByte d ++ [45] ++ hexByte e ++ hexByte f ++ [45] ++ hexByte g ++ hexByte h ++ [45] ++ hexByte i ++ hexByte j ++ [45] ++ hexByte k ++ hexByte l ++ hexByte m ++ hexByte n ++ hexByte o ++ hexByte p) 4 = some c := by
    have hr : (hexByte a ++ hexByte b ++ hexByte c ++ hexByte d ++ [45] ++ hexByte e ++ hexByte f ++ [45] ++ hexByte g ++ hexByte h ++ [45] ++ hexByte i ++ hexByte j ++ [45] ++ hexByte k ++ hexByte l ++ hexByte m ++ hexByte n ++ hexByte o ++ hexByte p) = (hexByte a ++ hexByte b) ++ hexByte c ++ (hexByte d ++ [45] ++ hexByte e ++ hexByte f ++ [45] ++ hexByte g ++ hexByte h ++ [45] ++ hexByte i ++ hexByte j ++ [45] ++ hexByte k ++ hexByte l ++ hexByte m ++ hexByte n ++ hexByte o ++ hexByte p) := by simp [List.append_assoc]
    have hp : (hexByte a ++ hexByte b).length = 4 := by simp [hexByte]
    rw [hr, ← hp]; exact byteAt_hexByte _ _ c hc'
  have b3 : byteAt (hexByte a ++ hexByte b ++ hexByte c ++ hexByte d ++ [45] ++ hexByte e ++ hexByte f ++ [45] ++ hexByte g ++ hexByte h ++ [45] ++ hexByte i ++ hexByte j ++ [45] ++ hexByte k ++ hexByte l ++ hexByte m ++ hexByte n ++ hexByte o ++ hexByte p) 6 = some d := by
    have hr : (hexByte a ++ hexByte b ++ hexByte c ++ hexByte d ++ [45] ++ hexByte e ++ hexByte f ++ [45] ++ hexByte g ++ hexByte h ++ [45] ++ hexByte i ++ hexByte j ++ [45] ++ hexByte k ++ hexByte l ++ hexByte m ++ hexByte n ++ hexByte o ++ hexByte p) = (hexByte a ++ hexByte b ++ hexByte c) ++ hexByte d ++ ([45] ++ hexByte e ++ hexByte f ++ [45] ++ hexByte g ++ hexByte h ++ [45] ++ hexByte i ++ hexByte j ++ [45] ++ hexByte k ++ hexByte l ++ hexByte m ++ hexByte n ++ hexByte o ++ hexByte p) := by simp [List.append_assoc]
    have hp : (hexByte a ++ hexByte b ++ hexByte c).length = 6 := by simp [hexByte]
    rw [hr, ← hp]; exact byteAt_hexByte _ _ d hd'
  have b4 : byteAt (hexByte a ++ hexByte b ++ hexByte c ++ hexByte d ++ [45] ++ hexByte e ++ hexByte f ++ [45] ++ hexByte g ++ hexByte h ++ [45] ++ hexByte i ++ hexByte j ++ [45] ++ hexByte k ++ hexByte l ++ hexByte m ++ hexByte n ++ hexByte o ++ hexByte p) 9 = some e := by
    have hr : (hexByte a ++ hexByte b ++ hexByte c ++ hexByte d ++ [45] ++ hexByte e ++ hexByte f ++ [45] ++ hexByte g ++ hexByte h ++ [45] ++ hexByte i ++ hexByte j ++ [45] ++ hexByte k ++ hexByte l ++ hexByte m ++ hexByte n ++ hexByte o ++ hexByte p) = (hexByte a ++ hexByte b ++ hexByte c ++ hexByte d ++ [45]) ++ hexByte e ++ (hexByte f ++ [45] ++ hexByte g ++ hexByte h ++ [45] ++ hexByte i ++ hexByte j ++ [45] ++ hexByte k ++ hexByte l ++ hexByte m ++ hexByte n ++ hexByte o ++ hexByte p) := by simp [List.append_assoc]
    have hp : (hexByte a ++ hexByte b ++ hexByte c ++ hexByte d ++ [45]).length = 9 := by simp [hexByte]
    rw [hr, ← hp]; exact byteAt_hexByte _ _ e he'
  have b5 : byteAt (hexByte a ++ hexByte b ++ hexByte c ++ hexByte d ++ [45] ++ hexByte e ++ hexByte f ++ [45] ++ hexByte g ++ hexByte h ++ [45] ++ hexByte i ++ hexByte j ++ [45] ++ hexByte k ++ hexByte l ++ hexByte m ++ hexByte n ++ hexByte o ++ hexByte p) 11 = some f := by
    have hr : (hexByte a ++ hexByte b ++ hexByte c ++ hexByte d ++ [45] ++ hexByte e ++ hexByte f ++ [45] ++ hexByte g ++ hexByte h ++ [45] ++ hexByte i ++ hexByte j ++ [45] ++ hexByte k ++ hexByte l ++ hexByte m ++ hexByte n ++ hexByte o ++ hexByte p) = (hexByte a ++ hexByte b ++ hexByte c ++ hexByte d ++ [45] ++ hexByte e) ++ hexByte f ++ ([45] ++ hexByte g ++ hexByte h ++ [45] ++ hexByte i ++ hexByte j ++ [45] ++ hexByte k ++ hexByte l ++ hexByte m ++ hexByte n ++ hexByte o ++ hexByte p) := by simp [List.append_assoc]
    have hp : (hexByte a ++ hexByte b ++ hexByte c ++ hexByte d ++ [45] ++ hexByte e).length = 11 := by simp [hexByte]
    rw [hr, ← hp]; exact byteAt_hexByte _ _ f hf'
  have b6 : byteAt (hexByte a ++ hexByte b ++ hexByte c ++ hexByte d ++ [45] ++ hexByte e ++ hexByte f ++ [45] ++ hexByte g ++ hexByte h ++ [45] ++ hexByte i ++ hexByte j ++ [45] ++ hexByte k ++ hexByte l ++ hexByte m ++ hexByte n ++ hexByte o ++ hexByte p) 14 = some g := by
    have hr : (hexByte a ++ hexByte b ++ hexByte c ++ hexByte d ++ [45] ++ hexByte e ++ hexByte f ++ [45] ++ hexByte g ++ hexByte h ++ [45] ++ hexByte i ++ hexByte j ++ [45] ++ hexByte k ++ hexByte l ++ hexByte m ++ hexByte n ++ hexByte o ++ hexByte p) = (hexByte a ++ hexByte b ++ hexByte c ++ hexByte d ++ [45] ++ hexByte e ++ hexByte f ++ [45]) ++ hexByte g ++ (hexByte h ++ [45] ++ hexByte i ++ hexByte j ++ [45] ++ hexByte k ++ hexByte l ++ hexByte m ++ hexByte n ++ hexByte o ++ hexByte p) := by simp [List.append_assoc]
    have hp : (hexByte a ++ hexByte b ++ hexByte c ++ hexByte d ++ [45] ++ hexByte e ++ hexByte f ++ [45]).length = 14 := by simp [hexByte]
    rw [hr, ← hp]; exact byteAt_hexByte _ _ g hg'
  have b7 : byteAt (hexByte a ++ hexByte b ++ hexByte c ++ hexByte d ++ [45] ++ hexByte e ++ hexByte f ++ [45] ++ hexByte g ++ hexByte h ++ [45] ++ hexByte i ++ hexByte j ++ [45] ++ hexByte k ++ hexByte l ++ hexByte m ++ hexByte n ++ hexByte o ++ hexByte p) 16 = some h := by
    have hr : (hexByte a ++ hexByte b ++ hexByte c ++ hexByte d ++ [45] ++ hexByte e ++ hexByte f ++ [45] ++ hexByte g ++ hexByte h ++ [45] ++ hexByte i ++ hexByte j ++ [45] ++ hexByte k ++ hexByte l ++ hexByte m ++ hexByte n ++ hexByte o ++ hexByte p) = (hexByte a ++ hexByte b ++ hexByte c ++ hexByte d ++ [45] ++ hexByte e ++ hexByte f ++ [45] ++ hexByte g) ++ hexByte h ++ ([45] ++ hexByte i ++ hexByte j ++ [45] ++ hexByte k ++ hexByte l ++ hexByte m ++ hexByte n ++ hexByte o ++ hexByte p) := by simp [List.append_assoc]
    have hp : (hexByte a ++ hexByte b ++ hexByte c ++ hexByte d ++ [45] ++ hexByte e ++ hexByte f ++ [45] ++ hexByte g).length = 16 := by simp [hexByte]
    rw [hr, ← hp]; exact byteAt_hexByte _ _ h hh'
  have b8 : byteAt (hexByte a ++ hexByte b ++ hexByte c ++ hexByte d ++ [45] ++ hexByte e ++ hexByte f ++ [45] ++ hexByte g ++ hexByte h ++ [45] ++ hexByte i ++ hexByte j ++ [45] ++ hexByte k ++ hexByte l ++ hexByte m ++ hexByte n ++ hexByte o ++ hexByte p) 19 = some i := by
    have hr : (hexByte a ++ hexByte b ++ hexByte c ++ hexByte d ++ [45] ++ hexByte e ++ hexByte f ++ [45] ++ hexByte g ++ hexByte h ++ [45] ++ hexByte i ++ hexByte j ++ [45] ++ hexByte k ++ hexByte l ++ hexByte m ++ hexByte n ++ hexByte o ++ hexByte p) = (hexByte a ++ hexByte b ++ hexByte c ++ hexByte d ++ [45] ++ hexByte e ++ hexByte f ++ [45] ++ hexByte g ++ hexByte h ++ [45]) ++ hexByte i ++ (hexByte j ++ [45] ++ hexByte k ++ hexByte l ++ hexByte m ++ hexByte n ++ hexByte o ++ hexByte p) := by simp [List.append_assoc]
    have hp : (hexByte a ++ hexByte b ++ hexByte c ++ hexByte d ++ [45] ++ hexByte e ++ hexByte f ++ [45] ++ hexByte g ++ hexByte h ++ [45]).length = 19 := by simp [hexByte]
    rw [hr, ← hp]; exact byteAt_hexByte _ _ i hi'
  have b9 : byteAt (hexByte a ++ hexByte b ++ hexByte c ++ hexByte d ++ [45] ++ hexByte e ++ hexByte f ++ [45] ++ hexByte g ++ hexByte h ++ [45] ++ hexByte i ++ hexByte j ++ [45] ++ hexByte k ++ hexByte l ++ hexByte m ++ hexByte n ++ hexByte o ++ hexByte p) 21 = some j := by
    have hr : (hexByte a ++ hexByte b ++ hexByte c ++ hexByte d ++ [45] ++ hexByte e ++ hexByte f ++ [45] ++ hexByte g ++ hexByte h ++ [45] ++ hexByte i ++ hexByte j ++ [45] ++ hexByte k ++ hexByte l ++ hexByte m ++ hexByte n ++ hexByte o ++ hexByte p) = (hexByte a ++ hexByte b ++ hexByte c ++ hexByte d ++ [45] ++ hexByte e ++ hexByte f ++ [45] ++ hexByte g ++ hexByte h ++ [45] ++ hexByte i) ++ hexByte j ++ ([45] ++ hexByte k ++ hexByte l ++ hexByte m ++ hexByte n ++ hexByte o ++ hexByte p) := by simp [List.append_assoc]
    have hp : (hexByte a ++ hexByte b ++ hexByte c ++ hexByte d ++ [45] ++ hexByte e ++ hexByte f ++ [45] ++ hexByte g ++ hexByte h ++ [45] ++ hexByte i).length = 21 := by simp [hexByte]
    rw [hr, ← hp]; exact byteAt_hexByte _ _ j hj'
  have b10 : byteAt (hexByte a ++ hexByte b ++ hexByte c ++ hexByte d ++ [45] ++ hexByte e ++ hexByte f ++ [45] ++ hexByte g ++ hexByte h ++ [45] ++ hexByte i ++ hexByte j ++ [45] ++ hexByte k ++ hexByte l ++ hexByte m ++ hexByte n ++ hexByte o ++ hexByte p) 24 = some k := by
    have hr : (hexByte a ++ hexByte b ++ hexByte c ++ hexByte d ++ [45] ++ hexByte e ++ hexByte f ++ [45] ++ hexByte g ++ hexByte h ++ [45] ++ hexByte i ++ hexByte j ++ [45] ++ hexByte k ++ hexByte l ++ hexByte m ++ hexByte n ++ hexByte o ++ hexByte p) = (hexByte a ++ hexByte b ++ hexByte c ++ hexByte d ++ [45] ++ hexByte e ++ hexByte f ++ [45] ++ hexByte g ++ hexByte h ++ [45] ++ hexByte i ++ hexByte j ++ [45]) ++ hexByte k ++ (hexByte l ++ hexByte m ++ hexByte n ++ hexByte o ++ hexByte p) := by simp [List.append_assoc]
    have hp : (hexByte a ++ hexByte b ++ hexByte c ++ hexByte d ++ [45] ++ hexByte e ++ hexByte f ++ [45] ++ hexByte g ++ hexByte h ++ [45] ++ hexByte i ++ hexByte j ++ [45]).length = 24 := by simp [hexByte]
    rw [hr, ← hp]; exact byteAt_hexByte _ _ k hk'
  have b11 : byteAt (hexByte a ++ hexByte b ++ hexByte c ++ hexByte d ++ [45] ++ hexByte e ++ hexByte f ++ [45] ++ hexByte g ++ hexByte h ++ [45] ++ hexByte i ++ hexByte j ++ [45] ++ hexByte k ++ hexByte l ++ hexByte m ++ hexByte n ++ hexByte o ++ hexByte p) 26 = some l := by
    have hr : (hexByte a ++ hexByte b ++ hexByte c ++ hexByte d ++ [45] ++ hexByte e ++ hexByte f ++ [45] ++ hexByte g ++ hexByte h ++ [45] ++ hexByte i ++ hexByte j ++ [45] ++ hexByte k ++ hexByte l ++ hexByte m ++ hexByte n ++ hexByte o ++ hexByte p) = (hexByte a ++ hexByte b ++ hexByte c ++ hexByte d ++ [45] ++ hexByte e ++ hexByte f ++ [45] ++ hexByte g ++ hexByte h ++ [45] ++ hexByte i ++ hexByte j ++ [45] ++ hexByte k) ++ hexByte l ++ (hexByte m ++ hexByte n ++ hexByte o ++ hexByte p) := by simp [List.append_assoc]
    have hp : (hexByte a ++ hexByte b ++ hexByte c ++ hexByte d ++ [45] ++ hexByte e ++ hexByte f ++ [45] ++ hexByte g ++ hexByte h ++ [45] ++ hexByte i ++ hexByte j ++ [45] ++ hexByte k).length = 26 := by simp [hexByte]
    rw [hr, ← hp]; exact byteAt_hexByte _ _ l hl'
  have b12 : byteAt (hexByte a ++ hexByte b ++ hexByte c ++ hexByte d ++ [45] ++ hexByte e ++ hexByte f ++ [45] ++ hexByte g ++ hexByte h ++ [45] ++ hexByte i ++ hexByte j ++ [45] ++ hexByte k ++ hexByte l ++ hexByte m ++ hexByte n ++ hexByte o ++ hexByte p) 28 = some m := by
    have hr : (hexByte a ++ hexByte b ++ hexByte c ++ hexByte d ++ [45] ++ hexByte e ++ hexByte f ++ [45] ++ hexByte g ++ hexByte h ++ [45] ++ hexByte i ++ hexByte j ++ [45] ++ hexByte k ++ hexByte l ++ hexByte m ++ hexByte n ++ hexByte o ++ hexByte p) = (hexByte a ++ hexByte b ++ hexByte c ++ hexByte d ++ [45] ++ hexByte e ++ hexByte f ++ [45] ++ hexByte g ++ hexByte h ++ [45] ++ hexByte i ++ hexByte j ++ [45] ++ hexByte k ++ hexByte l) ++ hexByte m ++ (hexByte n ++ hexByte o ++ hexByte p) := by simp [List.append_assoc]
    have hp : (hexByte a ++ hexByte b ++ hexByte c ++ hexByte d ++ [45] ++ hexByte e ++ hexByte f ++ [45] ++ hexByte g ++ hexByte h ++ [45] ++ hexByte i ++ hexByte j ++ [45] ++ hexByte k ++ hexByte l).length = 28 := by simp [hexByte]
    rw [hr, ← hp]; exact byteAt_hexByte _ _ m hm'
  have b13 : byteAt (hexByte a ++ hexByte b ++ hexByte c ++ hexByte d ++ [45] ++ hexByte e ++ hexByte f ++ [45] ++ hexByte g ++ hexByte h ++ [45] ++ hexByte i ++ hexByte j ++ [45] ++ hexByte k ++ hexByte l ++ hexByte m ++ hexByte n ++ hexByte o ++ hexByte p) 30 = some n := by
    have hr : (hexByte a ++ hexByte b ++ hexByte c ++ hexByte d ++ [45] ++ hexByte e ++ hexByte f ++ [45] ++ hexByte g ++ hexByte h ++ [45] ++ hexByte i ++ hexByte j ++ [45] ++ hexByte k ++ hexByte l ++ hexByte m ++ hexByte n ++ hexByte o ++ hexByte p) = (hexByte a ++ hexByte b ++ hexByte c ++ hexByte d ++ [45] ++ hexByte e ++ hexByte f ++ [45] ++ hexByte g ++ hexByte h ++ [45] ++ hexByte i ++ hexByte j ++ [45] ++ hexByte k ++ hexByte l ++ hexByte m) ++ hexByte n ++ (hexByte o ++ hexByte p) := by simp [List.append_assoc]
    have hp : (hexByte a ++ hexByte b ++ hexByte c ++ hexByte d ++ [45] ++ hexByte e ++ hexByte f ++ [45] ++ hexByte g ++ hexByte h ++ [45] ++ hexByte i ++ hexByte j ++ [45] ++ hexByte k ++ hexByte l ++ hexByte m).length = 30 := by simp [hexByte]
    rw [hr, ← hp]; exact byteAt_hexByte _ _ n hn'
  have b14 : byteAt (hexByte a ++ hexByte b ++ hexByte c ++ hexByte d ++ [45] ++ hexByte e ++ hexByte f ++ [45] ++ hexByte g ++ hexByte h ++ [45] ++ hexByte i ++ hexByte j ++ [45] ++ hexByte k ++ hexByte l ++ hexByte m ++ hexByte n ++ hexByte o ++ hexByte p) 32 = some o := by
    have hr : (hexByte a ++ hexByte b ++ hexByte c ++ hexByte d ++ [45] ++ hexByte e ++ hexByte f ++ [45] ++ hexByte g ++ hexByte h ++ [45] ++ hexByte i ++ hexByte j ++ [45] ++ hexByte k ++ hexByte l ++ hexByte m ++ hexByte n ++ hexByte o ++ hexByte p) = (hexByte a ++ hexByte b ++ hexByte c ++ hexByte d ++ [45] ++ hexByte e ++ hexByte f ++ [45] ++ hexByte g ++ hexByte h ++ [45] ++ hexByte i ++ hexByte j ++ [45] ++ hexByte k ++ hexByte l ++ hexByte m ++ hexByte n) ++ hexByte o ++ (hexByte p) := by simp [List.append_assoc]
    have hp : (hexByte a ++ hexByte b ++ hexByte c ++ hexByte d ++ [45] ++ hexByte e ++ hexByte f ++ [45] ++ hexByte g ++ hexByte h ++ [45] ++ hexByte i ++ hexByte j ++ [45] ++ hexByte k ++ hexByte l ++ hexByte m ++ hexByte n).length = 32 := by simp [hexByte]
    rw [hr, ← hp]; exact byteAt_hexByte _ _ o ho'
  have b15 : byteAt (hexByte a ++ hexByte b ++ hexByte c ++ hexByte d ++ [45] ++ hexByte e ++ hexByte f ++ [45] ++ hexByte g ++ hexByte h ++ [45] ++ hexByte i ++ hexByte j ++ [45] ++ hexByte k ++ hexByte l ++ hexByte m ++ hexByte n ++ hexByte o ++ hexByte p) 34 = some p := by
    have hr : (hexByte a ++ hexByte b ++ hexByte c ++ hexByte d ++ [45] ++ hexByte e ++ hexByte f ++ [45] ++ hexByte g ++ hexByte h ++ [45] ++ hexByte i ++ hexByte j ++ [45] ++ hexByte k ++ hexByte l ++ hexByte m ++ hexByte n ++ hexByte o ++ hexByte p) = (hexByte a ++ hexByte b ++ hexByte c ++ hexByte d ++ [45] ++ hexByte e ++ hexByte f ++ [45] ++ hexByte g ++ hexByte h ++ [45] ++ hexByte i ++ hexByte j ++ [45] ++ hexByte k ++ hexByte l ++ hexByte m ++ hexByte n ++ hexByte o) ++ hexByte p ++ (([] : Str)) := by simp [List.append_assoc]
    have hp : (hexByte a ++ hexByte b ++ hexByte c ++ hexByte d ++ [45] ++ hexByte e ++ hexByte f ++ [45] ++ hexByte g ++ hexByte h ++ [45] ++ hexByte i ++ hexByte j ++ [45] ++ hexByte k ++ hexByte l ++ hexByte m ++ hexByte n ++ hexByte o).length = 34 := by simp [hexByte]
    rw [hr, ← hp]; exact byteAt_hexByte _ _ p hp'
  have h8 : (hexByte a ++ hexByte b ++ hexByte c ++ hexByte d ++ [45] ++ hexByte e ++ hexByte f ++ [45] ++ hexByte g ++ hexByte h ++ [45] ++ hexByte i ++ hexByte j ++ [45] ++ hexByte k ++ hexByte l ++ hexByte m ++ hexByte n ++ hexByte o ++ hexByte p)[8]? = some 45 := by simp [hexByte]
  have h13 : (hexByte a ++ hexByte b ++ hexByte c ++ hexByte d ++ [45] ++ hexByte e ++ hexByte f ++ [45] ++ hexByte g ++ hexByte h ++ [45] ++ hexByte i ++ hexByte j ++ [45] ++ hexByte k ++ hexByte l ++ hexByte m ++ hexByte n ++ hexByte o ++ hexByte p)[13]? = some 45 := by simp [hexByte]
  have h18 : (hexByte a ++ hexByte b ++ hexByte c ++ hexByte d ++ [45] ++ hexByte e ++ hexByte f ++ [45] ++ hexByte g ++ hexByte h ++ [45] ++ hexByte i ++ hexByte j ++ [45] ++ hexByte k ++ hexByte l ++ hexByte m ++ hexByte n ++ hexByte o ++ hexByte p)[18]? = some 45 := by simp [hexByte]
  have h23 : (hexByte a ++ hexByte b ++ hexByte c ++ hexByte d ++ [45] ++ hexByte e ++ hexByte f ++ [45] ++ hexByte g ++ hexByte h ++ [45] ++ hexByte i ++ hexByte j ++ [45] ++ hexByte k ++ hexByte l ++ hexByte m ++ hexByte n ++ hexByte o ++ hexByte p)[23]? = some 45 := by simp [hexByte]
  unfold parse
  simp only [hlen, beq_self_eq_true, if_true, parseCanon, h8, h13, h18, h23, Bool.and_self, offsets, List.mapM_cons, List.mapM_nil,
    b0, b1, b2, b3, b4, b5, b6, b7, b8, b9, b10, b11, b12, b13, b14, b15]
  rfl

/-- for every 16 bytes -/
theorem parse_render (bs : List Nat) (hl : bs.length = 16) (hb : ∀ x ∈ bs, x < 256) : parse (render bs) = some bs := by
  match bs, hl with
  | [a, b, c, d, e, f, g, h, i, j, k, l, m, n, o, p], _ =>
    exact parse_render16 a b c d e f g h i j k l m n o p
      (hb a (by simp)) (hb b (by simp)) (hb c (by simp)) (hb d (by simp)) (hb e (by simp)) (hb f (by simp)) (hb g (by simp)) (hb h (by simp)) (hb i (by simp)) (hb j (by simp)) (hb k (by simp)) (hb l (by simp)) (hb m (by simp)) (hb n (by simp)) (hb o (by simp)) (hb p (by simp))

end OapiVerif.UuidParse
