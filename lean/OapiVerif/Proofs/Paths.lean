import OapiVerif.Model.Paths
namespace OapiVerif.Paths

theorem takeWhile_append_of_all {p : Nat → Bool} (n : Str) (c : Nat) (r : Str)
    (hn : n.all p = true) (hc : p c = false) :
    (n ++ c :: r).takeWhile p = n ∧ (n ++ c :: r).dropWhile p = c :: r := by
  induction n with
  | nil => simp [List.takeWhile, List.dropWhile, hc]
  | cons a t ih =>
    simp only [List.all_cons, Bool.and_eq_true] at hn
    obtain ⟨h1, h2⟩ := ih hn.2
    simp [List.takeWhile, List.dropWhile, hn.1, h1, h2]

theorem matchBody_name (n r : Str) (hne : n ≠ []) (hn : n.all nameChar = true) :
    matchBody (n ++ cClose :: r) = some (n, r) := by
  obtain ⟨h1, h2⟩ := takeWhile_append_of_all (p := nameChar) n cClose r hn (by decide)
  unfold matchBody
  simp only [h1, h2]
  cases n with
  | nil => exact absurd rfl hne
  | cons a t => simp [cClose]

theorem matchAt_name (n r : Str) (hne : n ≠ []) (hn : n.all nameChar = true)
    (hp : prefixChar (n.headD 0) = false) : matchAt (n ++ cClose :: r) = some (n, r) := by
  cases n with
  | nil => exact absurd rfl hne
  | cons a t =>
    simp only [List.headD_cons] at hp
    simp only [matchAt, List.cons_append, hp, Bool.false_eq_true, if_false]
    exact matchBody_name (a :: t) r (by simp) hn

theorem scanN_lits (s : Str) (hs : s.all (fun c => c != cOpen) = true) (rest : Str) (k : Nat)
    (hk : s.length + k ≤ n) : scanN n (s ++ rest) = s.map .lit ++ scanN (n - s.length) rest := by
  induction s generalizing n with
  | nil => simp
  | cons a t ih =>
    simp only [List.all_cons, Bool.and_eq_true, bne_iff_ne, ne_eq] at hs
    cases n with
    | zero => simp at hk
    | succ m =>
      simp only [List.cons_append, scanN, hs.1, if_false, List.map_cons, List.length_cons]
      rw [ih (by simpa using hs.2) (by simp at hk; omega)]
      simp

end OapiVerif.Paths

namespace OapiVerif.Paths

theorem render_cons (sg : Seg) (t : List Seg) : render (sg :: t) = cSlash :: (renderSeg sg ++ render t) := by
  simp [render, List.flatMap_cons]

theorem toks_cons (sg : Seg) (t : List Seg) : toks (sg :: t) = .lit cSlash :: (segToks sg ++ toks t) := by
  simp [toks, List.flatMap_cons]

/-- On a well-formed template the scanner recovers exactly the declared segments. -/
theorem scanN_render (segs : List Seg) (hwf : ∀ sg ∈ segs, wfSeg sg = true) :
    ∀ n, (render segs).length < n → scanN n (render segs) = toks segs := by
  induction segs with
  | nil => intro n hn; cases n <;> simp [render, toks, scanN]
  | cons sg t ih =>
    intro n hn
    have hsg := hwf sg (by simp)
    have iht := ih (fun x hx => hwf x (by simp [hx]))
    rw [render_cons] at hn ⊢
    rw [toks_cons]
    cases n with
    | zero => simp at hn
    | succ m =>
      have hslash : (cSlash = cOpen) = False := by decide
      simp only [scanN, hslash, if_false]
      congr 1
      simp only [List.length_cons, List.length_append] at hn
      cases sg with
      | static s =>
        simp only [renderSeg, segToks] at hn ⊢
        rw [scanN_lits s (by simpa [wfSeg] using hsg) (render t) 0 (by omega)]
        rw [iht (m - s.length) (by omega)]
      | var nm =>
        simp only [wfSeg, Bool.and_eq_true, Bool.not_eq_true', List.isEmpty_eq_false_iff] at hsg
        obtain ⟨⟨hne, hall⟩, hp⟩ := hsg
        simp only [renderSeg, segToks, List.cons_append, List.append_assoc, List.singleton_append,
          List.length_cons, List.length_append] at hn ⊢
        cases m with
        | zero => omega
        | succ k =>
          simp only [scanN, if_true, List.nil_append, matchAt_name nm (render t) hne hall hp]
          rw [iht k (by simp at hn; omega)]

theorem scan_render (segs : List Seg) (hwf : ∀ sg ∈ segs, wfSeg sg = true) :
    scan (render segs) = toks segs := scanN_render segs hwf _ (Nat.lt_succ_self _)

end OapiVerif.Paths
