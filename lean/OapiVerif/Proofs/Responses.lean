import OapiVerif.Model.Responses
namespace OapiVerif.Responses

theorem lexLt_irrefl (a : Str) : lexLt a a = false := by
  induction a with
  | nil => rfl
  | cons x t ih => simp [lexLt, ih]

theorem lexLt_asymm : ∀ (a b : Str), lexLt a b = true → lexLt b a = false
  | [], [], h => by simp [lexLt] at h
  | [], _ :: _, _ => by simp [lexLt]
  | _ :: _, [], h => by simp [lexLt] at h
  | x :: xs, y :: ys, h => by
    simp only [lexLt, Bool.or_eq_true, decide_eq_true_eq, Bool.and_eq_true, beq_iff_eq] at h ⊢
    rcases h with h | ⟨rfl, h⟩
    · simp only [Bool.or_eq_false_iff, decide_eq_false_iff_not, Bool.and_eq_false_imp, beq_iff_eq]
      exact ⟨by omega, fun e => by omega⟩
    · simp [Nat.lt_irrefl, lexLt_asymm xs ys h]

theorem lexLt_trans : ∀ (a b c : Str), lexLt a b = true → lexLt b c = true → lexLt a c = true
  | [], [], _, h, _ => by simp [lexLt] at h
  | [], _ :: _, [], _, h => by simp [lexLt] at h
  | [], _ :: _, _ :: _, _, _ => by simp [lexLt]
  | _ :: _, [], _, h, _ => by simp [lexLt] at h
  | _ :: _, _ :: _, [], _, h => by simp [lexLt] at h
  | x :: xs, y :: ys, z :: zs, h1, h2 => by
    simp only [lexLt, Bool.or_eq_true, decide_eq_true_eq, Bool.and_eq_true, beq_iff_eq] at h1 h2 ⊢
    rcases h1 with h1 | ⟨rfl, h1⟩
    · rcases h2 with h2 | ⟨rfl, _⟩
      · left; omega
      · left; exact h1
    · rcases h2 with h2 | ⟨rfl, h2⟩
      · left; exact h2
      · right; exact ⟨rfl, lexLt_trans xs ys zs h1 h2⟩

theorem lexLt_total : ∀ (a b : Str), a ≠ b → lexLt a b = true ∨ lexLt b a = true
  | [], [], h => absurd rfl h
  | [], _ :: _, _ => by simp [lexLt]
  | _ :: _, [], _ => by simp [lexLt]
  | x :: xs, y :: ys, h => by
    simp only [lexLt, Bool.or_eq_true, decide_eq_true_eq, Bool.and_eq_true, beq_iff_eq]
    by_cases hxy : x = y
    · subst hxy
      have : xs ≠ ys := fun e => h (by rw [e])
      rcases lexLt_total xs ys this with h' | h'
      · left; right; exact ⟨rfl, h'⟩
      · right; right; exact ⟨rfl, h'⟩
    · rcases Nat.lt_or_gt_of_ne hxy with h' | h'
      · left; left; exact h'
      · right; left; exact h'

theorem lexLt_append_left (p a b : Str) : lexLt (p ++ a) (p ++ b) = lexLt a b := by
  induction p with
  | nil => rfl
  | cons x t ih => simp [lexLt, ih]

/-- In a list strictly sorted by key, the first clause that matches is the matching clause of
least key. -/
theorem find_sorted (p : Case → Bool) :
    ∀ (cs : List Case), cs.Pairwise (fun a b => lexLt a.key b.key = true) →
    ∀ x ∈ cs, p x = true → (∀ y ∈ cs, p y = true → y ≠ x → lexLt x.key y.key = true) →
    cs.find? p = some x := by
  intro cs
  induction cs with
  | nil => intro _ x hx; cases hx
  | cons c t ih =>
    intro hs x hx hp hmin
    rw [List.pairwise_cons] at hs
    simp only [List.find?_cons]
    by_cases hc : p c = true
    · simp only [hc]
      by_cases hcx : c = x
      · rw [hcx]
      · have h1 := hmin c (by simp) hc hcx
        have hxt : x ∈ t := by
          rcases List.mem_cons.mp hx with e | e
          · exact absurd e.symm hcx
          · exact e
        have h2 := hs.1 x hxt
        rw [lexLt_asymm _ _ h2] at h1
        exact absurd h1 (by simp)
    · simp only [hc]
      have hxt : x ∈ t := by
        rcases List.mem_cons.mp hx with e | e
        · rw [e] at hp; exact absurd hp hc
        · exact e
      exact ih hs.2 x hxt hp (fun y hy => hmin y (List.mem_cons_of_mem _ hy))

end OapiVerif.Responses

namespace OapiVerif.Responses

def Sorted (cs : List Case) : Prop := cs.Pairwise (fun a b => lexLt a.key b.key = true)

theorem mem_insertBy (c : Case) (cs : List Case) (x : Case) : x ∈ insertBy c cs ↔ x = c ∨ x ∈ cs := by
  induction cs with
  | nil => simp [insertBy]
  | cons d ds ih =>
    simp only [insertBy]
    split
    · simp
    · simp only [List.mem_cons, ih]
      constructor
      · rintro (h | h | h)
        · exact Or.inr (Or.inl h)
        · exact Or.inl h
        · exact Or.inr (Or.inr h)
      · rintro (h | h | h)
        · exact Or.inr (Or.inl h)
        · exact Or.inl h
        · exact Or.inr (Or.inr h)

theorem sorted_insertBy (c : Case) (cs : List Case) (hs : Sorted cs) (hk : ∀ d ∈ cs, d.key ≠ c.key) :
    Sorted (insertBy c cs) := by
  induction cs with
  | nil => simp [insertBy, Sorted]
  | cons d ds ih =>
    unfold Sorted at hs ⊢
    rw [List.pairwise_cons] at hs
    simp only [insertBy]
    have hdk : d.key ≠ c.key := hk d (by simp)
    split
    · next hle =>
      -- c goes first
      have hcd : lexLt c.key d.key = true := by
        simp only [lexLe, Bool.not_eq_true'] at hle
        rcases lexLt_total c.key d.key (fun e => hdk e.symm) with h | h
        · exact h
        · rw [hle] at h; exact absurd h (by simp)
      rw [List.pairwise_cons]
      refine ⟨?_, List.pairwise_cons.mpr hs⟩
      intro y hy
      rcases List.mem_cons.mp hy with rfl | hy
      · exact hcd
      · exact lexLt_trans _ _ _ hcd (hs.1 y hy)
    · next hle =>
      have hdc : lexLt d.key c.key = true := by
        simpa [lexLe] using hle
      rw [List.pairwise_cons]
      refine ⟨?_, ih hs.2 (fun x hx => hk x (List.mem_cons_of_mem _ hx))⟩
      intro y hy
      rcases (mem_insertBy c ds y).mp hy with rfl | hy
      · exact hdc
      · exact hs.1 y hy

theorem sorted_map_replace (c : Case) (cs : List Case) (hs : Sorted cs) :
    Sorted (cs.map fun d => if d.key == c.key then c else d) := by
  unfold Sorted at *
  rw [List.pairwise_map]
  apply hs.imp
  intro a b hab
  by_cases ha : a.key = c.key <;> by_cases hb : b.key = c.key <;> simp [ha, hb] <;> simp_all

theorem sorted_putCase (c : Case) (cs : List Case) (hs : Sorted cs) : Sorted (putCase c cs) := by
  unfold putCase
  split
  · exact sorted_map_replace c cs hs
  · next h =>
    apply sorted_insertBy c cs hs
    intro d hd hk
    apply h
    simp only [List.any_eq_true, beq_iff_eq]
    exact ⟨d, hd, hk⟩

theorem sorted_foldl_putCase (l : List Case) : ∀ (acc : List Case), Sorted acc →
    Sorted (l.foldl (fun m c => putCase c m) acc) := by
  induction l with
  | nil => intro acc h; exact h
  | cons c t ih => intro acc h; exact ih _ (sorted_putCase c acc h)

/-- The handled clauses of the generated `switch` are strictly sorted by their key. -/
theorem handled_sorted (l : List Case) : Sorted (l.foldl (fun m c => putCase c m) []) :=
  sorted_foldl_putCase l [] (by simp [Sorted])

end OapiVerif.Responses
