import OapiVerif.Model.FieldTags
import OapiVerif.Proofs.Responses
namespace OapiVerif.FieldTags
open Responses

theorem lookup_insertKV (k v : Str) : ∀ (t : List (Str × Str)) (k' : Str),
    lookup (insertKV k v t) k' = if k' = k then some v else lookup t k' := by
  intro t
  induction t with
  | nil =>
    intro k'
    by_cases e : k' = k
    · simp [insertKV, lookup, e]
    · have : ¬ k = k' := fun h => e h.symm
      simp [insertKV, lookup, e, this]
  | cons q rest ih =>
    intro k'
    simp only [insertKV]
    by_cases e : k' = k
    · subst e
      simp only [if_true]
      split
      · simp [lookup]
      · split
        · simp [lookup]
        · rename_i hne _
          have hq : ¬ q.1 = k' := fun h => hne h.symm
          have := ih k'
          simp only [if_true] at this
          simp only [lookup, List.find?_cons, hq, decide_false] at this ⊢
          exact this
    · simp only [e, if_false]
      have hk : ¬ k = k' := fun h => e h.symm
      split
      · rename_i hq
        have hq' : ¬ q.1 = k' := fun h => e (by rw [← h, hq])
        simp [lookup, List.find?_cons, hk, hq']
      · split
        · simp [lookup, List.find?_cons, hk]
        · have := ih k'
          simp only [e, if_false] at this
          by_cases hq : q.1 = k'
          · simp [lookup, List.find?_cons, hq]
          · simp only [lookup, List.find?_cons, hq, decide_false] at this ⊢
            exact this

def Asc (t : List (Str × Str)) : Prop := t.Pairwise fun a b => lexLt a.1 b.1 = true

theorem mem_insertKV (k v : Str) : ∀ (t : List (Str × Str)) (x : Str × Str), x ∈ insertKV k v t → x = (k, v) ∨ x ∈ t := by
  intro t
  induction t with
  | nil => intro x h; simpa [insertKV] using h
  | cons q rest ih =>
    intro x h
    simp only [insertKV] at h
    split at h
    · rcases List.mem_cons.mp h with e | h'
      · exact Or.inl e
      · exact Or.inr (List.mem_cons_of_mem _ h')
    · split at h
      · rcases List.mem_cons.mp h with e | h'
        · exact Or.inl e
        · exact Or.inr h'
      · rcases List.mem_cons.mp h with e | h'
        · exact Or.inr (by rw [e]; exact List.mem_cons_self)
        · rcases ih x h' with e | h''
          · exact Or.inl e
          · exact Or.inr (List.mem_cons_of_mem _ h'')

theorem asc_insertKV (k v : Str) : ∀ (t : List (Str × Str)), Asc t → Asc (insertKV k v t) := by
  intro t
  induction t with
  | nil => intro _; simp [insertKV, Asc]
  | cons q rest ih =>
    intro h
    unfold Asc at h ih ⊢
    rw [List.pairwise_cons] at h
    simp only [insertKV]
    split
    · rename_i e
      refine List.pairwise_cons.mpr ⟨?_, h.2⟩
      intro x hx; show lexLt k x.1 = true; rw [e]; exact h.1 x hx
    · rename_i hne
      split
      · rename_i hlt
        refine List.pairwise_cons.mpr ⟨?_, List.pairwise_cons.mpr h⟩
        intro x hx
        rcases List.mem_cons.mp hx with e | hx'
        · rw [e]; exact hlt
        · exact lexLt_trans _ _ _ hlt (h.1 x hx')
      · rename_i hnlt
        refine List.pairwise_cons.mpr ⟨?_, ih h.2⟩
        intro x hx
        rcases mem_insertKV k v rest x hx with e | hx'
        · rw [e]
          rcases lexLt_total k q.1 hne with h' | h'
          · exact absurd h' hnlt
          · exact h'
        · exact h.1 x hx'

theorem asc_foldl (ex : List (Str × Str)) : ∀ t, Asc t → Asc (ex.foldl (fun t kv => insertKV kv.1 kv.2 t) t) := by
  induction ex with
  | nil => intro t h; exact h
  | cons kv rest ih => intro t h; exact ih _ (asc_insertKV kv.1 kv.2 t h)

theorem lookup_foldl_other (ex : List (Str × Str)) (k : Str) (hk : k ∉ ex.map (·.1)) :
    ∀ t, lookup (ex.foldl (fun t kv => insertKV kv.1 kv.2 t) t) k = lookup t k := by
  induction ex with
  | nil => intro t; rfl
  | cons kv rest ih =>
    intro t
    simp only [List.map_cons, List.mem_cons, not_or] at hk
    simp only [List.foldl_cons]
    rw [ih hk.2, lookup_insertKV, if_neg hk.1]

theorem lookup_foldl_mem (ex : List (Str × Str)) (hnd : (ex.map (·.1)).Nodup) (k v : Str) (hm : (k, v) ∈ ex) :
    ∀ t, lookup (ex.foldl (fun t kv => insertKV kv.1 kv.2 t) t) k = some v := by
  induction ex with
  | nil => cases hm
  | cons kv rest ih =>
    intro t
    rw [List.map_cons, List.nodup_cons] at hnd
    simp only [List.foldl_cons]
    rcases List.mem_cons.mp hm with e | hm'
    · subst e
      rw [lookup_foldl_other rest k hnd.1, lookup_insertKV, if_pos rfl]
    · exact ih hnd.2 hm' _

end OapiVerif.FieldTags
