import OapiVerif.Model.Escape
namespace OapiVerif.Escape

theorem unhex_hexDigit : ∀ n, n < 16 → unhex (hexDigit n) = some n := by decide

theorem unescape_cons_ne (m : Mode) (c : Nat) (rest : List Nat) (h : c ≠ 37) :
    unescape m (c :: rest) =
      (unescape m rest).map (fun r => (if m = .query && c = 43 then 32 else c) :: r) := by
  rw [unescape.eq_def]
  split
  · simp_all
  · simp_all
  · simp_all
  · simp_all
  · next heq =>
    simp at heq; obtain ⟨rfl, rfl⟩ := heq
    cases unescape m rest <;> simp

theorem unescape_pct (m : Mode) (h l : Nat) (rest : List Nat) :
    unescape m (37 :: h :: l :: rest) =
      match unhex h, unhex l, unescape m rest with
      | some a, some b, some r => some ((a * 16 + b) :: r)
      | _, _, _ => none := by
  rw [unescape.eq_def]; rfl

theorem noEscape_ne_pct (m : Mode) (b : Nat) (h : shouldEscape m b = false) : b ≠ 37 := by
  intro e; subst e; revert h; cases m <;> decide

theorem noEscape_query_ne_plus (b : Nat) (h : shouldEscape .query b = false) : b ≠ 43 := by
  intro e; subst e; revert h; decide

/-- One escaped byte in front of anything decodes to that byte in front of the decoded rest. -/
theorem unescape_escByte (m : Mode) (b : Nat) (hb : b < 256) (rest : List Nat) :
    unescape m (escByte m b ++ rest) = (unescape m rest).map (b :: ·) := by
  unfold escByte
  by_cases h1 : m = .query ∧ b = 32
  · obtain ⟨rfl, rfl⟩ := h1
    simp only [decide_true, Bool.and_self, if_true, List.singleton_append]
    rw [unescape_cons_ne _ _ _ (by decide)]
    simp
  · have h1' : (decide (m = .query) && decide (b = 32)) = false := by
      simp only [Bool.and_eq_false_imp, decide_eq_true_eq, decide_eq_false_iff_not]
      intro hm hb'; exact h1 ⟨hm, hb'⟩
    simp only [h1', Bool.false_eq_true, if_false]
    cases h2 : shouldEscape m b
    · simp only [Bool.false_eq_true, if_false, List.singleton_append]
      rw [unescape_cons_ne _ _ _ (noEscape_ne_pct m b h2)]
      have : (decide (m = .query) && decide (b = 43)) = false := by
        cases m
        · simp
        · simp [noEscape_query_ne_plus b h2]
      simp [this]
    · simp only [if_true, List.cons_append, List.nil_append]
      rw [unescape_pct]
      have hd1 : b / 16 < 16 := by omega
      have hd2 : b % 16 < 16 := by omega
      have hs : b / 16 * 16 + b % 16 = b := by omega
      simp only [unhex_hexDigit _ hd1, unhex_hexDigit _ hd2]
      cases unescape m rest <;> simp [hs]

theorem unescape_escape_append (m : Mode) (s : List Nat) (hs : ∀ b ∈ s, b < 256) (rest : List Nat) :
    unescape m (escape m s ++ rest) = (unescape m rest).map (s ++ ·) := by
  induction s with
  | nil => simp [escape]
  | cons b t ih =>
    have hb : b < 256 := hs b (by simp)
    have ht : ∀ x ∈ t, x < 256 := fun x hx => hs x (by simp [hx])
    simp only [escape, List.flatMap_cons, List.append_assoc] at *
    rw [unescape_escByte m b hb, ih ht]
    cases unescape m rest <;> simp

/-- `unescape (escape s) = s`: a value survives escaping by the client and unescaping by the
server, whatever bytes it contains. -/
theorem unescape_escape (m : Mode) (s : List Nat) (hs : ∀ b ∈ s, b < 256) :
    unescape m (escape m s) = some s := by
  have := unescape_escape_append m s hs []
  simpa [unescape] using this

/-- A byte that is neither `%` nor (in query mode) `+` passes through `unescape` unchanged. -/
def plain (m : Mode) (b : Nat) : Bool := b != 37 && !(m == .query && b == 43)

theorem unescape_plain_append (m : Mode) (p : List Nat) (hp : ∀ b ∈ p, plain m b = true) (rest : List Nat) :
    unescape m (p ++ rest) = (unescape m rest).map (p ++ ·) := by
  induction p with
  | nil => simp
  | cons b t ih =>
    have hb := hp b (by simp)
    have ht : ∀ x ∈ t, plain m x = true := fun x hx => hp x (by simp [hx])
    simp only [List.cons_append]
    have hne : b ≠ 37 := by simp [plain] at hb; exact hb.1
    rw [unescape_cons_ne _ _ _ hne, ih ht]
    have : (decide (m = .query) && decide (b = 43)) = false := by
      simp [plain] at hb
      cases m <;> simp_all
    cases unescape m rest <;> simp [this]

/-- The escaped form of anything contains no byte the escaping set reserves: in particular
none of the style delimiters `,` `;` `/` `?` (path mode) or any non-unreserved byte (query mode). -/
theorem escape_bytes (m : Mode) (s : List Nat) (hs : ∀ b ∈ s, b < 256) :
    ∀ c ∈ escape m s, c = 37 ∨ c = 43 ∨ shouldEscape m c = false ∨ (48 ≤ c ∧ c ≤ 70) := by
  intro c hc
  simp only [escape, List.mem_flatMap] at hc
  obtain ⟨b, hb, hcb⟩ := hc
  have hb256 := hs b hb
  unfold escByte at hcb
  split at hcb
  · simp at hcb; omega
  · split at hcb
    · simp only [List.mem_cons, List.not_mem_nil, or_false] at hcb
      rcases hcb with rfl | rfl | rfl
      · left; rfl
      · right; right; right
        have : b / 16 < 16 := by omega
        unfold hexDigit; split <;> omega
      · right; right; right
        have : b % 16 < 16 := by omega
        unfold hexDigit; split <;> omega
    · next h => simp at hcb; subst hcb; right; right; left; simpa using h

end OapiVerif.Escape
