import OapiVerif.Proofs.GoJsonEnc
/-!
The two directions of the encoding/json fragment are inverse to each other: what `json.Unmarshal` makes of a valid
canonical JSON value is a value of the type, and a stable one — so `enc_dec` applies to it, and `decode`/`encode` are a
bijection between the valid canonical JSON values of a type and its stable values.
-/
namespace OapiVerif.GoJson

mutual
theorem hasTy_zero : ∀ t : GoTy, wf t = true → hasTy t (zero t) = true
  | .bool, _ => by simp [zero, hasTy]
  | .int lo hi, h => by simpa [zero, hasTy, wf] using h
  | .string, _ => by simp [zero, hasTy]
  | .ptr _, _ => by simp [zero, hasTy]
  | .slice _, _ => by simp [zero, hasTy]
  | .map _, _ => by simp [zero, hasTy]
  | .struct fs, h => by
    simp only [zero, hasTy]
    exact hasTyFields_zeros fs (by simpa [wf] using h)
theorem hasTyFields_zeros : ∀ fs : Fields, wfFields fs = true → hasTyFields fs (zeros fs) = true
  | .nil, _ => by simp [zeros, hasTyFields]
  | .cons n om t rest, h => by
    simp only [wfFields, Bool.and_eq_true] at h
    simp [zeros, hasTyFields, hasTy_zero t h.1.2, hasTyFields_zeros rest h.2]
end

mutual
theorem stable_zero : ∀ t : GoTy, stable t (zero t) = true
  | .bool => by simp [zero, stable]
  | .int _ _ => by simp [zero, stable]
  | .string => by simp [zero, stable]
  | .ptr _ => by simp [zero, stable]
  | .slice _ => by simp [zero, stable]
  | .map _ => by simp [zero, stable]
  | .struct fs => by simp only [zero, stable]; exact stableFields_zeros fs
theorem stableFields_zeros : ∀ fs : Fields, stableFields fs (zeros fs) = true
  | .nil => by simp [zeros, stableFields]
  | .cons n om t rest => by
    have hl : lossyEmpty (zero t) = false := by cases t <;> simp [zero, lossyEmpty]
    simp [zeros, stableFields, hl, stable_zero t, stableFields_zeros rest]
end

/-- A JSON value other than `null` never decodes to nil. -/
theorem decode_not_nil (t : GoTy) (j : JVal) (v : GoVal) (hj : j ≠ .null) (hd : decode t j = some v) : isNilV v = false := by
  cases t <;> cases j <;> simp_all [decode, isNilV]
  all_goals first
    | (subst hd; rfl)
    | (obtain ⟨_, _, rfl⟩ := hd; rfl)
    | (obtain ⟨_, rfl⟩ := hd; rfl)

theorem lossy_is_empty (v : GoVal) (h : lossyEmpty v = true) : isEmpty v = true := by
  cases v <;> simp_all [lossyEmpty, isEmpty]

theorem mapM_all {α β} (f : α → Option β) (p : α → Bool) (q : β → Bool)
    (h : ∀ x y, p x = true → f x = some y → q y = true) :
    ∀ (l : List α) (r : List β), l.all p = true → l.mapM f = some r → r.all q = true
  | [], r, _, hr => by simp at hr; subst hr; simp
  | x :: t, r, hl, hr => by
    simp only [List.all_cons, Bool.and_eq_true] at hl
    simp only [List.mapM_cons] at hr
    cases hx : f x with
    | none => simp [hx] at hr
    | some y =>
      cases ht : t.mapM f with
      | none => simp [hx, ht] at hr
      | some ys =>
        simp [hx, ht] at hr
        subst hr
        simp [h x y hl.1 hx, mapM_all f p q h t ys hl.2 ht]

theorem sortedKeysV_of_mapM (g : JVal → Option GoVal) :
    ∀ (m : List (String × JVal)) (r : List (String × GoVal)),
      (m.mapM fun kv => (g kv.2).map fun v => (kv.1, v)) = some r → sortedKeys m = true → sortedKeysV r = true
  | [], r, hr, _ => by simp at hr; subst hr; simp [sortedKeysV]
  | [a], r, hr, _ => by
    simp only [List.mapM_cons, List.mapM_nil] at hr
    cases ha : g a.2 with
    | none => simp [ha] at hr
    | some v => simp [ha] at hr; subst hr; simp [sortedKeysV]
  | a :: b :: t, r, hr, hs => by
    simp only [sortedKeys, Bool.and_eq_true, decide_eq_true_eq] at hs
    simp only [List.mapM_cons] at hr
    cases ha : g a.2 with
    | none => simp [ha] at hr
    | some va =>
      cases hb : g b.2 with
      | none => simp [ha, hb] at hr
      | some vb =>
        cases ht : (t.mapM fun kv => (g kv.2).map fun v => (kv.1, v)) with
        | none => simp [ha, hb, ht] at hr
        | some rt =>
          have hrec := sortedKeysV_of_mapM g (b :: t) ((b.1, vb) :: rt) (by simp [List.mapM_cons, hb, ht]) hs.2
          simp [ha, hb, ht] at hr
          subst hr
          simp [sortedKeysV, hs.1]
          simpa [sortedKeysV] using hrec

mutual
/-- What decodes from a valid canonical JSON value is a stable value of the type. -/
theorem decode_typed_stable : ∀ (t : GoTy) (j : JVal) (v : GoVal), wf t = true → valid t j = true → decode t j = some v →
    hasTy t v = true ∧ stable t v = true
  | .bool, j, v, _, hv, hd => by cases j <;> simp_all [valid, decode] <;> (subst hd; simp [hasTy, stable])
  | .int lo hi, j, v, _, hv, hd => by
    cases j <;> simp_all [valid, decode]
    obtain ⟨_, rfl⟩ := hd
    simp [hasTy, stable, hv]
  | .string, j, v, _, hv, hd => by cases j <;> simp_all [valid, decode] <;> (subst hd; simp [hasTy, stable])
  | .ptr t, j, v, hw, hv, hd => by
    have hw' : wf t = true := by simpa [wf] using hw
    cases j with
    | null => simp [decode] at hd; subst hd; simp [hasTy, stable]
    | bool b =>
      simp only [decode, Option.map_eq_some_iff] at hd
      obtain ⟨w, hdw, rfl⟩ := hd
      have ih := decode_typed_stable t (.bool b) w hw' (by simpa [valid] using hv) hdw
      simp [hasTy, stable, ih.1, ih.2, decode_not_nil t _ w (by simp) hdw]
    | num n =>
      simp only [decode, Option.map_eq_some_iff] at hd
      obtain ⟨w, hdw, rfl⟩ := hd
      have ih := decode_typed_stable t (.num n) w hw' (by simpa [valid] using hv) hdw
      simp [hasTy, stable, ih.1, ih.2, decode_not_nil t _ w (by simp) hdw]
    | str s =>
      simp only [decode, Option.map_eq_some_iff] at hd
      obtain ⟨w, hdw, rfl⟩ := hd
      have ih := decode_typed_stable t (.str s) w hw' (by simpa [valid] using hv) hdw
      simp [hasTy, stable, ih.1, ih.2, decode_not_nil t _ w (by simp) hdw]
    | arr l =>
      simp only [decode, Option.map_eq_some_iff] at hd
      obtain ⟨w, hdw, rfl⟩ := hd
      have ih := decode_typed_stable t (.arr l) w hw' (by simpa [valid] using hv) hdw
      simp [hasTy, stable, ih.1, ih.2, decode_not_nil t _ w (by simp) hdw]
    | obj m =>
      simp only [decode, Option.map_eq_some_iff] at hd
      obtain ⟨w, hdw, rfl⟩ := hd
      have ih := decode_typed_stable t (.obj m) w hw' (by simpa [valid] using hv) hdw
      simp [hasTy, stable, ih.1, ih.2, decode_not_nil t _ w (by simp) hdw]
  | .slice t, j, v, hw, hv, hd => by
    have hw' : wf t = true := by simp only [wf, Bool.and_eq_true] at hw; exact hw.2
    cases j with
    | null => simp [decode] at hd; subst hd; simp [hasTy, stable]
    | arr l =>
      simp only [decode, Option.map_eq_some_iff] at hd
      obtain ⟨ws, hws, rfl⟩ := hd
      have hl : l.all (valid t) = true := by simpa [valid] using hv
      have h1 := mapM_all (decode t) (valid t) (hasTy t) (fun x y hx hy => (decode_typed_stable t x y hw' hx hy).1) l ws hl hws
      have h2 := mapM_all (decode t) (valid t) (stable t) (fun x y hx hy => (decode_typed_stable t x y hw' hx hy).2) l ws hl hws
      simp [hasTy, stable, h1, h2]
    | bool b => simp [valid] at hv
    | num n => simp [valid] at hv
    | str s => simp [valid] at hv
    | obj m => simp [valid] at hv
  | .map t, j, v, hw, hv, hd => by
    have hw' : wf t = true := by simpa [wf] using hw
    cases j with
    | null => simp [decode] at hd; subst hd; simp [hasTy, stable]
    | obj m =>
      simp only [decode, Option.map_eq_some_iff] at hd
      obtain ⟨ws, hws, rfl⟩ := hd
      simp only [valid, Bool.and_eq_true] at hv
      have hs := sortedKeysV_of_mapM (decode t) m ws hws hv.1
      have h1 := mapM_all (fun kv : String × JVal => (decode t kv.2).map fun v => (kv.1, v)) (fun kv => valid t kv.2)
        (fun kv : String × GoVal => hasTy t kv.2)
        (fun x y hx hy => by
          simp only [Option.map_eq_some_iff] at hy
          obtain ⟨w, hw2, rfl⟩ := hy
          exact (decode_typed_stable t x.2 w hw' hx hw2).1) m ws hv.2 hws
      have h2 := mapM_all (fun kv : String × JVal => (decode t kv.2).map fun v => (kv.1, v)) (fun kv => valid t kv.2)
        (fun kv : String × GoVal => stable t kv.2)
        (fun x y hx hy => by
          simp only [Option.map_eq_some_iff] at hy
          obtain ⟨w, hw2, rfl⟩ := hy
          exact (decode_typed_stable t x.2 w hw' hx hw2).2) m ws hv.2 hws
      simp [hasTy, stable, hs, h1, h2]
    | bool b => simp [valid] at hv
    | num n => simp [valid] at hv
    | str s => simp [valid] at hv
    | arr l => simp [valid] at hv
  | .struct fs, j, v, hw, hv, hd => by
    have hw' : wfFields fs = true := by simpa [wf] using hw
    cases j with
    | obj m =>
      simp only [decode, Option.map_eq_some_iff] at hd
      obtain ⟨vs, hvs, rfl⟩ := hd
      have ih := decodeFields_typed_stable fs m vs hw' (by simpa [valid] using hv) hvs
      simp [hasTy, stable, ih.1, ih.2]
    | null => simp [valid] at hv
    | bool b => simp [valid] at hv
    | num n => simp [valid] at hv
    | str s => simp [valid] at hv
    | arr l => simp [valid] at hv
theorem decodeFields_typed_stable : ∀ (fs : Fields) (m : List (String × JVal)) (vs : List GoVal), wfFields fs = true →
    validFields fs m = true → decodeFields fs m = some vs → hasTyFields fs vs = true ∧ stableFields fs vs = true
  | .nil, m, vs, _, _, hd => by simp [decodeFields] at hd; subst hd; simp [hasTyFields, stableFields]
  | .cons n om t rest, m, vs, hw, hv, hd => by
    simp only [wfFields, Bool.and_eq_true, Bool.not_eq_true'] at hw
    obtain ⟨⟨hnot, hwt⟩, hwr⟩ := hw
    have hlz : lossyEmpty (zero t) = false := by cases t <;> simp [zero, lossyEmpty]
    cases m with
    | nil =>
      simp only [validFields, Bool.and_eq_true] at hv
      simp only [decodeFields, lookup, List.find?_nil, Option.map_none] at hd
      cases hr : decodeFields rest [] with
      | none => simp [hr] at hd
      | some rs =>
        simp [hr] at hd
        subst hd
        have ih := decodeFields_typed_stable rest [] rs hwr hv.2 hr
        simp [hasTyFields, stableFields, hasTy_zero t hwt, stable_zero t, hlz, ih.1, ih.2]
    | cons kj m' =>
      obtain ⟨k, j⟩ := kj
      by_cases hk : k = n
      · subst hk
        simp only [validFields, if_true, Bool.and_eq_true, Bool.or_eq_true, Bool.not_eq_true'] at hv
        obtain ⟨⟨hvj, hkept⟩, hr⟩ := hv
        simp only [decodeFields, lookup_cons_eq, decodeFields_skip rest k j m' hnot] at hd
        cases hdj : decode t j with
        | none => simp [hdj] at hd
        | some w =>
          cases hrs : decodeFields rest m' with
          | none => simp [hdj, hrs] at hd
          | some rs =>
            simp [hdj, hrs] at hd
            subst hd
            have ihv := decode_typed_stable t j w hwt hvj hdj
            have ihr := decodeFields_typed_stable rest m' rs hwr hr hrs
            have hloss : (om && lossyEmpty w) = false := by
              rcases hkept with h | h
              · simp [h]
              · have hne := kept_not_empty t j w hdj h
                cases hl : lossyEmpty w with
                | false => simp
                | true => rw [lossy_is_empty w hl] at hne; exact absurd hne (by simp)
            simp [hasTyFields, stableFields, ihv.1, ihv.2, ihr.1, ihr.2, hloss]
      · simp only [validFields, hk, if_false, Bool.and_eq_true, Bool.not_eq_true'] at hv
        obtain ⟨⟨⟨hom, hz⟩, hany⟩, hr⟩ := hv
        simp only [decodeFields, lookup_none_of_not_any _ n hany] at hd
        cases hrs : decodeFields rest ((k, j) :: m') with
        | none => simp [hrs] at hd
        | some rs =>
          simp [hrs] at hd
          subst hd
          have ih := decodeFields_typed_stable rest ((k, j) :: m') rs hwr hr hrs
          simp [hasTyFields, stableFields, hasTy_zero t hwt, stable_zero t, hlz, ih.1, ih.2]
end

end OapiVerif.GoJson
