import OapiVerif.Model.RefPath
namespace OapiVerif.RefPath

theorem fragmentType_no_consult (env env' : Env) (frag : Str) (isLocal : Bool)
    (htn : env.typeName = env'.typeName) : fragmentType env frag isLocal false = fragmentType env' frag isLocal false := by
  simp [fragmentType, htn]

/-- A reference into another document does not depend on the components of the referring document. -/
theorem remote_ignores_local (env env' : Env) (ref : Str) (c : Nat) (t : Str) (hr : ref = c :: t) (hc : c ≠ hash)
    (himp : env.imports = env'.imports) (htn : env.typeName = env'.typeName) :
    refPathToGoType env ref = refPathToGoType env' ref := by
  subst hr
  simp only [refPathToGoType, refPathToGoTypeWith, hc, if_false, himp]
  split
  · rename_i remote flat _
    cases lookupImport env'.imports remote with
    | none => rfl
    | some pkg => simp only [fragmentType_no_consult env env' _ false htn]
  · rfl

theorem lookupImport_mem (m : List (Str × Str)) (d p : Str) (h : lookupImport m d = some p) : (d, p) ∈ m := by
  unfold lookupImport at h
  simp only [Option.map_eq_some_iff] at h
  obtain ⟨a, ha, rfl⟩ := h
  have h1 := List.mem_of_find?_eq_some ha
  have h2 := List.find?_some ha
  simp only [decide_eq_true_eq] at h2
  rw [← h2]
  exact h1

/-- … and, when it is rendered at all, it is a type of the package the import mapping names for that document. -/
theorem remote_is_qualified (env : Env) (ref : Str) (c : Nat) (t : Str) (out : Str) (hr : ref = c :: t) (hc : c ≠ hash)
    (h : refPathToGoType env ref = .ok out) :
    ∃ remote pkg u, (remote, pkg) ∈ env.imports ∧ out = pkg ++ [dot] ++ u := by
  subst hr
  simp only [refPathToGoType, refPathToGoTypeWith, hc, if_false] at h
  split at h
  · rename_i remote flat _
    cases hl : lookupImport env.imports remote with
    | none => simp [hl] at h
    | some pkg =>
      simp only [hl] at h
      cases hf : fragmentType env (hash :: flat) false false with
      | error e => simp [hf] at h
      | ok u =>
        simp only [hf, Except.ok.injEq] at h
        exact ⟨remote, pkg, u, lookupImport_mem _ _ _ hl, h.symm⟩
  · simp at h

/-- A document that the import mapping does not name is an error, never an unqualified type. -/
theorem unmapped_is_error (env : Env) (remote flat : Str) (c : Nat) (t : Str) (hr : remote ++ hash :: flat = c :: t) (hc : c ≠ hash)
    (hsplit : (remote ++ hash :: flat).splitOn hash = [remote, flat]) (hl : lookupImport env.imports remote = none) :
    refPathToGoType env (remote ++ hash :: flat) = .error .unmapped := by
  rw [hr] at hsplit ⊢
  simp only [refPathToGoType, refPathToGoTypeWith, hc, if_false, hsplit, hl]

end OapiVerif.RefPath
