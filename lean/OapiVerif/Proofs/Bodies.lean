import OapiVerif.Model.Bodies
import OapiVerif.Proofs.Responses
namespace OapiVerif.Bodies
open Responses

theorem insertCt_perm (b : Body) : ∀ l : List Body, (insertCt b l).Perm (b :: l) := by
  intro l
  induction l with
  | nil => exact List.Perm.refl _
  | cons c rest ih =>
    simp only [insertCt]
    split
    · exact (List.Perm.cons c ih).trans (List.Perm.swap b c rest)
    · exact List.Perm.refl _

theorem sortBodies_perm (bs : List Body) : (sortBodies bs).Perm bs := by
  unfold sortBodies
  induction bs with
  | nil => exact List.Perm.refl _
  | cons b t ih => exact (insertCt_perm b _).trans (List.Perm.cons b ih)

/-- ascending or equal by media type -/
def Le (a b : Body) : Prop := lexLt b.contentType a.contentType = false

theorem insertCt_sorted (b : Body) : ∀ l : List Body, l.Pairwise Le → (insertCt b l).Pairwise Le := by
  intro l
  induction l with
  | nil => intro _; simp [insertCt]
  | cons c rest ih =>
    intro h
    rw [List.pairwise_cons] at h
    simp only [insertCt]
    split
    · rename_i hlt
      refine List.pairwise_cons.mpr ⟨?_, ih h.2⟩
      intro x hx
      rcases List.mem_cons.mp ((insertCt_perm b rest).mem_iff.mp hx) with e | hx'
      · subst e; exact lexLt_asymm _ _ hlt
      · exact h.1 x hx'
    · rename_i hnlt
      have hbc : Le b c := by simpa [Le] using hnlt
      refine List.pairwise_cons.mpr ⟨?_, List.pairwise_cons.mpr h⟩
      intro x hx
      rcases List.mem_cons.mp hx with e | hx'
      · subst e; exact hbc
      · have hcx := h.1 x hx'
        unfold Le at hbc hcx ⊢
        cases hxb : lexLt x.contentType b.contentType with
        | false => rfl
        | true =>
          -- x < b and ¬ (c < b), ¬ (x < c): by totality c = b or b < c; then x < c, contradiction
          by_cases e : c.contentType = b.contentType
          · rw [e] at hcx; rw [hcx] at hxb; cases hxb
          · rcases lexLt_total _ _ e with h1 | h1
            · rw [h1] at hbc; cases hbc
            · have := lexLt_trans _ _ _ hxb h1
              rw [this] at hcx; cases hcx

theorem sortBodies_sorted (bs : List Body) : (sortBodies bs).Pairwise Le := by
  unfold sortBodies
  induction bs with
  | nil => simp
  | cons b t ih => exact insertCt_sorted b _ ih

theorem mkBody_ct (E : Env) (ct : Str) : (mkBody E ct).contentType = ct := by
  unfold mkBody; split <;> rfl

theorem mkBody_dflt (E : Env) (ct : Str) : (mkBody E ct).dflt = true ↔ ct = appJson := by
  unfold mkBody classify
  by_cases h : ct = appJson
  · rw [if_pos h]; simp [h]
  · rw [if_neg h]
    simp only [h, iff_false, Bool.not_eq_true]
    by_cases h1 : E.isJson ct = true
    · rw [if_pos h1]
    · rw [if_neg h1]
      by_cases h2 : multipartPrefix.isPrefixOf ct = true
      · rw [if_pos h2]
      · rw [if_neg h2]
        by_cases h3 : ct = formUrl
        · rw [if_pos h3]
        · rw [if_neg h3]
          by_cases h4 : ct = textPlain
          · rw [if_pos h4]
          · rw [if_neg h4]

end OapiVerif.Bodies
