import OapiVerif.Model.Form
import OapiVerif.Proofs.IntParse
namespace OapiVerif.Form
open OapiVerif.IntParse

theorem parse_render (t : Sc) (v : SVal) (h : typed t v = true) : parse t (render v) = some v := by
  cases t <;> cases v <;> simp_all [typed, parse, render]
  · rename_i bits v
    rw [parseInt_render bits v h]
  · rename_i b
    cases b <;> decide

theorem marshal_keys : ∀ (fs : List Field) (vs : List (Option SVal)) (kv : Str × Str),
    kv ∈ marshal fs vs → kv.1 ∈ fs.map (·.name)
  | [], _, kv, h => by simp [marshal] at h
  | f :: fs, [], kv, h => by simp [marshal] at h
  | f :: fs, some v :: vs, kv, h => by
    simp only [marshal, List.mem_cons] at h
    rcases h with rfl | h
    · simp
    · simp [marshal_keys fs vs kv h]
  | f :: fs, none :: vs, kv, h => by
    simp only [marshal] at h
    simp [marshal_keys fs vs kv h]

theorem lookup_absent (form : List (Str × Str)) (k : Str) (h : ∀ kv ∈ form, kv.1 ≠ k) : lookup form k = none := by
  unfold lookup
  simp only [Option.map_eq_none_iff, List.find?_eq_none, decide_eq_true_eq]
  exact fun e he hk => h e he hk

theorem bind_skip : ∀ (fs : List Field) (k v : Str) (form : List (Str × Str)), k ∉ fs.map (·.name) →
    bind ((k, v) :: form) fs = bind form fs
  | [], _, _, _, _ => by simp [bind]
  | f :: fs, k, v, form, h => by
    simp only [List.map_cons, List.mem_cons, not_or] at h
    have hne : ¬ k = f.name := h.1
    have ih := bind_skip fs k v form h.2
    simp only [bind, lookup, List.find?_cons, hne, decide_false, ih]

/-- What `MarshalForm` writes for a body struct, `BindForm` reads back as that struct. -/
theorem bind_marshal : ∀ (fs : List Field) (vs : List (Option SVal)), (fs.map (·.name)).Nodup → wellTyped fs vs = true →
    bind (marshal fs vs) fs = some vs
  | [], [], _, _ => by simp [marshal, bind]
  | [], _ :: _, _, h => by simp [wellTyped] at h
  | _ :: _, [], _, h => by simp [wellTyped] at h
  | f :: fs, some v :: vs, hnd, hw => by
    simp only [List.map_cons, List.nodup_cons] at hnd
    simp only [wellTyped, Bool.and_eq_true] at hw
    have ih := bind_marshal fs vs hnd.2 hw.2
    simp only [marshal, bind, lookup, List.find?_cons, decide_true, Option.map_some, parse_render f.ty v hw.1,
      bind_skip fs f.name (render v) (marshal fs vs) hnd.1, ih]
  | f :: fs, none :: vs, hnd, hw => by
    simp only [List.map_cons, List.nodup_cons] at hnd
    simp only [wellTyped, Bool.and_eq_true] at hw
    have ih := bind_marshal fs vs hnd.2 hw.2
    have habs : lookup (marshal fs vs) f.name = none :=
      lookup_absent _ _ (fun kv hkv hk => hnd.1 (hk ▸ marshal_keys fs vs kv hkv))
    simp only [marshal, bind, habs, ih, hw.1, if_true]

end OapiVerif.Form
