import OapiVerif.Model.IntParse
namespace OapiVerif.IntParse

theorem itoa_digits (k : Nat) : (itoa k).all isDigit = true := by
  unfold itoa
  rw [List.all_eq_true]
  intro c hc
  obtain ⟨ch, hch, rfl⟩ := List.mem_map.mp hc
  have hl : ch ∈ Nat.toDigits 10 k := by
    have : (toString k).toList = Nat.toDigits 10 k := Nat.toList_repr
    rw [← this]; exact hch
  have hd := Nat.isDigit_of_mem_toDigits (by decide) (by decide) hl
  simp only [Char.isDigit, Bool.and_eq_true, decide_eq_true_eq] at hd
  simp only [isDigit, Bool.and_eq_true, decide_eq_true_eq]
  have h1 : (48 : UInt32) ≤ ch.val := hd.1
  have h2 : ch.val ≤ (57 : UInt32) := hd.2
  have e1 : (48 : UInt32).toNat = 48 := rfl
  have e2 : (57 : UInt32).toNat = 57 := rfl
  have g1 := UInt32.le_iff_toNat_le.mp h1
  have g2 := UInt32.le_iff_toNat_le.mp h2
  rw [e1] at g1
  rw [e2] at g2
  exact ⟨g1, g2⟩

theorem itoa_ne_nil (k : Nat) : itoa k ≠ [] := by
  unfold itoa
  have : (toString k).toList = Nat.toDigits 10 k := Nat.toList_repr
  rw [this]
  simp [Nat.toDigits_ne_nil]

theorem parseNat_itoa (k : Nat) : parseNat (itoa k) = some k := by
  unfold parseNat
  have h1 : (itoa k).isEmpty = false := by
    cases h : itoa k with
    | nil => exact absurd h (itoa_ne_nil k)
    | cons _ _ => rfl
  simp only [h1, itoa_digits k, Bool.not_true, Bool.or_self, Bool.false_eq_true, if_false, Option.some.injEq]
  unfold itoa
  have : (toString k).toList = Nat.toDigits 10 k := Nat.toList_repr
  rw [this, List.foldl_map]
  have h := @Nat.ofDigitChars_toDigits 10 k (by decide) (by decide)
  rw [Nat.ofDigitChars_eq_foldl] at h
  simpa using h

end OapiVerif.IntParse

namespace OapiVerif.IntParse

theorem itoa_head (k : Nat) : ∃ c r, itoa k = c :: r ∧ isDigit c = true := by
  cases h : itoa k with
  | nil => exact absurd h (itoa_ne_nil k)
  | cons c r =>
    refine ⟨c, r, rfl, ?_⟩
    have := itoa_digits k
    rw [h] at this
    simp only [List.all_cons, Bool.and_eq_true] at this
    exact this.1

theorem digit_not_sign {c : Nat} (h : isDigit c = true) : c ≠ 45 ∧ c ≠ 43 := by
  simp only [isDigit, Bool.and_eq_true, decide_eq_true_eq] at h
  omega

theorem render_neg (v : Int) (hv : v < 0) : isNeg (renderInt v) = true ∧ body (renderInt v) = itoa v.natAbs := by
  simp [renderInt, hv, isNeg, body]

theorem render_nonneg (v : Int) (hv : ¬v < 0) : isNeg (renderInt v) = false ∧ body (renderInt v) = itoa v.natAbs := by
  obtain ⟨c, r, hcr, hc⟩ := itoa_head v.natAbs
  have hs := digit_not_sign hc
  simp [renderInt, hv, isNeg, body, hcr, hs.1, hs.2]

theorem parse_render_eq (bits : Nat) (v : Int) :
    parseInt bits (renderInt v) = if InRange bits v then .ok v else .error .rejected := by
  unfold parseInt
  by_cases hv : v < 0
  · obtain ⟨h1, h2⟩ := render_neg v hv
    have hval : signed true v.natAbs = v := by simp only [signed, if_true]; omega
    rw [h1, h2, parseNat_itoa]
    simp only [finish, hval]
  · obtain ⟨h1, h2⟩ := render_nonneg v hv
    have hval : signed false v.natAbs = v := by simp only [signed, Bool.false_eq_true, if_false]; omega
    rw [h1, h2, parseNat_itoa]
    simp only [finish, hval]

/-- what the client renders, the server reads back — for every value of the destination's range -/
theorem parseInt_render (bits : Nat) (v : Int) (h : InRange bits v) : parseInt bits (renderInt v) = .ok v := by
  rw [parse_render_eq]; simp [h]

/-- a value outside the destination's range is refused as such -/
theorem parseInt_render_out_of_range (bits : Nat) (v : Int) (h : ¬InRange bits v) :
    parseInt bits (renderInt v) = .error .rejected := by
  rw [parse_render_eq]; simp [h]

/-- whatever is accepted fits the destination -/
theorem parseInt_ok_inRange (bits : Nat) (s : Str) (v : Int) (h : parseInt bits s = .ok v) : InRange bits v := by
  unfold parseInt at h
  cases ho : parseNat (body s) with
  | none => simp [ho, finish] at h
  | some n =>
    simp only [ho, finish] at h
    split at h
    · rename_i hr
      simp only [Except.ok.injEq] at h
      rw [← h]; exact hr
    · simp at h

/-- a text holding anything but digits and a leading sign is refused -/
theorem parseInt_syntax (bits : Nat) (s : Str) (c : Nat) (hc : c ∈ s) (hnd : isDigit c = false) (h45 : c ≠ 45) (h43 : c ≠ 43) :
    parseInt bits s = .error .rejected := by
  have hds : ∀ ds : Str, c ∈ ds → parseNat ds = none := by
    intro ds hmem
    unfold parseNat
    have : ds.all isDigit = false := by
      rw [List.all_eq_false]
      exact ⟨c, hmem, by simp [hnd]⟩
    simp [this]
  have hmem : c ∈ body s := by
    unfold body
    split
    · rename_i hsign
      cases s with
      | nil => simp at hc
      | cons x r =>
        simp only [List.head?_cons, Bool.or_eq_true, beq_iff_eq, Option.some.injEq] at hsign
        rcases List.mem_cons.mp hc with rfl | hr
        · rcases hsign with h | h
          · exact absurd h h45
          · exact absurd h h43
        · simpa using hr
    · exact hc
  unfold parseInt
  rw [hds _ hmem]
  rfl

end OapiVerif.IntParse
