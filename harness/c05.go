package main

import (
	"fmt"
	"go/ast"
	"net/url"
	"os"
	"path/filepath"
	"sort"
	"strconv"
	"strings"

	"github.com/getkin/kin-openapi/openapi3"
	"github.com/oapi-codegen/oapi-codegen/v2/pkg/codegen"
	"github.com/oapi-codegen/oapi-codegen/v2/pkg/util"
)

// C05 — parameter wire format follows the OpenAPI style rules.

var styleCode = map[string]int{"": 0, "simple": 1, "label": 2, "matrix": 3, "form": 4, "deepObject": 5}
var locCode = map[string]int{"path": 0, "query": 1, "header": 2, "cookie": 3}
var explodeCode = map[string]int{"": 0, "true": 1, "false": 2}

type c05Site struct {
	Side, Fn, Loc, Style, Explode int
	Required                      bool
	GotStyle                      int
	GotExplode, GotRequired       bool
	GotLoc                        int
	Where                         string
}

func litString(e ast.Expr) (string, bool) {
	bl, ok := e.(*ast.BasicLit)
	if !ok {
		return "", false
	}
	s, err := strconv.Unquote(bl.Value)
	return s, err == nil
}

func identBool(e ast.Expr) (bool, bool) {
	id, ok := e.(*ast.Ident)
	if !ok {
		return false, false
	}
	return id.Name == "true", id.Name == "true" || id.Name == "false"
}

func locFromExpr(e ast.Expr) int {
	se, ok := e.(*ast.SelectorExpr)
	if !ok {
		return 9
	}
	switch se.Sel.Name {
	case "ParamLocationPath":
		return 0
	case "ParamLocationQuery":
		return 1
	case "ParamLocationHeader":
		return 2
	case "ParamLocationCookie":
		return 3
	}
	return 9
}

// extractSites lists every runtime.StyleParamWithLocation / BindStyledParameterWithOptions /
// BindQueryParameter call of a generated file together with the operation it belongs to.
func extractSites(f *ast.File, side int, byID map[int]PShape) (sites []c05Site, unknown []string) {
	for _, d := range f.Decls {
		fd, ok := d.(*ast.FuncDecl)
		if !ok || fd.Body == nil {
			continue
		}
		m := opRe.FindStringSubmatch(fd.Name.Name)
		ast.Inspect(fd.Body, func(n ast.Node) bool {
			ce, ok := n.(*ast.CallExpr)
			if !ok {
				return true
			}
			se, ok := ce.Fun.(*ast.SelectorExpr)
			if !ok {
				return true
			}
			pk, _ := se.X.(*ast.Ident)
			if pk == nil || pk.Name != "runtime" {
				return true
			}
			fn := -1
			switch se.Sel.Name {
			case "StyleParamWithLocation":
				fn = 0
			case "BindStyledParameterWithOptions":
				fn = 1
			case "BindQueryParameter":
				fn = 2
			case "StyleParam", "BindStyledParameter", "BindStyledParameterWithLocation":
				unknown = append(unknown, fd.Name.Name+": legacy runtime call "+se.Sel.Name)
				return true
			default:
				return true
			}
			if m == nil {
				unknown = append(unknown, fd.Name.Name+": runtime call outside an operation function")
				return true
			}
			var id int
			fmt.Sscanf(m[1], "%d", &id)
			sh, ok := byID[id]
			if !ok {
				return true
			}
			row := c05Site{Side: side, Fn: fn, Loc: locCode[sh.Loc], Style: styleCode[sh.Style], Explode: explodeCode[sh.Explode],
				Required: sh.Required || sh.Loc == "path", GotLoc: 9, Where: fmt.Sprintf("%s:%s", fd.Name.Name, sh.Desc())}
			bad := func(why string) { unknown = append(unknown, fd.Name.Name+": "+why) }
			switch fn {
			case 0: // (style, explode, name, location, value)
				if len(ce.Args) != 5 {
					bad("arity")
					return true
				}
				st, ok1 := litString(ce.Args[0])
				ex, ok2 := identBool(ce.Args[1])
				if !ok1 || !ok2 {
					bad("non-literal style/explode")
					return true
				}
				row.GotStyle, row.GotExplode, row.GotRequired, row.GotLoc = styleCode[st], ex, row.Required, locFromExpr(ce.Args[3])
			case 1: // (style, name, value, dest, opts)
				if len(ce.Args) != 5 {
					bad("arity")
					return true
				}
				st, ok1 := litString(ce.Args[0])
				cl, ok2 := ce.Args[4].(*ast.CompositeLit)
				if !ok1 || !ok2 {
					bad("non-literal style/options")
					return true
				}
				row.GotStyle = styleCode[st]
				for _, el := range cl.Elts {
					kv, ok := el.(*ast.KeyValueExpr)
					if !ok {
						continue
					}
					k, _ := kv.Key.(*ast.Ident)
					if k == nil {
						continue
					}
					switch k.Name {
					case "ParamLocation":
						row.GotLoc = locFromExpr(kv.Value)
					case "Explode":
						row.GotExplode, _ = identBool(kv.Value)
					case "Required":
						row.GotRequired, _ = identBool(kv.Value)
					}
				}
			case 2: // (style, explode, required, name, values, dest)
				if len(ce.Args) != 6 {
					bad("arity")
					return true
				}
				st, ok1 := litString(ce.Args[0])
				ex, ok2 := identBool(ce.Args[1])
				rq, ok3 := identBool(ce.Args[2])
				if !ok1 || !ok2 || !ok3 {
					bad("non-literal arguments")
					return true
				}
				row.GotStyle, row.GotExplode, row.GotRequired = styleCode[st], ex, rq
			}
			sites = append(sites, row)
			return true
		})
	}
	return
}

func c05Tables(ctx *Ctx) (defaults [][5]interface{}, sites []c05Site, notes []string, err error) {
	// 1. defaults: execute ParameterDefinition.Style()/Explode() on every supported triple
	styles := map[string][]string{"path": {"", "simple", "label", "matrix"}, "query": {"", "form", "deepObject"}, "header": {"", "simple"}, "cookie": {"", "form"}}
	for _, loc := range []string{"path", "query", "header", "cookie"} {
		for _, st := range styles[loc] {
			for _, ex := range []string{"", "true", "false"} {
				if st == "deepObject" && ex == "" {
					continue // OAS lists deepObject only with explode=true; no default to compare with
				}
				p := &openapi3.Parameter{Name: "v", In: loc, Style: st}
				if ex != "" {
					b := ex == "true"
					p.Explode = &b
				}
				pd := codegen.ParameterDefinition{ParamName: "v", In: loc, Spec: p}
				defaults = append(defaults, [5]interface{}{locCode[loc], styleCode[st], explodeCode[ex], styleCode[pd.Style()], pd.Explode()})
			}
		}
	}
	// 2. call sites of the code generated for the shape space
	shapes := c05Shapes()
	byID := map[int]PShape{}
	var schemaShapes []PShape
	for _, s := range shapes {
		if s.Mode == "schema" {
			byID[s.ID] = s
			schemaShapes = append(schemaShapes, s)
		}
	}
	doc := shapesDoc(shapes)
	for side, fw := range append([]string{"client"}, allFrameworks...) {
		spec, lerr := loadDoc(doc)
		if lerr != nil {
			return nil, nil, nil, lerr
		}
		var cfg codegen.Configuration
		cfg.PackageName = "main"
		cfg.OutputOptions.SkipFmt = true
		if fw == "client" {
			cfg.Generate.Client = true
		} else {
			setFramework(&cfg, fw)
		}
		src, gerr := generate(spec, cfg)
		if gerr != nil {
			notes = append(notes, fmt.Sprintf("generr:%s:%v", fw, gerr))
			continue
		}
		f, _, perr := parseGo(src)
		if perr != nil {
			notes = append(notes, fmt.Sprintf("parseerr:%s:%v", fw, perr))
			continue
		}
		ss, unknown := extractSites(f, side, byID)
		for _, u := range unknown {
			notes = append(notes, "unknown-site:"+fw+":"+u)
		}
		// completeness: every schema-mode shape must have exactly one site on this side
		count := map[string]int{}
		for _, s := range ss {
			count[s.Where]++
		}
		for _, sh := range schemaShapes {
			n := 0
			for w, c := range count {
				if strings.HasSuffix(w, ":"+sh.Desc()) && strings.Contains(w, sh.OpID()) {
					n += c
				}
			}
			if n != 1 {
				notes = append(notes, fmt.Sprintf("site-count:%s:%s has %d runtime call sites", fw, sh.Desc(), n))
			}
		}
		sites = append(sites, ss...)
	}
	// 3. a specification split across two documents that both have a parameter component of one name with another
	// explode: the main document refers to its own (form, explode=false) and takes over, by reference, a path item of the
	// other document whose operation refers to that document's component (no style, no explode)
	ms, mnotes, merr := c05MultiDocSites(ctx)
	if merr != nil {
		return nil, nil, nil, merr
	}
	sites = append(sites, ms...)
	notes = append(notes, mnotes...)
	return
}

func c05MultiDocSites(ctx *Ctx) (sites []c05Site, notes []string, err error) {
	arr := PType{"arrI", "arr", J{"type": "array", "items": J{"type": "integer"}}}
	own := PShape{ID: 9002, Loc: "query", Style: "form", Explode: "false", T: arr, Required: true, Mode: "schema"}
	foreign := PShape{ID: 9001, Loc: "query", T: arr, Required: true, Mode: "schema"}
	ok204 := J{"204": J{"description": "nothing"}}
	ref := []interface{}{J{"$ref": "#/components/parameters/Ids"}}
	common := J{"openapi": "3.0.3", "info": J{"title": "common", "version": "1"},
		"paths":      J{"/shared": J{"get": J{"operationId": "P9001", "parameters": ref, "responses": ok204}}},
		"components": J{"parameters": J{"Ids": J{"name": "v", "in": "query", "required": true, "schema": arr.Schema}}}}
	// /local sorts before /shared: the main document's component is described first
	api := J{"openapi": "3.0.3", "info": J{"title": "api", "version": "1"},
		"paths":      J{"/local": J{"get": J{"operationId": "P9002", "parameters": ref, "responses": ok204}}, "/shared": J{"$ref": "common.json#/paths/~1shared"}},
		"components": J{"parameters": J{"Ids": J{"name": "v", "in": "query", "required": true, "style": "form", "explode": false, "schema": arr.Schema}}}}
	dir := filepath.Join(ctx.Work, "c05md")
	if err = os.MkdirAll(dir, 0o755); err != nil {
		return
	}
	defer os.RemoveAll(dir)
	_ = os.WriteFile(filepath.Join(dir, "common.json"), []byte(Canon(common)), 0o644)
	_ = os.WriteFile(filepath.Join(dir, "api.json"), []byte(Canon(api)), 0o644)
	byID := map[int]PShape{own.ID: own, foreign.ID: foreign}
	for side, fw := range append([]string{"client"}, allFrameworks...) {
		spec, lerr := util.LoadSwagger(filepath.Join(dir, "api.json"))
		if lerr != nil {
			return nil, nil, lerr
		}
		var cfg codegen.Configuration
		cfg.PackageName = "main"
		cfg.OutputOptions.SkipFmt = true
		cfg.ImportMapping = map[string]string{"common.json": "verifrun/c05md/common"}
		if fw == "client" {
			cfg.Generate.Client = true
		} else {
			setFramework(&cfg, fw)
		}
		src, gerr := generate(spec, cfg)
		if gerr != nil {
			notes = append(notes, fmt.Sprintf("generr:multidoc:%s:%v", fw, gerr))
			continue
		}
		f, _, perr := parseGo(src)
		if perr != nil {
			notes = append(notes, fmt.Sprintf("parseerr:multidoc:%s:%v", fw, perr))
			continue
		}
		ss, unknown := extractSites(f, side, byID)
		for _, u := range unknown {
			notes = append(notes, "unknown-site:multidoc:"+fw+":"+u)
		}
		if len(ss) != 2 {
			notes = append(notes, fmt.Sprintf("site-count:multidoc:%s: %d runtime call sites for the two operations", fw, len(ss)))
		}
		sites = append(sites, ss...)
	}
	return
}

func genC05(ctx *Ctx) error {
	if err := genStyleDefaults(ctx); err != nil {
		return err
	}
	defaults, sites, _, err := c05Tables(ctx)
	if err != nil {
		return err
	}
	var b strings.Builder
	b.WriteString("import OapiVerif.Model.CodecTables\n-- GENERATED by `harness gen-c05` from /repo's working tree (TAB: executed defaults; FACT: call-site literals). Do not edit.\nnamespace OapiVerif.Gen.C05\nopen OapiVerif.Codec\n\n")
	b.WriteString("def defaultsTable : List DefaultRow := [\n")
	for i, d := range defaults {
		sep := ","
		if i == len(defaults)-1 {
			sep = ""
		}
		fmt.Fprintf(&b, "  ⟨%v, %v, %v, %v, %v⟩%s\n", d[0], d[1], d[2], d[3], d[4], sep)
	}
	b.WriteString("]\n\n")
	const chunk = 200
	n := 0
	for i := 0; i < len(sites); i += chunk {
		fmt.Fprintf(&b, "def sites%d : List SiteRow := [\n", n)
		end := i + chunk
		if end > len(sites) {
			end = len(sites)
		}
		for j := i; j < end; j++ {
			s := sites[j]
			sep := ","
			if j == end-1 {
				sep = ""
			}
			fmt.Fprintf(&b, "  ⟨%d, %d, %d, %d, %d, %v, %d, %v, %v, %d⟩%s\n", s.Side, s.Fn, s.Loc, s.Style, s.Explode, s.Required, s.GotStyle, s.GotExplode, s.GotRequired, s.GotLoc, sep)
		}
		b.WriteString("]\n")
		n++
	}
	parts := []string{}
	for i := 0; i < n; i++ {
		parts = append(parts, fmt.Sprintf("sites%d", i))
	}
	if len(parts) == 0 {
		parts = []string{"[]"}
	}
	b.WriteString("def siteTable : List SiteRow := " + strings.Join(parts, " ++ ") + "\n")
	b.WriteString("end OapiVerif.Gen.C05\n")
	return os.WriteFile(filepath.Join(ctx.GenDir, "C05.lean"), []byte(b.String()), 0o644)
}

// ---- RUN ----

func (s PShape) leanReq(fn string, v PValue, loc string) map[string]interface{} {
	return map[string]interface{}{"fn": fn, "style": s.WireStyle(), "explode": s.EffExplode(), "name": hx(s.ParamName()), "loc": loc, "val": v.Lean()}
}

// wireFragment extracts the part of a client-built request that carries the parameter.
func (s PShape) wireFragment(req J) (string, bool) {
	u, _ := req["url"].(string)
	switch s.Loc {
	case "path":
		pre := fmt.Sprintf("http://h/p%d/", s.ID)
		if !strings.HasPrefix(u, pre) {
			return "", false
		}
		rest := u[len(pre):]
		if i := strings.IndexAny(rest, "?#"); i >= 0 {
			return rest[:i], true
		}
		return rest, true
	case "query":
		if i := strings.Index(u, "?"); i >= 0 {
			return u[i+1:], true
		}
		return "", true
	}
	hs, _ := req["headers"].([]interface{})
	for _, h := range hs {
		kv, _ := h.([]interface{})
		if len(kv) != 2 {
			continue
		}
		k, _ := kv[0].(string)
		val, _ := kv[1].(string)
		if s.Loc == "header" && strings.EqualFold(k, headerParamName) {
			return val, true
		}
		if s.Loc == "cookie" && strings.EqualFold(k, "Cookie") {
			if !strings.HasPrefix(val, "v=") {
				return "", false
			}
			c := val[2:]
			if len(c) >= 2 && c[0] == '"' && c[len(c)-1] == '"' {
				c = c[1 : len(c)-1] // net/http quotes cookie values containing space or comma
			}
			return c, true
		}
	}
	return "", false
}

func (s PShape) buildRequest(wire string) J {
	req := J{"method": "GET", "url": fmt.Sprintf("http://h/p%d", s.ID)}
	switch s.Loc {
	case "path":
		req["url"] = fmt.Sprintf("http://h/p%d/%s", s.ID, wire)
	case "query":
		req["url"] = fmt.Sprintf("http://h/p%d?%s", s.ID, wire)
	case "header":
		req["headers"] = [][2]string{{headerParamName, wire}}
	case "cookie":
		c := wire
		if strings.ContainsAny(c, " ,") {
			c = `"` + c + `"`
		}
		req["headers"] = [][2]string{{"Cookie", "v=" + c}}
	}
	return req
}

// cookieCarries: bytes net/http cannot carry in a cookie value at all (outside the codec's control).
func cookieCarries(v PValue) bool {
	for _, p := range append(append([]string{v.S}, v.Xs...), v.Vals...) {
		for i := 0; i < len(p); i++ {
			if p[i] >= 0x7f || p[i] < 0x20 || p[i] == ';' || p[i] == '"' || p[i] == '\\' {
				return false
			}
		}
	}
	return true
}

func runC05(ctx *Ctx) error {
	ctx.Res.Rule = "TAB: ParameterDefinition.Style()/Explode() executed on every (location, style?, explode?) and the literal arguments of every runtime call in code generated for the whole shape space (client + 7 servers) -> Gen/C05.lean; RUN: per styled shape and framework, seeded representable values: (a) the request built by the generated client carries exactly oasWire (queries compared after URL-decoding), (b) a hand-serialised oasWire request is decoded by the generated server to the value; CORR of the Lean codec vs the pinned runtime; non-trivial = every case Session 9: TRANS Gen/StyleDefaults.lean; call sites of a two-document specification with same-named parameter components; three cookie parameters in one request; optional query parameters next to a form body with the same field names."
	if err := corrCodec(ctx, "C05"); err != nil {
		return err
	}
	// the declarations every generated signature is built from: CombineOperationParameters vs Model/Combine.lean,
	// also over the operations of one path item in turn (nothing carries over, the arguments are not modified)
	if err := c03CombineCorr(ctx, ctx.N(600, 6000)); err != nil {
		return err
	}
	if err := c05NamedParams(ctx); err != nil {
		return err
	}
	defaults, sites, notes, err := c05Tables(ctx)
	if err != nil {
		return err
	}
	for _, n := range notes {
		k := strings.SplitN(n, ":", 3)
		ctx.Res.Violate("c05:"+k[0]+":"+k[1]+":"+Hash(n), "call-site table: "+n, J{"note": n})
	}
	ctx.Res.Extra["defaults_rows"] = len(defaults)
	ctx.Res.Extra["site_rows"] = len(sites)
	// the same expectations as the Lean obligations, so that a broken table row comes with a replay
	for _, d := range defaults {
		loc, st, ex := d[0].(int), d[1].(int), d[2].(int)
		wantSt := st
		if st == 0 {
			wantSt = map[int]int{0: 1, 1: 4, 2: 1, 3: 4}[loc]
		}
		wantEx := wantSt == 4
		if ex == 1 {
			wantEx = true
		} else if ex == 2 {
			wantEx = false
		}
		ctx.Res.Eval(J{"defaults": d}, true)
		if d[3].(int) != wantSt || d[4].(bool) != wantEx {
			ctx.Res.Violate(fmt.Sprintf("default:%d:%d:%d", loc, st, ex), fmt.Sprintf("default style/explode for (loc=%d style=%d explode=%d) is (%v,%v), OAS prescribes (%d,%v)", loc, st, ex, d[3], d[4], wantSt, wantEx),
				J{"row": d})
		}
	}
	for _, s := range sites {
		ctx.Res.Eval(J{"site": s.Where, "side": s.Side}, true)
		wantSt := s.Style
		if wantSt == 0 {
			wantSt = map[int]int{0: 1, 1: 4, 2: 1, 3: 4}[s.Loc]
		}
		wantEx := wantSt == 4
		if s.Explode == 1 {
			wantEx = true
		} else if s.Explode == 2 {
			wantEx = false
		}
		if s.Loc == 3 {
			wantSt = 1
		}
		okLoc := s.GotLoc == s.Loc
		if s.Fn == 2 {
			okLoc = s.Loc == 1
		}
		if s.GotStyle != wantSt || s.GotExplode != wantEx || s.GotRequired != s.Required || !okLoc {
			side := append([]string{"client"}, allFrameworks...)[s.Side]
			ctx.Res.Violate(fmt.Sprintf("site:%s:fn%d:%s", side, s.Fn, strings.SplitN(s.Where, ":", 2)[1]),
				fmt.Sprintf("%s %s: runtime call carries style=%d explode=%v required=%v loc=%d; prescribed style=%d explode=%v required=%v loc=%d", side, s.Where, s.GotStyle, s.GotExplode, s.GotRequired, s.GotLoc, wantSt, wantEx, s.Required, s.Loc),
				J{"site": s})
		}
	}
	// RUN
	var shapes []PShape
	for _, s := range c05Shapes() {
		// the Lean codec model has no deepObject serialiser: its call sites are in the table above, its wire form is not compared
		if s.Mode == "schema" && s.Style != "deepObject" {
			shapes = append(shapes, s)
		}
	}
	run, err := setupParamRun(ctx, shapes, allFrameworks, ctx.Res.Violate)
	if err != nil {
		return err
	}
	defer run.Kit.Close()
	nvals := ctx.N(2, 12)
	for pi, pp := range run.Pkgs {
		if pp.P.Bin == "" {
			continue
		}
		for _, s := range pp.Shapes {
			r := NewRng(uint64(ctx.Seed)*2000003 + uint64(s.ID)*104729 + uint64(pi))
			for i := 0; i < nvals; i++ {
				v := genValue(r, s)
				if !transportOK(s.Loc, v) || (s.Loc == "cookie" && !cookieCarries(v)) {
					continue
				}
				var want string
				if err := ctx.Model(s.leanReq("oasWire", v, s.Loc), &want); err != nil {
					return err
				}
				wantWire := unhx(want)
				// (a) client emits the OAS serialisation (checked once per shape: the client is the same in every package)
				if pi == 0 {
					ctx.Res.Eval(J{"shape": s.Desc(), "value": v.JSON, "side": "client"}, true)
					ctx.Res.Count("client:" + s.Loc)
					resp, err := pp.P.Call(J{"do": "client", "fn": "New" + s.OpID() + "Request", "args": s.clientArgs(&v)})
					if err != nil {
						return err
					}
					req, _ := resp["req"].(map[string]interface{})
					frag, ok := "", false
					if req != nil {
						frag, ok = s.wireFragment(req)
					}
					same := ok && frag == wantWire
					if ok && s.Loc == "query" {
						a, e1 := url.ParseQuery(frag)
						b, e2 := url.ParseQuery(wantWire)
						same = e1 == nil && e2 == nil && Canon(a) == Canon(b)
					}
					if !same {
						cls := c05Class(s, v, func(x PValue) bool {
							var w2 string
							_ = ctx.Model(s.leanReq("oasWire", x, s.Loc), &w2)
							rp, _ := pp.P.Call(J{"do": "client", "fn": "New" + s.OpID() + "Request", "args": s.clientArgs(&x)})
							rq, _ := rp["req"].(map[string]interface{})
							if rq == nil {
								return false
							}
							fr, ok := s.wireFragment(rq)
							if s.Loc == "query" {
								a, e1 := url.ParseQuery(fr)
								b, e2 := url.ParseQuery(unhx(w2))
								return ok && e1 == nil && e2 == nil && Canon(a) == Canon(b)
							}
							return ok && fr == unhx(w2)
						})
						ctx.Res.Violate(fmt.Sprintf("client-wire:%s:%s:%s", s.Loc, shapeKindClass(s), cls),
							fmt.Sprintf("client %s value %s: wire %q, OAS prescribes %q", s.Desc(), Canon(v.JSON), frag, wantWire),
							J{"shape": s.Desc(), "value": v.JSON, "got": frag, "want": wantWire, "resp": resp, "doc": shapesDoc([]PShape{s})})
					}
				}
				// (b) the server accepts the OAS serialisation from any conforming client
				ctx.Res.Eval(J{"fw": pp.FW, "shape": s.Desc(), "value": v.JSON, "side": "server"}, true)
				ctx.Res.Count("server:" + pp.FW)
				okS := func(x PValue, wire string) (bool, string, J) {
					resp, err := pp.P.Call(J{"do": "serve", "req": s.buildRequest(wire), "opt": J{"stop": -1, "sstop": -1}})
					if err != nil {
						return false, "died", nil
					}
					call, one := firstCall(resp)
					if !one {
						return false, fmt.Sprintf("rejected(status=%v)", resp["status"]), resp
					}
					got := s.receivedValue(call)
					// expected: the jsonable form of the value, obtained through the client's decoder
					echo, err := pp.P.Call(J{"do": "client", "fn": "New" + s.OpID() + "Request", "args": s.clientArgs(&x)})
					if err != nil {
						return false, "died", nil
					}
					sent, _ := echo["sent"].([]interface{})
					if Canon(got) != Canon(s.sentValue(sent)) {
						return false, "decoded-differently", J{"got": got, "want": s.sentValue(sent), "resp": resp}
					}
					return true, "", nil
				}
				if ok, why, det := okS(v, wantWire); !ok {
					cls := c05Class(s, v, func(x PValue) bool {
						var w2 string
						_ = ctx.Model(s.leanReq("oasWire", x, s.Loc), &w2)
						o, _, _ := okS(x, unhx(w2))
						return o
					})
					ctx.Res.Violate(fmt.Sprintf("server-accepts:%s:%s:%s:%s", pp.FW, s.Loc, shapeKindClass(s), cls),
						fmt.Sprintf("%s %s: OAS serialisation %q of %s: %s", pp.FW, s.Desc(), wantWire, Canon(v.JSON), why),
						J{"fw": pp.FW, "shape": s.Desc(), "value": v.JSON, "wire": wantWire, "why": why, "detail": det, "doc": shapesDoc([]PShape{s})})
				}
			}
		}
	}
	return nil
}

// c05Class: "any" when the tamest value already fails, else the single atom class that is enough.
func c05Class(s PShape, v PValue, ok func(PValue) bool) string {
	if !ok(tameValue(s)) {
		return "any"
	}
	if s.T.Kind == "str" || s.T.Kind == "arrS" || s.T.Kind == "obj" {
		for _, a := range strAtoms {
			if !contains(v.Classes, a.Class) || s.forbidden("")[a.Class] {
				continue
			}
			if !ok(singleAtomValue(s, a)) {
				return a.Class
			}
		}
	}
	return classKey(v.Classes)
}

func init() {
	register("c05", runC05)
	register("gen-c05", genC05)
}

// c05Shapes: the shape space minus deepObject with no explode given. OAS defines deepObject only with explode=true, and its
// literal default for a non-form style (false) has no serialisation, so there is no prescribed wire form to compare with; the
// round trip of that shape is checked under C04.
func c05Shapes() []PShape {
	var out []PShape
	for _, s := range allShapes() {
		if s.Style == "deepObject" && s.Explode == "" {
			continue
		}
		out = append(out, s)
	}
	return out
}

// c05NamedParams: parameters whose name is not a Go identifier spelling (user_id, item-ids, the keyword type). The styles
// that put the name on the wire (matrix in the path, form in the query and in a cookie) must carry the name of the
// document, not the name of the Go argument or field.
func c05NamedParams(ctx *Ctx) error {
	kit, err := NewRunKit(ctx.Work + "/c05named")
	if err != nil {
		return err
	}
	defer kit.Close()
	str := J{"type": "string"}
	arr := J{"type": "array", "items": J{"type": "integer"}}
	p := func(n, in, style string, explode bool, sch J) J {
		return J{"name": n, "in": in, "required": true, "style": style, "explode": explode, "schema": sch}
	}
	ok := J{"204": J{"description": "d"}}
	doc := J{"openapi": "3.0.3", "info": J{"title": "t", "version": "1"}, "paths": J{
		"/m1/{user_id}":        J{"get": J{"operationId": "m1", "parameters": []interface{}{p("user_id", "path", "matrix", false, str)}, "responses": ok}},
		"/m2/{item-ids}":       J{"get": J{"operationId": "m2", "parameters": []interface{}{p("item-ids", "path", "matrix", true, arr)}, "responses": ok}},
		"/m3/{item-ids}":       J{"get": J{"operationId": "m3", "parameters": []interface{}{p("item-ids", "path", "matrix", false, arr)}, "responses": ok}},
		"/m4/{type}":           J{"get": J{"operationId": "m4", "parameters": []interface{}{p("type", "path", "matrix", false, str)}, "responses": ok}},
		"/m5/{user_id}/{type}": J{"get": J{"operationId": "m5", "parameters": []interface{}{p("type", "path", "label", false, str), p("user_id", "path", "matrix", true, str)}, "responses": ok}},
		// a query parameter with the name of the path variable, declared before it: each keeps its own style
		"/n1/{id}": J{"get": J{"operationId": "n1", "parameters": []interface{}{p("id", "query", "form", true, arr), p("id", "path", "simple", false, arr)}, "responses": ok}},
		// three query parameters and a header parameter whose name sorts before theirs: every parameter goes where it is declared
		"/multi3": J{"get": J{"operationId": "multi3", "parameters": []interface{}{p("limit", "query", "form", true, J{"type": "integer"}), p("offset", "query", "form", true, J{"type": "integer"}), p("sort", "query", "form", true, str), p("X-Request-Id", "header", "simple", false, str)}, "responses": ok}},
		"/q1":     J{"get": J{"operationId": "q1", "parameters": []interface{}{p("user_id", "query", "form", true, str), p("item-ids", "query", "form", true, arr), p("type", "query", "form", false, arr)}, "responses": ok}},
		"/c1":     J{"get": J{"operationId": "c1", "parameters": []interface{}{p("user_id", "cookie", "form", false, str)}, "responses": ok}},
		// three cookie parameters in one request: one Cookie header with all of them
		"/c3": J{"get": J{"operationId": "c3", "parameters": []interface{}{p("sid", "cookie", "form", false, str), p("theme", "cookie", "form", false, str), p("n", "cookie", "form", false, J{"type": "integer"})}, "responses": ok}},
		// optional query parameters next to a form body whose fields have the same names: the parameters are what the query
		// says (the body is the body)
		"/f2": J{"post": J{"operationId": "f2", "parameters": []interface{}{
			J{"name": "limit", "in": "query", "schema": J{"type": "integer"}}, J{"name": "tags", "in": "query", "schema": arr}, J{"name": "q", "in": "query", "schema": str}},
			"requestBody": J{"required": true, "content": J{"application/x-www-form-urlencoded": J{"schema": J{"type": "object", "properties": J{"limit": J{"type": "integer"}, "tags": J{"type": "string"}, "q": str}}}}},
			"responses":   ok}},
	}}
	type cse struct {
		fn      string
		args    []interface{}
		url     string // the request line OAS prescribes
		cookie  string
		handler J // what the handler receives, under the Go argument names (arrays only: the pinned runtime leaves the
		// prefix on label/matrix primitives, recorded under C04)
	}
	cases := []cse{
		{"NewM1Request", []interface{}{"http://h", "u5"}, "http://h/m1/;user_id=u5", "", nil},
		{"NewM2Request", []interface{}{"http://h", []int{3, 4}}, "http://h/m2/;item-ids=3;item-ids=4", "", J{"itemIds": []int{3, 4}}},
		{"NewM3Request", []interface{}{"http://h", []int{3, 4}}, "http://h/m3/;item-ids=3,4", "", J{"itemIds": []int{3, 4}}},
		{"NewM4Request", []interface{}{"http://h", "blue"}, "http://h/m4/;type=blue", "", nil},
		{"NewM5Request", []interface{}{"http://h", "u5", "blue"}, "http://h/m5/;user_id=u5/.blue", "", nil},
		{"NewN1Request", []interface{}{"http://h", []int{3, 4, 5}, J{"id": []int{6, 7}}}, "http://h/n1/3,4,5?id=6&id=7", "", J{"id": []int{3, 4, 5}, "params": J{"Id": []int{6, 7}}}},
		{"NewMulti3Request", []interface{}{"http://h", J{"limit": 10, "offset": 20, "sort": "asc", "X-Request-Id": "r1"}}, "http://h/multi3?limit=10&offset=20&sort=asc", "", J{"params": J{"Limit": 10, "Offset": 20, "Sort": "asc", "XRequestId": "r1"}}},
		{"NewQ1Request", []interface{}{"http://h", J{"user_id": "u5", "item-ids": []int{3, 4}, "type": []int{7, 8}}}, "http://h/q1?item-ids=3&item-ids=4&type=7%2C8&user_id=u5", "", nil},
		{"NewC1Request", []interface{}{"http://h", J{"user_id": "u5"}}, "http://h/c1", "user_id=u5", nil},
		{"NewC3Request", []interface{}{"http://h", J{"sid": "s1", "theme": "dark", "n": 7}}, "http://h/c3", "n=7; sid=s1; theme=dark", J{"params": J{"Sid": "s1", "Theme": "dark", "N": 7}}},
		{"NewF2RequestWithFormdataBody", []interface{}{"http://h", J{"tags": []int{3, 4}}, J{"limit": 5, "tags": "9", "q": "body"}}, "http://h/f2?tags=3&tags=4", "", J{"params": J{"Limit": nil, "Tags": []int{3, 4}, "Q": nil}}},
		{"NewF2RequestWithFormdataBody", []interface{}{"http://h", J{"limit": 1, "q": "query"}, J{"limit": 5, "tags": "9", "q": "body"}}, "http://h/f2?limit=1&q=query", "", J{"params": J{"Limit": 1, "Tags": nil, "Q": "query"}}},
	}
	var cfg codegen.Configuration
	cfg.Generate.Models, cfg.Generate.Client = true, true
	pk := kit.Add(&RunPkg{Name: "c05named", FW: "chi", Doc: doc, Cfg: cfg})
	kit.Prepare()
	if pk.GenErr != nil || pk.BuildErr != "" {
		ctx.Res.Violate("named:not-built", fmt.Sprintf("a document with parameters called user_id, item-ids, type is not generated or does not build: %v %s", pk.GenErr, firstLines(pk.BuildErr, 3)), J{"doc": doc})
		return nil
	}
	for _, c := range cases {
		resp, err := pk.Call(J{"do": "roundtrip", "fn": c.fn, "args": c.args, "opt": J{"stop": -1, "sstop": -1}})
		if err != nil {
			return err
		}
		ctx.Res.Eval(J{"named": c.fn}, true)
		ctx.Res.Count("named-parameter")
		replay := J{"doc": doc, "builder": c.fn, "args": c.args, "resp": resp}
		req, _ := resp["req"].(map[string]interface{})
		u, _ := req["url"].(string)
		// queries are compared after sorting the pairs (Values.Encode sorts by key already) and with "," either literal or escaped
		norm := func(x string) string { return strings.ReplaceAll(x, "%2C", ",") }
		if norm(u) != norm(c.url) {
			ctx.Res.Violate("named:client-wire:"+c.fn, fmt.Sprintf("%s%v builds %q, OAS prescribes %q (the name on the wire is the parameter's name in the document)", c.fn, c.args[1:], u, c.url), replay)
			continue
		}
		if c.cookie != "" {
			got := ""
			hs, _ := req["headers"].([]interface{})
			for _, h := range hs {
				if kv, _ := h.([]interface{}); len(kv) == 2 && strings.EqualFold(fmt.Sprint(kv[0]), "Cookie") {
					got = fmt.Sprint(kv[1])
				}
			}
			// the order of the pairs in a Cookie header carries no meaning
			pairs := func(x string) string {
				ps := strings.Split(x, "; ")
				sort.Strings(ps)
				return strings.Join(ps, "; ")
			}
			if pairs(got) != pairs(c.cookie) {
				ctx.Res.Violate("named:client-wire:"+c.fn, fmt.Sprintf("%s builds the cookie %q, OAS prescribes %q", c.fn, got, c.cookie), replay)
				continue
			}
		}
		served, _ := resp["served"].(map[string]interface{})
		call, one := firstCall(served)
		if !one {
			ctx.Res.Violate("named:server:"+c.fn, fmt.Sprintf("the request %q built by %s does not reach the handler (%v)", u, c.fn, resp["err"]), replay)
			continue
		}
		if c.handler != nil {
			got := J{}
			if args, _ := call["args"].(map[string]interface{}); args != nil {
				for k, v := range args {
					got[k] = v
				}
			}
			if Canon(jsonRoundTrip(got)) != Canon(jsonRoundTrip(c.handler)) {
				ctx.Res.Violate("named:server:"+c.fn, fmt.Sprintf("%s%v: the handler receives %s, sent %s", c.fn, c.args[1:], Canon(got), Canon(c.handler)), replay)
			}
		}
	}
	return nil
}
