package main

import (
	"bytes"
	"encoding/json"
	"fmt"
	"math/big"
	"reflect"
	"sort"
	"strings"
)

// CORR of Model/GoJson.lean with encoding/json: random Go types (built with reflect) and JSON values,
// json.Unmarshal into a zero value followed by json.Marshal, against decode/encode of the model.

type goTy struct {
	K      string    `json:"k"`
	T      *goTy     `json:"t,omitempty"`
	Fields []goField `json:"fields,omitempty"`
}
type goField struct {
	Name      string `json:"name"`
	OmitEmpty bool   `json:"omitempty"`
	T         goTy   `json:"t"`
}

var goScalarKinds = []string{"bool", "string", "int", "int", "int8", "int16", "int32", "int64", "uint8", "uint16", "uint32", "uint64"}

// the values around the limits of every integer width, and a few ordinary ones
var goIntValues = []string{"0", "1", "-1", "42", "7", "127", "128", "-128", "-129", "255", "256", "32767", "32768", "-32768", "-32769", "65535", "65536",
	"2147483647", "2147483648", "-2147483648", "-2147483649", "4294967295", "4294967296", "9223372036854775807", "9223372036854775808",
	"-9223372036854775808", "-9223372036854775809", "18446744073709551615", "18446744073709551616", "9007199254740993"}

var goIntTypes = map[string]reflect.Type{"int": reflect.TypeOf(int64(0)), "int8": reflect.TypeOf(int8(0)), "int16": reflect.TypeOf(int16(0)), "int32": reflect.TypeOf(int32(0)),
	"int64": reflect.TypeOf(int64(0)), "uint8": reflect.TypeOf(uint8(0)), "uint16": reflect.TypeOf(uint16(0)), "uint32": reflect.TypeOf(uint32(0)), "uint64": reflect.TypeOf(uint64(0))}

var goJSONNames = []string{"a", "b", "id", "name", "x-y", "Upper", "n1"}

func genGoTy(r *Rng, depth int) goTy {
	if depth <= 0 {
		return goTy{K: r.Pick(goScalarKinds)}
	}
	switch p := r.Intn(100); {
	case p < 30:
		return goTy{K: r.Pick(goScalarKinds)}
	case p < 45:
		t := genGoTy(r, depth-1)
		return goTy{K: "ptr", T: &t}
	case p < 58:
		t := genGoTy(r, depth-1)
		return goTy{K: "slice", T: &t}
	case p < 70:
		t := genGoTy(r, depth-1)
		return goTy{K: "map", T: &t}
	default:
		n := 1 + r.Intn(4)
		perm := r.Perm(len(goJSONNames))
		var fs []goField
		for i := 0; i < n; i++ {
			fs = append(fs, goField{Name: goJSONNames[perm[i]], OmitEmpty: r.Chance(45), T: genGoTy(r, depth-1)})
		}
		return goTy{K: "struct", Fields: fs}
	}
}

func (t goTy) reflectType() reflect.Type {
	switch t.K {
	case "bool":
		return reflect.TypeOf(false)
	case "string":
		return reflect.TypeOf("")
	case "ptr":
		return reflect.PointerTo(t.T.reflectType())
	}
	if it, ok := goIntTypes[t.K]; ok {
		return it
	}
	switch t.K {
	case "slice":
		return reflect.SliceOf(t.T.reflectType())
	case "map":
		return reflect.MapOf(reflect.TypeOf(""), t.T.reflectType())
	}
	var sf []reflect.StructField
	for i, f := range t.Fields {
		tag := f.Name
		if f.OmitEmpty {
			tag += ",omitempty"
		}
		sf = append(sf, reflect.StructField{Name: fmt.Sprintf("F%d", i), Type: f.T.reflectType(), Tag: reflect.StructTag(`json:"` + tag + `"`)})
	}
	return reflect.StructOf(sf)
}

// ordered JSON: objects as {"$o": [[k, v], ...]}
type oj interface{}

func ojObj(pairs [][2]interface{}) oj {
	l := []interface{}{}
	for _, p := range pairs {
		l = append(l, []interface{}{p[0], p[1]})
	}
	return map[string]interface{}{"$o": l}
}

// genValueFor builds a JSON value following the type, mostly valid, members in canonical order.
func genValueFor(r *Rng, t goTy, depth int) oj {
	if r.Chance(6) {
		return genJunk(r)
	}
	if _, ok := goIntTypes[t.K]; ok {
		if r.Chance(40) {
			return json.Number(r.Pick(goIntValues[:5]))
		}
		return json.Number(r.Pick(goIntValues))
	}
	switch t.K {
	case "bool":
		return r.Bool()
	case "string":
		return r.Pick([]string{"", "a", "two words", "é\"\\", "0"})
	case "ptr":
		if r.Chance(25) {
			return nil
		}
		return genValueFor(r, *t.T, depth)
	case "slice":
		if r.Chance(12) {
			return nil
		}
		out := []interface{}{}
		for i, n := 0, r.Intn(3); i < n; i++ {
			out = append(out, genValueFor(r, *t.T, depth-1))
		}
		return out
	case "map":
		if r.Chance(12) {
			return nil
		}
		keys := []string{"k1", "k2", "a"}
		n := r.Intn(3)
		ks := append([]string{}, keys[:n]...)
		if r.Chance(80) {
			sort.Strings(ks)
		}
		var pairs [][2]interface{}
		for _, k := range ks {
			pairs = append(pairs, [2]interface{}{k, genValueFor(r, *t.T, depth-1)})
		}
		return ojObj(pairs)
	}
	var pairs [][2]interface{}
	for _, f := range t.Fields {
		if r.Chance(30) {
			continue // absent
		}
		pairs = append(pairs, [2]interface{}{f.Name, genValueFor(r, f.T, depth-1)})
	}
	if r.Chance(10) {
		pairs = append(pairs, [2]interface{}{"unknown_member", 1})
	}
	if r.Chance(10) && len(pairs) > 1 {
		pairs[0], pairs[len(pairs)-1] = pairs[len(pairs)-1], pairs[0] // not in field order
	}
	return ojObj(pairs)
}

func genJunk(r *Rng) oj {
	switch r.Intn(6) {
	case 0:
		return nil
	case 1:
		return true
	case 2:
		return 3
	case 3:
		return "s"
	case 4:
		return []interface{}{1, "x"}
	}
	return ojObj([][2]interface{}{{"a", 1}})
}

// plainJSON renders the ordered form as ordinary JSON text (member order kept).
func plainJSON(v oj, b *bytes.Buffer) {
	switch t := v.(type) {
	case map[string]interface{}:
		b.WriteByte('{')
		l, _ := t["$o"].([]interface{})
		for i, e := range l {
			if i > 0 {
				b.WriteByte(',')
			}
			kv := e.([]interface{})
			kb, _ := json.Marshal(kv[0])
			b.Write(kb)
			b.WriteByte(':')
			plainJSON(kv[1], b)
		}
		b.WriteByte('}')
	case []interface{}:
		b.WriteByte('[')
		for i, x := range t {
			if i > 0 {
				b.WriteByte(',')
			}
			plainJSON(x, b)
		}
		b.WriteByte(']')
	default:
		x, _ := json.Marshal(t)
		b.Write(x)
	}
}

// fromOrdered converts the model's output (ordered form, decoded from JSON) to plain JSON text.
func fromOrdered(v interface{}) string {
	var b bytes.Buffer
	plainJSON(v, &b)
	return b.String()
}

// jsonEqualExact: equality of two JSON texts with numbers compared exactly (no float64 in between)
func jsonEqualExact(a, b string) bool {
	x, e1 := decodeNum(a)
	y, e2 := decodeNum(b)
	if e1 != nil || e2 != nil {
		return false
	}
	var eq func(x, y interface{}) bool
	eq = func(x, y interface{}) bool {
		switch p := x.(type) {
		case map[string]interface{}:
			q, ok := y.(map[string]interface{})
			if !ok || len(p) != len(q) {
				return false
			}
			for k, v := range p {
				w, ok := q[k]
				if !ok || !eq(v, w) {
					return false
				}
			}
			return true
		case []interface{}:
			q, ok := y.([]interface{})
			if !ok || len(p) != len(q) {
				return false
			}
			for i := range p {
				if !eq(p[i], q[i]) {
					return false
				}
			}
			return true
		case json.Number:
			q, ok := y.(json.Number)
			if !ok {
				return false
			}
			f, _, e1 := big.ParseFloat(string(p), 10, 300, big.ToNearestEven)
			g, _, e2 := big.ParseFloat(string(q), 10, 300, big.ToNearestEven)
			return e1 == nil && e2 == nil && f.Cmp(g) == 0
		}
		return reflect.DeepEqual(x, y)
	}
	return eq(x, y)
}

func corrGoJSON(ctx *Ctx, n int) error {
	for i := 0; i < n; i++ {
		r := ctx.Rng.Fork()
		t := genGoTy(r, 3)
		v := genValueFor(r, t, 3)
		var text bytes.Buffer
		plainJSON(v, &text)
		// the implementation
		dst := reflect.New(t.reflectType())
		implErr := json.Unmarshal(text.Bytes(), dst.Interface())
		implOut := ""
		if implErr == nil {
			b, err := json.Marshal(dst.Interface())
			if err != nil {
				implErr = err
			}
			implOut = string(b)
		}
		var mres struct {
			Decoded bool            `json:"decoded"`
			Out     json.RawMessage `json:"out"`
			Valid   bool            `json:"valid"`
			InFrag  bool            `json:"infragment"`
			Stable  bool            `json:"stable"`
			Typed   bool            `json:"typed"`
		}
		if err := ctx.Model(J{"fn": "gojson", "type": t, "value": v}, &mres); err != nil {
			return err
		}
		ctx.Res.Count("corr:gojson")
		if !mres.InFrag {
			// a type the model declares outside its fragment ([]uint8 is []byte: written as a base64 string)
			ctx.Res.Count("corr:gojson:outside-fragment([]uint8)")
			continue
		}
		if mres.Valid {
			ctx.Res.Count("corr:gojson:valid-canonical")
		}
		cs := J{"type": t, "json": text.String()}
		if mres.Decoded != (implErr == nil) {
			ctx.Res.Disagree("CORR encoding/json vs GoJson.decode (error or not)", cs, mres.Decoded, fmt.Sprint(implErr))
			continue
		}
		if implErr != nil {
			ctx.Res.Count("corr:gojson:error")
			continue
		}
		mo, _ := decodeNum(string(mres.Out))
		mout := fromOrdered(mo)
		if !jsonEqualExact(mout, implOut) {
			ctx.Res.Disagree("CORR encoding/json vs GoJson.encode∘decode", cs, mout, implOut)
			continue
		}
		if mres.Valid && !jsonEqualExact(implOut, text.String()) {
			// the theorem's statement, on the implementation
			ctx.Res.Disagree("CORR a value the model calls valid does not round-trip through encoding/json", cs, text.String(), implOut)
		}
		// the other direction (Proofs/GoJsonEnc.lean, enc_dec): the decoded Go value, marshalled and unmarshalled again, is
		// the same value exactly when the model calls it stable (no pointer to nil, no empty non-nil slice or map under omitempty)
		if mres.Valid && !(mres.Typed && mres.Stable) {
			// decode_typed_stable: a valid instance decodes to a typed, stable value (the executable model against its theorem)
			ctx.Res.Disagree("CORR GoJson: a valid instance whose decoded value the model does not call typed and stable (contradicts decode_typed_stable)", cs, "typed and stable", fmt.Sprintf("typed=%v stable=%v", mres.Typed, mres.Stable))
		}
		if mres.Typed {
			again := reflect.New(t.reflectType())
			same := json.Unmarshal([]byte(implOut), again.Interface()) == nil && reflect.DeepEqual(dst.Elem().Interface(), again.Elem().Interface())
			ctx.Res.Count(fmt.Sprintf("corr:gojson:marshal-unmarshal:stable=%v", mres.Stable))
			if mres.Stable && !same {
				ctx.Res.Disagree("CORR a value the model calls stable does not survive json.Marshal / json.Unmarshal", cs, "the same value", "another value (via "+implOut+")")
			}
			if !mres.Stable && same {
				ctx.Res.Count("corr:gojson:marshal-unmarshal:unstable-but-same")
			}
		}
		if mres.Valid && strings.TrimSpace(implOut) != strings.TrimSpace(text.String()) {
			ctx.Res.Count("corr:gojson:valid-but-different-text") // member order or escaping; compared semantically above
		}
	}
	return nil
}
