package main

import (
	"fmt"
	"os"
	"regexp"
	"sort"
	"strings"
	"text/template"

	"github.com/oapi-codegen/oapi-codegen/v2/pkg/codegen"
)

// C11 — GenerateEnums' choice of the enums whose constants get the type name as prefix, against
// Model/EnumClash.lean (resolveFix), plus the statement's own oracle on the rendered constants.

var c11ClashTypes = []string{"A", "AB", "Abc", "Zed", "Zee", "Kind", "Pet", "PetStatus", "B", "KindX"}

// keys of Schema.EnumValues as SanitizeEnumNames leaves them: camel-cased, so never starting with a lower-case letter
// (two keys that differ only in the case of the first letter would collapse under the prefix; they cannot occur)
var c11ClashNames = []string{"X", "Xy", "BC", "C", "ZedX", "ZeeX", "AbcX", "Status", "PetStatus", "A", "AB", "Zed", "Kind", "KindX", "AX", "Bx", "É", "N1", "Empty"}

var c11ConstBlockRE = regexp.MustCompile(`(?s)// Defines values for (\w+)\.\nconst \((.*?)\n\)`)
var c11ConstLineRE = regexp.MustCompile(`(?m)^\s*(\S+)\s+(\w+)\s+=`)

func c11ClashCorr(ctx *Ctx, n int) error {
	src, err := os.ReadFile("/repo/pkg/codegen/templates/constants.tmpl")
	if err != nil {
		return err
	}
	tmpl, err := template.New("oapi-codegen").Funcs(codegen.TemplateFunctions).New("constants.tmpl").Parse(string(src))
	if err != nil {
		return fmt.Errorf("constants.tmpl: %v", err)
	}
	defer codegen.VerifSetOptions(codegen.Configuration{})
	for i := 0; i < n; i++ {
		r := ctx.Rng.Fork()
		always := r.Chance(15)
		var opts codegen.Configuration
		opts.Compatibility.AlwaysPrefixEnumValues = always
		codegen.VerifSetOptions(opts)
		perm := r.Perm(len(c11ClashTypes))
		nEnums := 1 + r.Intn(4)
		nOther := r.Intn(3)
		var types []codegen.TypeDefinition
		var typeNames []string
		var enums []J
		all := ""
		for k := 0; k < nEnums+nOther; k++ {
			tn := c11ClashTypes[perm[k]]
			typeNames = append(typeNames, tn)
			all += tn
			td := codegen.TypeDefinition{TypeName: tn, JsonName: tn, Schema: codegen.Schema{GoType: "string"}}
			if k < nEnums {
				vals := map[string]string{}
				for v, m := 0, 1+r.Intn(3); v < m; v++ {
					name := c11ClashNames[r.Intn(len(c11ClashNames))]
					vals[name] = "v" + name
				}
				td.Schema.EnumValues = vals
				names := SortedKeys(vals)
				var nc []interface{}
				for _, nm := range names {
					nc = append(nc, cps(nm))
					all += nm
				}
				enums = append(enums, J{"ty": cps(tn), "names": nc, "pre": always})
			} else {
				td.Schema.GoType = "struct{}"
			}
			types = append(types, td)
		}
		// GenerateEnums walks `types` in the order given; shuffle so that enums and other types interleave
		order := r.Perm(len(types))
		shuffled := make([]codegen.TypeDefinition, len(types))
		var enumsInOrder []J
		var tnInOrder []interface{}
		for a, b := range order {
			shuffled[a] = types[b]
			tnInOrder = append(tnInOrder, cps(types[b].TypeName))
			if b < nEnums {
				enumsInOrder = append(enumsInOrder, enums[b])
			}
		}
		out, gerr := codegen.GenerateEnums(tmpl, shuffled)
		c := J{"types": shuffled2names(shuffled), "enums": enumsDesc(shuffled), "always-prefix": always}
		ctx.Res.Eval(c, true)
		ctx.Res.Count("corr:enum-flags")
		if gerr != nil {
			ctx.Res.Disagree("CORR GenerateEnums vs EnumClash.resolveFix (GenerateEnums failed)", c, "constants", gerr.Error())
			continue
		}
		impl := map[string][]string{}
		for _, m := range c11ConstBlockRE.FindAllStringSubmatch(out, -1) {
			for _, l := range c11ConstLineRE.FindAllStringSubmatch(m[2], -1) {
				impl[m[1]] = append(impl[m[1]], l[1])
			}
			sort.Strings(impl[m[1]])
		}
		var res struct {
			Enums []struct {
				Pre  bool    `json:"pre"`
				Vals [][]int `json:"vals"`
			} `json:"enums"`
		}
		if err := ctx.Model(J{"fn": "enumFlags", "uni": uniTable(all), "types": tnInOrder, "enums": enumsInOrder, "fix": true}, &res); err != nil {
			return err
		}
		model := map[string][]string{}
		for k, e := range res.Enums {
			tn := fromCps(toInts(enumsInOrder[k]["ty"]))
			for _, v := range e.Vals {
				model[tn] = append(model[tn], fromCps(v))
			}
			sort.Strings(model[tn])
		}
		if Canon(model) != Canon(impl) {
			ctx.Res.Disagree("CORR GenerateEnums (constant names per enum) vs EnumClash.resolveFix", c, model, impl)
			// the statement below still runs on what the code produced: a failing input, if this is one
		}
		// the statement: all constant names distinct, none equal to a type name
		seen := map[string]string{}
		for _, tn := range SortedKeys(impl) {
			for _, cn := range impl[tn] {
				if other, dup := seen[cn]; dup {
					kind := "one-unprefixed"
					if strings.HasPrefix(cn, tn) && strings.HasPrefix(cn, other) && cn != tn && cn != other {
						kind = "both-prefixed"
					}
					ctx.Res.Violate("enum-flags:constant-declared-twice:"+kind, fmt.Sprintf("constant %s is declared by enum %s and by enum %s", cn, other, tn), J{"case": c, "constants": impl})
				}
				seen[cn] = tn
				for _, t := range typeNames {
					if t == cn {
						kind := "unprefixed"
						if strings.HasPrefix(cn, tn) && cn != tn || always {
							kind = "prefixed"
						}
						ctx.Res.Violate("enum-flags:constant-named-like-a-type:"+kind, fmt.Sprintf("constant %s of enum %s has the name of type %s", cn, tn, t), J{"case": c, "constants": impl})
					}
				}
			}
		}
	}
	return nil
}

func toInts(v interface{}) []int {
	switch t := v.(type) {
	case []int:
		return t
	case []interface{}:
		var out []int
		for _, x := range t {
			switch n := x.(type) {
			case int:
				out = append(out, n)
			case float64:
				out = append(out, int(n))
			}
		}
		return out
	}
	return nil
}

func shuffled2names(ts []codegen.TypeDefinition) []string {
	var out []string
	for _, t := range ts {
		out = append(out, t.TypeName)
	}
	return out
}

func enumsDesc(ts []codegen.TypeDefinition) J {
	out := J{}
	for _, t := range ts {
		if len(t.Schema.EnumValues) > 0 {
			out[t.TypeName] = SortedKeys(t.Schema.EnumValues)
		}
	}
	return out
}
