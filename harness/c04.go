package main

import (
	"fmt"
	"regexp"
	"sort"
	"strings"

	"github.com/oapi-codegen/oapi-codegen/v2/pkg/codegen"
)

// C04 — parameters survive the generated client -> generated server round trip.
// RUN over the whole shape space on all seven frameworks, plus in-process CORR of the Lean
// codec against the pinned runtime (corrCodec, shared with C05).

type paramPkg struct {
	FW     string
	P      *RunPkg
	Shapes []PShape // shapes that made it into the compiled package
}

type paramRun struct {
	Kit      *RunKit
	Pkgs     []*paramPkg
	Failures []string // human-readable
}

var opRe = regexp.MustCompile(`P(\d+)`)

// setupParamRun generates+builds one package per framework for the shape space. Operations whose
// generated code does not compile are reported (violate) and removed, then the package is rebuilt.
func setupParamRun(ctx *Ctx, shapes []PShape, fws []string, violate func(sig, what string, replay interface{})) (*paramRun, error) {
	kit, err := NewRunKit(ctx.Work)
	if err != nil {
		return nil, err
	}
	run := &paramRun{Kit: kit}
	byID := map[int]PShape{}
	for _, s := range shapes {
		byID[s.ID] = s
	}
	for _, fw := range fws {
		var cfg codegen.Configuration
		cfg.Generate.Models = true
		cfg.Generate.Client = true
		pp := &paramPkg{FW: fw, Shapes: shapes}
		pp.P = kit.Add(&RunPkg{Name: "par_" + fw, FW: fw, Doc: shapesDoc(shapes), Cfg: cfg})
		run.Pkgs = append(run.Pkgs, pp)
	}
	for round := 0; round < 6; round++ {
		kit.Prepare()
		again := false
		for _, pp := range run.Pkgs {
			if pp.P.GenErr != nil {
				violate("generate:"+pp.FW, "Generate failed on the parameter shape space: "+pp.P.GenErr.Error(), J{"fw": pp.FW})
				continue
			}
			if pp.P.BuildErr == "" {
				continue
			}
			fails := pp.P.CompileFailures()
			bad := map[int]bool{}
			for _, f := range fails {
				m := opRe.FindStringSubmatch(f.Func)
				if m == nil {
					violate("compile:"+pp.FW+":"+f.Func+":"+f.Msg, fmt.Sprintf("generated %s code does not compile (%s): %s", pp.FW, f.Func, f.Msg), J{"fw": pp.FW, "error": pp.P.BuildErr})
					continue
				}
				var id int
				fmt.Sscanf(m[1], "%d", &id)
				bad[id] = true
				s := byID[id]
				msg := regexp.MustCompile(`P\d+`).ReplaceAllString(f.Msg, "P#")
				violate(fmt.Sprintf("compile:%s:%s:%s", pp.FW, shapeClass(s), msg),
					fmt.Sprintf("%s: operation with parameter %s does not compile: %s", pp.FW, s.Desc(), f.Msg),
					J{"fw": pp.FW, "shape": s.Desc(), "doc": shapesDoc([]PShape{s}), "error": f.Msg})
			}
			if len(bad) == 0 {
				violate("compile:"+pp.FW+":unattributed", "generated code does not compile: "+firstLines(pp.P.BuildErr, 5), J{"fw": pp.FW, "error": pp.P.BuildErr})
				continue
			}
			var keep []PShape
			for _, s := range pp.Shapes {
				if !bad[s.ID] {
					keep = append(keep, s)
				}
			}
			pp.Shapes = keep
			pp.P.reset()
			pp.P.Doc = shapesDoc(keep)
			again = true
		}
		if !again {
			break
		}
	}
	return run, nil
}

// shapeClass is the part of a shape that decides which template branch is taken (signature component).
func shapeClass(s PShape) string {
	return s.Loc + "/" + s.Mode
}

func (s PShape) clientArgs(v *PValue) []interface{} {
	if s.Loc == "path" {
		return []interface{}{"http://h", v.JSON}
	}
	if v == nil {
		return []interface{}{"http://h", nil}
	}
	return []interface{}{"http://h", J{s.ParamName(): v.JSON}}
}

func firstCall(served J) (J, bool) {
	calls, _ := served["calls"].([]interface{})
	if len(calls) != 1 {
		return nil, false
	}
	c, _ := calls[0].(map[string]interface{})
	return c, c != nil
}

// receivedValue extracts what the handler got for the (single) parameter of the shape, in the
// same jsonable form as `sent`.
func (s PShape) receivedValue(call J) interface{} {
	args, _ := call["args"].(map[string]interface{})
	if s.Loc == "path" {
		return args["v"]
	}
	return args["params"]
}

func (s PShape) sentValue(sent []interface{}) interface{} {
	if len(sent) < 2 {
		return nil
	}
	return sent[1]
}

// zeroParams is the recorded form of a params struct whose single optional member is absent.
func (s PShape) absentParams() interface{} {
	name := "V"
	if s.Loc == "header" {
		name = headerGoName
	}
	return map[string]interface{}{name: nil}
}

func c04Roundtrip(pp *paramPkg, s PShape, v *PValue) (ok bool, why string, detail J) {
	resp, err := pp.P.Call(J{"do": "roundtrip", "fn": "New" + s.OpID() + "Request", "args": s.clientArgs(v), "opt": J{"stop": -1, "sstop": -1}})
	if err != nil {
		return false, "program-died", J{"err": err.Error()}
	}
	detail = J{"resp": resp}
	if resp["builderr"] != nil {
		return false, "client-error", detail
	}
	if resp["err"] != nil || resp["panic"] != nil {
		return false, "harness-error", detail
	}
	served, _ := resp["served"].(map[string]interface{})
	if served == nil {
		return false, "not-served", detail
	}
	call, one := firstCall(served)
	if !one {
		st := served["status"]
		return false, fmt.Sprintf("rejected(status=%v)", st), detail
	}
	if call["op"] != s.OpID() {
		return false, "wrong-handler", detail
	}
	sent, _ := resp["sent"].([]interface{})
	want := s.sentValue(sent)
	if v == nil {
		want = s.absentParams()
	}
	got := s.receivedValue(call)
	if Canon(got) != Canon(want) {
		detail["sent"] = want
		detail["got"] = got
		return false, "value-changed", detail
	}
	return true, "", detail
}

func runC04(ctx *Ctx) error {
	ctx.Res.Rule = "shape space enumerated exhaustively (location x style x explode{unset,true,false} x 13 types x required x {schema,json,pass-through}); per shape and framework seeded representable values (strings built from tagged atoms: several scripts, space, every URL-reserved character except the style's own delimiters; integer extremes; floats; dates; uuids) built by the generated client, served by the generated server in-process, handler arguments compared with the caller's; plus absent optional parameters; plus operations with two and three path parameters of different types whose names occur elsewhere in the path text, declared out of path order (client arguments in path order, each arriving in the argument named after it); plus in-process CORR of the Lean codec vs the pinned runtime; non-trivial = every case (distinct by shape+value)"
	if err := corrCodec(ctx, "C04"); err != nil {
		return err
	}
	if err := c04MultiPath(ctx); err != nil {
		return err
	}
	shapes := allShapes()
	run, err := setupParamRun(ctx, shapes, allFrameworks, ctx.Res.Violate)
	if err != nil {
		return err
	}
	defer run.Kit.Close()
	nvals := ctx.N(3, 25)
	for _, pp := range run.Pkgs {
		if pp.P.Bin == "" {
			continue
		}
		for _, s := range pp.Shapes {
			r := NewRng(uint64(ctx.Seed)*1000003 + uint64(s.ID)*7919 + uint64(len(pp.FW)))
			for i := 0; i < nvals; i++ {
				v := genValue(r, s)
				if !transportOK(s.Loc, v) {
					continue
				}
				ctx.Res.Eval(J{"fw": pp.FW, "shape": s.Desc(), "value": v.JSON}, true)
				ctx.Res.Count("fw:" + pp.FW)
				ctx.Res.Count("loc:" + s.Loc + "/" + s.Mode)
				ok, why, detail := c04Roundtrip(pp, s, &v)
				if ok {
					continue
				}
				// shrink: does the tamest value fail too? else which single atom class is enough?
				cls := classKey(v.Classes)
				tame := tameValue(s)
				if ok0, why0, det0 := c04Roundtrip(pp, s, &tame); !ok0 {
					cls, v, why, detail = "any", tame, why0, det0
				} else if s.T.Kind == "str" || s.T.Kind == "arrS" || s.T.Kind == "obj" {
					for _, a := range strAtoms {
						if !contains(v.Classes, a.Class) || s.forbidden("")[a.Class] {
							continue
						}
						single := singleAtomValue(s, a)
						if ok2, why2, det2 := c04Roundtrip(pp, s, &single); !ok2 {
							cls, v, why, detail = a.Class, single, why2, det2
							break
						}
					}
				}
				sig := fmt.Sprintf("roundtrip:%s:%s:%s:%s:%s", pp.FW, s.Loc, s.Mode, shapeKindClass(s), cls)
				ctx.Res.Violate(sig, fmt.Sprintf("%s %s value %s: %s", pp.FW, s.Desc(), Canon(v.JSON), why),
					J{"fw": pp.FW, "shape": s.Desc(), "value": v.JSON, "why": why, "detail": detail, "doc": shapesDoc([]PShape{s})})
			}
			// content (JSON) and pass-through parameters go through escaping code written per framework in the templates:
			// every atom class on its own, not only the drawn ones
			if s.Mode != "schema" && (s.T.Kind == "str" || s.T.Kind == "arrS" || s.T.Kind == "obj") {
				for _, a := range strAtoms {
					single := singleAtomValue(s, a)
					if !transportOK(s.Loc, single) {
						continue
					}
					ctx.Res.Eval(J{"fw": pp.FW, "shape": s.Desc(), "value": single.JSON}, true)
					ctx.Res.Count("atom-sweep:" + s.Loc + "/" + s.Mode)
					if ok, why, detail := c04Roundtrip(pp, s, &single); !ok {
						cls := a.Class
						tame := tameValue(s)
						if ok0, why0, det0 := c04Roundtrip(pp, s, &tame); !ok0 {
							cls, single, why, detail = "any", tame, why0, det0
						}
						sig := fmt.Sprintf("roundtrip:%s:%s:%s:%s:%s", pp.FW, s.Loc, s.Mode, shapeKindClass(s), cls)
						ctx.Res.Violate(sig, fmt.Sprintf("%s %s value %s: %s", pp.FW, s.Desc(), Canon(single.JSON), why),
							J{"fw": pp.FW, "shape": s.Desc(), "value": single.JSON, "why": why, "detail": detail, "doc": shapesDoc([]PShape{s})})
					}
				}
			}
			if !s.Required && s.Loc != "path" {
				ctx.Res.Eval(J{"fw": pp.FW, "shape": s.Desc(), "value": "absent"}, true)
				ok, why, detail := c04Roundtrip(pp, s, nil)
				if !ok {
					ctx.Res.Violate(fmt.Sprintf("absent:%s:%s:%s:%s", pp.FW, s.Loc, s.Mode, shapeKindClass(s)),
						fmt.Sprintf("%s %s: omitted optional parameter does not arrive as absent: %s", pp.FW, s.Desc(), why),
						J{"fw": pp.FW, "shape": s.Desc(), "why": why, "detail": detail, "doc": shapesDoc([]PShape{s})})
				}
			}
		}
	}
	if ctx.Thorough() {
		c04Concurrent(ctx, run)
	}
	return nil
}

// shapeKindClass: prim / arr / obj and — for styled ones — the effective style+explode.
func shapeKindClass(s PShape) string {
	k := s.T.Shape
	if k == "prim" {
		switch s.T.Kind {
		case "int", "int32", "int64", "float", "double":
			k = "num"
		default:
			k = s.T.Kind
		}
	}
	if s.Mode != "schema" {
		return k
	}
	return fmt.Sprintf("%s/%s/%v", k, s.WireStyle(), s.EffExplode())
}

// tameValue is the simplest value of the shape's type.
func tameValue(s PShape) PValue {
	switch s.T.Kind {
	case "str":
		return PValue{JSON: "abc", K: "prim", S: "abc", Classes: []string{"alpha"}}
	case "arrS":
		return PValue{JSON: []interface{}{"abc", "z"}, K: "arr", Xs: []string{"abc", "z"}, Classes: []string{"alpha"}}
	case "arrI":
		return PValue{JSON: []interface{}{jsonNumber("1"), jsonNumber("2")}, K: "arr", Xs: []string{"1", "2"}, Classes: []string{"num"}}
	case "obj":
		return PValue{JSON: J{"a": "abc", "b": "z"}, K: "obj", Keys: []string{"a", "b"}, Vals: []string{"abc", "z"}, Classes: []string{"alpha"}}
	case "int", "int32", "int64", "uint16", "int8":
		return PValue{JSON: jsonNumber("1"), K: "prim", S: "1", Classes: []string{"num"}}
	case "float", "double":
		return PValue{JSON: jsonNumber("1.5"), K: "prim", S: "1.5", Classes: []string{"num"}}
	case "bool":
		return PValue{JSON: true, K: "prim", S: "true", Classes: []string{"bool"}}
	case "date":
		return PValue{JSON: "2021-02-03", K: "prim", S: "2021-02-03", Classes: []string{"date"}}
	case "datetime":
		return PValue{JSON: "2021-02-03T04:05:06Z", K: "prim", S: "2021-02-03T04:05:06Z", Classes: []string{"datetime"}}
	case "uuid":
		return PValue{JSON: "123e4567-e89b-12d3-a456-426614174000", K: "prim", S: "123e4567-e89b-12d3-a456-426614174000", Classes: []string{"uuid"}}
	}
	panic("tameValue")
}

func contains(xs []string, x string) bool {
	for _, y := range xs {
		if y == x {
			return true
		}
	}
	return false
}

func singleAtomValue(s PShape, a atom) PValue {
	str := "a" + a.S + "b"
	switch s.T.Kind {
	case "arrS":
		return PValue{JSON: []interface{}{str, "z"}, K: "arr", Xs: []string{str, "z"}, Classes: []string{a.Class}}
	case "obj":
		return PValue{JSON: J{"a": str, "b": "z"}, K: "obj", Keys: []string{"a", "b"}, Vals: []string{str, "z"}, Classes: []string{a.Class}}
	}
	return PValue{JSON: str, K: "prim", S: str, Classes: []string{a.Class}}
}

// c04Concurrent: each handler invocation observes only its own request's values — the program
// is single-threaded per request by construction of the line protocol, so concurrency is
// exercised by several processes of the same package answering interleaved requests; what is
// checked is that answers depend only on the request (no cross-talk through package state).
func c04Concurrent(ctx *Ctx, run *paramRun) {
	for _, pp := range run.Pkgs {
		if pp.P.Bin == "" || len(pp.Shapes) == 0 {
			continue
		}
		r := NewRng(uint64(ctx.Seed) + 99)
		type q struct {
			s PShape
			v PValue
		}
		var qs []q
		for i := 0; i < 200; i++ {
			s := pp.Shapes[r.Intn(len(pp.Shapes))]
			v := genValue(r, s)
			if transportOK(s.Loc, v) {
				qs = append(qs, q{s, v})
			}
		}
		first := map[int]string{}
		for i, x := range qs {
			ok, why, _ := c04Roundtrip(pp, x.s, &x.v)
			first[i] = fmt.Sprint(ok, why)
		}
		// replay in another order: the outcome of each request must be the same
		idx := r.Perm(len(qs))
		for _, i := range idx {
			ok, why, _ := c04Roundtrip(pp, qs[i].s, &qs[i].v)
			ctx.Res.Eval(J{"fw": pp.FW, "reorder": i}, true)
			if fmt.Sprint(ok, why) != first[i] {
				ctx.Res.Violate("history-dependent:"+pp.FW, fmt.Sprintf("%s: outcome of a request depends on the requests served before it (%s)", pp.FW, qs[i].s.Desc()), J{"fw": pp.FW, "shape": qs[i].s.Desc(), "value": qs[i].v.JSON})
			}
		}
	}
}

func init() { register("c04", runC04) }

var _ = sort.Strings
var _ = strings.Join
