package main

import (
	"fmt"
	"os"
	"path/filepath"
	"sort"
	"strings"

	"github.com/getkin/kin-openapi/openapi3"
	"github.com/oapi-codegen/oapi-codegen/v2/pkg/codegen"
)

// C16 — tag / operation-id filtering is exact.

type fop struct {
	Path   string   `json:"path"`
	Method string   `json:"method"`
	Tags   []string `json:"tags"`
	ID     string   `json:"id"`
	Schema string   `json:"schema,omitempty"` // component schema the operation's 200 response refers to
	PP     bool     `json:"pp,omitempty"`     // the operation's path item declares shared parameters (a component header and an inline query)
	Via    bool     `json:"via,omitempty"`    // the schema is reached through a component response used by this operation only
	NoID   bool     `json:"-"`                // the operation has no operationId (ID is then "")
}
type fcfg struct {
	It []string `json:"it"`
	Et []string `json:"et"`
	Ii []string `json:"ii"`
	Ei []string `json:"ei"`
}

func (c fcfg) config() codegen.Configuration {
	var o codegen.Configuration
	o.OutputOptions.IncludeTags = c.It
	o.OutputOptions.ExcludeTags = c.Et
	o.OutputOptions.IncludeOperationIDs = c.Ii
	o.OutputOptions.ExcludeOperationIDs = c.Ei
	return o
}

func anyIn(xs, ys []string) bool {
	for _, x := range xs {
		for _, y := range ys {
			if x == y {
				return true
			}
		}
	}
	return false
}

// keepOracle is the property's statement, written independently of filter.go and of the model.
func keepOracle(c fcfg, o fop) bool {
	if anyIn(o.Tags, c.Et) {
		return false
	}
	if len(c.It) > 0 && !anyIn(o.Tags, c.It) {
		return false
	}
	if anyIn([]string{o.ID}, c.Ei) {
		return false
	}
	if len(c.Ii) > 0 && !anyIn([]string{o.ID}, c.Ii) {
		return false
	}
	return true
}

// c16HasEncoding: operations that get a multipart body with an encoding header (see buildFilterDoc)
func c16HasEncoding(o fop, ops []fop) bool {
	n := 0
	for _, x := range ops {
		if x.ID == o.ID {
			n++
		}
	}
	// (an id that two operations share — the larger documents have such — keeps its plain shape)
	return n == 1 && o.Schema != "" && !o.NoID && (o.Method == "POST" || o.Method == "PUT" || o.Method == "PATCH")
}

func buildFilterDoc(ops []fop, schemas []string) J {
	paths := J{}
	pp := false
	viaResps := J{}
	hdrs := J{}
	var encs []string
	for _, o := range ops {
		pi := getJ(paths, o.Path)
		resp := J{"description": "d"}
		if o.Schema != "" {
			resp["content"] = J{"application/json": J{"schema": J{"$ref": "#/components/schemas/" + o.Schema}}}
			// a header component whose key is the key of another operation's schema: component sections are separate
			// name spaces, the header of a kept operation does not keep the schema of a removed one
			for i, sn := range schemas {
				if sn == o.Schema {
					hn := schemas[(i+2)%len(schemas)]
					resp["headers"] = J{"X-H": J{"$ref": "#/components/headers/" + hn}}
					hdrs[hn] = J{"schema": J{"type": "string"}}
				}
			}
		}
		if o.Schema != "" && o.Via {
			// operation -> component response (its only user) -> schema: removing the operation orphans the response in one
			// pruning pass and the schema in the next
			viaResps["R"+o.ID] = resp
			resp = J{"$ref": "#/components/responses/R" + o.ID}
		}
		op := J{"operationId": o.ID, "responses": J{"200": resp}}
		if c16HasEncoding(o, ops) && schemas != nil {
			// a multipart body whose part has a header of its own, declared under the media type's encoding: the
			// header's schema is needed as long as the operation is
			op["requestBody"] = J{"content": J{"multipart/form-data": J{"schema": J{"type": "object", "properties": J{"f": J{"type": "string"}}},
				"encoding": J{"f": J{"headers": J{"X-Part": J{"schema": J{"$ref": "#/components/schemas/Enc" + o.ID}}}}}}}}
			encs = append(encs, "Enc"+o.ID)
		}
		if o.NoID {
			delete(op, "operationId")
		}
		if len(o.Tags) > 0 {
			ts := []interface{}{}
			for _, t := range o.Tags {
				ts = append(ts, t)
			}
			op["tags"] = ts
		}
		pi[strings.ToLower(o.Method)] = op
		if o.PP {
			pi["parameters"] = []interface{}{J{"$ref": "#/components/parameters/Tenant"}, J{"name": "limit", "in": "query", "schema": J{"type": "integer"}}}
			pp = true
		}
	}
	doc := J{"openapi": "3.0.3", "info": J{"title": "t", "version": "1"}, "paths": paths}
	if pp {
		doc["components"] = J{"schemas": J{"TenantId": J{"type": "string"}},
			"parameters": J{"Tenant": J{"name": "X-Tenant", "in": "header", "schema": J{"$ref": "#/components/schemas/TenantId"}}}}
	}
	if len(schemas) > 0 {
		sc := J{}
		if pp {
			sc["TenantId"] = J{"type": "string"}
		}
		for i, s := range schemas {
			sch := J{"type": "object", "properties": J{"v": J{"type": "string"}}}
			if i+1 < len(schemas) && i%2 == 0 {
				// chain: S_i -> S_{i+1} so that transitive needs are exercised
				sch["properties"].(J)["next"] = J{"$ref": "#/components/schemas/" + schemas[i+1]}
			}
			sc[s] = sch
		}
		for _, e := range encs {
			sc[e] = J{"type": "string"}
		}
		comps := J{"schemas": sc}
		if pp {
			comps["parameters"] = doc["components"].(J)["parameters"]
		}
		if len(viaResps) > 0 {
			comps["responses"] = viaResps
		}
		if len(hdrs) > 0 {
			comps["headers"] = hdrs
		}
		doc["components"] = comps
	}
	return doc
}

func c16Hook(ctx *Ctx, ops []fop, cfg fcfg) error {
	doc := buildFilterDoc(ops, nil)
	spec, err := loadDoc(doc)
	if err != nil {
		return fmt.Errorf("c16: unloadable doc: %v", err)
	}
	o := cfg.config()
	codegen.VerifFilterByTag(spec, o)
	codegen.VerifFilterByOperationID(spec, o)
	impl := specOps(spec)
	var want []string
	for _, op := range ops {
		if keepOracle(cfg, op) {
			want = append(want, op.Method+" "+op.Path)
		}
	}
	sort.Strings(want)
	c := J{"ops": ops, "cfg": cfg}
	nontrivial := len(cfg.It)+len(cfg.Et)+len(cfg.Ii)+len(cfg.Ei) > 0 && len(ops) > 0
	ctx.Res.Eval(c, nontrivial)
	ctx.Res.Count(fmt.Sprintf("ops=%d kept=%d", len(ops), len(impl)))
	if Canon(orEmpty(impl)) != Canon(orEmpty(want)) {
		ctx.Res.Violate("filter-hook:"+Canon(c), fmt.Sprintf("filter keeps %v, the statement keeps %v", impl, want), J{"kind": "hook", "ops": ops, "cfg": cfg, "doc": doc})
	}
	var model []string
	if err := ctx.Model(map[string]interface{}{"fn": "filter", "cfg": cfg, "ops": ops}, &model); err != nil {
		return err
	}
	sort.Strings(model)
	if Canon(orEmpty(model)) != Canon(orEmpty(impl)) {
		ctx.Res.Disagree("CORR filterDoc (Model/Filter.lean vs filterOperationsByTag/ByOperationID)", c, model, impl)
	}
	return nil
}

func orEmpty(x []string) []string {
	if x == nil {
		return []string{}
	}
	return x
}

// c16Generate checks the generated interfaces and the embedded spec of a full Generate call.
func c16Generate(ctx *Ctx, ops []fop, schemas []string, cfg fcfg, fw string) error {
	doc := buildFilterDoc(ops, schemas)
	spec, err := loadDoc(doc)
	if err != nil {
		return fmt.Errorf("c16: unloadable doc: %v", err)
	}
	o := cfg.config()
	o.PackageName = "api"
	o.Generate.Models = true
	o.Generate.Client = true
	o.Generate.EmbeddedSpec = true
	switch fw {
	case "chi":
		o.Generate.ChiServer = true
	case "echo":
		o.Generate.EchoServer = true
	case "gin":
		o.Generate.GinServer = true
	case "gorilla":
		o.Generate.GorillaServer = true
	case "stdhttp":
		o.Generate.StdHTTPServer = true
	case "fiber":
		o.Generate.FiberServer = true
	case "iris":
		o.Generate.IrisServer = true
	}
	if len(cfg.Et)+len(cfg.Ei) >= 1 {
		// the same loaded document first generated with a weaker filter (one exclusion less): what the second call embeds,
		// declares and routes is what its own filter leaves (the first call removed only operations the second removes too)
		weaker := cfg
		if len(cfg.Et) > 0 {
			weaker.Et = cfg.Et[:len(cfg.Et)-1]
		} else {
			weaker.Ei = cfg.Ei[:len(cfg.Ei)-1]
		}
		ow := weaker.config()
		ow.PackageName = "api"
		ow.Generate = o.Generate
		_, _ = generate(spec, ow)
		ctx.Res.Count("generate:after-a-weaker-filter-on-the-same-document")
	}
	c := J{"ops": ops, "cfg": cfg, "fw": fw, "schemas": schemas}
	ctx.Res.Eval(c, true)
	ctx.Res.Count("generate:" + fw)
	replay := J{"kind": "generate", "ops": ops, "cfg": cfg, "fw": fw, "schemas": schemas, "doc": doc}
	src, err := generate(spec, o)
	if err != nil {
		// two kept operations with one identifier are refused (an error, not a file that declares everything twice)
		idCount := map[string]int{}
		for _, op := range ops {
			if keepOracle(cfg, op) {
				idCount[op.ID]++
			}
		}
		for _, c := range idCount {
			if c > 1 && strings.Contains(err.Error(), "are both named") {
				ctx.Res.Count("generate:refused-two-operations-one-id")
				return nil
			}
		}
		ctx.Res.Violate("generate-error:"+fw, "Generate failed on a filter document: "+err.Error(), replay)
		return nil
	}
	f, _, err := parseGo(src)
	if err != nil {
		ctx.Res.Violate("generate-parse:"+fw, "generated code does not parse: "+err.Error(), replay)
		return nil
	}
	var wantIDs, wantOps []string
	needed := map[string]bool{}
	for _, op := range ops {
		if keepOracle(cfg, op) {
			wantIDs = append(wantIDs, op.ID)
			wantOps = append(wantOps, op.Method+" "+op.Path)
			if op.Schema != "" {
				needed[op.Schema] = true
			}
			if c16HasEncoding(op, ops) && schemas != nil {
				needed["Enc"+op.ID] = true
			}
		}
	}
	// transitive closure over the S_i -> S_{i+1} chain (even i)
	for ch := true; ch; {
		ch = false
		for i, s := range schemas {
			if needed[s] && i+1 < len(schemas) && i%2 == 0 && !needed[schemas[i+1]] {
				needed[schemas[i+1]] = true
				ch = true
			}
		}
	}
	sort.Strings(wantIDs)
	sort.Strings(wantOps)
	sig := func(what string) string { return what + ":" + fw + ":" + Canon(J{"ops": ops, "cfg": cfg}) }
	ms, ok := interfaceMethods(f, "ServerInterface")
	if !ok {
		ctx.Res.Violate(sig("no-server-interface"), "no ServerInterface generated", replay)
	} else if Canon(orEmpty(sortedCopy(ms))) != Canon(orEmpty(wantIDs)) {
		ctx.Res.Violate(sig("server-interface"), fmt.Sprintf("ServerInterface has %v, filter keeps %v", ms, wantIDs), replay)
	}
	cms, ok := interfaceMethods(f, "ClientInterface")
	if ok {
		var base []string
		plain := map[string]bool{}
		for _, m := range cms {
			if !strings.HasSuffix(m, "WithBody") {
				plain[m] = true
				base = append(base, m)
			}
		}
		for _, m := range cms {
			// an operation whose body has no typed builder (multipart) has <Op>WithBody only
			if b := strings.TrimSuffix(m, "WithBody"); b != m && !plain[b] {
				base = append(base, b)
			}
		}
		sort.Strings(base)
		if Canon(orEmpty(base)) != Canon(orEmpty(wantIDs)) {
			ctx.Res.Violate(sig("client-interface"), fmt.Sprintf("ClientInterface has %v, filter keeps %v", base, wantIDs), replay)
		}
	} else {
		ctx.Res.Violate(sig("no-client-interface"), "no ClientInterface generated", replay)
	}
	raw, err := decodeEmbedded(f)
	if err != nil {
		ctx.Res.Violate(sig("embedded-undecodable"), "embedded spec does not decode: "+err.Error(), replay)
		return nil
	}
	l := openapi3.NewLoader()
	emb, err := l.LoadFromData(raw)
	if err != nil {
		ctx.Res.Violate(sig("embedded-unloadable"), "embedded spec does not load: "+err.Error(), replay)
		return nil
	}
	if got := specOps(emb); Canon(orEmpty(got)) != Canon(orEmpty(wantOps)) {
		ctx.Res.Violate(sig("embedded-ops"), fmt.Sprintf("embedded spec has operations %v, filter keeps %v", got, wantOps), replay)
	}
	// parameters shared on the path item belong to every operation of the path that is kept
	ppKept := false
	for _, op := range ops {
		if !op.PP || !keepOracle(cfg, op) {
			continue
		}
		ppKept = true
		fields, ok := structFields(f, op.ID+"Params")
		if !ok || !contains(fields, "XTenant") || !contains(fields, "Limit") {
			ctx.Res.Violate("path-level-parameters-lost:"+fw, fmt.Sprintf("kept operation %s of a path with shared parameters X-Tenant and limit: %sParams has fields %v (declared: %v)", op.ID, op.ID, fields, ok), replay)
		}
		if pi := emb.Paths.Find(op.Path); pi == nil || len(pi.Parameters) != 2 {
			ctx.Res.Violate("path-level-parameters-lost-in-embedded:"+fw, fmt.Sprintf("the embedded path item %s of kept operation %s no longer has its two shared parameters", op.Path, op.ID), replay)
		}
	}
	var gotSchemas, wantSchemas []string
	if emb.Components != nil {
		gotSchemas = SortedKeys(emb.Components.Schemas)
	}
	if ppKept {
		needed["TenantId"] = true
		if emb.Components == nil || emb.Components.Parameters["Tenant"] == nil {
			ctx.Res.Violate("path-level-parameter-component-pruned:"+fw, "component parameter Tenant, referenced from the path item of a kept operation, is gone from the embedded specification", replay)
		}
	} else {
		// a path item that lost all its operations but still lists shared parameters: the statement does not say
		// whether those count as used
		var g2 []string
		for _, s := range gotSchemas {
			if s != "TenantId" {
				g2 = append(g2, s)
			}
		}
		gotSchemas = g2
	}
	var gotResps, wantResps []string
	if emb.Components != nil {
		gotResps = SortedKeys(emb.Components.Responses)
	}
	for _, op := range ops {
		if op.Schema != "" && op.Via && keepOracle(cfg, op) && len(schemas) > 0 {
			wantResps = append(wantResps, "R"+op.ID)
		}
	}
	sort.Strings(wantResps)
	if Canon(orEmpty(gotResps)) != Canon(orEmpty(wantResps)) {
		ctx.Res.Violate(sig("pruned-responses"), fmt.Sprintf("after filter+prune the component responses are %v, the kept operations use %v", gotResps, wantResps), replay)
	}
	wantSchemas = SortedKeys(needed)
	if Canon(orEmpty(gotSchemas)) != Canon(orEmpty(wantSchemas)) {
		ctx.Res.Violate(sig("pruned-schemas"), fmt.Sprintf("after filter+prune the schemas are %v, the kept operations need %v", gotSchemas, wantSchemas), replay)
	}
	// every needed schema has a generated type
	for _, s := range wantSchemas {
		found := false
		for _, d := range f.Decls {
			if strings.Contains(src, "type "+s+" struct") || strings.Contains(src, "type "+s+" = ") {
				found = true
			}
			_ = d
			break
		}
		if !found {
			ctx.Res.Violate(sig("missing-type"), "no type generated for needed schema "+s, replay)
		}
	}
	return nil
}

func subsets(xs []string) [][]string {
	out := [][]string{}
	for m := 0; m < 1<<len(xs); m++ {
		s := []string{}
		for i, x := range xs {
			if m&(1<<i) != 0 {
				s = append(s, x)
			}
		}
		out = append(out, s)
	}
	return out
}

func runC16(ctx *Ctx) error {
	ctx.Res.Rule = "exhaustive: all tag assignments (subsets of {a,b,c}) of 1..2 operations x all include/exclude tag lists over {a,b,c,z}; the same with ids {OpA,OpB} x all include/exclude id lists over {OpA,OpB,Nope}; " +
		"then 3-operation documents with mixed tag+id filters (random), and full Generate runs on 7 frameworks checking ServerInterface, ClientInterface, embedded-spec operations, pruned schemas and, on paths that declare shared parameters (a component header parameter and an inline query parameter), the parameter object of every kept operation and the path item of the embedded specification; non-trivial = some filter list non-empty and at least one operation"
	ctx.Res.Rule += " Session 9: TRANS Gen/Pipeline.lean and Gen/FilterRules.lean; tag filters through the command-line tool in three configuration styles (tags with blanks); a second generation of one loaded document under a disjoint filter declares what it refers to."
	tagSets := subsets([]string{"a", "b", "c"})
	lists := subsets([]string{"a", "b", "c", "z"})
	mk := func(i int, tags []string) fop {
		return fop{Path: []string{"/p", "/p", "/q"}[i], Method: []string{"GET", "POST", "GET"}[i], Tags: tags, ID: []string{"OpA", "OpB", "OpC"}[i]}
	}
	// exhaustive tags, 1 and 2 operations
	for _, t0 := range tagSets {
		for _, it := range lists {
			for _, et := range lists {
				if err := c16Hook(ctx, []fop{mk(0, t0)}, fcfg{It: it, Et: et, Ii: []string{}, Ei: []string{}}); err != nil {
					return err
				}
			}
		}
	}
	step := 1
	if !ctx.Thorough() {
		step = 3
	}
	k := 0
	for _, t0 := range tagSets {
		for _, t1 := range tagSets {
			for _, it := range lists {
				for _, et := range lists {
					k++
					if k%step != 0 {
						continue
					}
					if err := c16Hook(ctx, []fop{mk(0, t0), mk(1, t1)}, fcfg{It: it, Et: et, Ii: []string{}, Ei: []string{}}); err != nil {
						return err
					}
				}
			}
		}
	}
	idLists := subsets([]string{"OpA", "OpB", "Nope"})
	for _, ii := range idLists {
		for _, ei := range idLists {
			for _, it := range [][]string{{}, {"a"}} {
				for _, et := range [][]string{{}, {"b"}} {
					ops := []fop{mk(0, []string{"a"}), mk(1, []string{"a", "b"}), mk(2, []string{})}
					if err := c16Hook(ctx, ops, fcfg{It: it, Et: et, Ii: ii, Ei: ei}); err != nil {
						return err
					}
				}
			}
		}
	}
	// operation ids are compared as the document spells them: a list entry spelled like the Go name of an operation
	// (ListPets for listPets, ListOwners for list-owners) names no operation of the document
	spelled := func(i int) fop {
		return fop{Path: []string{"/p", "/p", "/q"}[i], Method: []string{"GET", "POST", "GET"}[i], Tags: []string{"a"}, ID: []string{"listPets", "list-owners", "get_x"}[i]}
	}
	spellLists := subsets([]string{"listPets", "ListPets", "ListOwners", "list-owners", "GetX"})
	for _, ii := range spellLists {
		for _, ei := range spellLists {
			if len(ii)+len(ei) > 3 {
				continue
			}
			if err := c16Hook(ctx, []fop{spelled(0), spelled(1), spelled(2)}, fcfg{It: []string{}, Et: []string{}, Ii: ii, Ei: ei}); err != nil {
				return err
			}
		}
	}
	ctx.Res.Extra["exhaustive_part_cases"] = ctx.Res.Evaluations
	// random larger documents
	alphabet := []string{"a", "b", "c", "d", "z"}
	ids := []string{"OpA", "OpB", "OpC", "OpD", "OpE", "OpF", "Nope"}
	pick := func(r *Rng, xs []string, max int) []string {
		n := r.Intn(max + 1)
		out := []string{}
		for i := 0; i < n; i++ {
			out = append(out, xs[r.Intn(len(xs))])
		}
		return out
	}
	methods := []string{"GET", "POST", "PUT", "DELETE", "PATCH", "HEAD", "OPTIONS", "TRACE"}
	randOps := func(r *Rng) []fop {
		n := 1 + r.Intn(6)
		ops := []fop{}
		used := map[string]bool{}
		for i := 0; i < n; i++ {
			o := fop{Path: []string{"/p", "/q", "/r/{id}"}[r.Intn(3)], Method: methods[r.Intn(len(methods))], Tags: pick(r, alphabet[:4], 3), ID: ids[i]}
			if r.Chance(15) {
				// an operation without an id matches no id list: an inclusion list removes it, an exclusion list keeps it
				o.ID, o.NoID = "", true
			}
			if used[o.Method+o.Path] {
				continue
			}
			used[o.Method+o.Path] = true
			ops = append(ops, o)
		}
		return ops
	}
	for i := 0; i < ctx.N(1500, 30000); i++ {
		r := ctx.Rng.Fork()
		ops := randOps(r)
		cfg := fcfg{It: pick(r, alphabet, 2), Et: pick(r, alphabet, 2), Ii: []string{}, Ei: []string{}}
		if r.Chance(50) {
			cfg.Ii = pick(r, ids, 3)
			cfg.Ei = pick(r, ids, 2)
		}
		if err := c16Hook(ctx, ops, cfg); err != nil {
			return err
		}
	}
	// Generate-level
	fws := []string{"chi", "echo", "gin", "gorilla", "stdhttp", "fiber", "iris"}
	for i := 0; i < ctx.N(42, 420); i++ {
		r := ctx.Rng.Fork()
		ops := randOps(r)
		for j := range ops {
			ops[j].Path = []string{"/p", "/q", "/r"}[r.Intn(3)]
			if ops[j].NoID { // the interface comparison below goes by operation id
				ops[j].ID, ops[j].NoID = ids[j], false
			}
		}
		// de-duplicate method+path again after the path change
		seen := map[string]bool{}
		var ops2 []fop
		for _, o := range ops {
			if !seen[o.Method+o.Path] {
				seen[o.Method+o.Path] = true
				ops2 = append(ops2, o)
			}
		}
		schemas := []string{"S0", "S1", "S2", "S3", "S4"}
		for j := range ops2 {
			if r.Chance(70) {
				ops2[j].Schema = schemas[r.Intn(len(schemas))]
				ops2[j].Via = r.Chance(40)
			}
		}
		ppPaths := map[string]bool{"/p": r.Chance(50), "/q": r.Chance(30), "/r": r.Chance(30)}
		for j := range ops2 {
			ops2[j].PP = ppPaths[ops2[j].Path]
		}
		cfg := fcfg{It: pick(r, alphabet, 2), Et: pick(r, alphabet, 1), Ii: []string{}, Ei: []string{}}
		if r.Chance(40) {
			cfg.Ii = pick(r, ids, 3)
			cfg.Ei = pick(r, ids, 1)
		}
		if err := c16Generate(ctx, ops2, schemas, cfg, fws[i%len(fws)]); err != nil {
			return err
		}
	}
	// a pruning pass whose only orphan is a component response: the schema behind it goes in the next pass
	for _, fw := range fws {
		ops := []fop{{Path: "/p", Method: "GET", Tags: []string{"a"}, ID: "OpA", Schema: "S0"},
			{Path: "/p", Method: "POST", Tags: []string{"b"}, ID: "OpB", Schema: "S2", Via: true}}
		for _, cfg := range []fcfg{{It: []string{}, Et: []string{"b"}, Ii: []string{}, Ei: []string{}}, {It: []string{}, Et: []string{}, Ii: []string{"OpA"}, Ei: []string{}}} {
			if err := c16Generate(ctx, ops, []string{"S0", "S1", "S2", "S3"}, cfg, fw); err != nil {
				return err
			}
		}
	}
	if err := c16SecondFilter(ctx); err != nil {
		return err
	}
	return c16CLI(ctx)
}

// c16SecondFilter: one loaded document generated twice with filters that keep different operations (Generate edits the
// document it is given, so which operations the second call still sees is the caller's business) — whatever the second call
// keeps, everything its output refers to is declared and its embedded specification has no dangling reference.
func c16SecondFilter(ctx *Ctx) error {
	comp := func(n string) J {
		return J{"type": "object", "properties": J{"name": J{"type": "string"}, "n" + n: J{"type": "integer"}}}
	}
	opOf := func(id, tag, schema, param string) J {
		return J{"operationId": id, "tags": []interface{}{tag}, "parameters": []interface{}{J{"$ref": "#/components/parameters/" + param}},
			"responses": J{"200": J{"description": "d", "content": J{"application/json": J{"schema": J{"$ref": "#/components/schemas/" + schema}}}}}}
	}
	doc := J{"openapi": "3.0.3", "info": J{"title": "t", "version": "1"},
		"paths": J{"/cats": J{"get": opOf("FindCat", "cat", "Cat", "Fur")}, "/dogs": J{"get": opOf("FindDog", "dog", "Dog", "Breed")}},
		"components": J{"schemas": J{"Cat": comp("cat"), "Dog": comp("dog")},
			"parameters": J{"Fur": J{"name": "fur", "in": "query", "schema": J{"type": "string", "enum": []interface{}{"long", "short"}}},
				"Breed": J{"name": "breed", "in": "query", "schema": J{"type": "string", "enum": []interface{}{"big", "small"}}}}}}
	for _, fw := range []string{"chi", "echo", "gin"} {
		for _, seq := range [][2]fcfg{{{It: []string{"cat"}}, {It: []string{"dog"}}}, {{Et: []string{"dog"}}, {Et: []string{"cat"}}}, {{Ii: []string{"FindCat"}}, {Ii: []string{"FindDog"}}}} {
			spec, err := loadDoc(doc)
			if err != nil {
				return err
			}
			mk := func(c fcfg) codegen.Configuration {
				o := c.config()
				o.PackageName = "api"
				o.Generate.Models, o.Generate.Client, o.Generate.EmbeddedSpec = true, true, true
				setFramework(&o, fw)
				return o
			}
			_, _ = generate(spec, mk(seq[0]))
			src, err := generate(spec, mk(seq[1]))
			ctx.Res.Eval(J{"second-filter": seq, "fw": fw}, true)
			ctx.Res.Count("generate:second-filter-on-the-same-document")
			replay := J{"doc": doc, "first": seq[0], "second": seq[1], "fw": fw}
			if err != nil {
				continue // refusing is an answer
			}
			got, ierr := c11Inspect(src)
			if ierr != nil {
				ctx.Res.Violate("second-filter:unparsable:"+fw, "the second output does not parse: "+ierr.Error(), replay)
				continue
			}
			// package names of imports the checker could not resolve are lower-case; what the file declares is exported
			var undeclared []string
			for _, u := range got.Undefined {
				if u != "" && u[0] >= 'A' && u[0] <= 'Z' {
					undeclared = append(undeclared, u)
				}
			}
			got.Undefined = undeclared
			if len(got.Undefined) > 0 {
				ctx.Res.Violate("second-filter:undeclared-type:"+fw, fmt.Sprintf("after a generation with %v, a generation of the same loaded document with %v refers to %v, which it does not declare", Canon(seq[0]), Canon(seq[1]), got.Undefined), replay)
			}
			if f, _, perr := parseGo(src); perr == nil {
				if raw, derr := decodeEmbedded(f); derr == nil {
					if _, lerr := openapi3.NewLoader().LoadFromData(raw); lerr != nil {
						ctx.Res.Violate("second-filter:embedded-unloadable:"+fw, "the specification embedded by the second generation does not load: "+firstLine(lerr.Error()), replay)
					}
				}
			}
		}
	}
	return nil
}

// c16CLI: the filters as a user gives them to the command-line tool — legacy flags (comma-separated lists), an old-style
// file and a new-style file — on tags with blanks, hyphens and other letter cases; the interface of the generated server
// has exactly the operations the filter prescribes (tags compared as whole strings).
func c16CLI(ctx *Ctx) error {
	bin, err := c20Build(ctx)
	if err != nil {
		return nil // C20's business
	}
	d := filepath.Join(ctx.Work, "c16cli")
	_ = os.MkdirAll(d, 0o755)
	type op struct {
		id   string
		tags []string
	}
	ops := []op{{"ListPets", []string{"pet store"}}, {"GetPet", []string{"pet"}}, {"GetStore", []string{"store"}}, {"GetAdmin", []string{"admin-area", "Pet"}}, {"Ping", nil}}
	paths := J{}
	for i, o := range ops {
		oj := J{"operationId": o.id, "responses": J{"204": J{"description": "d"}}}
		if o.tags != nil {
			var ts []interface{}
			for _, t := range o.tags {
				ts = append(ts, t)
			}
			oj["tags"] = ts
		}
		paths[fmt.Sprintf("/p%d", i)] = J{"get": oj}
	}
	doc := J{"openapi": "3.0.3", "info": J{"title": "t", "version": "1"}, "paths": paths}
	_ = os.WriteFile(filepath.Join(d, "spec.json"), []byte(Canon(doc)), 0o644)
	kept := func(inc, exc []string) []string {
		var out []string
		for _, o := range ops {
			has := func(list []string) bool {
				for _, t := range o.tags {
					for _, l := range list {
						if t == l {
							return true
						}
					}
				}
				return false
			}
			if has(exc) || (len(inc) > 0 && !has(inc)) {
				continue
			}
			out = append(out, o.id)
		}
		sort.Strings(out)
		return out
	}
	yamlList := func(l []string) string {
		var b strings.Builder
		for _, x := range l {
			fmt.Fprintf(&b, "\n    - %q", x)
		}
		return b.String()
	}
	for _, c := range []struct{ inc, exc []string }{{[]string{"pet store"}, nil}, {nil, []string{"pet store"}}, {[]string{"pet", "admin-area"}, nil}, {[]string{"pet store", "store"}, []string{"Pet"}}, {nil, []string{"pet"}}} {
		want := kept(c.inc, c.exc)
		newYaml := "package: api\ngenerate:\n  chi-server: true\n  models: true\noutput-options:"
		oldYaml := "package: api\ngenerate:\n  - chi-server\n  - types"
		flags := []string{"-package", "api", "-generate", "chi-server,types"}
		if c.inc != nil {
			newYaml += "\n  include-tags:" + yamlList(c.inc)
			oldYaml += "\ninclude-tags:" + strings.ReplaceAll(yamlList(c.inc), "    -", "  -")
			flags = append(flags, "-include-tags", strings.Join(c.inc, ","))
		}
		if c.exc != nil {
			newYaml += "\n  exclude-tags:" + yamlList(c.exc)
			oldYaml += "\nexclude-tags:" + strings.ReplaceAll(yamlList(c.exc), "    -", "  -")
			flags = append(flags, "-exclude-tags", strings.Join(c.exc, ","))
		}
		_ = os.WriteFile(filepath.Join(d, "new.yaml"), []byte(newYaml+"\n"), 0o644)
		_ = os.WriteFile(filepath.Join(d, "old.yaml"), []byte(oldYaml+"\n"), 0o644)
		for _, v := range []struct {
			name string
			args []string
		}{{"legacy-flags", append(append([]string{}, flags...), "spec.json")}, {"new-style-file", []string{"-config", "new.yaml", "spec.json"}}, {"old-style-file", []string{"-old-config-style", "-config", "old.yaml", "spec.json"}}} {
			run := c20Exec(bin, d, v.args...)
			ctx.Res.Eval(J{"cli-tag-filter": v.name, "include": c.inc, "exclude": c.exc}, true)
			ctx.Res.Count("cli:" + v.name)
			if run.Exit != 0 {
				ctx.Res.Violate("cli:tag-filter:refused:"+v.name, fmt.Sprintf("tool %v exits with %d: %s", v.args, run.Exit, firstLine(run.Stderr)), J{"doc": doc, "args": v.args})
				continue
			}
			f, _, perr := parseGo(run.Stdout)
			if perr != nil {
				ctx.Res.Violate("cli:tag-filter:unparsable:"+v.name, "the tool's output does not parse: "+perr.Error(), J{"doc": doc, "args": v.args})
				continue
			}
			got, _ := interfaceMethods(f, "ServerInterface")
			sort.Strings(got)
			if fmt.Sprint(got) != fmt.Sprint(want) {
				ctx.Res.Violate("cli:tag-filter:"+v.name, fmt.Sprintf("tool %v: the server interface has %v, the filter (include %q, exclude %q) prescribes %v", v.args, got, c.inc, c.exc, want), J{"doc": doc, "args": v.args})
			}
		}
	}
	return nil
}

func init() { register("c16", runC16) }
