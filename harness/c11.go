package main

import (
	"fmt"
	"go/ast"
	"go/constant"
	"go/importer"
	"go/token"
	"go/types"
	"math/big"
	"regexp"
	"sort"
	"strconv"
	"strings"

	"github.com/oapi-codegen/oapi-codegen/v2/pkg/codegen"
)

// C11 — enum constants are complete and carry the exact specification values.

// value pools, biased to collisions
var c11StrPool = []string{" 1a", "a", "/foo", "_x", "x", "☃x", "_a", "foo", "Foo", "FOO", "foo1", "Foo1", "foo_1", "foo-1", "foo 1", "bar", "Bar", "1", "1st", "2", "10", "", " ", "  ", "_", "-", "a b", "a-b", "a_b", "a.b", "A B",
	"type", "func", "string", "int", "nil", "true", "Empty", "é", "É", "日本", "x y z", "a/b", "a+b", "+", "#", "$ref", "100%", "q\"x", "a\\tb", "a\\b", "line1\nline2", "tab\there", "'", "`", "\\", "\"", "a\\", "\\n",
	// a carriage return (a raw string literal would drop it), alone and next to quotes and backslashes
	"\r", "cr\rlf\n", "reply \"ok\"\r\n", "back\\slash\r",
	// values whose constant is spelled like a type of the package — another enum's type included
	"top0", "Top1", "top 2", "holderP0", "HolderP1", "holder-items", "doItParamsMode", "Holder"}

type c11Enum struct {
	Base     string        // string integer number boolean
	Values   []interface{} // JSON values
	VarNames []string      // x-enum-varnames (nil = absent)
	ExtKey   string
}

func c11GenEnum(r *Rng, tame bool) c11Enum {
	e := c11Enum{}
	switch p := r.Intn(10); {
	case p < 6:
		e.Base = "string"
	case p < 8:
		e.Base = "integer"
	case p < 9:
		e.Base = "number"
	default:
		e.Base = "boolean"
	}
	n := 1 + r.Intn(5)
	switch e.Base {
	case "string":
		pool := c11StrPool
		if tame {
			pool = []string{"red", "green", "blue", "dark red", "light-blue", "on", "off", "N/A", "v1", "v2"}
		}
		for i := 0; i < n; i++ {
			e.Values = append(e.Values, pool[r.Intn(len(pool))])
		}
	case "integer":
		pool := []int64{0, 1, 2, 3, -1, 10, 100, 9007199254740991, -5}
		for i := 0; i < n; i++ {
			e.Values = append(e.Values, jsonNumber(strconv.FormatInt(pool[r.Intn(len(pool))], 10)))
		}
	case "number":
		pool := []string{"0", "1", "1.5", "0.25", "-2.5", "3", "100", "1e+21", "0.1", "2.75"}
		for i := 0; i < n; i++ {
			e.Values = append(e.Values, jsonNumber(pool[r.Intn(len(pool))]))
		}
	case "boolean":
		for i := 0; i < 1+r.Intn(2); i++ {
			e.Values = append(e.Values, r.Bool())
		}
	}
	if !tame && r.Chance(20) {
		k := len(e.Values) + r.Intn(3) - 1
		if k < 0 {
			k = 0
		}
		for i := 0; i < k; i++ {
			e.VarNames = append(e.VarNames, r.Pick([]string{"First", "Second", "second", "THIRD", "a b", "1x", "First", "type", ""}))
		}
		e.ExtKey = r.Pick([]string{"x-enum-varnames", "x-enumNames"})
	}
	return e
}

func (e c11Enum) Schema() J {
	s := J{"type": e.Base, "enum": e.Values}
	if e.VarNames != nil {
		vs := []interface{}{}
		for _, v := range e.VarNames {
			vs = append(vs, v)
		}
		s[e.ExtKey] = vs
	}
	return s
}

// canonical form of a spec value under its base type
func c11SpecKey(base string, v interface{}) string {
	switch base {
	case "string":
		return "s:" + fmt.Sprint(v)
	case "boolean":
		return "b:" + fmt.Sprint(v)
	case "integer":
		return "i:" + fmt.Sprint(v)
	default:
		// `type: number` without a format is float32 in Go: values are compared at that precision
		f, _ := strconv.ParseFloat(fmt.Sprint(v), 64)
		r := new(big.Rat)
		r.SetFloat64(float64(float32(f)))
		return "f:" + r.RatString()
	}
}

func c11ConstKey(c constant.Value, basic *types.Basic) string {
	switch {
	case basic.Info()&types.IsString != 0:
		return "s:" + constant.StringVal(c)
	case basic.Info()&types.IsBoolean != 0:
		return "b:" + fmt.Sprint(constant.BoolVal(c))
	case basic.Info()&types.IsInteger != 0:
		return "i:" + c.ExactString()
	default:
		f, _ := constant.Float64Val(c)
		r := new(big.Rat)
		r.SetFloat64(float64(float32(f)))
		return "f:" + r.RatString()
	}
}

type c11Doc struct {
	Doc   J
	Enums []c11Enum
	Where []string
}

// c11GenDoc places enums at every position the property lists.
func c11GenDoc(r *Rng, tame bool) c11Doc {
	var d c11Doc
	schemas := J{}
	add := func(where string) J {
		e := c11GenEnum(r, tame)
		d.Enums = append(d.Enums, e)
		d.Where = append(d.Where, where)
		return e.Schema()
	}
	nTop := 1 + r.Intn(3)
	for i := 0; i < nTop; i++ {
		schemas[fmt.Sprintf("Top%d", i)] = add("top-level")
	}
	// a component that is an array of enum items (also as a request body below): the items need a type of their own
	if r.Chance(50) {
		schemas["List0"] = J{"type": "array", "items": add("top-level-array-item")}
	}
	// an enum declared through a composition: the value list stands in a later member than the first
	if r.Chance(40) {
		es := add("allOf-later-member")
		first := J{"description": "the first member says what it is about"}
		if t, ok := es["type"]; ok {
			first["type"] = t
		}
		schemas["Composed0"] = J{"allOf": []interface{}{first, es}}
	}
	// object with enum properties, array items
	props := J{}
	for i := 0; i < 1+r.Intn(2); i++ {
		props[fmt.Sprintf("p%d", i)] = add("property")
	}
	if r.Chance(60) {
		props["items"] = J{"type": "array", "items": add("array-item")}
	}
	schemas["Holder"] = J{"type": "object", "properties": props}
	// a non-enum type whose name an enum value may take
	if !tame && r.Chance(50) {
		schemas[r.Pick([]string{"Foo", "Bar", "Empty", "N1"})] = J{"type": "object", "properties": J{"x": J{"type": "string"}}}
	}
	op := J{"operationId": "doIt", "responses": J{"200": J{"description": "d", "content": J{"application/json": J{"schema": J{"type": "object", "properties": J{"status": add("response")}}}}}}}
	if r.Chance(70) {
		op["parameters"] = []interface{}{J{"name": "mode", "in": "query", "schema": add("parameter")}}
	}
	if r.Chance(60) {
		op["requestBody"] = J{"content": J{"application/json": J{"schema": J{"type": "object", "properties": J{"kind": add("body")}}}}}
	}
	paths := J{"/x": J{"post": op}}
	if r.Chance(50) {
		// an inline string enum as a text/plain request body
		var es J
		for {
			e := c11GenEnum(r, tame)
			if e.Base == "string" {
				d.Enums = append(d.Enums, e)
				d.Where = append(d.Where, "text-body")
				es = e.Schema()
				break
			}
		}
		paths["/z"] = J{"put": J{"operationId": "setMode", "responses": J{"204": J{"description": "d"}},
			"requestBody": J{"required": true, "content": J{"text/plain": J{"schema": es}}}}}
	}
	if r.Chance(50) {
		// an enum on the path parameter of an operation that has nothing else: no other parameter, no body
		paths["/y/{kind}"] = J{"get": J{"operationId": "getKind", "responses": J{"204": J{"description": "d"}},
			"parameters": []interface{}{J{"name": "kind", "in": "path", "required": true, "schema": add("path-parameter-alone")}}}}
	}
	d.Doc = J{"openapi": "3.0.3", "info": J{"title": "t", "version": "1"}, "paths": paths, "components": J{"schemas": schemas}}
	return d
}

type c11Got struct {
	Types     map[string][]string // enum type -> sorted value keys
	Errs      []string            // type-check errors other than imports
	Consts    map[string]string   // const name -> type
	Undefined []string            // identifiers used but never declared
}

var c11UndefRE = regexp.MustCompile(`undefined: ([A-Za-z_][A-Za-z0-9_]*)$`)

// c11Inspect type-checks the generated file (imports unresolved are tolerated) and collects the typed constants.
func c11Inspect(src string) (*c11Got, error) {
	f, fset, err := parseGo(src)
	if err != nil {
		return nil, err
	}
	got := &c11Got{Types: map[string][]string{}, Consts: map[string]string{}}
	conf := types.Config{Importer: importer.Default(), FakeImportC: true, Error: func(err error) {
		msg := err.Error()
		if m := c11UndefRE.FindStringSubmatch(msg); m != nil {
			got.Undefined = append(got.Undefined, m[1])
			return
		}
		if strings.Contains(msg, "could not import") || strings.Contains(msg, "undefined: ") || strings.Contains(msg, "imported and not used") || strings.Contains(msg, "declared and not used") {
			return // selector on an unresolved import
		}
		got.Errs = append(got.Errs, msg)
	}}
	info := &types.Info{Defs: map[*ast.Ident]types.Object{}}
	_, _ = conf.Check("api", fset, []*ast.File{f}, info)
	for id, obj := range info.Defs {
		c, ok := obj.(*types.Const)
		if !ok || id.Name == "_" {
			continue
		}
		named, ok := c.Type().(*types.Named)
		if !ok {
			continue
		}
		basic, ok := named.Underlying().(*types.Basic)
		if !ok || c.Val().Kind() == constant.Unknown {
			continue
		}
		tn := named.Obj().Name()
		got.Types[tn] = append(got.Types[tn], c11ConstKey(c.Val(), basic))
		got.Consts[id.Name] = tn
		if !token.IsIdentifier(id.Name) {
			got.Errs = append(got.Errs, "invalid identifier "+id.Name)
		}
	}
	for k := range got.Types {
		sort.Strings(got.Types[k])
	}
	return got, nil
}

func c11Expected(d c11Doc, skipWhere string) []string {
	var out []string
	for i, e := range d.Enums {
		if skipWhere != "" && d.Where[i] == skipWhere {
			continue
		}
		set := map[string]bool{}
		for _, v := range e.Values {
			set[c11SpecKey(e.Base, v)] = true
		}
		out = append(out, strings.Join(SortedKeys(set), "\x1f"))
	}
	sort.Strings(out)
	return out
}

func c11Class(d c11Doc, missing string) string {
	// which stimulus classes the document contains (for the signature)
	cls := map[string]bool{}
	for _, e := range d.Enums {
		if e.VarNames != nil {
			cls["varnames"] = true
		}
		for _, v := range e.Values {
			s, ok := v.(string)
			if !ok {
				continue
			}
			switch {
			case strings.ContainsAny(s, "\"\\\n\t"):
				cls["escape"] = true
			case strings.TrimSpace(s) == "":
				cls["blank"] = true
			}
		}
	}
	return strings.Join(SortedKeys(cls), "+")
}

func runC11(ctx *Ctx) error {
	ctx.Res.Rule = "RUN: seeded documents with enums at every position (top-level, property, array item of a member and of a top-level array, parameter, body, response) over value lists biased to collisions (case/punctuation variants, leading digits, keywords, blank, quotes/backslashes/newlines, duplicates, x-enum-varnames/x-enumNames of any length) x always-prefix x old-enum-conflicts; the generated file is type-checked with go/types and the multiset of {set of constant values per enum type} compared with the multiset of {set of distinct values per enum schema}; every constant is of its enum's named type; no redeclaration; CORR: SanitizeEnumNames and the string-literal rendering vs the Lean model; CORR: the constant blocks GenerateEnums renders for seeded sets of enums and types with clash-prone names (values spelled like types, like other enums' prefixed constants; always-prefix on/off; any order) vs EnumClash.resolveFix, and the statement on them (no constant twice, none named like a type); non-trivial = every document Session 9: CORR of the third naming pass (renameEnumNames, Model/Enums.lean pass3) through a hook; values whose names the renaming makes equal in the pool; inline string enum as text/plain body; enums on path-item parameters."
	if err := c11Corr(ctx, ctx.N(3000, 40000)); err != nil {
		return err
	}
	if err := c11ClashCorr(ctx, ctx.N(2500, 30000)); err != nil {
		return err
	}
	n := ctx.N(300, 4000)
	for i := 0; i < n; i++ {
		r := ctx.Rng.Fork()
		tame := i%3 == 0
		d := c11GenDoc(r, tame)
		var cfg codegen.Configuration
		cfg.PackageName = "api"
		cfg.Generate.Models = true
		cfg.Generate.Client = true // the types of inline response schemas exist only next to the client
		cfg.Compatibility.AlwaysPrefixEnumValues = r.Chance(25)
		cfg.Compatibility.OldEnumConflicts = r.Chance(20)
		cfg.OutputOptions.SkipPrune = true
		mode := fmt.Sprintf("prefix=%v,old=%v", cfg.Compatibility.AlwaysPrefixEnumValues, cfg.Compatibility.OldEnumConflicts)
		ctx.Res.Eval(J{"doc": Hash(d.Doc), "mode": mode, "tame": tame}, true)
		ctx.Res.Count("mode:" + mode)
		for _, w := range d.Where {
			ctx.Res.Count("position:" + w)
		}
		replay := J{"doc": d.Doc, "cfg": cfg}
		spec, err := loadDoc(d.Doc)
		if err != nil {
			return fmt.Errorf("c11 document does not load: %v", err)
		}
		out, err := generate(spec, cfg)
		cls := c11Class(d, "")
		if err != nil {
			e := firstLine(err.Error())
			ctx.Res.Violate("generate-error:"+cls+":"+errorClass(e), "generation fails: "+e, replay)
			continue
		}
		got, err := c11Inspect(out)
		if err != nil {
			ctx.Res.Violate("unparsable:"+cls, "output does not parse: "+firstLine(err.Error()), replay)
			continue
		}
		if len(got.Errs) > 0 {
			ctx.Res.Violate("typecheck:"+cls+":"+errorClass(got.Errs[0]), "generated constants do not type-check: "+got.Errs[0], replay)
			continue
		}
		// a type that is used but never declared: its enum has no constants at all
		skip := ""
		seenU := map[string]bool{}
		for _, u := range got.Undefined {
			if seenU[u] {
				continue
			}
			seenU[u] = true
			pos := "other"
			if len(u) > 1 && u[0] == 'N' && u[1] >= '0' && u[1] <= '9' {
				pos = "response"
				skip = "response"
			}
			ctx.Res.Violate("undeclared-type:"+pos, "the generated code uses the enum type "+u+" but never declares it, so the enum has no constants", replay)
		}
		var have []string
		for _, vs := range got.Types {
			// duplicates among a type's constants would be two constants for one value
			have = append(have, strings.Join(vs, "\x1f"))
		}
		sort.Strings(have)
		want := c11Expected(d, skip)
		if strings.Join(have, "\x1e") != strings.Join(want, "\x1e") {
			ctx.Res.Violate("values:"+cls, "the constants of the generated enum types are not the distinct values of the enum schemas: "+c11Diff(have, want), replay)
		}
	}
	// an enum on a parameter that the path item declares for all its operations (query and path): its values are constants
	// of a type like those of an operation-level parameter
	for _, loc := range []string{"path", "query"} {
		prm := J{"name": "mode", "in": loc, "schema": J{"type": "string", "enum": []interface{}{"fast", "slow"}}}
		path := "/a"
		if loc == "path" {
			prm["required"] = true
			path = "/a/{mode}"
		}
		doc := wDoc(J{path: J{"parameters": []interface{}{prm}, "get": wOp("getA", J{})}}, nil)
		var cfg codegen.Configuration
		cfg.PackageName = "api"
		cfg.Generate.Models, cfg.Generate.ChiServer = true, true
		ctx.Res.Eval(J{"enums": "path-item parameter", "in": loc}, true)
		if spec, err := loadDoc(doc); err == nil {
			if src, err := generate(spec, cfg); err == nil {
				if got, err := c11Inspect(src); err == nil {
					all := map[string]bool{}
					for _, vs := range got.Types {
						for _, v := range vs {
							all[v] = true
						}
					}
					if !(all["s:fast"] && all["s:slow"]) {
						ctx.Res.Violate("values:path-item-parameter:"+loc, fmt.Sprintf("an enum [fast, slow] on a %s parameter declared by the path item has no constants (typed constants of the file: %v)", loc, SortedKeys(all)), J{"doc": doc})
					}
				}
			}
		}
	}
	// two enum schemas whose names normalise to one Go type name, with different value lists: refusing the document is
	// fine, generating it with the constants of only one of them is not
	{
		doc := wDoc(J{}, J{"schemas": J{"Foo.bar_baz": J{"type": "string", "enum": []interface{}{"a", "b"}}, "Foo_bar.baz": J{"type": "string", "enum": []interface{}{"c", "d"}}}})
		var cfg codegen.Configuration
		cfg.PackageName = "api"
		cfg.Generate.Models = true
		cfg.OutputOptions.SkipPrune = true
		ctx.Res.Eval(J{"enums": "two schemas, one type name"}, true)
		if spec, err := loadDoc(doc); err == nil {
			if src, err := generate(spec, cfg); err != nil {
				ctx.Res.Count("same-type-name:refused")
			} else if got, err := c11Inspect(src); err == nil {
				all := map[string]bool{}
				for _, vs := range got.Types {
					for _, v := range vs {
						all[v] = true
					}
				}
				var missing []string
				for _, v := range []string{"a", "b", "c", "d"} {
					found := false
					for k := range all {
						if strings.HasSuffix(k, ":"+v) || k == v {
							found = true
						}
					}
					if !found {
						missing = append(missing, v)
					}
				}
				if len(missing) > 0 {
					ctx.Res.Violate("values:same-type-name:dropped", fmt.Sprintf("two enum schemas that share a Go type name are generated with the values %v of one of them left without a constant (constants: %v)", missing, SortedKeys(all)), J{"doc": doc})
				}
			}
		}
	}
	return nil
}

func c11Diff(have, want []string) string {
	cnt := map[string]int{}
	for _, h := range have {
		cnt[h]++
	}
	for _, w := range want {
		cnt[w]--
	}
	var parts []string
	for _, k := range SortedKeys(cnt) {
		show := strings.ReplaceAll(k, "\x1f", " | ")
		if cnt[k] > 0 {
			parts = append(parts, fmt.Sprintf("generated but not in the document: {%s}", show))
		} else if cnt[k] < 0 {
			parts = append(parts, fmt.Sprintf("in the document but not generated: {%s}", show))
		}
	}
	if len(parts) > 4 {
		parts = parts[:4]
	}
	return strings.Join(parts, "; ")
}

// ---------- CORR ----------

func c11Corr(ctx *Ctx, n int) error {
	// exhaustive part: every sequence of up to 4 values over names that collide after sanitising and whose numbered forms
	// collide with other values (foo, Foo, foo1, …): the counting paths of SanitizeEnumNames do not depend on the draw
	small := []string{"foo", "Foo", "foo1", "Foo1", "foo2", "foo_1"}
	var fixed [][]string
	var rec func(cur []string)
	rec = func(cur []string) {
		if len(cur) > 0 {
			fixed = append(fixed, append([]string{}, cur...))
		}
		if len(cur) == 4 {
			return
		}
		for _, v := range small {
			rec(append(cur, v))
		}
	}
	rec(nil)
	for i := 0; i < n+len(fixed); i++ {
		r := ctx.Rng.Fork()
		k := 1 + r.Intn(5)
		var vals, names []string
		for j := 0; j < k; j++ {
			vals = append(vals, c11StrPool[r.Intn(len(c11StrPool))])
		}
		names = vals
		if r.Chance(25) {
			names = nil
			for j, m := 0, r.Intn(k+2); j < m; j++ {
				names = append(names, r.Pick([]string{"First", "Second", "second", "a b", "1x", "First", "type", "", "foo"}))
			}
		}
		if i < len(fixed) {
			vals, names = fixed[i], fixed[i]
		}
		got := codegen.SanitizeEnumNames(names, vals)
		var res struct {
			Pairs [][2][]int `json:"pairs"`
			Third [][2][]int `json:"third"`
		}
		toCps := func(xs []string) []interface{} {
			out := []interface{}{}
			for _, x := range xs {
				out = append(out, cps(x))
			}
			return out
		}
		if err := ctx.Model(J{"fn": "enumNames", "uni": uniTable(strings.Join(append(append([]string{}, names...), vals...), "")), "names": toCps(names), "values": toCps(vals)}, &res); err != nil {
			return err
		}
		want := map[string]string{}
		for _, p := range res.Pairs {
			want[fromCps(p[0])] = fromCps(p[1])
		}
		ctx.Res.Eval(J{"names": names, "values": vals}, true)
		ctx.Res.Count("corr:sanitize")
		// the constants GenerateGoSchema declares: every name renamed once more by SchemaNameToTypeName (renameEnumNames)
		{
			declared := codegen.VerifRenameEnumNames(got, codegen.SchemaNameToTypeName)
			want3 := map[string]string{}
			for _, p := range res.Third {
				want3[fromCps(p[0])] = fromCps(p[1])
			}
			ctx.Res.Count("corr:third-pass")
			renamedTo := map[string]bool{}
			for k := range got {
				renamedTo[codegen.SchemaNameToTypeName(k)] = true
			}
			if len(renamedTo) != len(got) {
				ctx.Res.Count("corr:third-pass:two-names-renamed-to-one")
			}
			if Canon(want3) != Canon(declared) {
				ctx.Res.Disagree("CORR renameEnumNames∘SanitizeEnumNames vs Enums.pass3", J{"names": names, "values": vals}, want3, declared)
			}
			distinct := map[string]bool{}
			for _, v := range vals {
				distinct[v] = true
			}
			have := map[string]bool{}
			for _, v := range declared {
				have[v] = true
			}
			if len(declared) != len(distinct) || len(have) != len(distinct) {
				ctx.Res.Violate("declared-constants:value-lost", fmt.Sprintf("the enum %q (names %q) is declared with %d constants for %d distinct values: %v", vals, names, len(declared), len(distinct), declared), J{"names": names, "values": vals, "result": declared})
			}
		}
		if Canon(want) != Canon(got) {
			ctx.Res.Disagree("CORR SanitizeEnumNames vs Enums.sanitizeEnumNames", J{"names": names, "values": vals}, want, got)
			// is this input one on which the statement fails? (every distinct value keeps a constant of its own)
			distinct := map[string]bool{}
			for _, v := range vals {
				distinct[v] = true
			}
			have := map[string]bool{}
			for _, v := range got {
				have[v] = true
			}
			if len(got) != len(distinct) || len(have) != len(distinct) {
				ctx.Res.Violate("sanitize:value-lost", fmt.Sprintf("SanitizeEnumNames(%q, %q) gives %d constants for %d distinct values: %v", names, vals, len(got), len(distinct), got), J{"names": names, "values": vals, "result": got})
			}
		}
	}
	// the literal: strconv.Quote vs the model's quoteGo on ASCII strings, unquote of both
	for i := 0; i < n/3; i++ {
		r := ctx.Rng.Fork()
		var sb strings.Builder
		for j, m := 0, r.Intn(6); j < m; j++ {
			sb.WriteString(r.Pick([]string{"a", "Z", "0", " ", "\"", "\\", "\n", "\t", "\r", "\x00", "\x7f", "'", "`", "\\t", "%", "é", "日"}))
		}
		s := sb.String()
		var res struct {
			Quoted   string  `json:"quoted"`
			Unquoted *string `json:"unquoted"`
		}
		if err := ctx.Model(J{"fn": "goQuote", "s": hx(s)}, &res); err != nil {
			return err
		}
		ctx.Res.Count("corr:quote")
		q := unhx(res.Quoted)
		back, err := strconv.Unquote(q)
		if err != nil || back != s {
			ctx.Res.Disagree("CORR Enums.quoteGo output is not a Go literal of the value (strconv.Unquote)", J{"s": s}, q, fmt.Sprint(back, err))
		}
		if res.Unquoted == nil || unhx(*res.Unquoted) != s {
			ctx.Res.Disagree("CORR Enums.unquoteGo (quoteGo s) vs s", J{"s": s}, s, res.Unquoted)
		}
		isASCII := true
		for j := 0; j < len(s); j++ {
			if s[j] >= 0x80 {
				isASCII = false
			}
		}
		if isASCII && strconv.Quote(s) != q {
			ctx.Res.Disagree("CORR strconv.Quote vs Enums.quoteGo (ASCII)", J{"s": s}, q, strconv.Quote(s))
		}
	}
	return nil
}

func init() { register("c11", runC11) }
