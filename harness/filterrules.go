package main

import (
	"fmt"
	"go/ast"
	"go/parser"
	"go/token"
	"os"
	"path/filepath"
	"strings"
)

// A sixth translator: the shape of pkg/codegen/filter.go — which configured list each pass of filterOperationsByTag /
// filterOperationsByOperationID uses, under which guard, with which `exclude` flag, in which order; and in the two workers
// the comparison that decides removal (`has(op, set) == exclude`) — is read from the source into `Gen/FilterRules.lean`;
// Props/C16.lean proves that running the translated passes is the model's filterByTag / filterById.

func genFilterRules(ctx *Ctx) error {
	fset := token.NewFileSet()
	f, err := parser.ParseFile(fset, "/repo/pkg/codegen/filter.go", nil, 0)
	if err != nil {
		return err
	}
	fn := func(name string) *ast.FuncDecl {
		for _, d := range f.Decls {
			if x, ok := d.(*ast.FuncDecl); ok && x.Name.Name == name {
				return x
			}
		}
		return nil
	}
	listName := map[string]string{"opts.OutputOptions.ExcludeTags": ".excludeTags", "opts.OutputOptions.IncludeTags": ".includeTags",
		"opts.OutputOptions.ExcludeOperationIDs": ".excludeIds", "opts.OutputOptions.IncludeOperationIDs": ".includeIds"}
	// a pass: if len(<list>) > 0 { <worker>(swagger.Paths, sliceToMap(<list>), <bool>) }
	passes := func(name, worker string) (string, error) {
		fd := fn(name)
		if fd == nil {
			return "", fmt.Errorf("%s not found", name)
		}
		var out []string
		for _, st := range fd.Body.List {
			is, ok := st.(*ast.IfStmt)
			if !ok || is.Else != nil || is.Init != nil || len(is.Body.List) != 1 {
				return "", fmt.Errorf("%s: a statement that is not a guarded pass", name)
			}
			be, ok := is.Cond.(*ast.BinaryExpr)
			if !ok || be.Op != token.GTR {
				return "", fmt.Errorf("%s: a guard of an unknown shape", name)
			}
			lc, ok := be.X.(*ast.CallExpr)
			zero, _ := be.Y.(*ast.BasicLit)
			if !ok || len(lc.Args) != 1 || zero == nil || zero.Value != "0" {
				return "", fmt.Errorf("%s: a guard of an unknown shape", name)
			}
			if id, _ := lc.Fun.(*ast.Ident); id == nil || id.Name != "len" {
				return "", fmt.Errorf("%s: a guard that is not len(…) > 0", name)
			}
			guardList, _ := brSelector(lc.Args[0])
			es, ok := is.Body.List[0].(*ast.ExprStmt)
			if !ok {
				return "", fmt.Errorf("%s: the body of a pass is not a call", name)
			}
			ce, ok := es.X.(*ast.CallExpr)
			if !ok || len(ce.Args) != 3 {
				return "", fmt.Errorf("%s: the body of a pass is not a call of three arguments", name)
			}
			if id, _ := ce.Fun.(*ast.Ident); id == nil || id.Name != worker {
				return "", fmt.Errorf("%s: a pass calls something else than %s", name, worker)
			}
			if p, _ := brSelector(ce.Args[0]); p != "swagger.Paths" {
				return "", fmt.Errorf("%s: a pass works on something else than swagger.Paths", name)
			}
			sm, ok := ce.Args[1].(*ast.CallExpr)
			if !ok || len(sm.Args) != 1 {
				return "", fmt.Errorf("%s: the set of a pass is of an unknown shape", name)
			}
			if id, _ := sm.Fun.(*ast.Ident); id == nil || id.Name != "sliceToMap" {
				return "", fmt.Errorf("%s: the set of a pass is not sliceToMap(…)", name)
			}
			useList, _ := brSelector(sm.Args[0])
			if useList != guardList || listName[useList] == "" {
				return "", fmt.Errorf("%s: a pass guarded by %s uses %s", name, guardList, useList)
			}
			flag, _ := ce.Args[2].(*ast.Ident)
			if flag == nil || (flag.Name != "true" && flag.Name != "false") {
				return "", fmt.Errorf("%s: the exclude flag of a pass is no literal", name)
			}
			out = append(out, fmt.Sprintf("(%s, %s)", listName[useList], flag.Name))
		}
		return "[" + strings.Join(out, ", ") + "]", nil
	}
	// a worker: the one comparison `<has>(op, <set>) ==|!= exclude` that guards `names = append(names, name)`, and the
	// removal `pathItem.SetOperation(name, nil)` for every collected name
	worker := func(name, has string) (string, error) {
		fd := fn(name)
		if fd == nil {
			return "", fmt.Errorf("%s not found", name)
		}
		cmp := ""
		removes := 0
		ast.Inspect(fd.Body, func(n ast.Node) bool {
			switch x := n.(type) {
			case *ast.BinaryExpr:
				if ce, ok := x.X.(*ast.CallExpr); ok && (x.Op == token.EQL || x.Op == token.NEQ) {
					if id, _ := ce.Fun.(*ast.Ident); id != nil && id.Name == has {
						if y, _ := x.Y.(*ast.Ident); y != nil && y.Name == "exclude" {
							cmp += map[token.Token]string{token.EQL: "true", token.NEQ: "false"}[x.Op]
						}
					}
				}
			case *ast.CallExpr:
				if s, _ := brSelector(x.Fun); s == "pathItem.SetOperation" && len(x.Args) == 2 {
					if nl, _ := x.Args[1].(*ast.Ident); nl != nil && nl.Name == "nil" {
						removes++
					}
				}
			}
			return true
		})
		if (cmp != "true" && cmp != "false") || removes != 1 {
			return "", fmt.Errorf("%s: the removal rule was not found or not understood (comparison %q, %d removals)", name, cmp, removes)
		}
		return cmp, nil
	}
	tp, err := passes("filterOperationsByTag", "operationsWithTags")
	if err != nil {
		return err
	}
	ip, err := passes("filterOperationsByOperationID", "operationsWithOperationIDs")
	if err != nil {
		return err
	}
	tw, err := worker("operationsWithTags", "operationHasTag")
	if err != nil {
		return err
	}
	iw, err := worker("operationsWithOperationIDs", "operationHasOperationID")
	if err != nil {
		return err
	}
	txt := "import OapiVerif.Model.Filter\n-- GENERATED by `harness gen-c16` from /repo/pkg/codegen/filter.go (translator: go/ast). Do not edit.\nnamespace OapiVerif.Gen.FilterRules\nopen OapiVerif.Filter\n\n" +
		"/-- the passes of `filterOperationsByTag`, in order: (list that guards and feeds the pass, exclude flag) -/\ndef tagPasses : List (ListName × Bool) := " + tp + "\n\n" +
		"/-- the passes of `filterOperationsByOperationID` -/\ndef idPasses : List (ListName × Bool) := " + ip + "\n\n" +
		"/-- `operationsWithTags` removes an operation when `operationHasTag(op, tags) == exclude` (false: `!=`) -/\ndef tagRemovesWhenEqual : Bool := " + tw + "\n\n" +
		"/-- `operationsWithOperationIDs` removes an operation when `operationHasOperationID(op, ids) == exclude` -/\ndef idRemovesWhenEqual : Bool := " + iw + "\n\nend OapiVerif.Gen.FilterRules\n"
	tmp := filepath.Join(ctx.GenDir, fmt.Sprintf(".FilterRules.%d.tmp", os.Getpid()))
	if err := os.WriteFile(tmp, []byte(txt), 0o644); err != nil {
		return err
	}
	return os.Rename(tmp, filepath.Join(ctx.GenDir, "FilterRules.lean"))
}
