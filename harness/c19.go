package main

import (
	"encoding/base64"
	"encoding/json"
	"fmt"
	"go/ast"
	"os"
	"path/filepath"
	"sort"
	"strconv"
	"strings"

	"github.com/getkin/kin-openapi/openapi3"
	"github.com/oapi-codegen/oapi-codegen/v2/pkg/codegen"
)

// C19 — the embedded specification is the input specification.

// literalChunks returns the string literals of the swaggerSpec composite literal.
func literalChunks(f *ast.File) []string {
	var out []string
	ast.Inspect(f, func(n ast.Node) bool {
		vs, ok := n.(*ast.ValueSpec)
		if !ok {
			return true
		}
		for i, nm := range vs.Names {
			if nm.Name == "swaggerSpec" && i < len(vs.Values) {
				if cl, ok := vs.Values[i].(*ast.CompositeLit); ok {
					for _, e := range cl.Elts {
						if bl, ok := e.(*ast.BasicLit); ok {
							s, _ := strconv.Unquote(bl.Value)
							out = append(out, s)
						}
					}
				}
			}
		}
		return true
	})
	return out
}

// normTree: a JSON tree with operationIds and empty path items removed (the generator normalises
// the ids in place and leaves the path item of a fully filtered path behind).
func normTree(v interface{}, opIDs *[]string) interface{} {
	switch t := v.(type) {
	case map[string]interface{}:
		out := map[string]interface{}{}
		for k, x := range t {
			if k == "operationId" {
				if s, ok := x.(string); ok && opIDs != nil {
					*opIDs = append(*opIDs, s)
				}
				continue
			}
			out[k] = normTree(x, opIDs)
		}
		return out
	case []interface{}:
		out := []interface{}{}
		for _, x := range t {
			out = append(out, normTree(x, opIDs))
		}
		return out
	}
	return v
}

func dropEmptyPaths(tree map[string]interface{}) {
	// empty component sections / an empty components object carry no information
	if comps, ok := tree["components"].(map[string]interface{}); ok {
		for k, v := range comps {
			if m, ok := v.(map[string]interface{}); ok && len(m) == 0 {
				delete(comps, k)
			}
		}
		if len(comps) == 0 {
			delete(tree, "components")
		}
	}
	paths, _ := tree["paths"].(map[string]interface{})
	for p, pi := range paths {
		if m, ok := pi.(map[string]interface{}); ok && len(m) == 0 {
			delete(paths, p)
		}
	}
}

// expectedEmbedded applies the *statement's* filter and prune to the input document.
func expectedEmbedded(doc J, cfg fcfg, prune bool) (map[string]interface{}, error) {
	spec, err := loadDoc(doc)
	if err != nil {
		return nil, err
	}
	b, err := spec.MarshalJSON()
	if err != nil {
		return nil, err
	}
	var tree map[string]interface{}
	if err := json.Unmarshal(b, &tree); err != nil {
		return nil, err
	}
	paths, _ := tree["paths"].(map[string]interface{})
	for p, pi := range paths {
		m, _ := pi.(map[string]interface{})
		for method, opv := range m {
			op, ok := opv.(map[string]interface{})
			if !ok || method == "parameters" || method == "servers" || method == "summary" || method == "description" {
				continue
			}
			var tags []string
			if ts, ok := op["tags"].([]interface{}); ok {
				for _, t := range ts {
					tags = append(tags, fmt.Sprint(t))
				}
			}
			id, _ := op["operationId"].(string)
			if !keepOracle(cfg, fop{Path: p, Method: strings.ToUpper(method), Tags: tags, ID: id}) {
				delete(m, method)
			}
		}
	}
	if prune {
		comps, _ := tree["components"].(map[string]interface{})
		for {
			refs := map[string]bool{}
			var acc []string
			scanRefs(tree["paths"], &acc)
			for kind, mv := range comps {
				m, _ := mv.(map[string]interface{})
				for _, v := range m {
					_ = kind
					scanRefs(v, &acc)
				}
			}
			for _, r := range acc {
				refs[r] = true
			}
			removed := false
			for _, kind := range pruneKinds {
				m, _ := comps[kind].(map[string]interface{})
				for name := range m {
					if !refs["#/components/"+kind+"/"+name] {
						delete(m, name)
						removed = true
					}
				}
			}
			if !removed {
				break
			}
		}
		for kind, mv := range comps {
			if m, ok := mv.(map[string]interface{}); ok && len(m) == 0 {
				delete(comps, kind)
			}
		}
		if len(comps) == 0 {
			delete(tree, "components")
		}
	}
	return tree, nil
}

func runC19(ctx *Ctx) error {
	ctx.Res.Rule = "CORR of the Lean base64 / chunk model with encoding/base64 and with the emitted literal on seeded byte strings (every residue of the length mod 3 and mod 80); RUN: seeded documents (incl. non-ASCII text, text that spells JSON escapes, callback components, parameters only path items refer to, and descriptions padded so that the encoded length hits every residue mod 80 over the run) x tag / operation-id filters x prune on/off x frameworks: the swaggerSpec literal of the real output is decoded, loaded, validated and compared semantically (paths, methods, parameters, bodies, responses, schemas, security, references; operation ids modulo normalisation) with the input after the statement's filter and prune; multi-document: a specification referring to a document named in the import mapping (schemas, array items, a component parameter and response) and to a plain schema file that is not, generated with the mapped package and compiled: GetSwagger() of the package loads, validates and resolves every schema, parameter, body and response to what the input resolves to; non-trivial = every document x configuration Session 9: TRANS Gen/Pipeline.lean; nullable enums listing null first, in the middle and last."
	// CORR base64 / chunk
	for i := 0; i < ctx.N(600, 6000); i++ {
		r := ctx.Rng.Fork()
		n := r.Intn(200)
		if i < 130 {
			n = i
		}
		bs := make([]byte, n)
		for k := range bs {
			bs[k] = byte(r.Intn(256))
		}
		var m struct {
			B64     string  `json:"b64"`
			Chunks  []int   `json:"chunks"`
			Decoded *string `json:"decoded"`
		}
		if err := ctx.Model(map[string]interface{}{"fn": "embed", "bytes": fmt.Sprintf("%x", bs)}, &m); err != nil {
			return err
		}
		ctx.Res.Evaluations++
		ctx.Res.Distribution["corr:base64"]++
		impl := base64.StdEncoding.EncodeToString(bs)
		if unhx(m.B64) != impl {
			ctx.Res.Disagree("CORR b64encode (Model/Embed.lean vs encoding/base64)", J{"bytes": fmt.Sprintf("%x", bs)}, unhx(m.B64), impl)
		}
		// decode: the input bytes seen as text (mostly invalid) and the valid encoding
		for _, txt := range []string{impl, string(bs)} {
			var md struct {
				Decoded *string `json:"decoded"`
			}
			if err := ctx.Model(map[string]interface{}{"fn": "embed", "bytes": fmt.Sprintf("%x", []byte(txt))}, &md); err != nil {
				return err
			}
			got, err := base64.StdEncoding.DecodeString(txt)
			implS, modelS := "<error>", "<error>"
			if err == nil {
				implS = fmt.Sprintf("%x", got)
			}
			if md.Decoded != nil {
				modelS = *md.Decoded
			}
			if strings.ContainsAny(txt, "\r\n") {
				continue // Go's decoder skips newlines; the generator never emits them
			}
			if implS != modelS {
				ctx.Res.Disagree("CORR b64decode (Model/Embed.lean vs encoding/base64)", J{"text": fmt.Sprintf("%x", []byte(txt))}, modelS, implS)
			}
		}
	}
	if err := c19MultiDocRun(ctx); err != nil {
		return err
	}
	// through the command-line tool as well: skip-prune asked for in each configuration style keeps the components nothing
	// refers to in the embedded specification; without it they go
	if bin, err := c20Build(ctx); err == nil {
		d := filepath.Join(ctx.Work, "c19cli")
		_ = os.MkdirAll(d, 0o755)
		doc := J{"openapi": "3.0.3", "info": J{"title": "t", "version": "1"}, "paths": J{"/a": J{"get": J{"operationId": "getA", "responses": J{"204": J{"description": "d"}}}}},
			"components": J{"schemas": J{"Unreferenced": J{"type": "object", "properties": J{"a": J{"type": "string"}}}}}}
		_ = os.WriteFile(filepath.Join(d, "spec.json"), []byte(Canon(doc)), 0o644)
		_ = os.WriteFile(filepath.Join(d, "old.yaml"), []byte("package: api\ngenerate:\n  - types\n  - spec\n  - skip-prune\n"), 0o644)
		_ = os.WriteFile(filepath.Join(d, "oldprune.yaml"), []byte("package: api\ngenerate:\n  - types\n  - spec\n"), 0o644)
		_ = os.WriteFile(filepath.Join(d, "new.yaml"), []byte("package: api\ngenerate:\n  models: true\n  embedded-spec: true\noutput-options:\n  skip-prune: true\n"), 0o644)
		for _, v := range []struct {
			name string
			args []string
			keep bool
		}{{"old-style-file", []string{"-old-config-style", "-config", "old.yaml", "spec.json"}, true}, {"legacy-flags", []string{"-package", "api", "-generate", "types,spec,skip-prune", "spec.json"}, true},
			{"legacy-flags-with-deprecated-flag", []string{"-package", "api", "-generate", "types,spec,skip-prune", "-response-type-suffix", "Resp", "spec.json"}, true},
			{"new-style-file", []string{"-config", "new.yaml", "spec.json"}, true}, {"old-style-file-pruning", []string{"-old-config-style", "-config", "oldprune.yaml", "spec.json"}, false}} {
			run := c20Exec(bin, d, v.args...)
			ctx.Res.Eval(J{"cli-skip-prune": v.name}, true)
			ctx.Res.Count("cli:" + v.name)
			if run.Exit != 0 {
				continue // C20's business
			}
			f, _, perr := parseGo(run.Stdout)
			if perr != nil {
				continue
			}
			raw, derr := decodeEmbedded(f)
			if derr != nil {
				ctx.Res.Violate("cli:embedded-undecodable:"+v.name, "the specification embedded by the tool does not decode: "+derr.Error(), J{"doc": doc, "args": v.args})
				continue
			}
			has := strings.Contains(string(raw), "Unreferenced")
			if has != v.keep {
				ctx.Res.Violate("cli:embedded-components:"+v.name, fmt.Sprintf("tool %v: the embedded specification has the unreferenced component: %v, requested: %v", v.args, has, v.keep), J{"doc": doc, "args": v.args})
			}
		}
		_ = os.RemoveAll(d)
	}

	// RUN
	n := ctx.N(30, 240)
	for i := 0; i < n; i++ {
		r := ctx.Rng.Fork()
		doc, _ := genSpec(r, SpecOpts{Adversarial: i%6 == 5})
		// non-ASCII text and a description padded to move the chunk boundary
		// (also text that documents JSON escapes: a backslash followed by u003c is six characters of text, not "<")
		doc["info"].(J)["description"] = strings.Repeat("é日本 \"quoted\" \\ ", 1+r.Intn(3)) + "<&> \\u003c \\u0026 \\u003e " + strings.Repeat("x", i%83)
		// enums that list null (nullable enums), first, in the middle and last, on a schema every configuration keeps: the
		// value lists of the embedded specification are the document's
		if comps, ok := doc["components"].(J); ok && i%2 == 0 {
			if sc, ok := comps["schemas"].(J); ok {
				sc["ZzNullableLevel"] = J{"type": "object", "properties": J{
					"mid":   J{"type": "string", "nullable": true, "enum": []interface{}{"low", nil, "high"}},
					"first": J{"type": "string", "nullable": true, "enum": []interface{}{nil, "fixed", "wontfix"}},
					"last":  J{"type": "integer", "nullable": true, "enum": []interface{}{1, 2, nil}}}}
				doc["paths"].(J)["/zz/levels"] = J{"get": J{"operationId": "getZzLevels", "responses": J{"200": J{"description": "d",
					"content": J{"application/json": J{"schema": J{"$ref": "#/components/schemas/ZzNullableLevel"}}}}}}}
			}
		}
		var fc fcfg
		switch r.Intn(4) {
		case 0:
			fc.It = []string{"pets"}
		case 1:
			fc.Et = []string{"admin"}
		case 2:
			fc.It, fc.Et = []string{"pets", "store"}, []string{"store"}
		}
		fc.It, fc.Et, fc.Ii, fc.Ei = orEmpty(fc.It), orEmpty(fc.Et), orEmpty(fc.Ii), orEmpty(fc.Ei)
		cfg := fc.config()
		cfg.PackageName = "api"
		cfg.Generate.Models = true
		cfg.Generate.EmbeddedSpec = true
		setFramework(&cfg, allFrameworks[i%7])
		prune := r.Chance(70)
		cfg.OutputOptions.SkipPrune = !prune
		if comps, ok := doc["components"].(J); ok && r.Chance(30) {
			// exclude-schemas leaves out Go types; the embedded specification is not affected by it
			if sc, ok := comps["schemas"].(J); ok && len(sc) > 0 {
				names := SortedKeys(sc)
				cfg.OutputOptions.ExcludeSchemas = []string{names[r.Intn(len(names))]}
				ctx.Res.Count("exclude-schemas")
			}
		}
		if i%10 == 0 {
			// every tenth document is padded until the emitted literal is a whole number of 80-column chunks (the padding is
			// not compressible, so a few dozen tries sweep all residues): the last chunk is then a full one
			base := doc["info"].(J)["description"].(string)
			for pad := 0; pad < 600; pad++ {
				var sb strings.Builder
				pr := NewRng(uint64(ctx.Seed)*7919 + uint64(i)*131 + uint64(pad))
				for k := 0; k < pad; k++ {
					sb.WriteByte("abcdefghijklmnopqrstuvwxyzABCDEFGHIJKLMNOPQRSTUVWXYZ0123456789"[pr.Intn(62)])
				}
				doc["info"].(J)["description"] = base + sb.String()
				sp, err := loadDoc(doc)
				if err != nil {
					return err
				}
				out, err := generate(sp, cfg)
				if err != nil {
					break
				}
				if f0, _, perr := parseGo(out); perr == nil {
					total := 0
					for _, c := range literalChunks(f0) {
						total += len(c)
					}
					if total%80 == 0 {
						ctx.Res.Count("literal-length-multiple-of-80")
						break
					}
				}
			}
		}
		ctx.Res.Eval(J{"doc": Hash(doc), "filter": fc, "prune": prune}, true)
		replay := J{"doc": doc, "cfg": cfg}
		spec, err := loadDoc(doc)
		if err != nil {
			return err
		}
		src, err := generate(spec, cfg)
		if err != nil {
			ctx.Res.Count("generate-error")
			continue // C01's business
		}
		f, _, perr := parseGo(src)
		if perr != nil {
			continue
		}
		chunks := literalChunks(f)
		for ci, c := range chunks {
			if len(c) == 0 || len(c) > 80 || (ci < len(chunks)-1 && len(c) != 80) {
				ctx.Res.Violate("chunk-length", fmt.Sprintf("chunk %d of the swaggerSpec literal has length %d", ci, len(c)), replay)
			}
		}
		raw, err := decodeEmbedded(f)
		if err != nil {
			ctx.Res.Violate("embedded-undecodable", "the embedded specification does not decode: "+err.Error(), replay)
			continue
		}
		emb, err := openapi3.NewLoader().LoadFromData(raw)
		if err != nil {
			ctx.Res.Violate("embedded-unloadable", "the embedded specification does not load: "+err.Error(), replay)
			continue
		}
		if err := emb.Validate(openapi3.NewLoader().Context); err != nil {
			// only a violation if the input itself validates
			if in, e2 := loadDoc(doc); e2 == nil && in.Validate(openapi3.NewLoader().Context) == nil {
				ctx.Res.Violate("embedded-invalid", "the embedded specification does not validate although the input does: "+err.Error(), replay)
			}
		}
		var got map[string]interface{}
		if err := json.Unmarshal(raw, &got); err != nil {
			return err
		}
		want, err := expectedEmbedded(doc, fc, prune)
		if err != nil {
			return err
		}
		var gotIDs, wantIDs []string
		gn := normTree(got, &gotIDs).(map[string]interface{})
		wn := normTree(want, &wantIDs).(map[string]interface{})
		dropEmptyPaths(gn)
		dropEmptyPaths(wn)
		if Canon(gn) != Canon(wn) {
			where := firstTreeDiff("", gn, wn)
			ctx.Res.Violate("embedded-differs:"+strings.SplitN(where, ":", 2)[0], "the embedded specification differs from the filtered/pruned input at "+where, J{"doc": doc, "cfg": cfg, "at": where})
		}
		// operation ids: equal modulo the generator's normalisation
		sort.Strings(gotIDs)
		var wantNorm []string
		for _, id := range wantIDs {
			wantNorm = append(wantNorm, codegen.VerifTypeNamePrefix(codegen.ToCamelCase(id))+codegen.ToCamelCase(id))
		}
		sort.Strings(wantNorm)
		sort.Strings(wantIDs)
		if Canon(gotIDs) != Canon(wantNorm) && Canon(gotIDs) != Canon(wantIDs) && cfg.OutputOptions.NameNormalizer == "" {
			// ids of operations that had none are generated; compare only the declared ones
			declared := map[string]bool{}
			for _, id := range wantNorm {
				declared[id] = true
			}
			missing := false
			have := map[string]bool{}
			for _, id := range gotIDs {
				have[id] = true
			}
			for id := range declared {
				if !have[id] {
					missing = true
				}
			}
			if missing {
				ctx.Res.Violate("embedded-operation-ids", fmt.Sprintf("operation ids of the embedded specification %v are not the (normalised) declared ones %v", gotIDs, wantNorm), replay)
			}
		}
	}
	return nil
}

func firstTreeDiff(path string, a, b interface{}) string {
	switch x := a.(type) {
	case map[string]interface{}:
		y, ok := b.(map[string]interface{})
		if !ok {
			return path + ": kinds differ"
		}
		for _, k := range SortedKeys(x) {
			if _, ok := y[k]; !ok {
				return path + "/" + k + ": only in the embedded specification"
			}
		}
		for _, k := range SortedKeys(y) {
			if _, ok := x[k]; !ok {
				return path + "/" + k + ": missing from the embedded specification"
			}
		}
		for _, k := range SortedKeys(x) {
			if Canon(x[k]) != Canon(y[k]) {
				return firstTreeDiff(path+"/"+k, x[k], y[k])
			}
		}
	case []interface{}:
		y, ok := b.([]interface{})
		if !ok || len(x) != len(y) {
			return path + ": lists differ"
		}
		for i := range x {
			if Canon(x[i]) != Canon(y[i]) {
				return firstTreeDiff(fmt.Sprintf("%s[%d]", path, i), x[i], y[i])
			}
		}
	}
	return fmt.Sprintf("%s: %s vs %s", path, Canon(a), Canon(b))
}

func init() { register("c19", runC19) }
