package main

import (
	"bytes"
	"context"
	"encoding/base64"
	"fmt"
	"go/ast"
	"go/token"
	"io"
	"net/http"
	"net/url"
	"sort"
	"strconv"
	"strings"

	"github.com/oapi-codegen/oapi-codegen/v2/pkg/codegen"
	"github.com/oapi-codegen/oapi-codegen/v2/pkg/securityprovider"
)

// C18 — security requirements are carried faithfully on both sides.

var c18Schemes = []string{"bearerAuth", "api-key", "api_key", "OAuth2", "basic", "2fa", "type", "string", "x.y", "élan", "petstore_auth", "_hidden", "A"}

// Two names whose constants differ only in the case of the first letter ("a"/"A") declare one identifier twice and do not
// compile; like C01 the domain is names that normalise to distinct identifiers (or, as api-key/api_key, to one sanitised name).
var c18Scopes = []string{"read", "write", "read:pets", "write:pets", "admin", "a.b", "x-y", "user_1"}

type c18Entry struct {
	Name   string   `json:"name"`
	Scopes []string `json:"scopes"`
}

// one requirement = a list of entries with distinct names
func c18GenReqs(r *Rng, adversarial bool) [][]c18Entry {
	n := r.Intn(4)
	pool := c18Schemes[:5]
	if adversarial {
		pool = c18Schemes
	}
	reqs := [][]c18Entry{}
	for i := 0; i < n; i++ {
		k := 1 + r.Intn(3)
		if r.Chance(10) {
			k = 0 // {} = anonymous access allowed
		}
		perm := r.Perm(len(pool))
		req := []c18Entry{}
		for j := 0; j < k && j < len(pool); j++ {
			e := c18Entry{Name: pool[perm[j]], Scopes: []string{}}
			ns := r.Intn(4)
			for s := 0; s < ns; s++ {
				e.Scopes = append(e.Scopes, r.Pick(c18Scopes))
			}
			req = append(req, e)
		}
		reqs = append(reqs, req)
	}
	return reqs
}

func c18ReqsJSON(reqs [][]c18Entry) []interface{} {
	out := []interface{}{}
	for _, rq := range reqs {
		m := J{}
		for _, e := range rq {
			ss := []interface{}{}
			for _, s := range e.Scopes {
				ss = append(ss, s)
			}
			m[e.Name] = ss
		}
		out = append(out, m)
	}
	return out
}

func cpsStr(v interface{}) string {
	l, _ := v.([]interface{})
	var b strings.Builder
	for _, x := range l {
		f, _ := x.(float64)
		b.WriteRune(rune(int(f)))
	}
	return b.String()
}

func c18ReqsModel(reqs [][]c18Entry) []interface{} {
	out := []interface{}{}
	for _, rq := range reqs {
		l := []interface{}{}
		for _, e := range rq {
			ss := []interface{}{}
			for _, s := range e.Scopes {
				ss = append(ss, cps(s))
			}
			l = append(l, J{"name": cps(e.Name), "scopes": ss})
		}
		out = append(out, l)
	}
	return out
}

type c18Case struct {
	Global [][]c18Entry    // nil = absent
	Ops    []*[][]c18Entry // nil = absent, pointer to empty = cleared
}

func c18GenCase(r *Rng, adversarial bool) c18Case {
	var c c18Case
	if r.Chance(70) {
		c.Global = c18GenReqs(r, adversarial)
	}
	n := 3 + r.Intn(5)
	for i := 0; i < n; i++ {
		switch {
		case i == 0:
			c.Ops = append(c.Ops, nil)
		case i == 1:
			e := [][]c18Entry{}
			c.Ops = append(c.Ops, &e)
		case i == 2:
			rq := c18GenReqs(r, adversarial)
			for len(rq) == 0 {
				rq = c18GenReqs(r, adversarial)
			}
			c.Ops = append(c.Ops, &rq)
		case r.Chance(30):
			c.Ops = append(c.Ops, nil)
		case r.Chance(25):
			e := [][]c18Entry{}
			c.Ops = append(c.Ops, &e)
		default:
			rq := c18GenReqs(r, adversarial)
			c.Ops = append(c.Ops, &rq)
		}
	}
	return c
}

func c18Path(i int) string   { return fmt.Sprintf("/p%d", i/3) }
func c18Method(i int) string { return []string{"DELETE", "GET", "POST"}[i%3] }

func c18Doc(c c18Case) J {
	paths := J{}
	for i, o := range c.Ops {
		op := J{"operationId": fmt.Sprintf("Op%d", i), "responses": J{"200": J{"description": "d"}}}
		if o != nil {
			op["security"] = c18ReqsJSON(*o)
		}
		// three operations share a path item, in the order their methods are walked (DELETE, GET, POST): what one
		// operation declares must not reach its neighbours
		getJ(paths, c18Path(i))[strings.ToLower(c18Method(i))] = op
	}
	doc := J{"openapi": "3.0.3", "info": J{"title": "t", "version": "1"}, "paths": paths}
	if c.Global != nil {
		doc["security"] = c18ReqsJSON(c.Global)
	}
	ss := J{}
	for _, n := range c18Schemes {
		ss[n] = J{"type": "http", "scheme": "bearer"}
	}
	doc["components"] = J{"securitySchemes": ss}
	return doc
}

type c18Model struct {
	Defs [][]struct {
		P      interface{}   `json:"p"`
		Scopes []interface{} `json:"scopes"`
		Ident  interface{}   `json:"ident"`
		Key    interface{}   `json:"key"`
	} `json:"defs"`
	Ctx [][]struct {
		Key    interface{}   `json:"key"`
		Scopes []interface{} `json:"scopes"`
	} `json:"ctx"`
	Constants []struct {
		Ident interface{} `json:"ident"`
		Key   interface{} `json:"key"`
	} `json:"constants"`
}

func c18CallModel(ctx *Ctx, c c18Case) (*c18Model, error) {
	ops := []interface{}{}
	for _, o := range c.Ops {
		if o == nil {
			ops = append(ops, nil)
		} else {
			ops = append(ops, c18ReqsModel(*o))
		}
	}
	g := c18ReqsModel(c.Global)
	var m c18Model
	err := ctx.Model(J{"fn": "secDefs", "uni": uniTable(strings.Join(c18Schemes, "")), "global": g, "ops": ops}, &m)
	return &m, err
}

// c18Consts: name -> value of the string constants of the generated file whose name ends in Scopes.
func c18Consts(f *ast.File) map[string]string {
	out := map[string]string{}
	for _, d := range f.Decls {
		gd, ok := d.(*ast.GenDecl)
		if !ok || gd.Tok != token.CONST {
			continue
		}
		for _, sp := range gd.Specs {
			vs := sp.(*ast.ValueSpec)
			for i, n := range vs.Names {
				if strings.HasSuffix(n.Name, "Scopes") && i < len(vs.Values) {
					if bl, ok := vs.Values[i].(*ast.BasicLit); ok && bl.Kind == token.STRING {
						v, _ := strconv.Unquote(bl.Value)
						out[n.Name] = v
					}
				}
			}
		}
	}
	return out
}

func c18CorrDefs(ctx *Ctx, n int) error {
	for i := 0; i < n; i++ {
		r := ctx.Rng.Fork()
		adv := i%3 == 2
		c := c18GenCase(r, adv)
		doc := c18Doc(c)
		m, err := c18CallModel(ctx, c)
		if err != nil {
			return err
		}
		spec, err := loadDoc(doc)
		if err != nil {
			return fmt.Errorf("c18 document does not load: %v", err)
		}
		ops, err := codegen.OperationDefinitions(spec, false)
		if err != nil {
			return err
		}
		ctx.Res.Eval(J{"case": Hash(c), "adversarial": adv}, true)
		byID := map[string]codegen.OperationDefinition{}
		for _, o := range ops {
			byID[o.OperationId] = o
		}
		for k := range c.Ops {
			o := byID[fmt.Sprintf("Op%d", k)]
			var got, want []string
			for _, d := range o.SecurityDefinitions {
				got = append(got, d.ProviderName+"="+strings.Join(d.Scopes, ","))
			}
			for _, d := range m.Defs[k] {
				var ss []string
				for _, s := range d.Scopes {
					ss = append(ss, cpsStr(s))
				}
				want = append(want, cpsStr(d.P)+"="+strings.Join(ss, ","))
			}
			kind := "explicit"
			if c.Ops[k] == nil {
				kind = "inherit"
			} else if len(*c.Ops[k]) == 0 {
				kind = "cleared"
			}
			ctx.Res.Count("defs:" + kind)
			if strings.Join(got, ";") != strings.Join(want, ";") {
				// the model is the statement here: operation-level replaces global, empty clears
				ctx.Res.Violate("defs:"+kind, fmt.Sprintf("operation Op%d (%s security): the generator applies [%s], the document prescribes [%s]", k, kind, strings.Join(got, "; "), strings.Join(want, "; ")),
					J{"doc": doc, "op": k})
			}
		}
		// the constants block of real output
		var cfg codegen.Configuration
		cfg.PackageName = "api"
		cfg.Generate.ChiServer = true
		cfg.Generate.Models = true
		out, err := generate(spec, cfg)
		if err != nil {
			ctx.Res.Violate("generate-error", "generation fails for a document with security requirements: "+firstLine(err.Error()), J{"doc": doc})
			continue
		}
		f, _, err := parseGo(out)
		if err != nil {
			ctx.Res.Violate("generate-unparsable", "output does not parse: "+firstLine(err.Error()), J{"doc": doc})
			continue
		}
		got := c18Consts(f)
		want := map[string]string{}
		for _, k := range m.Constants {
			want[cpsStr(k.Ident)] = cpsStr(k.Key)
		}
		if Canon(got) != Canon(want) {
			ctx.Res.Disagree("CORR constants block vs Security.constants", J{"doc": doc}, want, got)
		}
		// every key the wrappers use is a declared constant (the model's per-definition ident)
		for k := range c.Ops {
			for _, d := range m.Defs[k] {
				if _, ok := got[cpsStr(d.Ident)]; !ok {
					ctx.Res.Violate("constant-missing", fmt.Sprintf("scheme %q applies to Op%d but its key constant %s is not generated", cpsStr(d.P), k, cpsStr(d.Ident)), J{"doc": doc})
				}
			}
		}
	}
	return nil
}

// ---------- providers ----------

type c18Req struct {
	Method  string
	Path    string
	Raw     string
	Headers http.Header
	Body    string
}

var c18CredAtoms = []string{"abc", "123", "s3cr3t", "a b", "a,b", ":", "a:b", "%", "%41", "+", "&", "=", "&admin=true", "#", "/", "?", "\"", ";", "\\", "é", "日本", "\x7f", "\t", "~", "-_.", ""}

func c18Cred(r *Rng) string {
	n := 1 + r.Intn(3)
	if r.Chance(5) {
		n = 0
	}
	var b strings.Builder
	for i := 0; i < n; i++ {
		b.WriteString(r.Pick(c18CredAtoms))
	}
	return b.String()
}

func c18GenReq(r *Rng) c18Req {
	q := c18Req{Method: r.Pick([]string{"GET", "POST", "DELETE"}), Path: r.Pick([]string{"/", "/pets", "/pets/1/toys"}), Headers: http.Header{}}
	var pairs []string
	for i, n := 0, r.Intn(4); i < n; i++ {
		k := r.Pick([]string{"a", "b", "api_key", "key", "z z", "é"})
		v := r.Pick([]string{"1", "x y", "a&b", "", "é", "1+1"})
		pairs = append(pairs, url.QueryEscape(k)+"="+url.QueryEscape(v))
	}
	q.Raw = strings.Join(pairs, "&")
	if r.Chance(50) {
		q.Headers.Set("Accept", "application/json")
	}
	if r.Chance(40) {
		q.Headers.Set("Authorization", r.Pick([]string{"Bearer old", "Basic b2xk", ""}))
	}
	if r.Chance(40) {
		q.Headers.Add("X-Api-Key", "old1")
		if r.Bool() {
			q.Headers.Add("X-Api-Key", "old2")
		}
	}
	if r.Chance(50) {
		q.Headers.Set("Cookie", r.Pick([]string{"a=b", "a=b; c=d", "session=xyz"}))
	}
	if q.Method == "POST" {
		q.Body = r.Pick([]string{"", `{"a":1}`, "x=1"})
	}
	return q
}

func unhxI(v interface{}) string {
	s, _ := v.(string)
	return unhx(s)
}

func c18KVs(keys []string, get func(string) []string) []interface{} {
	out := []interface{}{}
	for _, k := range keys {
		vs := []interface{}{}
		for _, v := range get(k) {
			vs = append(vs, hx(v))
		}
		out = append(out, J{"k": hx(k), "v": vs})
	}
	return out
}

func c18KVMap(v interface{}) map[string][]string {
	out := map[string][]string{}
	l, _ := v.([]interface{})
	for _, e := range l {
		m, _ := e.(map[string]interface{})
		k := unhxI(m["k"])
		vs, _ := m["v"].([]interface{})
		vals := []string{}
		for _, x := range vs {
			vals = append(vals, unhxI(x))
		}
		out[k] = vals
	}
	return out
}

func normMap(m map[string][]string) map[string][]string {
	out := map[string][]string{}
	for k, v := range m {
		if v == nil {
			v = []string{}
		}
		out[k] = v
	}
	return out
}

func validCookieByte(b byte) bool { return 0x20 <= b && b < 0x7f && b != '"' && b != ';' && b != '\\' }

func c18CorrProviders(ctx *Ctx, n int) error {
	kinds := []string{"basic", "bearer", "header", "query", "cookie"}
	for i := 0; i < n; i++ {
		r := ctx.Rng.Fork()
		kind := kinds[i%len(kinds)]
		rq := c18GenReq(r)
		a, b := c18Cred(r), c18Cred(r)
		name := ""
		switch kind {
		case "header":
			name = r.Pick([]string{"X-API-Key", "x-api-key", "X_Custom", "Authorization", "api key", "Ünï", "X-Api-Key", "a--b", "x-1a-b2"})
		case "query":
			name = r.Pick([]string{"api_key", "key", "a", "z z", "é", "k&x", "a=b"})
		case "cookie":
			name = r.Pick([]string{"session", "api_key", "a", "X-Key"})
		}
		// the real provider on a real request
		u := "http://h" + rq.Path
		if rq.Raw != "" {
			u += "?" + rq.Raw
		}
		req, err := http.NewRequest(rq.Method, u, strings.NewReader(rq.Body))
		if err != nil {
			return err
		}
		req.Header = rq.Headers.Clone()
		var prov interface {
			Intercept(context.Context, *http.Request) error
		}
		var perr error
		switch kind {
		case "basic":
			prov, perr = securityprovider.NewSecurityProviderBasicAuth(a, b)
		case "bearer":
			prov, perr = securityprovider.NewSecurityProviderBearerToken(a)
		default:
			prov, perr = securityprovider.NewSecurityProviderApiKey(kind, name, b)
			a = name
		}
		if perr != nil {
			return perr
		}
		replay := J{"kind": kind, "a": a, "b": b, "request": J{"method": rq.Method, "path": rq.Path, "raw_query": rq.Raw, "headers": rq.Headers, "body": rq.Body}}
		ctx.Res.Eval(J{"kind": kind, "a": a, "b": b, "req": Hash(replay)}, true)
		ctx.Res.Count("provider:" + kind)
		if err := prov.Intercept(context.Background(), req); err != nil {
			ctx.Res.Violate("provider-error:"+kind, "Intercept fails: "+err.Error(), replay)
			continue
		}
		gotBody, _ := io.ReadAll(req.Body)
		// model
		oldQ, _ := url.ParseQuery(rq.Raw)
		var mres map[string]interface{}
		if err := ctx.Model(J{"fn": "provider", "kind": kind, "a": hx(a), "b": hx(b), "req": J{
			"method": hx(rq.Method), "path": hx(rq.Path), "body": hx(rq.Body),
			"query":   c18KVs(SortedKeys(oldQ), func(k string) []string { return oldQ[k] }),
			"headers": c18KVs(SortedKeys(rq.Headers), func(k string) []string { return rq.Headers[k] })}}, &mres); err != nil {
			return err
		}
		mh := c18KVMap(mres["headers"])
		if Canon(normMap(mh)) != Canon(normMap(req.Header)) {
			ctx.Res.Disagree("CORR securityprovider "+kind+" headers vs model", replay, mh, req.Header)
		}
		if unhxI(mres["method"]) != req.Method || unhxI(mres["path"]) != req.URL.Path || unhxI(mres["body"]) != string(gotBody) {
			ctx.Res.Disagree("CORR securityprovider "+kind+" method/path/body vs model", replay, J{"method": unhxI(mres["method"]), "path": unhxI(mres["path"])}, J{"method": req.Method, "path": req.URL.Path})
		}
		if kind == "query" {
			if unhxI(mres["rawQuery"]) != req.URL.RawQuery {
				ctx.Res.Disagree("CORR securityprovider query wire form vs model encodeQuery", replay, unhxI(mres["rawQuery"]), req.URL.RawQuery)
			}
		}
		// the statement itself, independently of the model
		bad := func(what string) {
			ctx.Res.Violate("provider:"+kind+":"+what, fmt.Sprintf("%s provider: %s", kind, what), replay)
		}
		if req.Method != rq.Method || req.URL.Path != rq.Path || string(gotBody) != rq.Body {
			bad("method, path or body changed")
		}
		touched := ""
		switch kind {
		case "basic", "bearer":
			touched = "Authorization"
		case "header":
			touched = http.CanonicalHeaderKey(name)
		case "cookie":
			touched = "Cookie"
		}
		for k, vs := range rq.Headers {
			if k != touched && Canon(vs) != Canon(req.Header[k]) {
				bad("another header changed")
			}
		}
		for k := range req.Header {
			if _, had := rq.Headers[k]; !had && k != touched {
				bad("an unrelated header appeared")
			}
		}
		if kind != "query" && req.URL.RawQuery != rq.Raw {
			bad("the query changed")
		}
		switch kind {
		case "basic":
			vs := req.Header["Authorization"]
			if len(vs) != 1 || !strings.HasPrefix(vs[0], "Basic ") {
				bad("Authorization is not a single Basic value")
			} else if dec, err := base64.StdEncoding.DecodeString(strings.TrimPrefix(vs[0], "Basic ")); err != nil || string(dec) != a+":"+b {
				bad("the Basic credential does not decode to user:password")
			}
		case "bearer":
			if vs := req.Header["Authorization"]; len(vs) != 1 || vs[0] != "Bearer "+a {
				bad("Authorization is not exactly Bearer <token>")
			}
		case "header":
			vs := req.Header[touched]
			old := rq.Headers[touched]
			if len(vs) != len(old)+1 || vs[len(vs)-1] != b || Canon(vs[:len(vs)-1]) != Canon(append([]string{}, old...)) {
				bad("the key is not added as one more value of the header")
			}
		case "query":
			nq, err := url.ParseQuery(req.URL.RawQuery)
			if err != nil {
				bad("the new query does not parse")
				break
			}
			want := url.Values{}
			for k, v := range oldQ {
				want[k] = append([]string{}, v...)
			}
			want[name] = append(want[name], b)
			if Canon(normMap(nq)) != Canon(normMap(want)) {
				bad("the parsed query is not the old query plus the key")
			}
		case "cookie":
			safe := b != ""
			for j := 0; j < len(b); j++ {
				if !validCookieByte(b[j]) {
					safe = false
				}
			}
			if safe {
				old := (&http.Request{Header: rq.Headers}).Cookies()
				now := req.Cookies()
				ok := len(now) == len(old)+1 && now[len(now)-1].Name == name && now[len(now)-1].Value == b
				for j := range old {
					if ok && (now[j].Name != old[j].Name || now[j].Value != old[j].Value) {
						ok = false
					}
				}
				if !ok {
					bad("the cookies are not the old cookies plus name=key")
				}
			} else {
				ctx.Res.Count("cookie:credential-not-representable")
			}
		}
	}
	return nil
}

// ---------- RUN: what the stub handler sees ----------

func c18Run(ctx *Ctx, ndocs int) error {
	kit, err := NewRunKit(ctx.Work)
	if err != nil {
		return err
	}
	defer kit.Close()
	fws := []string{"chi", "gorilla", "stdhttp", "gin", "fiber", "iris", "echo"}
	type pk struct {
		p  *RunPkg
		c  c18Case
		m  *c18Model
		fw string
	}
	var pks []pk
	for d := 0; d < ndocs; d++ {
		r := ctx.Rng.Fork()
		c := c18GenCase(r, d%2 == 1)
		m, err := c18CallModel(ctx, c)
		if err != nil {
			return err
		}
		for fi, fw := range fws {
			// strict handlers of echo, fiber and iris receive the request's context.Context, not the framework context the
			// wrapper writes to; the scopes are observed where the wrapper publishes them, so strict is used only where the
			// strict handler's context is that same context (chi, gorilla, std-http: r.Context(); gin: *gin.Context)
			strict := (d+fi)%3 == 0 && (fw == "chi" || fw == "gorilla" || fw == "stdhttp" || fw == "gin")
			var cfg codegen.Configuration
			cfg.Generate.Models = true
			p := kit.Add(&RunPkg{Name: fmt.Sprintf("c18_%d_%s", d, fw), FW: fw, Strict: strict, Doc: c18Doc(c), Cfg: cfg})
			pks = append(pks, pk{p, c, m, fw})
		}
	}
	kit.Prepare()
	for _, k := range pks {
		doc := c18Doc(k.c)
		if k.p.GenErr != nil {
			ctx.Res.Violate("run:generate-error:"+k.fw, "generation fails: "+firstLine(k.p.GenErr.Error()), J{"doc": doc, "fw": k.fw})
			continue
		}
		if k.p.BuildErr != "" {
			ctx.Res.Violate("run:compile-error:"+k.fw+":"+errorClass(k.p.BuildErr), "generated server does not compile: "+firstLines(k.p.BuildErr, 2), J{"doc": doc, "fw": k.fw})
			continue
		}
		for i := range k.c.Ops {
			resp, err := k.p.Call(J{"do": "serve", "req": J{"method": c18Method(i), "url": "http://h" + c18Path(i)}, "opt": J{"sel": 0, "status": 200, "warm": i % 2}}) // every other operation has served the request before
			if err != nil {
				return err
			}
			ctx.Res.Eval(J{"doc": Hash(doc), "fw": k.fw, "op": i}, true)
			ctx.Res.Count("run:" + k.fw)
			replay := J{"doc": doc, "fw": k.fw, "strict": k.p.Strict, "op": i}
			if resp["regpanic"] != nil || resp["panic"] != nil {
				ctx.Res.Violate("run:panic:"+k.fw, fmt.Sprintf("serving panics: %v %v", resp["regpanic"], resp["panic"]), replay)
				continue
			}
			calls, _ := resp["calls"].([]interface{})
			if len(calls) != 1 {
				ctx.Res.Violate("run:no-call:"+k.fw, fmt.Sprintf("%d handler calls for a plain GET", len(calls)), replay)
				continue
			}
			call := calls[0].(map[string]interface{})
			got := map[string][]string{}
			if sc, ok := call["scopes"].(map[string]interface{}); ok {
				for name, v := range sc {
					l, _ := v.([]interface{})
					ss := []string{}
					for _, x := range l {
						ss = append(ss, fmt.Sprint(x))
					}
					got[name] = ss
				}
			}
			// expected: per definition, under the scheme's constant (last write wins), nothing else
			want := map[string][]string{}
			for _, d := range k.m.Defs[i] {
				ss := []string{}
				for _, s := range d.Scopes {
					ss = append(ss, cpsStr(s))
				}
				want[cpsStr(d.Ident)] = ss
			}
			kind := "explicit"
			if k.c.Ops[i] == nil {
				kind = "inherit"
			} else if len(*k.c.Ops[i]) == 0 {
				kind = "cleared"
			}
			ctx.Res.Count("run-kind:" + kind)
			if Canon(got) != Canon(want) {
				ctx.Res.Violate("run:context:"+k.fw+":"+kind, fmt.Sprintf("%s Op%d (%s security): the handler sees %v in the context, the document prescribes %v", k.fw, i, kind, c18Show(got), c18Show(want)), replay)
			}
		}
	}
	return nil
}

func c18Show(m map[string][]string) string {
	var parts []string
	for _, k := range SortedKeys(m) {
		parts = append(parts, k+"=["+strings.Join(m[k], " ")+"]")
	}
	sort.Strings(parts)
	return "{" + strings.Join(parts, ", ") + "}"
}

func runC18(ctx *Ctx) error {
	ctx.Res.Rule = "CORR: OperationDefinitions + the generated constants block vs the model for seeded (global, per-operation) requirement lists (absent, empty, {} alternatives, one or several schemes, AND/OR, scope lists, names needing sanitising incl. colliding ones); every securityprovider request editor vs the model and vs the statement's own oracle on seeded requests (existing query, headers, cookies) and credentials (any bytes); RUN: context values seen by the stub handler of the compiled server on 7 frameworks (strict on a third); non-trivial = every case Session 9: TRANS Gen/SecurityRule.lean."
	if err := c18CorrDefs(ctx, ctx.N(150, 1500)); err != nil {
		return err
	}
	if err := c18CorrProviders(ctx, ctx.N(1500, 20000)); err != nil {
		return err
	}
	return c18Run(ctx, ctx.N(3, 10))
}

var _ = bytes.NewReader

func init() { register("c18", runC18) }
