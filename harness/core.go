package main

import (
	"bufio"
	"bytes"
	"crypto/sha256"
	"encoding/hex"
	"encoding/json"
	"fmt"
	"io"
	"os"
	"os/exec"
	"sort"
	"time"
)

// ---------- PRNG (splitmix64): every random choice derives from VERIF_SEED ----------

type Rng struct{ s uint64 }

func NewRng(seed uint64) *Rng {
	// scramble the seed so that neighbouring seeds give unrelated streams
	z := seed + 0x632BE59BD9B4E019
	z = (z ^ (z >> 30)) * 0xBF58476D1CE4E5B9
	z = (z ^ (z >> 27)) * 0x94D049BB133111EB
	return &Rng{s: z ^ (z >> 31)}
}
func (r *Rng) U64() uint64 {
	r.s += 0x9E3779B97F4A7C15
	z := r.s
	z = (z ^ (z >> 30)) * 0xBF58476D1CE4E5B9
	z = (z ^ (z >> 27)) * 0x94D049BB133111EB
	return z ^ (z >> 31)
}
func (r *Rng) Intn(n int) int {
	if n <= 0 {
		return 0
	}
	return int(r.U64() % uint64(n))
}
func (r *Rng) Bool() bool        { return r.U64()&1 == 1 }
func (r *Rng) Chance(p int) bool { return r.Intn(100) < p }
func (r *Rng) Pick(xs []string) string {
	return xs[r.Intn(len(xs))]
}
func (r *Rng) Fork() *Rng { return NewRng(r.U64()) }
func (r *Rng) Perm(n int) []int {
	p := make([]int, n)
	for i := range p {
		p[i] = i
	}
	for i := n - 1; i > 0; i-- {
		j := r.Intn(i + 1)
		p[i], p[j] = p[j], p[i]
	}
	return p
}

// ---------- Result ----------

type Violation struct {
	Sig    string      `json:"sig"`  // canonical signature, matched against known-findings.txt
	What   string      `json:"what"` // one line: what fails
	Replay interface{} `json:"replay"`
}

type Disagreement struct {
	Tie   string      `json:"tie"` // name of the theorem/correspondence that no longer checks
	Case  interface{} `json:"case"`
	Model interface{} `json:"model"`
	Impl  interface{} `json:"impl"`
}

type Result struct {
	Cmd           string                 `json:"cmd"`
	Evaluations   int                    `json:"evaluations"`
	Distinct      int                    `json:"distinct_nontrivial"`
	Rule          string                 `json:"rule"`
	Samples       []interface{}          `json:"samples"`
	Exhaustive    bool                   `json:"exhaustive"`
	Distribution  map[string]int         `json:"distribution"`
	Extra         map[string]interface{} `json:"extra,omitempty"`
	Disagreements []Disagreement         `json:"disagreements"`
	Violations    []Violation            `json:"violations"`
	Fatal         string                 `json:"fatal,omitempty"`
	WallS         float64                `json:"wall_s"`
	seen          map[string]bool
}

func NewResult(cmd string) *Result {
	return &Result{Cmd: cmd, Distribution: map[string]int{}, Extra: map[string]interface{}{},
		Disagreements: []Disagreement{}, Violations: []Violation{}, Samples: []interface{}{}, seen: map[string]bool{}}
}

func (r *Result) Count(k string) { r.Distribution[k]++ }

// Eval records one evaluated case; nontrivial cases are de-duplicated by their canonical JSON.
func (r *Result) Eval(c interface{}, nontrivial bool) {
	r.Evaluations++
	if nontrivial {
		h := Hash(c)
		if !r.seen[h] {
			r.seen[h] = true
			r.Distinct++
		}
	}
	if len(r.Samples) < 3 {
		r.Samples = append(r.Samples, c)
	}
}

func (r *Result) Violate(sig, what string, replay interface{}) {
	for _, v := range r.Violations {
		if v.Sig == sig {
			return
		}
	}
	if len(r.Violations) < 2000 {
		r.Violations = append(r.Violations, Violation{Sig: sig, What: what, Replay: replay})
	}
}

func (r *Result) Disagree(tie string, c, model, impl interface{}) {
	if len(r.Disagreements) < 50 {
		r.Disagreements = append(r.Disagreements, Disagreement{Tie: tie, Case: c, Model: model, Impl: impl})
	}
}

func (r *Result) Write(path string) error {
	b, err := json.MarshalIndent(r, "", " ")
	if err != nil {
		return err
	}
	return os.WriteFile(path, b, 0o644)
}

func Canon(v interface{}) string {
	b, _ := json.Marshal(v) // map keys are sorted by encoding/json
	return string(b)
}

func Hash(v interface{}) string {
	h := sha256.Sum256([]byte(Canon(v)))
	return hex.EncodeToString(h[:8])
}

func SortedKeys[T any](m map[string]T) []string {
	ks := make([]string, 0, len(m))
	for k := range m {
		ks = append(ks, k)
	}
	sort.Strings(ks)
	return ks
}

// ---------- Ctx ----------

type Ctx struct {
	Tier       string
	Seed       int64
	Rng        *Rng
	DriverPath string
	Replay     string
	GenDir     string
	Work       string
	Res        *Result
	drv        *Driver
	start      time.Time
}

func (c *Ctx) Thorough() bool { return c.Tier == "thorough" }

// N picks a case count by tier.
func (c *Ctx) N(quick, thorough int) int {
	if c.Thorough() {
		return thorough
	}
	return quick
}

func (c *Ctx) Elapsed() time.Duration { return time.Since(c.start) }

// ---------- Lean driver client (line protocol) ----------

type Driver struct {
	cmd *exec.Cmd
	in  io.WriteCloser
	out *bufio.Reader
}

func (c *Ctx) Drv() (*Driver, error) {
	if c.drv != nil {
		return c.drv, nil
	}
	if c.DriverPath == "" {
		return nil, fmt.Errorf("no -driver given")
	}
	cmd := exec.Command(c.DriverPath)
	in, err := cmd.StdinPipe()
	if err != nil {
		return nil, err
	}
	out, err := cmd.StdoutPipe()
	if err != nil {
		return nil, err
	}
	cmd.Stderr = os.Stderr
	if err := cmd.Start(); err != nil {
		return nil, err
	}
	c.drv = &Driver{cmd: cmd, in: in, out: bufio.NewReaderSize(out, 1<<20)}
	return c.drv, nil
}

func (d *Driver) Close() {
	d.in.Close()
	_ = d.cmd.Wait()
}

// Call sends one request object (must contain "fn") and decodes {"ok":…}. An {"err":…}
// answer is returned as an error: the harness treats it as a broken tie, never as agreement.
func (d *Driver) Call(req map[string]interface{}, into interface{}) error {
	b, err := json.Marshal(req)
	if err != nil {
		return err
	}
	b = append(b, '\n')
	if _, err := d.in.Write(b); err != nil {
		return err
	}
	line, err := d.out.ReadBytes('\n')
	if err != nil {
		return fmt.Errorf("driver read: %w", err)
	}
	var resp struct {
		Ok  json.RawMessage `json:"ok"`
		Err *string         `json:"err"`
	}
	if err := json.Unmarshal(bytes.TrimSpace(line), &resp); err != nil {
		return fmt.Errorf("driver answer %q: %w", line, err)
	}
	if resp.Err != nil {
		return fmt.Errorf("driver: %s", *resp.Err)
	}
	if into != nil {
		return json.Unmarshal(resp.Ok, into)
	}
	return nil
}

func (c *Ctx) Model(req map[string]interface{}, into interface{}) error {
	d, err := c.Drv()
	if err != nil {
		return err
	}
	return d.Call(req, into)
}

func jsonUnmarshalString(s string, into interface{}) error { return json.Unmarshal([]byte(s), into) }
