// Command facts extracts type-aware structural facts from /repo (separate module so that the
// x/tools version it needs does not leak into the harness that links the code under test).
//
//	facts mapranges  -> JSON list of every `range` over a map-typed expression in pkg/codegen
package main

import (
	"bytes"
	"encoding/json"
	"fmt"
	"go/ast"
	"go/printer"
	"go/token"
	"go/types"
	"os"
	"sort"
	"strings"

	"golang.org/x/tools/go/packages"
)

type site struct {
	Fn   string `json:"fn"`
	Expr string `json:"expr"`
	Cls  string `json:"cls"`
	Pos  string `json:"pos"`
}

func nodeStr(fset *token.FileSet, n ast.Node) string {
	var b bytes.Buffer
	_ = printer.Fprint(&b, fset, n)
	return b.String()
}

func main() {
	cfg := &packages.Config{Mode: packages.NeedName | packages.NeedFiles | packages.NeedSyntax | packages.NeedTypes | packages.NeedTypesInfo | packages.NeedImports | packages.NeedDeps,
		Dir: "/repo", Env: append(os.Environ(), "GOFLAGS=-mod=mod", "GOPROXY=off", "GOSUMDB=off", "GOTOOLCHAIN=local")}
	pkgs, err := packages.Load(cfg, "./pkg/codegen")
	if err != nil || len(pkgs) != 1 {
		fmt.Fprintln(os.Stderr, "load:", err, len(pkgs))
		os.Exit(1)
	}
	pkg := pkgs[0]
	if len(pkg.Errors) > 0 {
		fmt.Fprintln(os.Stderr, "package errors:", pkg.Errors[0])
		os.Exit(1)
	}
	var sites []site
	var notes []string
	for _, f := range pkg.Syntax {
		fname := pkg.Fset.Position(f.Pos()).Filename
		if strings.HasSuffix(fname, "_test.go") || strings.HasSuffix(fname, "zz_verif_hooks.go") {
			continue
		}
		ast.Inspect(f, func(n ast.Node) bool {
			switch x := n.(type) {
			case *ast.GoStmt:
				notes = append(notes, fmt.Sprintf("goroutine started at %s", pkg.Fset.Position(x.Pos())))
			case *ast.SelectorExpr:
				if id, ok := x.X.(*ast.Ident); ok {
					full := id.Name + "." + x.Sel.Name
					switch full {
					case "time.Now", "os.Getenv", "os.Environ", "rand.Int", "rand.Intn", "rand.Read", "os.Hostname", "os.Getpid":
						notes = append(notes, fmt.Sprintf("%s used at %s", full, pkg.Fset.Position(x.Pos())))
					}
				}
			}
			return true
		})
		for _, d := range f.Decls {
			fd, ok := d.(*ast.FuncDecl)
			if !ok || fd.Body == nil {
				continue
			}
			fn := fd.Name.Name
			if fd.Recv != nil {
				fn = strings.TrimPrefix(nodeStr(pkg.Fset, fd.Recv.List[0].Type), "*") + "." + fn
			}
			ast.Inspect(fd.Body, func(n ast.Node) bool {
				rs, ok := n.(*ast.RangeStmt)
				if !ok {
					return true
				}
				tv, ok := pkg.TypesInfo.Types[rs.X]
				if !ok {
					return true
				}
				if _, isMap := tv.Type.Underlying().(*types.Map); !isMap {
					return true
				}
				sites = append(sites, site{Fn: fn, Expr: nodeStr(pkg.Fset, rs.X), Cls: classifyRange(pkg.Fset, fd, rs), Pos: pkg.Fset.Position(rs.Pos()).String()})
				return true
			})
		}
	}
	sort.Slice(sites, func(i, j int) bool { return sites[i].Fn+"|"+sites[i].Expr < sites[j].Fn+"|"+sites[j].Expr })
	_ = json.NewEncoder(os.Stdout).Encode(map[string]interface{}{"sites": sites, "notes": notes})
}

// classifyRange recognises idioms, not positions.
func classifyRange(fset *token.FileSet, fd *ast.FuncDecl, rs *ast.RangeStmt) string {
	hasBreak, hasValueReturn, hasMapStore, hasCount := false, false, false, false
	var appendTargets []string
	var walk func(n ast.Node, inInner bool)
	walk = func(n ast.Node, inInner bool) {
		ast.Inspect(n, func(m ast.Node) bool {
			switch x := m.(type) {
			case *ast.ForStmt, *ast.RangeStmt, *ast.SwitchStmt, *ast.TypeSwitchStmt, *ast.SelectStmt:
				if m != n {
					walk(m, true)
					return false
				}
			case *ast.FuncLit:
				return false
			case *ast.BranchStmt:
				if x.Tok == token.BREAK && !inInner {
					hasBreak = true
				}
			case *ast.ReturnStmt:
				errOnly := len(x.Results) > 0
				if len(x.Results) > 0 {
					last := nodeStr(fset, x.Results[len(x.Results)-1])
					if !(last == "err" || strings.HasPrefix(last, "fmt.Errorf") || strings.HasPrefix(last, "errors.New")) {
						errOnly = false
					}
				}
				if !errOnly {
					hasValueReturn = true
				}
			case *ast.AssignStmt:
				for i, l := range x.Lhs {
					if _, ok := l.(*ast.IndexExpr); ok {
						hasMapStore = true
					}
					if i < len(x.Rhs) {
						if ce, ok := x.Rhs[i].(*ast.CallExpr); ok {
							if id, ok := ce.Fun.(*ast.Ident); ok && id.Name == "append" {
								appendTargets = append(appendTargets, nodeStr(fset, l))
							}
						}
						if id, ok := x.Rhs[i].(*ast.Ident); ok && (id.Name == "true" || id.Name == "false") {
							hasCount = true
						}
					}
				}
			case *ast.IncDecStmt:
				hasCount = true
			case *ast.CallExpr:
				if id, ok := x.Fun.(*ast.Ident); ok && (id.Name == "delete" || id.Name == "MergeImports") {
					hasMapStore = true
				}
			}
			return true
		})
	}
	walk(rs.Body, false)
	if hasBreak || hasValueReturn {
		return "firstMatch"
	}
	if len(appendTargets) > 0 {
		sorted := map[string]bool{}
		ast.Inspect(fd.Body, func(m ast.Node) bool {
			ce, ok := m.(*ast.CallExpr)
			if !ok || ce.Pos() < rs.End() {
				return true
			}
			fn := nodeStr(fset, ce.Fun)
			if (fn == "sort.Strings" || fn == "sort.Slice" || fn == "sort.SliceStable" || fn == "sort.Sort" || fn == "slices.Sort" || fn == "slices.SortFunc") && len(ce.Args) > 0 {
				sorted[nodeStr(fset, ce.Args[0])] = true
			}
			return true
		})
		for _, t := range appendTargets {
			if !sorted[t] {
				return "appendUnsorted"
			}
		}
		return "collectThenSort"
	}
	if hasMapStore {
		return "insertKeyed"
	}
	if hasCount {
		return "countAnyAll"
	}
	return "callOnly"
}
