package main

import (
	"encoding/json"
	"fmt"
	"github.com/oapi-codegen/oapi-codegen/v2/pkg/codegen"
	"net/url"
	"os"
	"path/filepath"
	"strings"
)

// C06 — malformed or missing parameters never reach the user's handler.
// TAB-by-RUN: (handler ran?, status, typed errors delivered) per framework x location x kind x
// required x stimulus, written to Gen/C06.lean and compared with the statement here as well.

type c06Row struct {
	FW       int      `json:"fw"`
	Loc      int      `json:"loc"`
	Kind     int      `json:"kind"`
	Required bool     `json:"required"`
	Stimulus int      `json:"stimulus"`
	ErrH     bool     `json:"errh"`
	Ran      bool     `json:"ran"`
	Status   int      `json:"status"`
	Errs     int      `json:"errs"`
	Shape    string   `json:"shape"`
	Req      J        `json:"req"`
	ErrNames []string `json:"err_names"`
}

var stimulusName = []string{"absent", "valid", "wrong-type", "overflow", "bad-date", "bad-uuid", "malformed-json", "wrong-prefix", "duplicated-header", "empty", "bad-escape", "valid-percent-plus", "json-trailing-data"}

func c06Shapes() []PShape {
	var out []PShape
	for _, s := range allShapes() {
		switch s.Mode {
		case "schema":
			ok := false
			if s.Style == "" && s.Explode == "" {
				switch s.T.Kind {
				case "int32", "date", "uuid", "bool", "arrI", "str":
					ok = true
				}
			}
			if s.Loc == "path" && (s.Style == "label" || s.Style == "matrix") && s.T.Kind == "arrI" && s.Explode == "" {
				ok = true
			}
			if ok {
				out = append(out, s)
			}
		case "json":
			if s.T.Kind == "obj" && s.Loc != "path" {
				out = append(out, s)
			}
		case "pass":
			out = append(out, s)
		}
	}
	// the narrow integer formats: what does not fit the declared width is rejected like what does not fit int32
	id := len(allShapes())
	for _, loc := range []string{"path", "query", "header", "cookie"} {
		for _, t := range []PType{{"uint16", "prim", J{"type": "integer", "format": "uint16"}}, {"int8", "prim", J{"type": "integer", "format": "int8"}}} {
			out = append(out, PShape{ID: id, Loc: loc, T: t, Required: true, Mode: "schema"})
			id++
		}
	}
	return out
}

// rawRequest places an already-serialised value for the shape's parameter.
func (s PShape) rawRequest(values []string) J {
	req := J{"method": "GET", "url": fmt.Sprintf("http://h/p%d", s.ID)}
	if len(values) == 0 {
		return req
	}
	switch s.Loc {
	case "path":
		req["url"] = fmt.Sprintf("http://h/p%d/%s", s.ID, values[0])
	case "query":
		qs := []string{}
		for _, v := range values {
			qs = append(qs, "v="+v)
		}
		req["url"] = fmt.Sprintf("http://h/p%d?%s", s.ID, strings.Join(qs, "&"))
	case "header":
		hs := [][2]string{}
		for _, v := range values {
			hs = append(hs, [2]string{headerParamName, v})
		}
		req["headers"] = hs
	case "cookie":
		req["headers"] = [][2]string{{"Cookie", "v=" + values[0]}}
	}
	return req
}

// stimuli returns, per applicable stimulus, the request to send.
func (s PShape) stimuli(ctx *Ctx) (map[int]J, error) {
	out := map[int]J{}
	if s.Loc != "path" {
		out[0] = s.rawRequest(nil)
	}
	esc := func(x string) string {
		switch s.Loc {
		case "path":
			return url.PathEscape(x)
		case "query", "cookie":
			if s.Mode == "json" || s.Loc == "query" {
				return url.QueryEscape(x)
			}
		}
		return x
	}
	switch s.Mode {
	case "json":
		out[1] = s.rawRequest([]string{esc(`{"a":"x","b":"y"}`)})
		out[6] = s.rawRequest([]string{esc(`{"a":`)})
		// a complete JSON value followed by more data is not a JSON value
		out[12] = s.rawRequest([]string{esc(`{"a":"x","b":"y"}}`)})
		if s.Loc == "header" {
			out[8] = s.rawRequest([]string{`{"a":"x","b":"y"}`, `{"a":"x","b":"y"}`})
		}
		return out, nil
	case "pass":
		out[1] = s.rawRequest([]string{"abc"})
		if s.Loc == "header" {
			out[8] = s.rawRequest([]string{"abc", "def"})
		}
		return out, nil
	}
	v := tameValue(s)
	var w string
	if err := ctx.Model(s.leanReq("oasWire", v, s.Loc), &w); err != nil {
		return nil, err
	}
	out[1] = s.buildRequest(unhx(w))
	// styled wire prefix for hand-made malformed values
	pre := ""
	switch s.WireStyle() {
	case "label":
		pre = "."
	case "matrix":
		pre = ";v="
	}
	if s.Loc == "query" {
		pre = ""
	}
	bad := func(x string) J {
		if s.Loc == "query" {
			return s.rawRequest([]string{url.QueryEscape(x)})
		}
		return s.rawRequest([]string{pre + esc(x)})
	}
	switch s.T.Kind {
	case "int32":
		out[2] = bad("abc")
		out[3] = bad("2147483648")
		if s.Required && s.Loc != "path" {
			out[9] = s.rawRequest([]string{""})
		}
	case "uint16":
		out[2] = bad("abc")
		out[3] = bad("70000")
	case "int8":
		out[2] = bad("1x")
		out[3] = bad("-129")
	case "bool":
		out[2] = bad("maybe")
	case "arrI":
		if s.Loc == "query" {
			out[2] = s.rawRequest([]string{"1", "abc"})
		} else {
			out[2] = s.rawRequest([]string{pre + "1,abc"})
		}
		if s.Loc == "path" && (s.Style == "label" || s.Style == "matrix") {
			out[7] = s.rawRequest([]string{"1,2"})
		}
	case "str":
		if s.Loc == "header" || s.Loc == "cookie" {
			// header and cookie values travel as they are: '%' and '+' in them are data, not escapes — a well-formed request
			out[11] = s.rawRequest([]string{"50%+x"})
		}
	case "date":
		out[4] = bad("2021-13-45")
	case "uuid":
		out[5] = bad("not-a-uuid")
	}
	if s.Loc == "header" {
		var w2 string
		_ = ctx.Model(s.leanReq("oasWire", v, s.Loc), &w2)
		out[8] = s.rawRequest([]string{unhx(w2), unhx(w2)})
	}
	return out, nil
}

func c06Measure(ctx *Ctx) ([]c06Row, []string, error) {
	cache := filepath.Join(ctx.Work, "c06-table.json")
	if b, err := os.ReadFile(cache); err == nil {
		var c struct {
			Rows  []c06Row
			Notes []string
		}
		if json.Unmarshal(b, &c) == nil {
			return c.Rows, c.Notes, nil
		}
	}
	var notes []string
	shapes := c06Shapes()
	run, err := setupParamRun(ctx, shapes, allFrameworks, func(sig, what string, replay interface{}) {
		notes = append(notes, sig+" | "+what)
	})
	if err != nil {
		return nil, nil, err
	}
	defer run.Kit.Close()
	kindCode := map[string]int{"schema": 0, "json": 1, "pass": 2}
	var rows []c06Row
	for fi, pp := range run.Pkgs {
		if pp.P.Bin == "" {
			notes = append(notes, "nobuild:"+pp.FW)
			continue
		}
		for _, s := range pp.Shapes {
			st, err := s.stimuli(ctx)
			if err != nil {
				return nil, nil, err
			}
			for k := 0; k < len(stimulusName); k++ {
				req, ok := st[k]
				if !ok {
					continue
				}
				for _, errh := range []bool{false, true} {
					if errh && !(fi <= 4) {
						continue
					}
					resp, err := pp.P.Call(J{"do": "serve", "req": req, "opt": J{"stop": -1, "sstop": -1, "errh": errh}})
					if err != nil {
						return nil, nil, err
					}
					row := c06Row{FW: fi, Loc: locCode[s.Loc], Kind: kindCode[s.Mode], Required: s.Required || s.Loc == "path", Stimulus: k, ErrH: errh, Shape: s.Desc(), Req: req, Status: -1}
					if resp["panic"] != nil || resp["regpanic"] != nil || resp["err"] != nil {
						notes = append(notes, fmt.Sprintf("servefail:%s:%s", pp.FW, Canon(resp)))
					} else {
						calls, _ := resp["calls"].([]interface{})
						row.Ran = len(calls) > 0
						if f, ok := resp["status"].(float64); ok {
							row.Status = int(f)
						}
						errs, _ := resp["errs"].([]interface{})
						row.Errs = len(errs)
						for _, e := range errs {
							row.ErrNames = append(row.ErrNames, fmt.Sprint(e))
						}
					}
					rows = append(rows, row)
				}
			}
		}
	}
	b, _ := json.Marshal(struct {
		Rows  []c06Row
		Notes []string
	}{rows, notes})
	_ = os.WriteFile(cache, b, 0o644)
	return rows, notes, nil
}

func genC06(ctx *Ctx) error {
	rows, _, err := c06Measure(ctx)
	if err != nil {
		return err
	}
	var b strings.Builder
	b.WriteString("import OapiVerif.Model.Reject\n-- GENERATED by `harness gen-c06` from /repo's working tree (TAB-by-RUN). Do not edit.\nnamespace OapiVerif.Gen.C06\nopen OapiVerif.Reject\n\n")
	const chunk = 200
	n := 0
	for i := 0; i < len(rows); i += chunk {
		fmt.Fprintf(&b, "def table%d : List Row := [\n", n)
		end := i + chunk
		if end > len(rows) {
			end = len(rows)
		}
		for j := i; j < end; j++ {
			r := rows[j]
			sep := ","
			if j == end-1 {
				sep = ""
			}
			st := r.Status
			if st < 0 {
				st = 999
			}
			ty := map[string]int{"str": 0, "int32": 1, "bool": 2, "date": 3, "uuid": 4, "arrI": 5, "obj": 6, "uint16": 7, "int8": 7}[strings.Split(r.Shape, "/")[3]]
			fmt.Fprintf(&b, "  ⟨%d, %d, %d, %d, %v, %d, %v, %v, %d, %d⟩%s\n", r.FW, r.Loc, r.Kind, ty, r.Required, r.Stimulus, r.ErrH, r.Ran, st, r.Errs, sep)
		}
		b.WriteString("]\n")
		n++
	}
	parts := []string{}
	for i := 0; i < n; i++ {
		parts = append(parts, fmt.Sprintf("table%d", i))
	}
	if len(parts) == 0 {
		parts = []string{"[]"}
	}
	b.WriteString("def table : List Row := " + strings.Join(parts, " ++ ") + "\nend OapiVerif.Gen.C06\n")
	return os.WriteFile(filepath.Join(ctx.GenDir, "C06.lean"), []byte(b.String()), 0o644)
}

func runC06(ctx *Ctx) error {
	ctx.Res.Rule = "exhaustive table: framework(7) x location(4) x {styled int32/uint16/int8/bool/date/uuid/int-array/string, label and matrix arrays in the path, JSON content, pass-through} x required x applicable stimulus {absent, valid, valid with '%' and '+' (header, cookie), wrong type, overflow, bad date, bad uuid, malformed JSON, a JSON value followed by more data, wrong prefix, duplicated header, empty} x {default error path, configured error handler}; one request per cell; plus every subset of omitted parameters on a 5-parameter operation; CORR of the runtime model (value classes); CORR of the integer layer: boundary and seeded texts (signs, leading zeros, 32/64-bit bounds and their neighbours, junk, non-ASCII digits) through strconv.ParseInt and through the runtime binder into int32/int64 vs IntParse.parseInt; CORR of the date layer: fixed and seeded texts (leap days, month/day bounds, short and long fields, other separators, junk) through time.Parse and the runtime binder into openapi_types.Date vs DateParse.parse; the same for booleans (every letter-case spelling) and UUIDs (canonical, urn, braces, 32 digits, damaged texts) vs IntParse.parseBool / UuidParse.parse; non-trivial = every cell Session 9: query and cookie parameters called accept / content-type / Authorization; 3 and 5 query parameters next to required header and cookie parameters."
	if err := corrCodec(ctx, "C06"); err != nil {
		return err
	}
	// the declarations every generated signature is built from: CombineOperationParameters vs Model/Combine.lean,
	// also over the operations of one path item in turn (nothing carries over, the arguments are not modified)
	if err := c03CombineCorr(ctx, ctx.N(600, 6000)); err != nil {
		return err
	}
	if err := c06IntCorr(ctx, ctx.N(1500, 20000)); err != nil {
		return err
	}
	if err := c06Extra(ctx); err != nil {
		return err
	}
	if err := c06DateCorr(ctx, ctx.N(1500, 20000)); err != nil {
		return err
	}
	if err := c06BoolCorr(ctx); err != nil {
		return err
	}
	if err := c06UuidCorr(ctx, ctx.N(1500, 20000)); err != nil {
		return err
	}
	rows, notes, err := c06Measure(ctx)
	if err != nil {
		return err
	}
	for _, n := range notes {
		ctx.Res.Violate("c06:"+strings.SplitN(n, " | ", 2)[0], "cannot measure reject table: "+n, J{"note": n})
	}
	for _, r := range rows {
		ctx.Res.Eval(J{"fw": allFrameworks[r.FW], "shape": r.Shape, "stimulus": stimulusName[r.Stimulus], "errh": r.ErrH}, true)
		ctx.Res.Count("stimulus:" + stimulusName[r.Stimulus])
		must := (r.Stimulus >= 2 && r.Stimulus != 11) || (r.Stimulus == 0 && r.Required)
		ok := false
		if must {
			ok = !r.Ran && r.Status == 400 && (!r.ErrH || r.Errs == 1)
		} else {
			ok = r.Ran && r.Status == 204 && r.Errs == 0
		}
		if !ok {
			parts := strings.Split(r.Shape, "/")
			sig := fmt.Sprintf("reject:%s:%s:%s:%s:%s:errh=%v", allFrameworks[r.FW], parts[0], parts[len(parts)-1]+"/"+parts[3], map[bool]string{true: "req", false: "opt"}[r.Required], stimulusName[r.Stimulus], r.ErrH)
			what := fmt.Sprintf("%s %s stimulus=%s: handler ran=%v status=%d typed errors=%v; the statement requires %s", allFrameworks[r.FW], r.Shape, stimulusName[r.Stimulus], r.Ran, r.Status, r.ErrNames,
				map[bool]string{true: "rejection (no handler, 400, one typed error to a configured handler)", false: "acceptance (handler, 204)"}[must])
			ctx.Res.Violate(sig, what, J{"row": r, "doc": "shapesDoc(c06Shapes())"})
		}
	}
	ctx.Res.Exhaustive = true
	ctx.Res.Extra["cells"] = len(rows)
	return nil
}

func init() {
	register("c06", runC06)
	register("gen-c06", genC06)
}

// c06Extra: two component parameters with the same name and location but another requiredness, used by different
// operations (each operation gets its own), and an optional deepObject parameter with an unconvertible member.
func c06Extra(ctx *Ctx) error {
	kit, err := NewRunKit(ctx.Work + "/c06extra")
	if err != nil {
		return err
	}
	defer kit.Close()
	ok := J{"204": J{"description": "d"}}
	ref := func(n string) []interface{} { return []interface{}{J{"$ref": "#/components/parameters/" + n}} }
	doc := J{"openapi": "3.0.3", "info": J{"title": "t", "version": "1"}, "paths": J{
		"/a": J{"get": J{"operationId": "opA", "parameters": ref("LimitOpt"), "responses": ok}},
		"/b": J{"get": J{"operationId": "opB", "parameters": ref("LimitReq"), "responses": ok}},
		"/c": J{"get": J{"operationId": "opC", "parameters": []interface{}{J{"name": "filter", "in": "query", "style": "deepObject", "explode": true,
			"schema": J{"type": "object", "properties": J{"age": J{"type": "integer"}}}}}, "responses": ok}},
		// query and cookie parameters that are called like the header names OpenAPI sets aside (Accept, Content-Type,
		// Authorization are ignored as *header* parameters only): required ones are demanded, malformed ones refused
		"/d": J{"get": J{"operationId": "opD", "parameters": []interface{}{J{"name": "accept", "in": "query", "required": true, "schema": J{"type": "boolean"}}}, "responses": ok}},
		"/e": J{"get": J{"operationId": "opE", "parameters": []interface{}{J{"name": "content-type", "in": "query", "schema": J{"type": "integer"}},
			J{"name": "Authorization", "in": "cookie", "required": true, "schema": J{"type": "integer"}}}, "responses": ok}},
		// three optional query parameters and a required header and a required cookie parameter (the lists of an operation's
		// parameters by location are told apart however many there are of each)
		"/f": J{"get": J{"operationId": "opF", "parameters": []interface{}{J{"name": "limit", "in": "query", "schema": J{"type": "integer"}}, J{"name": "offset", "in": "query", "schema": J{"type": "integer"}},
			J{"name": "sort", "in": "query", "schema": J{"type": "string"}}, J{"name": "X-Request-Id", "in": "header", "required": true, "schema": J{"type": "integer"}}}, "responses": ok}},
		"/g": J{"get": J{"operationId": "opG", "parameters": []interface{}{J{"name": "a", "in": "query", "schema": J{"type": "integer"}}, J{"name": "b", "in": "query", "schema": J{"type": "integer"}},
			J{"name": "c", "in": "query", "schema": J{"type": "integer"}}, J{"name": "d", "in": "query", "schema": J{"type": "integer"}}, J{"name": "e", "in": "query", "schema": J{"type": "integer"}},
			J{"name": "sid", "in": "cookie", "required": true, "schema": J{"type": "integer"}}, J{"name": "X-T", "in": "header", "required": true, "schema": J{"type": "integer"}}}, "responses": ok}},
	}, "components": J{"parameters": J{
		"LimitOpt": J{"name": "limit", "in": "query", "schema": J{"type": "integer"}},
		"LimitReq": J{"name": "limit", "in": "query", "required": true, "schema": J{"type": "integer"}}}}}
	var pkgs []*RunPkg
	for _, fw := range allFrameworks {
		var cfg codegen.Configuration
		cfg.Generate.Models = true
		pkgs = append(pkgs, kit.Add(&RunPkg{Name: "c06x_" + fw, FW: fw, Doc: doc, Cfg: cfg}))
	}
	kit.Prepare()
	cases := []struct {
		url    string
		reject bool
		what   string
		hdrs   [][2]string
	}{{"http://h/d", true, "required-query-parameter-called-accept-absent", nil}, {"http://h/d?accept=perhaps", true, "query-parameter-called-accept-malformed", nil},
		{"http://h/d?accept=true", false, "query-parameter-called-accept-valid", nil},
		{"http://h/e", true, "required-cookie-called-authorization-absent", nil}, {"http://h/e?content-type=x", true, "query-parameter-called-content-type-malformed", [][2]string{{"Cookie", "Authorization=5"}}},
		{"http://h/e?content-type=3", false, "parameters-called-like-reserved-headers-valid", [][2]string{{"Cookie", "Authorization=5"}}},
		{"http://h/f?limit=1", true, "required-header-absent-next-to-three-query-parameters", nil}, {"http://h/f?limit=1&sort=x", false, "three-query-parameters-and-a-header-valid", [][2]string{{"X-Request-Id", "7"}}},
		{"http://h/f?offset=x", true, "query-parameter-malformed-next-to-a-required-header", [][2]string{{"X-Request-Id", "7"}}},
		{"http://h/g?a=1&e=5", false, "five-query-parameters-a-cookie-and-a-header-valid", [][2]string{{"X-T", "7"}, {"Cookie", "sid=3"}}}, {"http://h/g?a=1&e=x", true, "fifth-query-parameter-malformed", [][2]string{{"X-T", "7"}, {"Cookie", "sid=3"}}},
		{"http://h/g?a=1", true, "required-cookie-absent-next-to-five-query-parameters", [][2]string{{"X-T", "7"}}},
		{"http://h/a", false, "optional-component-parameter-absent", nil}, {"http://h/b", true, "required-component-parameter-absent", nil}, {"http://h/b?limit=5", false, "required-component-parameter-present", nil},
		{"http://h/a?limit=x", true, "optional-component-parameter-malformed", nil}, {"http://h/c?filter%5Bage%5D=abc", true, "optional-deepobject-member-malformed", nil}, {"http://h/c?filter%5Bage%5D=5", false, "optional-deepobject-valid", nil}}
	for i, p := range pkgs {
		fw := allFrameworks[i]
		if p.GenErr != nil || p.BuildErr != "" {
			ctx.Res.Violate("extra:not-built:"+fw, fmt.Sprintf("not generated or does not build: %v %s", p.GenErr, firstLines(p.BuildErr, 3)), J{"doc": doc, "fw": fw})
			continue
		}
		for _, c := range cases {
			rq := J{"method": "GET", "url": c.url}
			if c.hdrs != nil {
				rq["headers"] = c.hdrs
			}
			resp, err := p.Call(J{"do": "serve", "req": rq, "opt": J{"stop": -1, "sstop": -1}})
			if err != nil {
				return err
			}
			ctx.Res.Eval(J{"fw": fw, "extra": c.what}, true)
			ctx.Res.Count("extra:" + c.what)
			calls, _ := resp["calls"].([]interface{})
			ran := len(calls) > 0
			status, _ := resp["status"].(float64)
			bad := ""
			if c.reject && (ran || int(status) != 400) {
				bad = "the statement requires rejection (no handler, 400)"
			}
			if !c.reject && (!ran || int(status) != 204) {
				bad = "a well-formed request is never rejected"
			}
			if bad != "" {
				ctx.Res.Violate(fmt.Sprintf("extra:%s:%s", fw, c.what), fmt.Sprintf("%s GET %s: handler ran=%v status=%d; %s", fw, c.url, ran, int(status), bad), J{"doc": doc, "fw": fw, "url": c.url, "resp": resp})
			}
		}
	}
	return nil
}
