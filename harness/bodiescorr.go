package main

import (
	"fmt"
	"sort"

	"github.com/getkin/kin-openapi/openapi3"
	"github.com/oapi-codegen/oapi-codegen/v2/pkg/codegen"
	"github.com/oapi-codegen/oapi-codegen/v2/pkg/util"
)

var bodyMediaPool = []string{"application/json", "application/vnd.api+json", "application/json; charset=utf-8", "application/*+json",
	"application/problem+json", "Application/JSON", "application/merge-patch+json; v=1", "multipart/form-data", "multipart/related", "multipart/mixed",
	"application/x-www-form-urlencoded", "text/plain", "text/plain; charset=utf-8", "text/*", "image/png", "application/xml",
	"application/octet-stream", "*/*", "application/jsonx", "application/x-ndjson", "multipart", "text/plain+json"}

// corrBodies: codegen.GenerateBodyDefinitions vs Model/Bodies.lean on seeded sets of request media types (every media
// class, parameters, wildcards, unusual case, near misses). The statement on the real result: one definition per declared
// media type, ascending; the default one is application/json and nothing else.
func corrBodies(ctx *Ctx, n int) error {
	for i := 0; i < n; i++ {
		r := ctx.Rng.Fork()
		k := 1 + r.Intn(5)
		content := openapi3.Content{}
		for _, pi := range r.Perm(len(bodyMediaPool))[:k] {
			var sch *openapi3.SchemaRef
			switch r.Intn(3) {
			case 0:
				sch = &openapi3.SchemaRef{Value: &openapi3.Schema{Type: &openapi3.Types{"object"}, Properties: openapi3.Schemas{"a": &openapi3.SchemaRef{Value: &openapi3.Schema{Type: &openapi3.Types{"string"}}}}}}
			case 1:
				sch = &openapi3.SchemaRef{Value: &openapi3.Schema{Type: &openapi3.Types{"string"}}}
			}
			content[bodyMediaPool[pi]] = &openapi3.MediaType{Schema: sch}
		}
		var cts []string
		for ct := range content {
			cts = append(cts, ct)
		}
		sort.Strings(cts)
		// the model gets the media types in a seeded order
		perm := r.Perm(len(cts))
		encC, encJ, encK := []interface{}{}, []bool{}, []interface{}{}
		for _, pi := range perm {
			encC = append(encC, bytesOf(cts[pi]))
			encJ = append(encJ, util.IsMediaTypeJson(cts[pi]))
			encK = append(encK, bytesOf(codegen.VerifMediaTypeToCamelCase(cts[pi])))
		}
		defs, _, err := codegen.GenerateBodyDefinitions("Op", &openapi3.RequestBodyRef{Value: &openapi3.RequestBody{Required: r.Bool(), Content: content}})
		c := J{"media-types": cts}
		ctx.Res.Eval(c, len(cts) > 1)
		ctx.Res.Count("corr:body-definitions")
		if err != nil {
			ctx.Res.Violate("body-definitions:error:"+errorClass(err.Error()), "GenerateBodyDefinitions fails on plain schemas: "+err.Error(), c)
			continue
		}
		var mo []struct {
			Ct, Tag, Suffix, Type             []int
			Default, Supported, Client, Fixed bool
		}
		if e := ctx.Model(J{"fn": "bodyDefs", "cts": encC, "json": encJ, "camel": encK, "op": bytesOf("Op")}, &mo); e != nil {
			return e
		}
		row := func(ct, tag string, d, s, cl, fx bool, sfx, ty string) string {
			return fmt.Sprintf("%s|%s|%v|%v|%v|%v|%s|%s", ct, tag, d, s, cl, fx, sfx, ty)
		}
		var impl, model []string
		for _, d := range defs {
			impl = append(impl, row(d.ContentType, d.NameTag, d.Default, d.IsSupported(), d.IsSupportedByClient(), d.IsFixedContentType(), d.Suffix(), d.TypeDef("Op").TypeName))
			ctx.Res.Count("corr:body-tag:" + d.NameTag)
		}
		for _, m := range mo {
			sfx := strOfBytes(m.Suffix)
			model = append(model, row(strOfBytes(m.Ct), strOfBytes(m.Tag), m.Default, m.Supported, m.Client, m.Fixed, sfx, strOfBytes(m.Type)))
		}
		if fmt.Sprint(impl) != fmt.Sprint(model) {
			ctx.Res.Disagree("CORR GenerateBodyDefinitions vs Bodies.bodyDefs", c, model, impl)
		}
		// the statement on the real result
		var got []string
		for _, d := range defs {
			got = append(got, d.ContentType)
			if d.Default != (d.ContentType == "application/json") {
				ctx.Res.Violate("body-definitions:default", fmt.Sprintf("the definition for %q has Default=%v", d.ContentType, d.Default), c)
			}
		}
		if fmt.Sprint(got) != fmt.Sprint(cts) {
			ctx.Res.Violate("body-definitions:media-types", fmt.Sprintf("declared media types %v, definitions for %v", cts, got), c)
		}
	}
	return nil
}

// corrRespDefs: codegen.GenerateResponseDefinitions vs Model/RespDefs.lean — which definitions of an operation are a
// component response. Seeded response maps over few status codes and few component responses (so that one component is
// referred to by several codes), with inline responses in between.
func corrRespDefs(ctx *Ctx, n int) error {
	comps := []string{"NotFound", "Denied", "Err"}
	spec := &openapi3.T{OpenAPI: "3.0.3", Info: &openapi3.Info{Title: "t", Version: "1"}, Paths: openapi3.NewPaths(), Components: &openapi3.Components{Responses: openapi3.ResponseBodies{}}}
	desc := "d"
	for _, cname := range comps {
		spec.Components.Responses[cname] = &openapi3.ResponseRef{Value: &openapi3.Response{Description: &desc, Content: openapi3.Content{"application/json": &openapi3.MediaType{Schema: &openapi3.SchemaRef{Value: &openapi3.Schema{Type: &openapi3.Types{"string"}}}}}}}
	}
	codegen.SetGlobalStateSpec(spec)
	defer codegen.SetGlobalStateSpec(nil)
	codes := []string{"200", "201", "400", "401", "403", "404", "4XX", "500", "default"}
	for i := 0; i < n; i++ {
		r := ctx.Rng.Fork()
		k := 1 + r.Intn(6)
		m := map[string]*openapi3.ResponseRef{}
		refOf := map[string]string{}
		for _, pi := range r.Perm(len(codes))[:k] {
			code := codes[pi]
			if r.Chance(65) {
				cname := comps[r.Intn(len(comps))]
				m[code] = &openapi3.ResponseRef{Ref: "#/components/responses/" + cname, Value: spec.Components.Responses[cname].Value}
				refOf[code] = cname
			} else {
				m[code] = &openapi3.ResponseRef{Value: &openapi3.Response{Description: &desc}}
			}
		}
		var sorted []string
		for c := range m {
			sorted = append(sorted, c)
		}
		sort.Strings(sorted)
		enc := []interface{}{}
		for _, c := range sorted {
			enc = append(enc, [][]int{bytesOf(c), bytesOf(refOf[c])})
		}
		defs, err := codegen.GenerateResponseDefinitions("Op", m)
		c := J{"responses": refOf, "codes": sorted}
		ctx.Res.Eval(c, len(refOf) > 1)
		ctx.Res.Count("corr:response-definitions")
		if err != nil {
			ctx.Res.Violate("response-definitions:error:"+errorClass(err.Error()), "GenerateResponseDefinitions fails: "+err.Error(), c)
			continue
		}
		var mo [][][]int
		if e := ctx.Model(J{"fn": "respDefs", "responses": enc}, &mo); e != nil {
			return e
		}
		var impl, model []string
		used := map[string]int{}
		for _, d := range defs {
			impl = append(impl, d.StatusCode+"="+d.Ref)
			if d.Ref != "" {
				used[d.Ref]++
				ctx.Res.Count("corr:response-definitions:component")
			} else if refOf[d.StatusCode] != "" {
				ctx.Res.Count("corr:response-definitions:copy")
			}
		}
		for _, row := range mo {
			model = append(model, strOfBytes(row[0])+"="+strOfBytes(row[1]))
		}
		if fmt.Sprint(impl) != fmt.Sprint(model) {
			ctx.Res.Disagree("CORR GenerateResponseDefinitions (Ref) vs RespDefs.respDefs", c, model, impl)
		}
		// the statement on the real result
		for ref, cnt := range used {
			if cnt > 1 {
				ctx.Res.Violate("response-definitions:component-twice", fmt.Sprintf("%d definitions of one operation are the component response %s (two cases of one type in the type switch)", cnt, ref), c)
			}
		}
		for _, cname := range refOf {
			if used[cname] == 0 {
				ctx.Res.Violate("response-definitions:component-unused", fmt.Sprintf("responses refer to the component %s, no definition is that component", cname), c)
			}
		}
		if len(defs) != len(sorted) {
			ctx.Res.Violate("response-definitions:count", fmt.Sprintf("%d status codes, %d definitions", len(sorted), len(defs)), c)
		}
	}
	return nil
}
