package main

import (
	"fmt"
	"os"
	"os/exec"
	"path/filepath"
	"sort"
	"strings"

	"github.com/oapi-codegen/oapi-codegen/v2/pkg/codegen"
	"github.com/oapi-codegen/oapi-codegen/v2/pkg/util"
)

// A specification split across documents: every document is generated into its own package of one scratch
// module, tied together with import mappings, and the packages are built together (C01, last clause).

type MultiDoc struct {
	Name  string       // scratch sub-directory
	Docs  map[string]J // file name (x.json) -> document
	Cfgs  map[string]codegen.Configuration
	Order []string // generation order (dependencies first)
	// results
	Dir      string
	GenErr   map[string]string
	BuildErr string
}

func pkgNameOf(file string) string {
	return strings.TrimSuffix(filepath.Base(file), filepath.Ext(file))
}

// Build writes the documents, generates one package per document (import-mapping every other document to
// its package) and runs `go build ./...` over them.
func (m *MultiDoc) Build(root string) {
	m.Dir = filepath.Join(root, m.Name)
	m.GenErr = map[string]string{}
	specDir := filepath.Join(m.Dir, "spec")
	_ = os.MkdirAll(specDir, 0o755)
	for f, d := range m.Docs {
		_ = os.WriteFile(filepath.Join(specDir, f), []byte(Canon(d)), 0o644)
	}
	order := m.Order
	if order == nil {
		for f := range m.Docs {
			order = append(order, f)
		}
		sort.Strings(order)
	}
	for _, f := range order {
		cfg := m.Cfgs[f]
		cfg.PackageName = pkgNameOf(f)
		cfg.ImportMapping = map[string]string{}
		// a document maps the documents generated before it (its dependencies); mapping the other way round is an import cycle
		for _, other := range order {
			if other == f {
				break
			}
			cfg.ImportMapping[other] = "verifrun/" + m.Name + "/" + pkgNameOf(other)
		}
		spec, err := util.LoadSwagger(filepath.Join(specDir, f))
		if err != nil {
			m.GenErr[f] = "load: " + err.Error()
			continue
		}
		src, err := generate(spec, cfg)
		if err != nil {
			m.GenErr[f] = err.Error()
			continue
		}
		pd := filepath.Join(m.Dir, pkgNameOf(f))
		_ = os.MkdirAll(pd, 0o755)
		_ = os.WriteFile(filepath.Join(pd, "gen.go"), []byte(src), 0o644)
	}
	if len(m.GenErr) > 0 {
		return
	}
	cmd := exec.Command("go", "build", "-gcflags=-e", "./"+m.Name+"/...")
	cmd.Dir = root
	cmd.Env = append(os.Environ(), "GOFLAGS=-mod=mod", "GOPROXY=off", "GOSUMDB=off", "GOTOOLCHAIN=local")
	out, err := cmd.CombinedOutput()
	if err != nil {
		m.BuildErr = string(out)
		if m.BuildErr == "" {
			m.BuildErr = err.Error()
		}
	}
}

// c01MultiDocs: a two-document specification exercising ONE way of using the other document (feature), so that a
// construct the generator does not support across documents is reported on its own:
//
//	schema     — schemas of the other document in request bodies and responses (also as array items)
//	parameter  — a component parameter of the other document
//	response   — a component response of the other document
//	pathitem   — a path item re-exported by reference (inline parameters and schemas inside it)
//	compose    — allOf / oneOf / properties over schemas of the other document
func c01MultiDocs(feature string) map[string]J {
	common := J{"openapi": "3.0.3", "info": J{"title": "common", "version": "1"},
		"paths": J{
			"/shared/{id}": J{"get": J{"operationId": "getShared",
				"parameters": []interface{}{J{"name": "id", "in": "path", "required": true, "schema": J{"type": "string"}},
					J{"name": "tags", "in": "query", "schema": J{"type": "array", "items": J{"type": "string"}}}},
				"responses": J{"200": J{"description": "ok", "content": J{"application/json": J{"schema": J{"$ref": "#/components/schemas/Pet"}}}}}}},
			"/shared2/{id}": J{"get": J{"operationId": "getShared2",
				"parameters": []interface{}{J{"name": "id", "in": "path", "required": true, "schema": J{"type": "string"}}},
				"responses": J{"200": J{"description": "ok", "content": J{"application/json": J{"schema": J{"$ref": "#/components/schemas/Pet"}}}},
					"404": J{"$ref": "#/components/responses/NotFound"}}}}},
		"components": J{
			"schemas": J{"Pet": J{"type": "object", "required": []interface{}{"name"}, "properties": J{"name": J{"type": "string"}, "tag": J{"type": "string"}, "kind": J{"$ref": "#/components/schemas/Kind"}}},
				"Kind":  J{"type": "string", "enum": []interface{}{"cat", "dog"}},
				"Error": J{"type": "object", "properties": J{"message": J{"type": "string"}}}},
			"parameters":    J{"Limit": J{"name": "limit", "in": "query", "schema": J{"type": "integer"}}},
			"responses":     J{"NotFound": J{"description": "nf", "content": J{"application/json": J{"schema": J{"$ref": "#/components/schemas/Error"}}}}},
			"requestBodies": J{"PetBody": J{"required": true, "content": J{"application/json": J{"schema": J{"$ref": "#/components/schemas/Pet"}}}}},
		}}
	ok := J{"200": J{"description": "ok", "content": J{"application/json": J{"schema": J{"type": "object", "properties": J{"n": J{"type": "integer"}}}}}}}
	paths := J{"/local": J{"get": J{"operationId": "getLocal", "responses": ok}}}
	schemas := J{"Local": J{"type": "object", "properties": J{"a": J{"type": "string"}}}}
	switch feature {
	case "schema":
		paths["/pets"] = J{
			"get": J{"operationId": "listPets", "responses": J{"200": J{"description": "ok", "headers": J{"X-Total": J{"schema": J{"type": "integer"}}},
				"content": J{"application/json": J{"schema": J{"type": "array", "items": J{"$ref": "common.json#/components/schemas/Pet"}}}}},
				"default": J{"description": "err", "content": J{"application/json": J{"schema": J{"$ref": "common.json#/components/schemas/Error"}}}}}},
			"post": J{"operationId": "createPet", "requestBody": J{"required": true, "content": J{"application/json": J{"schema": J{"$ref": "common.json#/components/schemas/Pet"}}}},
				"responses": J{"201": J{"description": "created", "content": J{"application/json": J{"schema": J{"$ref": "common.json#/components/schemas/Pet"}}}}}}}
	case "parameter":
		paths["/pets"] = J{"get": J{"operationId": "listPets", "parameters": []interface{}{J{"$ref": "common.json#/components/parameters/Limit"}}, "responses": ok}}
	case "response":
		paths["/pets"] = J{"get": J{"operationId": "listPets", "responses": J{"200": ok["200"], "404": J{"$ref": "common.json#/components/responses/NotFound"}}}}
	case "pathitem":
		paths["/shared/{id}"] = J{"$ref": "common.json#/paths/~1shared~1{id}"}
	case "pathitem-response":
		paths["/shared2/{id}"] = J{"$ref": "common.json#/paths/~1shared2~1{id}"}
	case "compose":
		schemas["Owner"] = J{"type": "object", "properties": J{"pet": J{"$ref": "common.json#/components/schemas/Pet"}, "pets": J{"type": "array", "items": J{"$ref": "common.json#/components/schemas/Pet"}},
			"byName": J{"type": "object", "additionalProperties": J{"$ref": "common.json#/components/schemas/Pet"}}}}
		schemas["Both"] = J{"allOf": []interface{}{J{"$ref": "common.json#/components/schemas/Pet"}, J{"type": "object", "properties": J{"extra": J{"type": "string"}}}}}
		schemas["Either"] = J{"oneOf": []interface{}{J{"$ref": "common.json#/components/schemas/Pet"}, J{"$ref": "common.json#/components/schemas/Error"}}}
	case "same-name":
		// this document has components of its own with the names of the other document's, one of them renamed: a
		// reference into the other document means the other document's component
		schemas["Pet"] = J{"type": "object", "x-go-name": "LocalPet", "properties": J{"nick": J{"type": "string"}}}
		schemas["Error"] = J{"type": "object", "properties": J{"code": J{"type": "integer"}}}
		schemas["Holder"] = J{"type": "object", "properties": J{"theirs": J{"$ref": "common.json#/components/schemas/Pet"}, "ours": J{"$ref": "#/components/schemas/Pet"},
			"theirErr": J{"$ref": "common.json#/components/schemas/Error"}, "ourErr": J{"$ref": "#/components/schemas/Error"}}}
	}
	main := J{"openapi": "3.0.3", "info": J{"title": "main", "version": "1"}, "paths": paths, "components": J{"schemas": schemas}}
	return map[string]J{"common.json": common, "api.json": main}
}

var c01MultiFeatures = []string{"schema", "parameter", "response", "pathitem", "pathitem-response", "compose", "same-name"}

// c01MultiDocRun builds the two-document specifications under every framework, strict on and off, with and without client.
func c01MultiDocRun(ctx *Ctx) error {
	kit, err := NewRunKit(ctx.Work)
	if err != nil {
		return err
	}
	defer kit.Close()
	n := 0
	for _, feature := range c01MultiFeatures {
		docs := c01MultiDocs(feature)
		for _, fw := range allFrameworks {
			for _, strict := range []bool{false, true} {
				if !ctx.Thorough() && !strict && fw != "chi" && fw != "echo" {
					continue // quick: strict everywhere, non-strict on two frameworks
				}
				var common, main codegen.Configuration
				common.Generate.Models = true
				common.Generate.EmbeddedSpec = true // the first package's GetSwagger resolves the other document through its PathToRawSpec
				common.OutputOptions.SkipPrune = true
				// the other document's package offers what the first one may refer to
				if strict {
					setFramework(&common, fw)
					common.Generate.Strict = true
				}
				main.Generate.Models = true
				main.Generate.Client = n%2 == 0
				main.Generate.EmbeddedSpec = n%3 == 0
				main.OutputOptions.SkipPrune = true
				setFramework(&main, fw)
				main.Generate.Strict = strict
				md := &MultiDoc{Name: fmt.Sprintf("c01md_%s_%s_%v", feature, fw, strict), Docs: docs, Cfgs: map[string]codegen.Configuration{"common.json": common, "api.json": main},
					Order: []string{"common.json", "api.json"}}
				md.Build(kit.Root)
				n++
				desc := fmt.Sprintf("%s,%s,strict=%v,client=%v,spec=%v", feature, fw, strict, main.Generate.Client, main.Generate.EmbeddedSpec)
				ctx.Res.Eval(J{"multidoc": desc}, true)
				ctx.Res.Count("multidoc:" + feature)
				replay := J{"docs": docs, "config": desc, "feature": feature}
				for f, e := range md.GenErr {
					ctx.Res.Violate("multidoc:generate:"+feature+":"+fw+":"+f+":"+errorClass(firstLine(e)), "generation of "+f+" fails: "+firstLine(e), replay)
				}
				if md.BuildErr != "" {
					ctx.Res.Violate(fmt.Sprintf("multidoc:compile:%s:%s:strict=%v:client=%v", feature, fw, strict, main.Generate.Client),
						"the packages generated for the documents do not compile together ("+desc+"): "+firstLines(md.BuildErr, 3), replay)
				}
				_ = os.RemoveAll(md.Dir)
			}
		}
	}
	return nil
}
