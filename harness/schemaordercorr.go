package main

import (
	"fmt"
	"math"
	"strings"

	"github.com/getkin/kin-openapi/openapi3"
	"github.com/oapi-codegen/oapi-codegen/v2/pkg/codegen"
)

// CORR: codegen.SortedSchemaKeys vs Model/SchemaOrder.lean on seeded dictionaries — keys with shared prefixes and other
// letter cases, x-order present or not, negative, equal, beyond the size of the dictionary, fractional (truncated by
// int64(), done here with math.Trunc), and of a non-numeric type (ignored). The function itself walks a Go map: every
// call is one more iteration order.
func corrSchemaOrder(ctx *Ctx, n int) error {
	names := []string{"a", "b", "B", "ab", "abc", "a_b", "z", "Z", "id", "name", "é", "0", "10", "9", "alpha", "bravo", "charlie", "delta", "echo", "foxtrot",
		"golf", "hotel", "india", "juliet", "kilo", "lima", "mike", "november"}
	for i := 0; i < n; i++ {
		r := ctx.Rng.Fork()
		k := r.Intn(7)
		spread := 8
		if i%4 == 3 {
			// a large dictionary, few of whose entries carry x-order: the rest are ties that the names decide (sort.Slice is
			// not stable, and beyond 12 elements it no longer happens to behave as if it were)
			k = 13 + r.Intn(len(names)-12)
			spread = 24
		}
		dict := map[string]*openapi3.SchemaRef{}
		var entries []interface{}
		for _, j := range r.Perm(len(names))[:k] {
			nm := names[j]
			sch := &openapi3.Schema{}
			var o interface{}
			switch r.Intn(spread) {
			case 0, 1, 2:
				v := float64(r.Intn(9) - 3)
				sch.Extensions = map[string]interface{}{"x-order": v}
				o = int64(v)
			case 3:
				v := float64(r.Intn(9)-3) + 0.5
				sch.Extensions = map[string]interface{}{"x-order": v}
				o = int64(math.Trunc(v))
			case 4:
				sch.Extensions = map[string]interface{}{"x-order": "1"} // not a number: no order
			}
			ref := &openapi3.SchemaRef{Value: sch}
			if r.Chance(5) {
				ref = &openapi3.SchemaRef{} // no value at all
				o = nil
			}
			dict[nm] = ref
			var bs []int
			for _, b := range []byte(nm) {
				bs = append(bs, int(b))
			}
			entries = append(entries, J{"k": bs, "o": o})
		}
		if entries == nil {
			entries = []interface{}{}
		}
		got := codegen.SortedSchemaKeys(dict)
		var model [][]int
		if err := ctx.Model(J{"fn": "schemaKeys", "entries": entries}, &model); err != nil {
			return err
		}
		var ms []string
		for _, bs := range model {
			b := make([]byte, len(bs))
			for i, x := range bs {
				b[i] = byte(x)
			}
			ms = append(ms, string(b))
		}
		ctx.Res.Eval(J{"schema-order": entries}, k > 1)
		ctx.Res.Count("corr:schema-order")
		if strings.Join(ms, "\x00") != strings.Join(got, "\x00") {
			ctx.Res.Disagree("CORR SortedSchemaKeys vs SchemaOrder.sortedSchemaKeys", J{"entries": entries}, fmt.Sprint(ms), fmt.Sprint(got))
		}
		// the statement on the implementation: twice the same answer (the map is walked in another order each time)
		if again := codegen.SortedSchemaKeys(dict); strings.Join(again, "\x00") != strings.Join(got, "\x00") {
			ctx.Res.Violate("schema-order:nondeterministic", fmt.Sprintf("SortedSchemaKeys gives %v and then %v for the same dictionary", got, again), J{"entries": entries})
		}
	}
	return nil
}
