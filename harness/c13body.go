package main

import (
	"encoding/json"
	"fmt"
	"go/ast"
	"net/url"
	"reflect"
	"regexp"
	"strings"

	"github.com/oapi-codegen/oapi-codegen/v2/pkg/codegen"
)

// C13, last clause — request bodies sent by the typed client builders are the faithful encoding of the value,
// with the declared Content-Type.

var c13BodyMedia = []string{"application/json", "application/vnd.api+json", "application/merge-patch+json", "application/x-www-form-urlencoded", "text/plain"}

var c13BodySchemas = map[string]J{
	"flat": {"type": "object", "required": []interface{}{"a"}, "properties": J{"a": J{"type": "string"}, "n": J{"type": "integer"}, "f": J{"type": "boolean"}}},
	"nested": {"type": "object", "properties": J{"inner": J{"type": "object", "properties": J{"a": J{"type": "string"}}}, "xs": J{"type": "array", "items": J{"type": "string"}},
		"m": J{"type": "object", "additionalProperties": J{"type": "integer"}}}},
	"list": {"type": "array", "items": J{"type": "object", "properties": J{"a": J{"type": "string"}}}},
	"str":  {"type": "string"},
	"dict": {"type": "object", "additionalProperties": J{"type": "integer"}},
}

type c13BodyOp struct {
	Method   string // "" = post
	ID       string
	Optional bool // requestBody.required: false
	Bodies   []struct{ Media, Schema string }
}

func c13BodyOps() []c13BodyOp {
	var ops []c13BodyOp
	add := func(id string, ms ...[2]string) {
		o := c13BodyOp{ID: id}
		for _, m := range ms {
			o.Bodies = append(o.Bodies, struct{ Media, Schema string }{m[0], m[1]})
		}
		ops = append(ops, o)
	}
	i := 0
	for _, m := range c13BodyMedia {
		var schemas []string
		switch {
		case m == "text/plain":
			schemas = []string{"str"}
		case m == "application/x-www-form-urlencoded":
			schemas = []string{"flat"}
		default:
			schemas = []string{"flat", "nested", "list", "str"}
		}
		for _, s := range schemas {
			add(fmt.Sprintf("B%d", i), [2]string{m, s})
			i++
		}
	}
	// several media types on one operation
	add("BAll", [2]string{"application/json", "flat"}, [2]string{"application/vnd.api+json", "nested"}, [2]string{"application/x-www-form-urlencoded", "flat"}, [2]string{"text/plain", "str"})
	add("BTwoVendor", [2]string{"application/vnd.api+json", "flat"}, [2]string{"application/merge-patch+json", "flat"})
	// bodies that are not required, of types whose Go value can be nil (slice, map): a nil value is sent as null
	add("BOptList", [2]string{"application/json", "list"})
	add("BOptDict", [2]string{"application/json", "dict"}, [2]string{"application/vnd.api+json", "dict"})
	ops[len(ops)-1].Optional, ops[len(ops)-2].Optional = true, true
	// a body is sent with whatever method the operation has
	add("BDelete", [2]string{"application/json", "flat"}, [2]string{"application/x-www-form-urlencoded", "flat"})
	ops[len(ops)-1].Method = "delete"
	add("BGet", [2]string{"application/json", "nested"}, [2]string{"text/plain", "str"})
	ops[len(ops)-1].Method = "get"
	return ops
}

func c13BodyDoc(ops []c13BodyOp) J {
	paths := J{}
	for _, o := range ops {
		content := J{}
		for _, b := range o.Bodies {
			content[b.Media] = J{"schema": J{"$ref": "#/components/schemas/" + strings.Title(b.Schema)}}
		}
		method := o.Method
		if method == "" {
			method = "post"
		}
		paths["/"+strings.ToLower(o.ID)] = J{method: J{"operationId": o.ID, "requestBody": J{"required": !o.Optional, "content": content},
			"responses": J{"204": J{"description": "d"}}}}
	}
	schemas := J{}
	for k, v := range c13BodySchemas {
		schemas[strings.Title(k)] = v
	}
	return J{"openapi": "3.0.3", "info": J{"title": "t", "version": "1"}, "paths": paths, "components": J{"schemas": schemas}}
}

func c13BodyText(r *Rng) string {
	alphabet := []string{"a", "Z", "0", " ", "&", "=", "+", "%", "\"", "\\", "/", "ü", "日", "\n", "<", "?", "#", ";", ","}
	n := r.Intn(9)
	var b strings.Builder
	for i := 0; i < n; i++ {
		b.WriteString(r.Pick(alphabet))
	}
	return b.String()
}

func c13BodyValue(r *Rng, schema string) interface{} {
	switch schema {
	case "flat":
		v := J{"a": c13BodyText(r)}
		if r.Bool() {
			v["n"] = r.Intn(2000) - 1000
		}
		if r.Bool() {
			v["f"] = r.Bool()
		}
		return v
	case "nested":
		v := J{}
		if r.Bool() {
			v["inner"] = J{"a": c13BodyText(r)}
		}
		if r.Bool() {
			xs := []interface{}{}
			for i := r.Intn(4); i > 0; i-- {
				xs = append(xs, c13BodyText(r))
			}
			v["xs"] = xs
		}
		if r.Bool() {
			m := J{}
			for i := r.Intn(3); i > 0; i-- {
				m["k"+c13BodyText(r)] = r.Intn(100)
			}
			v["m"] = m
		}
		return v
	case "dict":
		m := J{}
		for i := r.Intn(3); i > 0; i-- {
			m["k"+c13BodyText(r)] = r.Intn(100)
		}
		return m
	case "list":
		xs := []interface{}{}
		for i := r.Intn(4); i > 0; i-- {
			xs = append(xs, J{"a": c13BodyText(r)})
		}
		return xs
	}
	return c13BodyText(r)
}

var c13BuilderDocRE = regexp.MustCompile(`^// (New\w+) calls the generic (\w+) builder with (\S+) body`)

// c13TypedBuilders locates, by the doc comment the template writes, the typed builder of each (operation, media type).
func c13TypedBuilders(f *ast.File) map[string]string {
	out := map[string]string{}
	for _, d := range f.Decls {
		fd, ok := d.(*ast.FuncDecl)
		if !ok || fd.Doc == nil || fd.Recv != nil {
			continue
		}
		for _, c := range fd.Doc.List {
			if m := c13BuilderDocRE.FindStringSubmatch(c.Text); m != nil && m[1] == fd.Name.Name {
				out[m[2]+"|"+m[3]] = m[1]
			}
		}
	}
	return out
}

func c13Bodies(ctx *Ctx, kit *RunKit) (func() error, error) {
	ops := c13BodyOps()
	doc := c13BodyDoc(ops)
	var cfg codegen.Configuration
	cfg.Generate.Client = true
	cfg.Generate.Models = true
	p := kit.Add(&RunPkg{Name: "c13body", FW: "", Doc: doc, Cfg: cfg})
	return func() error {
		if p.GenErr != nil {
			ctx.Res.Violate("c13:body:generate", "Generate failed: "+p.GenErr.Error(), J{"doc": doc})
			return nil
		}
		if p.BuildErr != "" {
			ctx.Res.Violate("c13:body:compile", "client does not compile: "+firstLines(p.BuildErr, 4), J{"doc": doc})
			return nil
		}
		f, _, err := parseGo(p.Src)
		if err != nil {
			return err
		}
		builders := c13TypedBuilders(f)
		reps := ctx.N(6, 60)
		for _, o := range ops {
			for _, b := range o.Bodies {
				fn := builders[o.ID+"|"+b.Media]
				cls := c13BodyClass(b.Media)
				if fn == "" {
					ctx.Res.Evaluations++
					ctx.Res.Disagree("FACT typed request builder of a declared JSON/form/text body (located by its doc comment)", J{"op": o.ID, "media": b.Media}, "New"+o.ID+"Request… for "+b.Media, "none")
					continue
				}
				for i := 0; i < reps; i++ {
					r := ctx.Rng.Fork()
					val := c13BodyValue(r, b.Schema)
					if o.Optional && i%2 == 0 {
						val = nil // a nil slice / map
						ctx.Res.Count("run:request-body:nil-value-of-an-optional-body")
					}
					raw, _ := json.Marshal(val)
					resp, err := p.Call(J{"do": "client", "fn": fn, "args": []interface{}{"http://h", json.RawMessage(raw)}})
					if err != nil {
						return err
					}
					ctx.Res.Eval(J{"op": o.ID, "media": b.Media, "i": i}, true)
					ctx.Res.Count("run:request-body:" + cls)
					replay := J{"doc": doc, "op": o.ID, "builder": fn, "media": b.Media, "value": val, "resp": resp}
					sigc := fmt.Sprintf("%s:%s:multi=%v", cls, b.Schema, len(o.Bodies) > 1)
					req, _ := resp["req"].(map[string]interface{})
					if req == nil {
						ctx.Res.Violate("request-body:builder-error:"+sigc, fmt.Sprintf("%s fails on a valid value: %v", fn, Canon(resp)), replay)
						continue
					}
					gotCT := ""
					if hs, ok := req["headers"].([]interface{}); ok {
						for _, h := range hs {
							kv, _ := h.([]interface{})
							if len(kv) == 2 && strings.EqualFold(fmt.Sprint(kv[0]), "Content-Type") {
								gotCT = fmt.Sprint(kv[1])
							}
						}
					}
					if gotCT != b.Media {
						ctx.Res.Violate("request-body:content-type:"+sigc, fmt.Sprintf("%s sends Content-Type %q, declared %q", fn, gotCT, b.Media), replay)
					}
					body, _ := req["body"].(string)
					bad := ""
					switch cls {
					case "json", "vendor-json":
						if !jsonEqual(body, string(raw)) {
							bad = fmt.Sprintf("body %q is not the JSON encoding of %s", clip(body, 120), clip(string(raw), 120))
						}
					case "form":
						want := url.Values{}
						for k, v := range val.(J) {
							want.Set(k, fmt.Sprint(v))
						}
						got, perr := url.ParseQuery(body)
						if perr != nil || !reflect.DeepEqual(map[string][]string(got), map[string][]string(want)) {
							bad = fmt.Sprintf("body %q is not the form encoding of %s", clip(body, 120), clip(string(raw), 120))
						}
					case "text":
						if body != val.(string) {
							bad = fmt.Sprintf("body %q is not the text %q", clip(body, 120), val)
						}
					}
					if bad != "" {
						ctx.Res.Violate("request-body:encoding:"+sigc, fn+": "+bad, replay)
					}
				}
			}
		}
		return nil
	}, nil
}

func c13BodyClass(m string) string {
	switch {
	case m == "application/json":
		return "json"
	case strings.HasSuffix(m, "+json"):
		return "vendor-json"
	case m == "application/x-www-form-urlencoded":
		return "form"
	}
	return "text"
}
