// Command harness is the Go side of the /verif machinery: for each property it
// generates inputs from one PRNG (VERIF_SEED), runs the real oapi-codegen code
// (in-process, through the `verif` hooks of /repo), asks the Lean driver for the
// model's answer, evaluates the property's own oracle on the implementation and
// writes a result file that bin/check turns into evidence / VIOLATION lines.
package main

import (
	"flag"
	"fmt"
	"os"
	"sort"
	"time"
)

type runner func(ctx *Ctx) error

var runners = map[string]runner{}

func register(name string, r runner) { runners[name] = r }

func main() {
	if len(os.Args) < 2 {
		names := []string{}
		for k := range runners {
			names = append(names, k)
		}
		sort.Strings(names)
		fmt.Fprintf(os.Stderr, "usage: harness <cmd> [flags]; cmds: %v\n", names)
		os.Exit(2)
	}
	cmd := os.Args[1]
	fs := flag.NewFlagSet(cmd, flag.ExitOnError)
	tier := fs.String("tier", "quick", "quick|thorough")
	seed := fs.Int64("seed", 1, "PRNG seed")
	out := fs.String("out", "", "result file (JSON)")
	driver := fs.String("driver", "", "path to the Lean driver executable")
	replay := fs.String("replay", "", "replay file to re-run")
	gen := fs.String("gen", "", "directory for regenerated Lean modules (Gen/*.lean)")
	work := fs.String("work", "", "scratch directory (outside /repo, /verif)")
	_ = fs.Parse(os.Args[2:])
	r, ok := runners[cmd]
	if !ok {
		fmt.Fprintf(os.Stderr, "unknown command %q\n", cmd)
		os.Exit(2)
	}
	ctx := &Ctx{Tier: *tier, Seed: *seed, Rng: NewRng(uint64(*seed)), DriverPath: *driver,
		Replay: *replay, GenDir: *gen, Work: *work, Res: NewResult(cmd), start: time.Now()}
	err := r(ctx)
	if ctx.drv != nil {
		ctx.drv.Close()
	}
	if err != nil {
		ctx.Res.Fatal = err.Error()
	}
	ctx.Res.WallS = time.Since(ctx.start).Seconds()
	if *out != "" {
		if werr := ctx.Res.Write(*out); werr != nil {
			fmt.Fprintln(os.Stderr, "write result:", werr)
			os.Exit(3)
		}
	}
	if err != nil {
		fmt.Fprintln(os.Stderr, "harness error:", err)
		os.Exit(3)
	}
}
