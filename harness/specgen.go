package main

import (
	"fmt"
	"strings"

	"github.com/oapi-codegen/oapi-codegen/v2/pkg/codegen"
)

// Grammar-directed generator of OpenAPI 3.0 documents (DESIGN.md §6): mostly valid and supported
// constructs; names from a tame pool and, when asked, an adversarial pool.

type SpecOpts struct {
	Adversarial bool // names: keywords, predeclared identifiers, leading digits, punctuation, non-ASCII, near-collisions
	NoSecurity  bool
	Small       bool
}

type specGen struct {
	r       *Rng
	o       SpecOpts
	schemas []string // component schema names (declared so far, referable)
	objects []string // those that are plain objects (allOf members)
	used    map[string]bool
	stats   map[string]int
	noEnum  bool
}

var tameNames = []string{"Pet", "Owner", "Order", "Item", "Address", "Tag", "Error", "Page", "User", "Thing", "Widget", "Gadget", "Account", "Invoice", "LineItem", "Shipment"}
var tameProps = []string{"id", "name", "tag", "count", "created_at", "owner", "items", "kind", "status", "value", "note", "email", "price", "active", "parent"}
var advNames = []string{"type", "func", "string", "error", "1st", "2Fast", "my-name", "my_name", "my.name", "MyName", "Résumé", "日本x", "$ref", "a b", "x+y", "nil", "map", "JSON", "url", "URL", "Id", "ID", "_private", "range", "len", "Ünïcode", "x²",
	// spellings that are not keywords themselves but whose derived variable name is one
	"Type", "TYPE", "range_", "_func", "Select", "go-", "Var", "DEFAULT"}

func (g *specGen) count(k string) { g.stats[k]++ }

func (g *specGen) name(pool []string, prefix string) string {
	for i := 0; i < 50; i++ {
		var n string
		if g.o.Adversarial && g.r.Chance(35) {
			n = advNames[g.r.Intn(len(advNames))]
		} else {
			n = pool[g.r.Intn(len(pool))]
		}
		if i > 5 {
			n = fmt.Sprintf("%s%d", n, g.r.Intn(100))
		}
		// two names that normalise to the same Go identifier are not "distinct" in the sense of C01
		k1, k2 := normKeys(n)
		if !g.used[prefix+k1] && !g.used[prefix+k2] {
			g.used[prefix+k1], g.used[prefix+k2] = true, true
			return n
		}
	}
	n := fmt.Sprintf("N%d", len(g.used))
	g.used[prefix+strings.ToLower(n)] = true
	return n
}

var primSchemas = []J{
	{"type": "string"}, {"type": "integer"}, {"type": "integer", "format": "int32"}, {"type": "integer", "format": "int64"},
	{"type": "number"}, {"type": "number", "format": "double"}, {"type": "number", "format": "float"}, {"type": "boolean"},
	{"type": "string", "format": "date"}, {"type": "string", "format": "date-time"}, {"type": "string", "format": "uuid"},
	{"type": "string", "format": "email"}, {"type": "string", "format": "byte"}, {"type": "string", "format": "unknown-format"},
}

// normKeys: the identifiers a name normalises to (two spellings are "distinct" for C01 only if these differ)
func normKeys(n string) (string, string) {
	return strings.ToLower(codegen.VerifTypeNamePrefix(n) + codegen.ToCamelCase(n)), strings.ToLower(codegen.VerifTypeNamePrefix(n) + codegen.ToCamelCaseWithDigits(n))
}

func copyJ(j J) J {
	o := J{}
	for k, v := range j {
		o[k] = v
	}
	return o
}

func (g *specGen) ref() J {
	if len(g.schemas) == 0 {
		return J{"type": "string"}
	}
	return J{"$ref": "#/components/schemas/" + g.schemas[g.r.Intn(len(g.schemas))]}
}

// schema returns a random schema of bounded depth.
func (g *specGen) schema(depth int) J {
	r := g.r
	if g.noEnum && depth < 2 {
		// inside an inline body / response schema: nothing that is hoisted to an auxiliary type
		// (enums, objects with additionalProperties, unions) — see the known findings of C01
		switch r.Intn(4) {
		case 0:
			return g.ref()
		case 1:
			return J{"type": "array", "items": copyJ(primSchemas[r.Intn(len(primSchemas))])}
		default:
			return copyJ(primSchemas[r.Intn(len(primSchemas))])
		}
	}
	switch k := r.Intn(14); {
	case k < 5 || depth <= 0:
		g.count("schema:prim")
		s := copyJ(primSchemas[r.Intn(len(primSchemas))])
		if r.Chance(10) {
			s["nullable"] = true
		}
		return s
	case k < 7:
		g.count("schema:ref")
		return g.ref()
	case k == 7:
		g.count("schema:array")
		return J{"type": "array", "items": g.schema(depth - 1)}
	case k == 8:
		g.count("schema:map")
		v := g.schema(depth - 1)
		delete(v, "nullable") // nullable additionalProperties values: map[string]*T in the struct, T in the accessors (known finding)
		return J{"type": "object", "additionalProperties": v}
	case k == 9 && !g.noEnum:
		g.count("schema:enum")
		if r.Bool() {
			return J{"type": "string", "enum": []interface{}{"alpha", "beta", "gamma-delta"}}
		}
		return J{"type": "integer", "enum": []interface{}{1, 2, 3}}
	case k == 10:
		g.count("schema:freeform")
		return J{"type": "object"}
	default:
		return g.object(depth - 1)
	}
}

func (g *specGen) object(depth int) J {
	g.count("schema:object")
	r := g.r
	props := J{}
	var req []interface{}
	n := 1 + r.Intn(4)
	local := map[string]bool{}
	for i := 0; i < n; i++ {
		var pn string
		if g.o.Adversarial && r.Chance(30) {
			pn = advNames[r.Intn(len(advNames))]
		} else {
			pn = tameProps[r.Intn(len(tameProps))]
		}
		k1, k2 := normKeys(pn)
		if local[k1] || local[k2] {
			continue
		}
		local[k1], local[k2] = true, true
		p := g.schema(depth)
		if _, isRef := p["$ref"]; !isRef {
			if r.Chance(10) {
				p["readOnly"] = true
			}
			if r.Chance(6) {
				p["writeOnly"] = true
			}
			if r.Chance(8) {
				p["description"] = "a description\nwith two lines"
			}
			if r.Chance(4) {
				p["x-go-name"] = "Renamed" + fmt.Sprint(i)
			}
			if r.Chance(4) {
				p["x-omitempty"] = r.Bool()
			}
			if r.Chance(4) {
				p["x-go-type-skip-optional-pointer"] = true
			}
			if r.Chance(3) {
				p["deprecated"] = true
			}
		}
		props[pn] = p
		if r.Chance(50) {
			req = append(req, pn)
		}
	}
	o := J{"type": "object", "properties": props}
	if len(req) > 0 {
		o["required"] = req
	}
	if g.noEnum {
		return o
	}
	switch r.Intn(8) {
	case 0:
		o["additionalProperties"] = true
	case 1:
		o["additionalProperties"] = false
	case 2:
		o["additionalProperties"] = J{"type": "integer"}
	}
	return o
}

func (g *specGen) componentSchemas() J {
	r := g.r
	out := J{}
	n := 3 + r.Intn(6)
	if g.o.Small {
		n = 2 + r.Intn(2)
	}
	// first a few plain objects so that later ones can refer to them
	for i := 0; i < n; i++ {
		name := g.name(tameNames, "schema:")
		var s J
		switch k := r.Intn(12); {
		case i < 2 || k < 5:
			s = g.object(2)
			g.objects = append(g.objects, name)
		case k == 5 && len(g.objects) >= 1:
			g.count("schema:allOf")
			s = J{"allOf": []interface{}{J{"$ref": "#/components/schemas/" + g.objects[r.Intn(len(g.objects))]}, J{"type": "object", "properties": J{"extra" + fmt.Sprint(i): J{"type": "string"}}}}}
		case k == 6:
			g.count("schema:oneOf")
			// two dedicated members, each with the (string, required) discriminator property
			a, b := name+"VariantA", name+"VariantB"
			out[a] = J{"type": "object", "required": []interface{}{"kind"}, "properties": J{"kind": J{"type": "string"}, "a": J{"type": "integer"}}}
			out[b] = J{"type": "object", "required": []interface{}{"kind"}, "properties": J{"kind": J{"type": "string"}, "b": J{"type": "string"}}}
			s = J{"oneOf": []interface{}{J{"$ref": "#/components/schemas/" + a}, J{"$ref": "#/components/schemas/" + b}}}
			if r.Bool() {
				d := J{"propertyName": "kind"}
				if r.Bool() {
					d["mapping"] = J{"first": "#/components/schemas/" + a, "second": "#/components/schemas/" + b}
				}
				s["discriminator"] = d
			}
		case k == 7 && len(g.schemas) >= 2:
			g.count("schema:anyOf")
			s = J{"anyOf": []interface{}{g.ref(), J{"type": "string"}}}
		case k == 8:
			s = J{"type": "string", "enum": []interface{}{"on", "off", "stand-by"}}
			g.count("schema:enum-top")
		case k == 9:
			s = J{"type": "array", "items": g.ref()}
		case k == 10:
			s = copyJ(primSchemas[r.Intn(len(primSchemas))])
		default:
			s = g.object(2)
		}
		out[name] = s
		g.schemas = append(g.schemas, name)
	}
	return out
}

var mediaPool = []string{"application/json", "application/json", "application/json", "application/vnd.api+json", "application/x-www-form-urlencoded", "text/plain", "multipart/form-data", "application/octet-stream", "application/xml", "multipart/related"}

func (g *specGen) content(forRequest bool) J {
	r := g.r
	c := J{}
	n := 1
	if r.Chance(25) {
		n = 2
	}
	unsupported, multipart := 0, 0
	for i := 0; i < n; i++ {
		mt := mediaPool[r.Intn(len(mediaPool))]
		if _, dup := c[mt]; dup {
			continue
		}
		if mt == "application/octet-stream" || mt == "application/xml" {
			// two unsupported media types in one strict request object both become field `Body` (known finding)
			unsupported++
			if unsupported > 1 {
				continue
			}
		}
		if strings.HasPrefix(mt, "multipart/") {
			// two multipart/* types in one operation both get the name tag Multipart (known finding, witness corpus)
			if multipart++; multipart > 1 {
				continue
			}
		}
		g.count("media:" + mt)
		var s J
		switch mt {
		case "text/plain":
			s = J{"type": "string"}
		case "application/x-www-form-urlencoded", "multipart/form-data":
			s = J{"type": "object", "properties": J{"a": J{"type": "string"}, "n": J{"type": "integer"}}}
		case "application/octet-stream", "multipart/related":
			s = J{"type": "string", "format": "binary"}
		default:
			if r.Chance(60) {
				s = g.ref()
			} else {
				// an enum nested in an inline body/response object is hoisted to a type that is never
				// declared for client / strict output (known finding): keep inline content schemas enum-free
				g.noEnum = true
				s = g.object(1)
				g.noEnum = false
			}
		}
		c[mt] = J{"schema": s}
	}
	return c
}

func (g *specGen) parameter(loc string, name string) J {
	r := g.r
	p := J{"name": name, "in": loc}
	if loc == "path" || r.Chance(40) {
		p["required"] = true
	}
	if loc != "path" && r.Chance(12) {
		// a parameter serialised as JSON (content instead of schema)
		p["content"] = J{"application/json": J{"schema": J{"type": "object", "properties": J{"a": J{"type": "string"}, "n": J{"type": "integer"}}}}}
		g.count("param:" + loc + ":json-content")
		return p
	}
	switch k := r.Intn(10); {
	case k < 6:
		p["schema"] = copyJ(primSchemas[r.Intn(11)])
	case k < 8:
		p["schema"] = J{"type": "array", "items": J{"type": "string"}}
	case k == 8 && loc != "path":
		p["schema"] = g.ref()
		if loc == "query" && r.Bool() {
			p["style"] = "deepObject"
			p["explode"] = true
		}
	default:
		p["schema"] = J{"type": "string", "enum": []interface{}{"asc", "desc"}}
	}
	if loc == "query" && r.Chance(15) {
		p["explode"] = r.Bool()
	}
	g.count("param:" + loc)
	return p
}

var statusPool = []string{"200", "201", "204", "400", "404", "500", "default", "2XX", "4XX"}

func (g *specGen) responses() J {
	r := g.r
	out := J{}
	n := 1 + r.Intn(3)
	for i := 0; i < n; i++ {
		code := statusPool[r.Intn(len(statusPool))]
		if _, dup := out[code]; dup {
			continue
		}
		resp := J{"description": "a response"}
		if code != "204" && r.Chance(75) {
			c := g.content(false)
			// text/plain with a non-fixed status does not compile in strict mode (known finding, kept out of the plain generator)
			if code == "default" || strings.HasSuffix(code, "XX") {
				delete(c, "text/plain")
			}
			if len(c) > 0 {
				resp["content"] = c
			}
		}
		hasText := false
		if c, ok := resp["content"].(J); ok {
			_, hasText = c["text/plain"]
		}
		if r.Chance(15) && !hasText { // a text/plain response with headers does not compile in strict mode (known finding)
			resp["headers"] = J{"X-Rate-Limit": J{"schema": J{"type": "integer"}}}
			if r.Bool() {
				// through a component, also on responses without a body (204, a bare 201/4XX)
				resp["headers"] = J{"X-Rate-Limit": J{"$ref": "#/components/headers/RateLimit"}}
				g.count("response:header-ref")
			}
			if r.Bool() {
				// several headers: strict responses carry them as struct fields, in a walk over the header map
				h := resp["headers"].(J)
				h["X-Request-Id"] = J{"schema": J{"type": "string"}}
				h["ETag"] = J{"schema": J{"type": "string"}}
				h["Retry-After"] = J{"schema": J{"type": "integer"}}
			}
			g.count("response:headers")
		}
		out[code] = resp
		g.count("response:" + code)
	}
	return out
}

func (g *specGen) Generate() J {
	r := g.r
	comps := J{"schemas": g.componentSchemas(), "headers": J{"RateLimit": J{"schema": J{"type": "integer"}}}}
	if r.Chance(40) {
		nf := J{"application/json": J{"schema": g.ref()}}
		if r.Bool() {
			// the same payload under a second JSON media type: the component's types get media-type suffixes
			nf["application/problem+json"] = J{"schema": nf["application/json"].(J)["schema"]}
			g.count("component-response:two-json")
		}
		comps["responses"] = J{"NotFound": J{"description": "nf", "content": nf}, "Denied": J{"description": "denied"}}
	}
	if r.Chance(30) {
		// "trace" is only ever referred to from the shared parameter list of a path item
		comps["parameters"] = J{"limit": J{"name": "limit", "in": "query", "schema": J{"type": "integer"}},
			"trace": J{"name": "X-Trace", "in": "header", "schema": J{"type": "string"}}}
	}
	if r.Chance(30) {
		// a callback component, and a schema that only the callback's request body refers to
		comps["callbacks"] = J{"onEvent": J{"{$request.body#/callbackUrl}": J{"post": J{
			"requestBody": J{"content": J{"application/json": J{"schema": J{"$ref": "#/components/schemas/CallbackEvent"}}}},
			"responses":   J{"200": J{"description": "ack"}}}}}}
		comps["schemas"].(J)["CallbackEvent"] = J{"type": "object", "properties": J{"kind": J{"type": "string"}}}
	}
	if r.Chance(30) {
		comps["requestBodies"] = J{"PetBody": J{"content": J{"application/json": J{"schema": g.ref()}}}}
	}
	if !g.o.NoSecurity && r.Chance(50) {
		comps["securitySchemes"] = J{"bearerAuth": J{"type": "http", "scheme": "bearer"}, "api_key": J{"type": "apiKey", "in": "header", "name": "X-Key"}}
	}
	paths := J{}
	np := 2 + r.Intn(5)
	if g.o.Small {
		np = 1 + r.Intn(2)
	}
	methods := []string{"get", "post", "put", "delete", "patch"}
	opn := 0
	for i := 0; i < np; i++ {
		segs := []string{[]string{"pets", "orders", "users", "items", "things"}[r.Intn(5)] + fmt.Sprint(i)}
		var pathParams []string
		if r.Chance(50) {
			pn := []string{"id", "petId", "order_id"}[r.Intn(3)]
			segs = append(segs, "{"+pn+"}")
			pathParams = append(pathParams, pn)
		}
		if r.Chance(20) {
			segs = append(segs, "sub")
		}
		pi := J{}
		nm := 1 + r.Intn(2)
		perm := r.Perm(len(methods))
		for k := 0; k < nm; k++ {
			m := methods[perm[k]]
			op := J{"responses": g.responses()}
			if r.Chance(85) {
				if g.o.Adversarial && r.Chance(30) {
					op["operationId"] = g.name([]string{"op"}, "op:")
				} else {
					op["operationId"] = fmt.Sprintf("%s%s%d", m, []string{"Pet", "Order", "Thing", "_item", "-user"}[r.Intn(5)], opn)
				}
			}
			opn++
			if r.Chance(40) {
				op["tags"] = []interface{}{[]string{"pets", "admin", "store"}[r.Intn(3)]}
			}
			if r.Chance(20) {
				op["summary"] = "Summary line"
			}
			var params []interface{}
			for _, pn := range pathParams {
				params = append(params, g.parameter("path", pn))
			}
			pnames := map[string]bool{}
			if len(pathParams) > 0 && r.Chance(15) {
				// a query parameter named like the path variable: two declarations that differ only in their location
				pn := pathParams[0]
				k1, k2 := normKeys(pn)
				pnames[k1], pnames[k2] = true, true
				// (a plain one: two same-named parameters that both need a type of their own collide — witness corpus)
				params = append(params, J{"name": pn, "in": "query", "schema": J{"type": "string"}})
				g.count("op:query-parameter-named-like-the-path-variable")
			}
			for q := 0; q < r.Intn(4); q++ {
				loc := []string{"query", "query", "header", "cookie"}[r.Intn(4)]
				name := []string{"limit", "offset", "sort", "X-Request-Id", "filter", "q", "session"}[r.Intn(7)]
				if g.o.Adversarial && r.Chance(25) {
					name = advNames[r.Intn(len(advNames))]
				}
				k1, k2 := normKeys(name)
				if pnames[k1] || pnames[k2] {
					continue
				}
				pnames[k1], pnames[k2] = true, true
				if loc == "header" {
					name = strings.ReplaceAll(name, " ", "-")
				}
				params = append(params, g.parameter(loc, name))
			}
			if r.Chance(12) {
				// several JSON-content parameters in one location, required and optional: their generated locals must not collide
				loc := []string{"header", "query", "cookie"}[r.Intn(3)]
				for k, nm := range []string{"X-Json-A", "X-Json-B", "X-Json-C"} {
					jp := J{"name": nm, "in": loc, "required": k < 2 || r.Bool(),
						"content": J{"application/json": J{"schema": J{"type": "object", "properties": J{"a": J{"type": "string"}}}}}}
					params = append(params, jp)
				}
				g.count("op:several-json-params:" + loc)
			}
			if rp, ok := comps["parameters"]; ok && r.Chance(30) && !pnames["limit"] {
				pnames["limit"] = true
				_ = rp
				params = append(params, J{"$ref": "#/components/parameters/limit"})
			}
			if len(params) > 0 {
				op["parameters"] = params
			}
			if m != "get" && m != "delete" && r.Chance(70) {
				if _, ok := comps["requestBodies"]; ok && r.Chance(30) {
					op["requestBody"] = J{"$ref": "#/components/requestBodies/PetBody"}
				} else {
					op["requestBody"] = J{"required": r.Bool(), "content": g.content(true)}
				}
				g.count("op:body")
			}
			if _, ok := comps["responses"]; ok && r.Chance(25) {
				op["responses"].(J)["404"] = J{"$ref": "#/components/responses/NotFound"}
			}
			if _, ok := comps["responses"]; ok && r.Chance(20) {
				// one content-less component response under two status codes of the same operation
				op["responses"].(J)["401"] = J{"$ref": "#/components/responses/Denied"}
				op["responses"].(J)["403"] = J{"$ref": "#/components/responses/Denied"}
				g.count("op:same-component-response-twice")
			}
			if _, ok := comps["callbacks"]; ok && r.Chance(35) {
				op["callbacks"] = J{"evt": J{"$ref": "#/components/callbacks/onEvent"}}
				g.count("op:callback-component")
			}
			if _, ok := comps["securitySchemes"]; ok && r.Chance(40) {
				switch r.Intn(3) {
				case 0:
					op["security"] = []interface{}{J{"bearerAuth": []interface{}{}}}
				case 1:
					op["security"] = []interface{}{J{"api_key": []interface{}{"read", "write"}}}
				default:
					op["security"] = []interface{}{}
				}
			}
			pi[m] = op
			g.count("op")
		}
		if _, ok := comps["parameters"]; ok && r.Chance(40) {
			pi["parameters"] = []interface{}{J{"$ref": "#/components/parameters/trace"}}
			g.count("path:shared-component-parameter")
		}
		paths["/"+strings.Join(segs, "/")] = pi
	}
	doc := J{"openapi": "3.0.3", "info": J{"title": "generated", "version": "1.0"}, "paths": paths, "components": comps}
	if _, ok := comps["securitySchemes"]; ok && r.Chance(40) {
		doc["security"] = []interface{}{J{"bearerAuth": []interface{}{}}}
	}
	return doc
}

func genSpec(r *Rng, o SpecOpts) (J, map[string]int) {
	g := &specGen{r: r, o: o, used: map[string]bool{}, stats: map[string]int{}}
	return g.Generate(), g.stats
}
