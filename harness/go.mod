module verifharness

go 1.20

replace github.com/oapi-codegen/oapi-codegen/v2 => /repo

require (
	github.com/getkin/kin-openapi v0.125.0
	github.com/gin-gonic/gin v1.9.1
	github.com/go-chi/chi/v5 v5.0.10
	github.com/gofiber/fiber/v2 v2.49.1
	github.com/gorilla/mux v1.8.1
	github.com/kataras/iris/v12 v12.2.6-0.20230908161203-24ba4e8933b9
	github.com/labstack/echo/v4 v4.11.3
	github.com/oapi-codegen/nullable v1.0.1
	github.com/oapi-codegen/oapi-codegen/v2 v2.0.0-00010101000000-000000000000
	github.com/oapi-codegen/runtime v1.1.0
	github.com/oapi-codegen/testutil v1.0.0
	github.com/stretchr/testify v1.9.0
	golang.org/x/tools v0.21.0
	gopkg.in/yaml.v2 v2.4.0
)

require (
	github.com/BurntSushi/toml v1.3.2 // indirect
	github.com/CloudyKit/fastprinter v0.0.0-20200109182630-33d98a066a53 // indirect
	github.com/CloudyKit/jet/v6 v6.2.0 // indirect
	github.com/Joker/jade v1.1.3 // indirect
	github.com/Shopify/goreferrer v0.0.0-20220729165902-8cddb4f5de06 // indirect
	github.com/andybalholm/brotli v1.0.5 // indirect
	github.com/apapsch/go-jsonmerge/v2 v2.0.0 // indirect
	github.com/aymerick/douceur v0.2.0 // indirect
	github.com/bytedance/sonic v1.10.0-rc3 // indirect
	github.com/chenzhuoyu/base64x v0.0.0-20230717121745-296ad89f973d // indirect
	github.com/chenzhuoyu/iasm v0.9.0 // indirect
	github.com/davecgh/go-spew v1.1.1 // indirect
	github.com/fatih/structs v1.1.0 // indirect
	github.com/flosch/pongo2/v4 v4.0.2 // indirect
	github.com/gabriel-vasile/mimetype v1.4.2 // indirect
	github.com/gin-contrib/sse v0.1.0 // indirect
	github.com/go-openapi/jsonpointer v0.20.2 // indirect
	github.com/go-openapi/swag v0.22.8 // indirect
	github.com/go-playground/locales v0.14.1 // indirect
	github.com/go-playground/universal-translator v0.18.1 // indirect
	github.com/go-playground/validator/v10 v10.14.1 // indirect
	github.com/goccy/go-json v0.10.2 // indirect
	github.com/golang-jwt/jwt v3.2.2+incompatible // indirect
	github.com/golang/snappy v0.0.4 // indirect
	github.com/gomarkdown/markdown v0.0.0-20230716120725-531d2d74bc12 // indirect
	github.com/google/uuid v1.4.0 // indirect
	github.com/gorilla/css v1.0.0 // indirect
	github.com/invopop/yaml v0.2.0 // indirect
	github.com/iris-contrib/schema v0.0.6 // indirect
	github.com/josharian/intern v1.0.0 // indirect
	github.com/json-iterator/go v1.1.12 // indirect
	github.com/kataras/blocks v0.0.7 // indirect
	github.com/kataras/golog v0.1.9 // indirect
	github.com/kataras/pio v0.0.12 // indirect
	github.com/kataras/sitemap v0.0.6 // indirect
	github.com/kataras/tunnel v0.0.4 // indirect
	github.com/klauspost/compress v1.16.7 // indirect
	github.com/klauspost/cpuid/v2 v2.2.5 // indirect
	github.com/labstack/gommon v0.4.0 // indirect
	github.com/leodido/go-urn v1.2.4 // indirect
	github.com/mailgun/raymond/v2 v2.0.48 // indirect
	github.com/mailru/easyjson v0.7.7 // indirect
	github.com/mattn/go-colorable v0.1.13 // indirect
	github.com/mattn/go-isatty v0.0.19 // indirect
	github.com/mattn/go-runewidth v0.0.15 // indirect
	github.com/microcosm-cc/bluemonday v1.0.25 // indirect
	github.com/modern-go/concurrent v0.0.0-20180306012644-bacd9c7ef1dd // indirect
	github.com/modern-go/reflect2 v1.0.2 // indirect
	github.com/mohae/deepcopy v0.0.0-20170929034955-c48cc78d4826 // indirect
	github.com/pelletier/go-toml/v2 v2.0.9 // indirect
	github.com/perimeterx/marshmallow v1.1.5 // indirect
	github.com/pmezard/go-difflib v1.0.0 // indirect
	github.com/rivo/uniseg v0.4.4 // indirect
	github.com/russross/blackfriday/v2 v2.1.0 // indirect
	github.com/schollz/closestmatch v2.1.0+incompatible // indirect
	github.com/sirupsen/logrus v1.8.1 // indirect
	github.com/stretchr/objx v0.5.2 // indirect
	github.com/tdewolff/minify/v2 v2.12.9 // indirect
	github.com/tdewolff/parse/v2 v2.6.8 // indirect
	github.com/twitchyliquid64/golang-asm v0.15.1 // indirect
	github.com/ugorji/go/codec v1.2.11 // indirect
	github.com/valyala/bytebufferpool v1.0.0 // indirect
	github.com/valyala/fasthttp v1.49.0 // indirect
	github.com/valyala/fasttemplate v1.2.2 // indirect
	github.com/valyala/tcplisten v1.0.0 // indirect
	github.com/vmihailenco/msgpack/v5 v5.3.5 // indirect
	github.com/vmihailenco/tagparser/v2 v2.0.0 // indirect
	github.com/yosssi/ace v0.0.5 // indirect
	golang.org/x/arch v0.4.0 // indirect
	golang.org/x/crypto v0.23.0 // indirect
	golang.org/x/mod v0.17.0 // indirect
	golang.org/x/net v0.25.0 // indirect
	golang.org/x/sys v0.20.0 // indirect
	golang.org/x/text v0.15.0 // indirect
	golang.org/x/time v0.3.0 // indirect
	google.golang.org/protobuf v1.31.0 // indirect
	gopkg.in/ini.v1 v1.67.0 // indirect
	gopkg.in/yaml.v3 v3.0.1 // indirect
)
