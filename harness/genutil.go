package main

import (
	"bytes"
	"compress/gzip"
	"encoding/base64"
	"fmt"
	"go/ast"
	"go/parser"
	"go/token"
	"io"
	"sort"
	"strconv"
	"strings"

	"github.com/getkin/kin-openapi/openapi3"
	"github.com/oapi-codegen/oapi-codegen/v2/pkg/codegen"
)

// generate calls codegen.Generate, turning a panic into an error string "panic: …".
func generate(spec *openapi3.T, cfg codegen.Configuration) (out string, err error) {
	defer func() {
		if r := recover(); r != nil {
			err = fmt.Errorf("panic: %v", r)
		}
	}()
	return codegen.Generate(spec, cfg)
}

func parseGo(src string) (*ast.File, *token.FileSet, error) {
	fset := token.NewFileSet()
	f, err := parser.ParseFile(fset, "gen.go", src, parser.ParseComments)
	return f, fset, err
}

// interfaceMethods lists the method names of the named interface type, in source order.
func interfaceMethods(f *ast.File, name string) ([]string, bool) {
	for _, d := range f.Decls {
		gd, ok := d.(*ast.GenDecl)
		if !ok {
			continue
		}
		for _, s := range gd.Specs {
			ts, ok := s.(*ast.TypeSpec)
			if !ok || ts.Name.Name != name {
				continue
			}
			it, ok := ts.Type.(*ast.InterfaceType)
			if !ok {
				return nil, false
			}
			var ms []string
			for _, m := range it.Methods.List {
				for _, n := range m.Names {
					ms = append(ms, n.Name)
				}
			}
			return ms, true
		}
	}
	return nil, false
}

// decodeEmbedded extracts and decodes the `swaggerSpec` literal of generated code.
func decodeEmbedded(f *ast.File) ([]byte, error) {
	var lit *ast.CompositeLit
	ast.Inspect(f, func(n ast.Node) bool {
		vs, ok := n.(*ast.ValueSpec)
		if !ok {
			return true
		}
		for i, nm := range vs.Names {
			if nm.Name == "swaggerSpec" && i < len(vs.Values) {
				if cl, ok := vs.Values[i].(*ast.CompositeLit); ok {
					lit = cl
				}
			}
		}
		return true
	})
	if lit == nil {
		return nil, fmt.Errorf("no swaggerSpec literal")
	}
	var sb strings.Builder
	for _, e := range lit.Elts {
		bl, ok := e.(*ast.BasicLit)
		if !ok {
			return nil, fmt.Errorf("non-literal chunk")
		}
		s, err := strconv.Unquote(bl.Value)
		if err != nil {
			return nil, err
		}
		sb.WriteString(s)
	}
	zipped, err := base64.StdEncoding.DecodeString(sb.String())
	if err != nil {
		return nil, fmt.Errorf("base64: %w", err)
	}
	zr, err := gzip.NewReader(bytes.NewReader(zipped))
	if err != nil {
		return nil, fmt.Errorf("gzip: %w", err)
	}
	return io.ReadAll(zr)
}

func specOps(spec *openapi3.T) []string {
	var out []string
	if spec.Paths == nil {
		return out
	}
	for p, pi := range spec.Paths.Map() {
		for m := range pi.Operations() {
			out = append(out, m+" "+p)
		}
	}
	sort.Strings(out)
	return out
}

func sortedCopy(xs []string) []string {
	ys := append([]string{}, xs...)
	sort.Strings(ys)
	return ys
}

func loadBytes(b []byte) (*openapi3.T, error) {
	l := openapi3.NewLoader()
	l.IsExternalRefsAllowed = false
	return l.LoadFromData(b)
}

// structFields lists the field names of the named struct type.
func structFields(f *ast.File, name string) ([]string, bool) {
	for _, d := range f.Decls {
		gd, ok := d.(*ast.GenDecl)
		if !ok {
			continue
		}
		for _, s := range gd.Specs {
			ts, ok := s.(*ast.TypeSpec)
			if !ok || ts.Name.Name != name {
				continue
			}
			st, ok := ts.Type.(*ast.StructType)
			if !ok {
				return nil, false
			}
			var out []string
			for _, fl := range st.Fields.List {
				for _, n := range fl.Names {
					out = append(out, n.Name)
				}
			}
			return out, true
		}
	}
	return nil, false
}
