package main

import (
	"fmt"
	"go/ast"
	"go/parser"
	"go/token"
	"os"
	"path/filepath"
	"strconv"
	"strings"
)

// A translator (the brief's first kind of tie): the `switch` over the media type in GenerateBodyDefinitions and in
// GenerateResponseDefinitions (pkg/codegen/operations.go) is read from the source with go/ast and written as a Lean value,
// `Gen/MediaSwitch.lean`; Props/C13.lean and Props/C12.lean prove that evaluating the translated switch is the model's
// `classify`. A case of a shape the translator does not know is an error of the translator (the tie is reported broken).

type msArm struct {
	cond, tag string
	dflt      bool
}

func msTranslate(fnName string) ([]msArm, error) {
	fset := token.NewFileSet()
	f, err := parser.ParseFile(fset, "/repo/pkg/codegen/operations.go", nil, 0)
	if err != nil {
		return nil, err
	}
	var fd *ast.FuncDecl
	for _, d := range f.Decls {
		if x, ok := d.(*ast.FuncDecl); ok && x.Name.Name == fnName && x.Recv == nil {
			fd = x
		}
	}
	if fd == nil {
		return nil, fmt.Errorf("%s not found", fnName)
	}
	var sw *ast.SwitchStmt
	ast.Inspect(fd.Body, func(n ast.Node) bool {
		if s, ok := n.(*ast.SwitchStmt); ok && s.Tag == nil && sw == nil {
			// the switch whose first case compares the range variable contentType with a literal
			if len(s.Body.List) > 0 {
				if cc, ok := s.Body.List[0].(*ast.CaseClause); ok && len(cc.List) == 1 {
					if be, ok := cc.List[0].(*ast.BinaryExpr); ok {
						if id, ok := be.X.(*ast.Ident); ok && id.Name == "contentType" {
							sw = s
						}
					}
				}
			}
		}
		return true
	})
	if sw == nil {
		return nil, fmt.Errorf("%s: the switch over contentType was not found", fnName)
	}
	lit := func(e ast.Expr) (string, bool) {
		bl, ok := e.(*ast.BasicLit)
		if !ok || bl.Kind != token.STRING {
			return "", false
		}
		s, err := strconv.Unquote(bl.Value)
		return s, err == nil
	}
	isCT := func(e ast.Expr) bool { id, ok := e.(*ast.Ident); return ok && id.Name == "contentType" }
	call := func(e ast.Expr) (string, []ast.Expr, bool) {
		ce, ok := e.(*ast.CallExpr)
		if !ok {
			return "", nil, false
		}
		switch fn := ce.Fun.(type) {
		case *ast.Ident:
			return fn.Name, ce.Args, true
		case *ast.SelectorExpr:
			if p, ok := fn.X.(*ast.Ident); ok {
				return p.Name + "." + fn.Sel.Name, ce.Args, true
			}
		}
		return "", nil, false
	}
	var arms []msArm
	for i, st := range sw.Body.List {
		cc := st.(*ast.CaseClause)
		var a msArm
		switch {
		case cc.List == nil:
			if i != len(sw.Body.List)-1 {
				return nil, fmt.Errorf("%s: default clause is not the last one", fnName)
			}
			a.cond = ".dflt"
		case len(cc.List) != 1:
			return nil, fmt.Errorf("%s: case %d has %d expressions", fnName, i, len(cc.List))
		default:
			e := cc.List[0]
			if be, ok := e.(*ast.BinaryExpr); ok && be.Op == token.EQL && isCT(be.X) {
				s, ok := lit(be.Y)
				if !ok {
					return nil, fmt.Errorf("%s: case %d compares with a non-literal", fnName, i)
				}
				a.cond = fmt.Sprintf(".eq (w %q)", s)
			} else if name, args, ok := call(e); ok && name == "util.IsMediaTypeJson" && len(args) == 1 && isCT(args[0]) {
				a.cond = ".isJson"
			} else if ok && name == "strings.HasPrefix" && len(args) == 2 && isCT(args[0]) {
				s, ok := lit(args[1])
				if !ok {
					return nil, fmt.Errorf("%s: case %d: HasPrefix of a non-literal", fnName, i)
				}
				a.cond = fmt.Sprintf(".pfx (w %q)", s)
			} else {
				return nil, fmt.Errorf("%s: case %d has a condition of an unknown shape", fnName, i)
			}
		}
		// the body: assignments to tag / defaultBody; the default clause appends a definition without a tag and continues
		a.tag = ".unsupported"
		sawContinue := false
		for _, bs := range cc.Body {
			switch s := bs.(type) {
			case *ast.AssignStmt:
				if len(s.Lhs) != 1 || len(s.Rhs) != 1 {
					return nil, fmt.Errorf("%s: case %d: assignment of an unknown shape", fnName, i)
				}
				lhs, _ := s.Lhs[0].(*ast.Ident)
				if lhs == nil {
					return nil, fmt.Errorf("%s: case %d: assignment to a non-identifier", fnName, i)
				}
				switch lhs.Name {
				case "tag":
					if v, ok := lit(s.Rhs[0]); ok {
						a.tag = fmt.Sprintf(".lit (w %q)", v)
					} else if name, args, ok := call(s.Rhs[0]); ok && name == "mediaTypeToCamelCase" && len(args) == 1 && isCT(args[0]) {
						a.tag = ".camel"
					} else {
						return nil, fmt.Errorf("%s: case %d: tag assigned from an unknown expression", fnName, i)
					}
				case "defaultBody":
					id, _ := s.Rhs[0].(*ast.Ident)
					if id == nil || (id.Name != "true" && id.Name != "false") {
						return nil, fmt.Errorf("%s: case %d: defaultBody assigned from an unknown expression", fnName, i)
					}
					a.dflt = id.Name == "true"
				case "bd", "rcd", "bodyDefinitions", "responseContentDefinitions":
					// the tag-less definition of the default clause
				default:
					return nil, fmt.Errorf("%s: case %d assigns to %s", fnName, i, lhs.Name)
				}
			case *ast.BranchStmt:
				sawContinue = s.Tok == token.CONTINUE
			}
		}
		if (a.cond == ".dflt") != sawContinue || (a.cond == ".dflt") != (a.tag == ".unsupported") {
			return nil, fmt.Errorf("%s: case %d: only the default clause leaves the tag empty and continues", fnName, i)
		}
		arms = append(arms, a)
	}
	return arms, nil
}

// genMediaSwitch writes Gen/MediaSwitch.lean (atomically: gen-c12 and gen-c13 may run side by side).
func genMediaSwitch(ctx *Ctx) error {
	var b strings.Builder
	b.WriteString("import OapiVerif.Model.Bodies\n-- GENERATED by `harness gen-c12` / `gen-c13` from /repo/pkg/codegen/operations.go (translator: go/ast). Do not edit.\nnamespace OapiVerif.Gen.MediaSwitch\nopen OapiVerif.Bodies\n\n")
	for _, it := range [][2]string{{"bodySwitch", "GenerateBodyDefinitions"}, {"respSwitch", "GenerateResponseDefinitions"}} {
		arms, err := msTranslate(it[1])
		if err != nil {
			return err
		}
		fmt.Fprintf(&b, "/-- the switch of `%s` -/\ndef %s : List Arm := [\n", it[1], it[0])
		for i, a := range arms {
			sep := ","
			if i == len(arms)-1 {
				sep = ""
			}
			fmt.Fprintf(&b, "  ⟨%s, %s, %v⟩%s\n", a.cond, a.tag, a.dflt, sep)
		}
		b.WriteString("]\n\n")
	}
	b.WriteString("end OapiVerif.Gen.MediaSwitch\n")
	tmp := filepath.Join(ctx.GenDir, fmt.Sprintf(".MediaSwitch.%d.tmp", os.Getpid()))
	if err := os.WriteFile(tmp, []byte(b.String()), 0o644); err != nil {
		return err
	}
	return os.Rename(tmp, filepath.Join(ctx.GenDir, "MediaSwitch.lean"))
}

func genC13(ctx *Ctx) error {
	if err := genBodyRules(ctx); err != nil {
		return err
	}
	return genMediaSwitch(ctx)
}

func init() { register("gen-c13", genC13) }
