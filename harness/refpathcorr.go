package main

import (
	"fmt"
	"strings"

	"github.com/oapi-codegen/oapi-codegen/v2/pkg/codegen"
)

// CORR: codegen.RefPathToGoType vs Model/RefPath.lean. The package state the function reads (the document, the import
// mapping) is installed by a generation of the document with that mapping; names are their own type names (Pet, Error,
// Thing1), so the naming function is the identity on them.
func corrRefPath(ctx *Ctx, n int) error {
	names := []string{"Pet", "Error", "Thing1", "Owner"}
	sections := []string{"schemas", "parameters", "responses", "requestBodies"}
	// spellings that differ in leading dots and slashes only are different documents (each mapped, or not, on its own)
	docs := []string{"common.json", "other.yaml", "https://x.org/specs/v1.json", "sub/dir.json", "../common.json", "./other.yaml", "/common.json", "..common.json"}
	hexs := func(s string) string { return fmt.Sprintf("%x", []byte(s)) }
	for i := 0; i < n; i++ {
		r := ctx.Rng.Fork()
		// the document: some components, some of them renamed
		comps := J{}
		var renamed []interface{}
		for _, sec := range sections {
			m := J{}
			for _, nm := range names {
				if !r.Chance(40) {
					continue
				}
				var c J
				switch sec {
				case "schemas":
					c = J{"type": "object", "properties": J{"a": J{"type": "string"}}}
				case "parameters":
					c = J{"name": "p" + nm, "in": "query", "schema": J{"type": "string"}}
				case "responses":
					c = J{"description": "d"}
				default:
					c = J{"content": J{"application/json": J{"schema": J{"type": "string"}}}}
				}
				gen := nm
				if r.Chance(40) {
					gen = "Local" + nm + strings.Title(sec)
					c["x-go-name"] = gen
				}
				m[nm] = c
				renamed = append(renamed, []string{hexs(sec), hexs(nm), hexs(gen)})
			}
			if len(m) > 0 {
				comps[sec] = m
			}
		}
		if renamed == nil {
			renamed = []interface{}{}
		}
		doc := J{"openapi": "3.0.3", "info": J{"title": "t", "version": "1"}, "paths": J{}, "components": comps}
		mapping := map[string]string{}
		imports := []interface{}{}
		for k, d := range docs {
			if r.Chance(60) {
				mapping[d] = fmt.Sprintf("example.com/pkg%d", k)
			}
		}
		spec, err := loadDoc(doc)
		if err != nil {
			return fmt.Errorf("refpath corr: %v", err)
		}
		var cfg codegen.Configuration
		cfg.PackageName = "api"
		cfg.Generate.Models = true
		cfg.OutputOptions.SkipPrune = true
		cfg.ImportMapping = mapping
		if _, err := generate(spec, cfg); err != nil {
			ctx.Res.Count("corr:refpath:document-not-generated")
			continue
		}
		for d, pk := range codegen.VerifConstructImportMapping(mapping) {
			imports = append(imports, []string{hexs(d), hexs(pk[0])})
		}
		for k := 0; k < 12; k++ {
			var ref string
			nm, sec := r.Pick(names), r.Pick(sections)
			switch r.Intn(8) {
			case 0, 1:
				ref = "#/components/" + sec + "/" + nm
			case 2, 3:
				ref = r.Pick(docs) + "#/components/" + sec + "/" + nm
			case 4:
				ref = r.Pick(docs) + "#/" + nm
			case 5:
				ref = "#/components/" + sec // wrong depth
			case 6:
				ref = r.Pick(docs) + "#/components/" + sec + "/" + nm + "/properties/a" // wrong depth, remote
			default:
				ref = r.Pick(docs) + "#/a#/" + nm // two fragments
			}
			got, gerr := codegen.RefPathToGoType(ref)
			var m struct {
				Ok    *string `json:"ok"`
				Error string  `json:"error"`
			}
			if err := ctx.Model(J{"fn": "refPath", "ref": hexs(ref), "imports": imports, "renamed": renamed}, &m); err != nil {
				return err
			}
			ctx.Res.Eval(J{"ref": ref, "doc": Hash(doc), "mapping": len(mapping)}, !strings.HasPrefix(ref, "#"))
			ctx.Res.Count("corr:refpath")
			implS, modelS := "error", "error:"+m.Error
			if gerr == nil {
				implS = got
			}
			if m.Ok != nil {
				modelS = unhx(*m.Ok)
			}
			if (gerr != nil) != (m.Ok == nil) || (gerr == nil && implS != modelS) {
				ctx.Res.Disagree("CORR RefPathToGoType vs RefPath.refPathToGoType", J{"ref": ref, "mapping": mapping, "renamed": renamed}, modelS, fmt.Sprint(implS, " ", gerr))
			}
		}
	}
	return nil
}
