package main

// Source text of the generic program that is compiled next to generated code (see runkit.go).

const progCommon = `
type wireReq struct {
	Method  string      ` + "`json:\"method\"`" + `
	URL     string      ` + "`json:\"url\"`" + `
	Headers [][2]string ` + "`json:\"headers\"`" + `
	Body    string      ` + "`json:\"body\"`" + `
}

type serveOpt struct {
	Base    string ` + "`json:\"base\"`" + `
	Mw      int    ` + "`json:\"mw\"`" + `      // number of per-operation middlewares
	Stop    int    ` + "`json:\"stop\"`" + `    // index of the middleware that does not call its successor (-1: none)
	Smw     int    ` + "`json:\"smw\"`" + `     // number of strict middlewares
	Sstop   int    ` + "`json:\"sstop\"`" + `
	ErrH    bool   ` + "`json:\"errh\"`" + `    // install a recording error handler
	Sel     int    ` + "`json:\"sel\"`" + `     // strict: index of the response type to return
	Status  int    ` + "`json:\"status\"`" + `  // strict: StatusCode for non-fixed responses
	CType   string ` + "`json:\"ctype\"`" + `   // strict: ContentType for wildcard responses
	HErr    bool   ` + "`json:\"herr\"`" + `    // strict: handler returns an error
	HErrResp bool  ` + "`json:\"herrresp\"`" + ` // strict: … together with a response object (the error counts)
	Foreign bool   ` + "`json:\"foreign\"`" + ` // strict: handler returns a response object of another operation
	Entry   int    ` + "`json:\"entry\"`" + `   // 1: build the server through the other entry points of the package (Handler / HandlerFromMux / HandlerFromMuxWithBaseURL, RegisterHandlers) when no option beyond the base URL is needed
	Warm    int    ` + "`json:\"warm\"`" + `    // the same request is served this many times on the same server first (state left behind shows in the observed one)
}

type callRec struct {
	Op     string                 ` + "`json:\"op\"`" + `
	Args   interface{}            ` + "`json:\"args\"`" + `
	Scopes map[string]interface{} ` + "`json:\"scopes\"`" + `
}

var rec struct {
	Calls []callRec
	Trace []string
	Errs  []string
	Reply interface{}
}
var curOpt serveOpt

func resetRec() { rec.Calls = nil; rec.Trace = nil; rec.Errs = nil; rec.Reply = nil }

// takeScopes records the published scopes and then edits the slice it was handed, as a consumer may (sort it, say): the
// slice is that request's own, the next request gets the document's scopes afresh
func takeScopes(v interface{}) interface{} {
	ss, ok := v.([]string)
	if !ok {
		return v
	}
	cp := append([]string{}, ss...)
	for i := range ss {
		ss[i] = "edited-by-an-earlier-consumer"
	}
	return cp
}

func recordCall(op string, args map[string]interface{}, scopes map[string]interface{}) {
	rec.Trace = append(rec.Trace, "handler:"+op)
	rec.Calls = append(rec.Calls, callRec{Op: op, Args: jsonable(reflect.ValueOf(args)), Scopes: scopes})
}

func recordErr(err error) { rec.Errs = append(rec.Errs, fmt.Sprintf("%T", err)) }

var readerType = reflect.TypeOf((*io.Reader)(nil)).Elem()
var marshalerType = reflect.TypeOf((*json.Marshaler)(nil)).Elem()

// jsonable turns any generated value into a JSON-able tree (readers are drained, funcs named).
func jsonable(v reflect.Value) interface{} {
	if !v.IsValid() {
		return nil
	}
	t := v.Type()
	switch v.Kind() {
	case reflect.Ptr, reflect.Interface:
		if v.IsNil() {
			return nil
		}
	}
	if t.String() == "*multipart.Reader" {
		return map[string]interface{}{"$multipart": drainMultipart(v.Interface())}
	}
	if v.Kind() == reflect.Interface && t.Implements(readerType) || (v.Kind() != reflect.Interface && t.Implements(readerType) && v.Kind() == reflect.Ptr) {
		if r, ok := v.Interface().(io.Reader); ok {
			b, _ := io.ReadAll(r)
			return map[string]interface{}{"$reader": string(b)}
		}
	}
	if v.Kind() == reflect.Func {
		return "$func"
	}
	if t.Implements(marshalerType) || (v.CanAddr() && v.Addr().Type().Implements(marshalerType)) {
		if b, err := json.Marshal(v.Interface()); err == nil {
			return json.RawMessage(b)
		}
	}
	switch v.Kind() {
	case reflect.Ptr, reflect.Interface:
		return jsonable(v.Elem())
	case reflect.Struct:
		if t.String() == "time.Time" {
			b, _ := json.Marshal(v.Interface())
			return json.RawMessage(b)
		}
		m := map[string]interface{}{}
		for i := 0; i < t.NumField(); i++ {
			f := t.Field(i)
			if f.PkgPath != "" {
				continue
			}
			if f.Anonymous {
				if sub, ok := jsonable(v.Field(i)).(map[string]interface{}); ok {
					for k, x := range sub {
						m[k] = x
					}
					continue
				}
			}
			m[f.Name] = jsonable(v.Field(i))
		}
		return m
	case reflect.Slice, reflect.Array:
		if v.Kind() == reflect.Slice && v.IsNil() {
			return nil
		}
		if t.Elem().Kind() == reflect.Uint8 {
			b, _ := json.Marshal(v.Interface())
			return json.RawMessage(b)
		}
		out := []interface{}{}
		for i := 0; i < v.Len(); i++ {
			out = append(out, jsonable(v.Index(i)))
		}
		return out
	case reflect.Map:
		if v.IsNil() {
			return nil
		}
		m := map[string]interface{}{}
		for _, k := range v.MapKeys() {
			m[fmt.Sprint(k.Interface())] = jsonable(v.MapIndex(k))
		}
		return m
	}
	if v.CanInterface() {
		return v.Interface()
	}
	return nil
}

func drainMultipart(x interface{}) interface{} {
	type nexter interface {
		NextPart() (interface {
			FormName() string
			Read([]byte) (int, error)
		}, error)
	}
	// use reflection to avoid importing mime/multipart when the generated code does not
	out := []interface{}{}
	rv := reflect.ValueOf(x)
	np := rv.MethodByName("NextPart")
	for i := 0; i < 100; i++ {
		res := np.Call(nil)
		if !res[1].IsNil() {
			break
		}
		part := res[0]
		name := part.MethodByName("FormName").Call(nil)[0].String()
		r := part.Interface().(io.Reader)
		b, _ := io.ReadAll(r)
		out = append(out, map[string]interface{}{"name": name, "data": string(b)})
	}
	return out
}

func decodeArgs(fn reflect.Value, raw []json.RawMessage) ([]reflect.Value, error) {
	ft := fn.Type()
	n := ft.NumIn()
	if ft.IsVariadic() {
		n--
	}
	if len(raw) != n {
		return nil, fmt.Errorf("arity: want %d args, got %d", n, len(raw))
	}
	in := make([]reflect.Value, n)
	for i := 0; i < n; i++ {
		pt := ft.In(i)
		if pt == readerType {
			var s string
			if err := json.Unmarshal(raw[i], &s); err != nil {
				return nil, err
			}
			in[i] = reflect.ValueOf(strings.NewReader(s)).Convert(pt)
			continue
		}
		pv := reflect.New(pt)
		if err := json.Unmarshal(raw[i], pv.Interface()); err != nil {
			return nil, fmt.Errorf("arg %d (%s): %v", i, pt, err)
		}
		in[i] = pv.Elem()
	}
	return in, nil
}

func wireOf(req *http.Request) wireReq {
	w := wireReq{Method: req.Method, URL: req.URL.String()}
	keys := []string{}
	for k := range req.Header {
		keys = append(keys, k)
	}
	sort.Strings(keys)
	for _, k := range keys {
		for _, v := range req.Header[k] {
			w.Headers = append(w.Headers, [2]string{k, v})
		}
	}
	if req.Body != nil {
		b, _ := io.ReadAll(req.Body)
		w.Body = string(b)
	}
	return w
}

func doClient(fnName string, raw []json.RawMessage) map[string]interface{} {
	f, ok := builders[fnName]
	if !ok {
		return map[string]interface{}{"err": "no-such-builder"}
	}
	fn := reflect.ValueOf(f)
	in, err := decodeArgs(fn, raw)
	if err != nil {
		return map[string]interface{}{"err": "bad-args: " + err.Error()}
	}
	echoed := []interface{}{}
	for _, v := range in {
		if v.Type() == readerType {
			echoed = append(echoed, nil)
			continue
		}
		echoed = append(echoed, jsonable(v))
	}
	out := fn.Call(in)
	// a caller may build several requests before it sends the first: the builder of the previous call runs once more, with
	// the previous call's arguments, before this request is looked at (its result is dropped)
	if pf, ok := builders[prevBuilder]; ok && prevBuilder != "" {
		pfn := reflect.ValueOf(pf)
		if in2, err := decodeArgs(pfn, prevBuilderArgs); err == nil {
			func() {
				defer func() { _ = recover() }()
				pfn.Call(in2)
			}()
		}
	}
	prevBuilder, prevBuilderArgs = fnName, raw
	if !out[1].IsNil() {
		return map[string]interface{}{"builderr": out[1].Interface().(error).Error(), "sent": echoed}
	}
	req := out[0].Interface().(*http.Request)
	return map[string]interface{}{"req": wireOf(req), "sent": echoed}
}

var prevBuilder string
var prevBuilderArgs []json.RawMessage

func doParse(fnName string, status int, headers [][2]string, body string) map[string]interface{} {
	f, ok := parsers[fnName]
	if !ok {
		return map[string]interface{}{"err": "no-such-parser"}
	}
	rsp := &http.Response{StatusCode: status, Status: fmt.Sprint(status), Header: http.Header{}, Body: io.NopCloser(strings.NewReader(body))}
	for _, h := range headers {
		rsp.Header.Add(h[0], h[1])
	}
	out := reflect.ValueOf(f).Call([]reflect.Value{reflect.ValueOf(rsp)})
	if !out[1].IsNil() {
		return map[string]interface{}{"parseerr": out[1].Interface().(error).Error()}
	}
	res := out[0].Elem()
	fields := map[string]interface{}{}
	t := res.Type()
	for i := 0; i < t.NumField(); i++ {
		fv := res.Field(i)
		name := t.Field(i).Name
		switch name {
		case "Body":
			fields["Body"] = string(fv.Bytes())
		case "HTTPResponse":
			if !fv.IsNil() {
				fields["HTTPResponse"] = fv.Interface().(*http.Response).StatusCode
			}
		default:
			if fv.Kind() == reflect.Ptr && !fv.IsNil() {
				fields[name] = jsonable(fv)
			}
		}
	}
	sc := res.Addr().MethodByName("StatusCode")
	if sc.IsValid() {
		fields["$StatusCode"] = sc.Call(nil)[0].Int()
	}
	return map[string]interface{}{"fields": fields}
}

func toHTTP(w wireReq) *http.Request {
	// http.NewRequest parses the target as a URL for every method (httptest.NewRequest would read a
	// CONNECT target as an authority); the fields a server-side request has are filled in by hand.
	req, err := http.NewRequest(w.Method, w.URL, strings.NewReader(w.Body))
	if err != nil {
		panic("bad request in harness: " + err.Error())
	}
	req.RemoteAddr = "192.0.2.1:1234"
	req.Host = req.URL.Host
	req.RequestURI = req.URL.RequestURI()
	for _, h := range w.Headers {
		req.Header.Add(h[0], h[1])
	}
	return req
}

func obsOf(status int, hdr http.Header, body string) map[string]interface{} {
	hs := [][2]string{}
	keys := []string{}
	for k := range hdr {
		keys = append(keys, k)
	}
	sort.Strings(keys)
	for _, k := range keys {
		for _, v := range hdr[k] {
			hs = append(hs, [2]string{k, v})
		}
	}
	calls := rec.Calls
	if calls == nil {
		calls = []callRec{}
	}
	return map[string]interface{}{"status": status, "headers": hs, "body": body, "calls": calls,
		"trace": append([]string{}, rec.Trace...), "errs": append([]string{}, rec.Errs...), "reply": rec.Reply}
}

// doJSON decodes data into a new value of the named generated type and encodes it again.
// scribble overwrites a buffer that has been decoded from: a caller is free to reuse it (json.Decoder does)
func scribble(b []byte) {
	for i := range b {
		b[i] = '#'
	}
}

func doJSON(typ, data string) map[string]interface{} {
	t, ok := modelTypes[typ]
	if !ok {
		return map[string]interface{}{"err": "no-type"}
	}
	v := reflect.New(t)
	buf := []byte(data)
	if err := json.Unmarshal(buf, v.Interface()); err != nil {
		return map[string]interface{}{"unmarshal_err": err.Error()}
	}
	scribble(buf) // the decoded value must not keep a reference into the caller's buffer
	out, err := json.Marshal(v.Interface())
	if err != nil {
		return map[string]interface{}{"marshal_err": err.Error()}
	}
	return map[string]interface{}{"out": string(out)}
}

type methodStep struct {
	M    string            ` + "`json:\"m\"`" + `
	Args []json.RawMessage ` + "`json:\"args\"`" + `
}

// doMethods makes a value of the named type (zero, or decoded from data), calls the listed methods on it in order
// (arguments decoded from JSON into the parameter types) and reports every result and the value's final encoding.
func doMethods(typ, data string, steps []methodStep) map[string]interface{} {
	t, ok := modelTypes[typ]
	if !ok {
		return map[string]interface{}{"err": "no-type"}
	}
	v := reflect.New(t)
	if data != "" {
		buf := []byte(data)
		if err := json.Unmarshal(buf, v.Interface()); err != nil {
			return map[string]interface{}{"unmarshal_err": err.Error()}
		}
		scribble(buf)
	}
	results := []interface{}{}
	errT := reflect.TypeOf((*error)(nil)).Elem()
	for _, st := range steps {
		m := v.MethodByName(st.M)
		if !m.IsValid() {
			results = append(results, map[string]interface{}{"no_method": st.M})
			continue
		}
		mt := m.Type()
		if mt.NumIn() != len(st.Args) {
			results = append(results, map[string]interface{}{"bad_arity": st.M})
			continue
		}
		args := make([]reflect.Value, mt.NumIn())
		bad := ""
		for i := range args {
			a := reflect.New(mt.In(i))
			abuf := append([]byte(nil), st.Args[i]...)
			if err := json.Unmarshal(abuf, a.Interface()); err != nil {
				bad = err.Error()
			}
			scribble(abuf)
			args[i] = a.Elem()
		}
		if bad != "" {
			results = append(results, map[string]interface{}{"bad_arg": bad})
			continue
		}
		outs := m.Call(args)
		res := map[string]interface{}{}
		vals := []interface{}{}
		for _, o := range outs {
			if o.Type().Implements(errT) || o.Type() == errT {
				if !o.IsNil() {
					res["error"] = o.Interface().(error).Error()
				}
				continue
			}
			var iv interface{}
			if o.IsValid() && o.CanInterface() {
				iv = o.Interface()
			}
			b, err := json.Marshal(iv)
			if err != nil {
				vals = append(vals, map[string]interface{}{"marshal_err": err.Error()})
				continue
			}
			dyn := ""
			if o.Kind() == reflect.Interface && !o.IsNil() {
				dyn = o.Elem().Type().String()
			}
			vals = append(vals, map[string]interface{}{"json": string(b), "dyn": dyn})
		}
		res["values"] = vals
		results = append(results, res)
	}
	final := map[string]interface{}{"results": results}
	if b, err := json.Marshal(v.Interface()); err != nil {
		final["marshal_err"] = err.Error()
	} else {
		final["out"] = string(b)
	}
	return final
}

func main() {
	in := bufio.NewReaderSize(os.Stdin, 1<<20)
	out := bufio.NewWriter(os.Stdout)
	for {
		line, err := in.ReadBytes('\n')
		if len(bytes.TrimSpace(line)) > 0 {
			var msg struct {
				Do   string            ` + "`json:\"do\"`" + `
				Fn   string            ` + "`json:\"fn\"`" + `
				Args []json.RawMessage ` + "`json:\"args\"`" + `
				Type string            ` + "`json:\"type\"`" + `
				Data string            ` + "`json:\"data\"`" + `
				First string           ` + "`json:\"first\"`" + `
				Steps []methodStep     ` + "`json:\"steps\"`" + `
				Req  wireReq           ` + "`json:\"req\"`" + `
				Opt  serveOpt          ` + "`json:\"opt\"`" + `
				Rsp  struct {
					Status  int         ` + "`json:\"status\"`" + `
					Headers [][2]string ` + "`json:\"headers\"`" + `
					Body    string      ` + "`json:\"body\"`" + `
				} ` + "`json:\"rsp\"`" + `
			}
			msg.Opt.Stop, msg.Opt.Sstop = -1, -1
			var resp map[string]interface{}
			if jerr := json.Unmarshal(line, &msg); jerr != nil {
				resp = map[string]interface{}{"err": "bad-json: " + jerr.Error()}
			} else {
				func() {
					defer func() {
						if r := recover(); r != nil {
							resp = map[string]interface{}{"panic": fmt.Sprint(r)}
						}
					}()
					switch msg.Do {
					case "client":
						resp = doClient(msg.Fn, msg.Args)
					case "parse":
						resp = doParse(msg.Fn, msg.Rsp.Status, msg.Rsp.Headers, msg.Rsp.Body)
					case "serve":
						resetRec()
						curOpt = msg.Opt
						resp = serve(msg.Req, msg.Opt)
					case "json":
						resp = doJSON(msg.Type, msg.Data)
						if msg.First != "" {
							// the same value decoded from another document first (a decoder loop, a pooled value)
							if t, ok := modelTypes[msg.Type]; ok {
								v := reflect.New(t)
								if json.Unmarshal([]byte(msg.First), v.Interface()) == nil && json.Unmarshal([]byte(msg.Data), v.Interface()) == nil {
									if out, err := json.Marshal(v.Interface()); err == nil {
										resp["out_reused"] = string(out)
									}
								}
							}
						}
					case "methods":
						resp = doMethods(msg.Type, msg.Data, msg.Steps)
					case "roundtrip":
						resp = doClient(msg.Fn, msg.Args)
						if w, ok := resp["req"].(wireReq); ok {
							resetRec()
							curOpt = msg.Opt
							resp["served"] = serve(w, msg.Opt)
						}
					default:
						resp = map[string]interface{}{"err": "bad-op"}
					}
				}()
			}
			b, merr := json.Marshal(resp)
			if merr != nil {
				b, _ = json.Marshal(map[string]interface{}{"err": "marshal: " + merr.Error()})
			}
			out.WriteString("@@")
			out.Write(b)
			out.WriteString("\n")
			out.Flush()
		}
		if err != nil {
			return
		}
	}
}
`

// strict-mode helpers shared by all families
const progStrict = `
func strictErr() error {
	if curOpt.HErr {
		return fmt.Errorf("handler-error")
	}
	return nil
}

type foreignResponse struct{}

// strictReply instantiates the curOpt.Sel-th declared response type of the operation, fills it
// with marker values by reflection and records what it returned.
func strictReply(op string, cands []interface{}) interface{} {
	if (curOpt.HErr && !curOpt.HErrResp) || len(cands) == 0 {
		return nil
	}
	c := cands[((curOpt.Sel%len(cands))+len(cands))%len(cands)]
	v := reflect.ValueOf(c).Elem()
	fillValue(v, 0, "")
	if f := v; f.Kind() == reflect.Struct {
		if sc := f.FieldByName("StatusCode"); sc.IsValid() && sc.Kind() == reflect.Int {
			sc.SetInt(int64(curOpt.Status))
		}
		if ct := f.FieldByName("ContentType"); ct.IsValid() && ct.Kind() == reflect.String {
			ct.SetString(curOpt.CType)
		}
		if cl := f.FieldByName("ContentLength"); cl.IsValid() && cl.Kind() == reflect.Int64 {
			cl.SetInt(0)
		}
	}
	rec.Reply = map[string]interface{}{"type": v.Type().Name(), "value": describe(v)}
	return v.Interface()
}

// describe is jsonable without draining readers (the value is about to be written by the server).
func describe(v reflect.Value) interface{} {
	if !v.IsValid() {
		return nil
	}
	switch v.Kind() {
	case reflect.Func:
		return "$func"
	case reflect.Interface:
		if v.IsNil() {
			return nil
		}
		if _, ok := v.Interface().(io.Reader); ok {
			return map[string]interface{}{"$reader": "raw-body"}
		}
		return describe(v.Elem())
	case reflect.Ptr:
		if v.IsNil() {
			return nil
		}
	}
	t := v.Type()
	if t.Implements(marshalerType) || (v.CanAddr() && v.Addr().Type().Implements(marshalerType)) {
		if b, err := json.Marshal(v.Interface()); err == nil {
			return json.RawMessage(b)
		}
	}
	switch v.Kind() {
	case reflect.Ptr:
		return describe(v.Elem())
	case reflect.Struct:
		if t.String() == "time.Time" {
			b, _ := json.Marshal(v.Interface())
			return json.RawMessage(b)
		}
		m := map[string]interface{}{}
		for i := 0; i < t.NumField(); i++ {
			f := t.Field(i)
			if f.PkgPath != "" {
				continue
			}
			if f.Anonymous {
				if sub, ok := describe(v.Field(i)).(map[string]interface{}); ok {
					for k, x := range sub {
						m[k] = x
					}
					continue
				}
			}
			m[f.Name] = describe(v.Field(i))
		}
		return m
	case reflect.Slice:
		if t.Elem().Kind() == reflect.Uint8 {
			b, _ := json.Marshal(v.Interface())
			return json.RawMessage(b)
		}
		out := []interface{}{}
		for i := 0; i < v.Len(); i++ {
			out = append(out, describe(v.Index(i)))
		}
		return out
	case reflect.Map:
		m := map[string]interface{}{}
		for _, k := range v.MapKeys() {
			m[fmt.Sprint(k.Interface())] = describe(v.MapIndex(k))
		}
		return m
	}
	if v.CanInterface() {
		return v.Interface()
	}
	return nil
}

func fillValue(v reflect.Value, depth int, name string) {
	if depth > 6 || !v.CanSet() {
		return
	}
	t := v.Type()
	switch t.String() {
	case "time.Time", "types.Date", "openapi_types.Date":
		pv := reflect.New(t)
		_ = json.Unmarshal([]byte("\"2021-02-03T04:05:06Z\""), pv.Interface())
		if t.String() != "time.Time" {
			_ = json.Unmarshal([]byte("\"2021-02-03\""), pv.Interface())
		}
		v.Set(pv.Elem())
		return
	case "types.UUID", "openapi_types.UUID", "uuid.UUID":
		pv := reflect.New(t)
		_ = json.Unmarshal([]byte("\"123e4567-e89b-12d3-a456-426614174000\""), pv.Interface())
		v.Set(pv.Elem())
		return
	case "json.RawMessage":
		v.Set(reflect.ValueOf(json.RawMessage("{\"raw\":1}")))
		return
	}
	switch v.Kind() {
	case reflect.String:
		v.SetString("s-" + name)
	case reflect.Int, reflect.Int8, reflect.Int16, reflect.Int32, reflect.Int64:
		v.SetInt(7)
	case reflect.Uint, reflect.Uint8, reflect.Uint16, reflect.Uint32, reflect.Uint64:
		v.SetUint(7)
	case reflect.Float32, reflect.Float64:
		v.SetFloat(0.1) // not exact in binary: its text depends on the width it is formatted at
	case reflect.Bool:
		v.SetBool(true)
	case reflect.Ptr:
		v.Set(reflect.New(t.Elem()))
		fillValue(v.Elem(), depth+1, name)
	case reflect.Struct:
		for i := 0; i < t.NumField(); i++ {
			if t.Field(i).PkgPath == "" {
				fillValue(v.Field(i), depth+1, t.Field(i).Name)
			}
		}
	case reflect.Slice:
		if t.Elem().Kind() == reflect.Uint8 {
			v.SetBytes([]byte("bytes"))
			return
		}
		s := reflect.MakeSlice(t, 1, 1)
		fillValue(s.Index(0), depth+1, name)
		v.Set(s)
	case reflect.Map:
		m := reflect.MakeMap(t)
		if t.Key().Kind() == reflect.String {
			e := reflect.New(t.Elem()).Elem()
			fillValue(e, depth+1, name)
			m.SetMapIndex(reflect.ValueOf("k").Convert(t.Key()), e)
		}
		v.Set(m)
	case reflect.Interface:
		if t == readerType {
			v.Set(reflect.ValueOf(strings.NewReader("raw-body")))
		} else if t.NumMethod() == 0 {
			v.Set(reflect.ValueOf("any-" + name))
		}
	case reflect.Func:
		// func(writer *multipart.Writer) error
		if t.NumIn() == 1 && t.NumOut() == 1 {
			v.Set(reflect.MakeFunc(t, func(args []reflect.Value) []reflect.Value {
				wf := args[0].MethodByName("WriteField")
				if wf.IsValid() {
					wf.Call([]reflect.Value{reflect.ValueOf("field"), reflect.ValueOf("value")})
				}
				return []reflect.Value{reflect.Zero(t.Out(0))}
			}))
		}
	}
}

func scopesFromContext(ctx context.Context) map[string]interface{} {
	m := map[string]interface{}{}
	for k, key := range scopeKeys {
		if v := ctx.Value(key); v != nil {
			m[k] = takeScopes(v)
		}
	}
	return m
}
`

// per-family: how the handler is built and a request served
var progServe = map[string]string{}

const serveNetHTTPTail = `
func mwList(opt serveOpt) []MiddlewareFunc {
	var ms []MiddlewareFunc
	for i := 0; i < opt.Mw; i++ {
		i := i
		ms = append(ms, func(next http.Handler) http.Handler {
			return http.HandlerFunc(func(w http.ResponseWriter, r *http.Request) {
				rec.Trace = append(rec.Trace, fmt.Sprintf("mw%d", i))
				if opt.Stop == i {
					w.WriteHeader(418)
					return
				}
				next.ServeHTTP(w, r)
			})
		})
	}
	return ms
}

func serve(req wireReq, opt serveOpt) (out map[string]interface{}) {
	var h http.Handler
	func() {
		defer func() {
			if r := recover(); r != nil {
				out = map[string]interface{}{"regpanic": fmt.Sprint(r)}
			}
		}()
		h = buildHandler(opt)
	}()
	if out != nil {
		return out
	}
	for i := 0; i < opt.Warm; i++ {
		h.ServeHTTP(httptest.NewRecorder(), toHTTP(req))
	}
	if opt.Warm > 0 {
		resetRec()
	}
	w := httptest.NewRecorder()
	h.ServeHTTP(w, toHTTP(req))
	return obsOf(w.Code, w.Result().Header, w.Body.String())
}
`

const strictNetHTTPMw = `
func strictMws(opt serveOpt) []StrictMiddlewareFunc {
	var ms []StrictMiddlewareFunc
	for i := 0; i < opt.Smw; i++ {
		i := i
		ms = append(ms, func(f StrictHandlerFunc, operationID string) StrictHandlerFunc {
			return func(ctx context.Context, w http.ResponseWriter, r *http.Request, request interface{}) (interface{}, error) {
				rec.Trace = append(rec.Trace, fmt.Sprintf("smw%d:%s", i, operationID))
				if opt.Sstop == i {
					w.WriteHeader(418)
					return nil, nil
				}
				resp, err := f(ctx, w, r, request)
				if opt.Foreign && i == 0 {
					return foreignResponse{}, nil
				}
				return resp, err
			}
		})
	}
	return ms
}

func strictSI(opt serveOpt) ServerInterface {
	if opt.ErrH {
		return NewStrictHandlerWithOptions(&stub{}, strictMws(opt), StrictHTTPServerOptions{
			RequestErrorHandlerFunc:  func(w http.ResponseWriter, r *http.Request, err error) { rec.Errs = append(rec.Errs, "request:"+err.Error()); http.Error(w, err.Error(), 400) },
			ResponseErrorHandlerFunc: func(w http.ResponseWriter, r *http.Request, err error) { rec.Errs = append(rec.Errs, "response:"+err.Error()); http.Error(w, err.Error(), 500) },
		})
	}
	return NewStrictHandler(&stub{}, strictMws(opt))
}
`

func init() {
	nethttp := func(optsType string, si string, extra string) string {
		newMux := map[string]string{"ChiServerOptions": "chi.NewRouter()", "GorillaServerOptions": "mux.NewRouter()", "StdHTTPServerOptions": "http.NewServeMux()"}[optsType]
		return `
func buildHandler(opt serveOpt) http.Handler {
	if opt.Entry == 1 && opt.Mw == 0 && !opt.ErrH {
		// the router is the caller's: the caller may serve what the function returns or the router it handed in
		m := ` + newMux + `
		if opt.Base != "" {
			h := HandlerFromMuxWithBaseURL(` + si + `, m, opt.Base)
			if len(opt.CType)%2 == 0 {
				return m
			}
			return h
		}
		if len(opt.CType)%2 == 0 {
			h := HandlerFromMux(` + si + `, m)
			if len(opt.CType)%4 == 0 {
				return m
			}
			return h
		}
		return Handler(` + si + `)
	}
	o := ` + optsType + `{BaseURL: opt.Base, Middlewares: mwList(opt)}
	if opt.ErrH {
		o.ErrorHandlerFunc = func(w http.ResponseWriter, r *http.Request, err error) {
			recordErr(err)
			http.Error(w, err.Error(), 400)
		}
	}
	return HandlerWithOptions(` + si + `, o)
}
` + serveNetHTTPTail + extra
	}
	progServe["chi"] = nethttp("ChiServerOptions", "&stub{}", "\nvar _ = chi.NewRouter\n")
	progServe["gorilla"] = nethttp("GorillaServerOptions", "&stub{}", "\nvar _ = mux.NewRouter\n")
	progServe["stdhttp"] = nethttp("StdHTTPServerOptions", "&stub{}", "")
	progServe["chi+strict"] = nethttp("ChiServerOptions", "strictSI(opt)", strictNetHTTPMw+"\nvar _ = chi.NewRouter\n")
	progServe["gorilla+strict"] = nethttp("GorillaServerOptions", "strictSI(opt)", strictNetHTTPMw+"\nvar _ = mux.NewRouter\n")
	progServe["stdhttp+strict"] = nethttp("StdHTTPServerOptions", "strictSI(opt)", strictNetHTTPMw)

	echoServe := func(si, extra string) string {
		return `
func serve(req wireReq, opt serveOpt) (out map[string]interface{}) {
	e := echo.New()
	func() {
		defer func() {
			if r := recover(); r != nil {
				out = map[string]interface{}{"regpanic": fmt.Sprint(r)}
			}
		}()
		if opt.Entry == 1 && opt.Base == "" {
			RegisterHandlers(e, ` + si + `)
		} else {
			RegisterHandlersWithBaseURL(e, ` + si + `, opt.Base)
		}
	}()
	if out != nil {
		return out
	}
	if opt.ErrH {
		def := e.HTTPErrorHandler
		e.HTTPErrorHandler = func(err error, c echo.Context) { recordErr(err); def(err, c) }
	}
	for i := 0; i < opt.Warm; i++ {
		e.ServeHTTP(httptest.NewRecorder(), toHTTP(req))
	}
	if opt.Warm > 0 {
		resetRec()
	}
	w := httptest.NewRecorder()
	e.ServeHTTP(w, toHTTP(req))
	return obsOf(w.Code, w.Result().Header, w.Body.String())
}
` + extra
	}
	progServe["echo"] = echoServe("&stub{}", "")
	progServe["echo+strict"] = echoServe("NewStrictHandler(&stub{}, strictMws(opt))", `
func strictMws(opt serveOpt) []StrictMiddlewareFunc {
	var ms []StrictMiddlewareFunc
	for i := 0; i < opt.Smw; i++ {
		i := i
		ms = append(ms, func(f StrictHandlerFunc, operationID string) StrictHandlerFunc {
			return func(ctx echo.Context, request interface{}) (interface{}, error) {
				rec.Trace = append(rec.Trace, fmt.Sprintf("smw%d:%s", i, operationID))
				if opt.Sstop == i {
					return nil, ctx.NoContent(418)
				}
				resp, err := f(ctx, request)
				if opt.Foreign && i == 0 {
					return foreignResponse{}, nil
				}
				return resp, err
			}
		})
	}
	return ms
}
`)

	ginServe := func(si, extra string) string {
		return `
func serve(req wireReq, opt serveOpt) (out map[string]interface{}) {
	gin.SetMode(gin.ReleaseMode)
	r := gin.New()
	var ms []MiddlewareFunc
	for i := 0; i < opt.Mw; i++ {
		i := i
		ms = append(ms, func(c *gin.Context) {
			rec.Trace = append(rec.Trace, fmt.Sprintf("mw%d", i))
			if opt.Stop == i {
				c.AbortWithStatus(418)
			}
		})
	}
	o := GinServerOptions{BaseURL: opt.Base, Middlewares: ms}
	if opt.ErrH {
		o.ErrorHandler = func(c *gin.Context, err error, code int) {
			recordErr(err)
			c.JSON(code, gin.H{"msg": err.Error()})
		}
	}
	func() {
		defer func() {
			if r := recover(); r != nil {
				out = map[string]interface{}{"regpanic": fmt.Sprint(r)}
			}
		}()
		if opt.Entry == 1 && opt.Base == "" && opt.Mw == 0 && !opt.ErrH {
			RegisterHandlers(r, ` + si + `)
		} else {
			RegisterHandlersWithOptions(r, ` + si + `, o)
		}
	}()
	if out != nil {
		return out
	}
	for i := 0; i < opt.Warm; i++ {
		r.ServeHTTP(httptest.NewRecorder(), toHTTP(req))
	}
	if opt.Warm > 0 {
		resetRec()
	}
	w := httptest.NewRecorder()
	r.ServeHTTP(w, toHTTP(req))
	return obsOf(w.Code, w.Result().Header, w.Body.String())
}
` + extra
	}
	progServe["gin"] = ginServe("&stub{}", "")
	progServe["gin+strict"] = ginServe("NewStrictHandler(&stub{}, strictMws(opt))", `
func strictMws(opt serveOpt) []StrictMiddlewareFunc {
	var ms []StrictMiddlewareFunc
	for i := 0; i < opt.Smw; i++ {
		i := i
		ms = append(ms, func(f StrictHandlerFunc, operationID string) StrictHandlerFunc {
			return func(ctx *gin.Context, request interface{}) (interface{}, error) {
				rec.Trace = append(rec.Trace, fmt.Sprintf("smw%d:%s", i, operationID))
				if opt.Sstop == i {
					ctx.Status(418)
					return nil, nil
				}
				resp, err := f(ctx, request)
				if opt.Foreign && i == 0 {
					return foreignResponse{}, nil
				}
				return resp, err
			}
		})
	}
	return ms
}
`)

	fiberServe := func(si, extra string) string {
		return `
func serve(req wireReq, opt serveOpt) (out map[string]interface{}) {
	app := fiber.New(fiber.Config{DisableStartupMessage: true, StrictRouting: true}) // /a and /a/ are different paths of the document
	var ms []MiddlewareFunc
	for i := 0; i < opt.Mw; i++ {
		i := i
		ms = append(ms, func(c *fiber.Ctx) error {
			rec.Trace = append(rec.Trace, fmt.Sprintf("mw%d", i))
			if opt.Stop == i {
				return c.SendStatus(418)
			}
			return c.Next()
		})
	}
	func() {
		defer func() {
			if r := recover(); r != nil {
				out = map[string]interface{}{"regpanic": fmt.Sprint(r)}
			}
		}()
		if opt.Entry == 1 && opt.Base == "" && opt.Mw == 0 {
			RegisterHandlers(app, ` + si + `)
		} else {
			RegisterHandlersWithOptions(app, ` + si + `, FiberServerOptions{BaseURL: opt.Base, Middlewares: ms})
		}
	}()
	if out != nil {
		return out
	}
	for i := 0; i < opt.Warm; i++ {
		if wr, werr := app.Test(toHTTP(req), -1); werr == nil {
			wr.Body.Close()
		}
	}
	if opt.Warm > 0 {
		resetRec()
	}
	hr := toHTTP(req)
	resp, err := app.Test(hr, -1)
	if err != nil {
		return map[string]interface{}{"err": "fiber test: " + err.Error()}
	}
	b, _ := io.ReadAll(resp.Body)
	return obsOf(resp.StatusCode, resp.Header, string(b))
}
` + extra
	}
	progServe["fiber"] = fiberServe("&stub{}", "")
	progServe["fiber+strict"] = fiberServe("NewStrictHandler(&stub{}, strictMws(opt))", `
func strictMws(opt serveOpt) []StrictMiddlewareFunc {
	var ms []StrictMiddlewareFunc
	for i := 0; i < opt.Smw; i++ {
		i := i
		ms = append(ms, func(f StrictHandlerFunc, operationID string) StrictHandlerFunc {
			return func(ctx *fiber.Ctx, request interface{}) (interface{}, error) {
				rec.Trace = append(rec.Trace, fmt.Sprintf("smw%d:%s", i, operationID))
				if opt.Sstop == i {
					return nil, ctx.SendStatus(418)
				}
				resp, err := f(ctx, request)
				if opt.Foreign && i == 0 {
					return foreignResponse{}, nil
				}
				return resp, err
			}
		})
	}
	return ms
}
`)

	irisServe := func(si, extra string) string {
		return `
func serve(req wireReq, opt serveOpt) (out map[string]interface{}) {
	app := iris.New()
	app.Logger().SetLevel("disable")
	var ms []MiddlewareFunc
	for i := 0; i < opt.Mw; i++ {
		i := i
		ms = append(ms, func(c iris.Context) {
			rec.Trace = append(rec.Trace, fmt.Sprintf("mw%d", i))
			if opt.Stop == i {
				c.StopWithStatus(418)
				return
			}
			c.Next()
		})
	}
	func() {
		defer func() {
			if r := recover(); r != nil {
				out = map[string]interface{}{"regpanic": fmt.Sprint(r)}
			}
		}()
		if opt.Entry == 1 && opt.Base == "" && opt.Mw == 0 {
			RegisterHandlers(app, ` + si + `)
		} else {
			RegisterHandlersWithOptions(app, ` + si + `, IrisServerOptions{BaseURL: opt.Base, Middlewares: ms})
		}
	}()
	if out != nil {
		return out
	}
	for i := 0; i < opt.Warm; i++ {
		app.ServeHTTP(httptest.NewRecorder(), toHTTP(req))
	}
	if opt.Warm > 0 {
		resetRec()
	}
	w := httptest.NewRecorder()
	app.ServeHTTP(w, toHTTP(req))
	return obsOf(w.Code, w.Result().Header, w.Body.String())
}
` + extra
	}
	progServe["iris"] = irisServe("&stub{}", "")
	progServe["iris+strict"] = irisServe("NewStrictHandler(&stub{}, strictMws(opt))", `
func strictMws(opt serveOpt) []StrictMiddlewareFunc {
	var ms []StrictMiddlewareFunc
	for i := 0; i < opt.Smw; i++ {
		i := i
		ms = append(ms, func(f StrictHandlerFunc, operationID string) StrictHandlerFunc {
			return func(ctx iris.Context, request interface{}) (interface{}, error) {
				rec.Trace = append(rec.Trace, fmt.Sprintf("smw%d:%s", i, operationID))
				if opt.Sstop == i {
					ctx.StatusCode(418)
					return nil, nil
				}
				resp, err := f(ctx, request)
				if opt.Foreign && i == 0 {
					return foreignResponse{}, nil
				}
				return resp, err
			}
		})
	}
	return ms
}
`)
}
