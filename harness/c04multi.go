package main

import (
	"fmt"

	"github.com/oapi-codegen/oapi-codegen/v2/pkg/codegen"
)

// C04, several path parameters in one operation: the generated client takes them in the order of the path template and
// puts each into its own placeholder; the server hands each to the argument named after it. The variables have different
// types and names that occur elsewhere in the path text (id in /video/, sub in /subs/), declared in another order than
// they stand in the path.

func c04MultiPath(ctx *Ctx) error {
	kit, err := NewRunKit(ctx.Work + "/c04multi")
	if err != nil {
		return err
	}
	defer kit.Close()
	str := J{"type": "string"}
	num := J{"type": "integer"}
	param := func(n string, sch J) J { return J{"name": n, "in": "path", "required": true, "schema": sch} }
	doc := J{"openapi": "3.0.3", "info": J{"title": "t", "version": "1"}, "paths": J{
		"/video/{name}/{id}": J{"get": J{"operationId": "getVideo", "parameters": []interface{}{param("id", num), param("name", str)}, "responses": J{"204": J{"description": "d"}}}},
		"/subs/{id}/{sub}":   J{"get": J{"operationId": "getSub", "parameters": []interface{}{param("sub", str), param("id", num)}, "responses": J{"204": J{"description": "d"}}}},
		// the template begins with a variable, and its value has a colon (a first path segment with a colon must not be
		// read as a URL scheme when the client resolves the path against the server URL)
		"/{tenant}/items/{item}/detail": J{"get": J{"operationId": "getItem", "parameters": []interface{}{param("tenant", str), param("item", str)}, "responses": J{"204": J{"description": "d"}}}},
		// query parameters (pass-through and JSON content) next to a form body that has fields of the same names: the
		// parameters come from the query, whatever the body says, and are absent when the query does not have them
		"/f1": J{"post": J{"operationId": "postForm", "parameters": []interface{}{
			J{"name": "v", "in": "query", "content": J{"text/plain": J{"schema": J{"type": "string"}}}},
			J{"name": "j", "in": "query", "content": J{"application/json": J{"schema": J{"type": "object", "properties": J{"a": J{"type": "string"}}}}}}},
			"requestBody": J{"required": true, "content": J{"application/x-www-form-urlencoded": J{"schema": J{"type": "object", "properties": J{"v": J{"type": "string"}, "j": J{"type": "string"}, "w": J{"type": "string"}}}}}},
			"responses":   J{"204": J{"description": "d"}}}},
		// several optional cookie parameters in one request, two of them pass-through: each arrives with its own value
		"/c2": J{"get": J{"operationId": "getCookies", "parameters": []interface{}{
			J{"name": "trace", "in": "cookie", "content": J{"text/plain": J{"schema": J{"type": "string"}}}},
			J{"name": "sid", "in": "cookie", "content": J{"text/plain": J{"schema": J{"type": "string"}}}},
			J{"name": "zz", "in": "cookie", "schema": J{"type": "integer"}}},
			"responses": J{"204": J{"description": "d"}}}},
		// three optional query parameters and a required header parameter in one operation: each is sent and bound in its place
		"/q3": J{"get": J{"operationId": "getQ3", "parameters": []interface{}{
			J{"name": "limit", "in": "query", "schema": J{"type": "integer"}}, J{"name": "offset", "in": "query", "schema": J{"type": "integer"}},
			J{"name": "sort", "in": "query", "schema": J{"type": "string"}}, J{"name": "X-Request-Id", "in": "header", "required": true, "schema": J{"type": "string"}}},
			"responses": J{"204": J{"description": "d"}}}},
		"/a/{b}/b/{a}/{ab}": J{"get": J{"operationId": "getAb", "parameters": []interface{}{param("ab", num), param("a", str), param("b", str)}, "responses": J{"204": J{"description": "d"}}}},
	}}
	type cse struct {
		fn   string
		args []interface{}
		want J
	}
	cases := []cse{
		{"NewGetVideoRequest", []interface{}{"http://h", "holiday", 42}, J{"name": "holiday", "id": 42}},
		{"NewGetSubRequest", []interface{}{"http://h", 7, "news"}, J{"id": 7, "sub": "news"}},
		{"NewGetAbRequest", []interface{}{"http://h", "bee", "ay", 3}, J{"b": "bee", "a": "ay", "ab": 3}},
		{"NewPostFormRequestWithFormdataBody", []interface{}{"http://h", J{"v": "from-query", "j": J{"a": "q"}}, J{"v": "from-body", "j": "{\"a\":\"body\"}", "w": "x"}}, J{"params": J{"V": "from-query", "J": J{"A": "q"}}}},
		{"NewPostFormRequestWithFormdataBody", []interface{}{"http://h", J{}, J{"v": "from-body", "j": "{\"a\":\"body\"}", "w": "x"}}, J{"params": J{"V": nil, "J": nil}}},
		{"NewGetCookiesRequest", []interface{}{"http://h", J{"trace": "t-1", "sid": "42", "zz": 7}}, J{"params": J{"Trace": "t-1", "Sid": "42", "Zz": 7}}},
		{"NewGetCookiesRequest", []interface{}{"http://h", J{"sid": "42"}}, J{"params": J{"Trace": nil, "Sid": "42", "Zz": nil}}},
		{"NewGetQ3Request", []interface{}{"http://h", J{"limit": 10, "offset": 20, "sort": "asc", "X-Request-Id": "r1"}}, J{"params": J{"Limit": 10, "Offset": 20, "Sort": "asc", "XRequestId": "r1"}}},
		{"NewGetQ3Request", []interface{}{"http://h", J{"offset": 20, "X-Request-Id": "r2"}}, J{"params": J{"Limit": nil, "Offset": 20, "Sort": nil, "XRequestId": "r2"}}},
		{"NewGetItemRequest", []interface{}{"http://h", "acme:eu", "12:30"}, J{"tenant": "acme:eu", "item": "12:30"}},
		{"NewGetItemRequest", []interface{}{"http://h", "a b:c", "x"}, J{"tenant": "a b:c", "item": "x"}},
	}
	var pkgs []*RunPkg
	for _, fw := range allFrameworks {
		var cfg codegen.Configuration
		cfg.Generate.Models = true
		cfg.Generate.Client = true
		pkgs = append(pkgs, kit.Add(&RunPkg{Name: "c04mp_" + fw, FW: fw, Doc: doc, Cfg: cfg}))
	}
	kit.Prepare()
	for i, p := range pkgs {
		fw := allFrameworks[i]
		if p.GenErr != nil || p.BuildErr != "" {
			ctx.Res.Violate("multi-path:not-built:"+fw, fmt.Sprintf("operations with several path parameters are not generated or do not build: %v %s", p.GenErr, firstLines(p.BuildErr, 3)), J{"doc": doc, "fw": fw})
			continue
		}
		for _, c := range cases {
			resp, err := p.Call(J{"do": "roundtrip", "fn": c.fn, "args": c.args, "opt": J{"stop": -1, "sstop": -1}})
			if err != nil {
				return err
			}
			ctx.Res.Eval(J{"fw": fw, "multi-path": c.fn}, true)
			ctx.Res.Count("multi-path")
			replay := J{"doc": doc, "fw": fw, "builder": c.fn, "args": c.args, "resp": resp}
			got := J{}
			if served, _ := resp["served"].(map[string]interface{}); served != nil {
				if call, one := firstCall(served); one {
					if args, _ := call["args"].(map[string]interface{}); args != nil {
						for k, v := range args {
							got[k] = v
						}
					}
				}
			}
			if Canon(jsonRoundTrip(got)) != Canon(jsonRoundTrip(c.want)) {
				ctx.Res.Violate("multi-path:"+fw, fmt.Sprintf("%s%v (arguments in the order of the path template): the handler receives %s, sent %s (%v)", c.fn, c.args[1:], Canon(got), Canon(c.want), resp["err"]), replay)
			}
		}
	}
	return nil
}
