package main

import (
	"fmt"
	"go/ast"
	"os"
	"path/filepath"
	"reflect"
	"sort"
	"strings"

	"github.com/oapi-codegen/oapi-codegen/v2/pkg/codegen"
)

// C10 across documents: an allOf whose member is a schema of another (import-mapped) document is flattened like a local
// one — every property of the foreign member (inline-typed and $ref-typed) plus the local ones, required as declared.

func structJSONMembers(f *ast.File, name string) (map[string]string, bool) {
	for _, d := range f.Decls {
		gd, ok := d.(*ast.GenDecl)
		if !ok {
			continue
		}
		for _, s := range gd.Specs {
			ts, ok := s.(*ast.TypeSpec)
			if !ok || ts.Name.Name != name {
				continue
			}
			st, ok := ts.Type.(*ast.StructType)
			if !ok {
				return nil, false
			}
			out := map[string]string{}
			for _, fl := range st.Fields.List {
				if fl.Tag == nil {
					continue
				}
				tag := reflect.StructTag(strings.Trim(fl.Tag.Value, "`")).Get("json")
				jn := strings.Split(tag, ",")[0]
				ty := ""
				switch t := fl.Type.(type) {
				case *ast.StarExpr:
					ty = "*"
					_ = t
				}
				out[jn] = ty
			}
			return out, true
		}
	}
	return nil, false
}

func c10MultiDoc(ctx *Ctx) error {
	kit, err := NewRunKit(filepath.Join(ctx.Work, "c10md"))
	if err != nil {
		return err
	}
	defer kit.Close()
	for _, order := range [][2]int{{0, 1}, {1, 0}} {
		docs := c01MultiDocs("compose")
		// Both = allOf [foreign Pet, inline {extra}] in both member orders; Pet: name (required), tag, kind ($ref inside common)
		both := docs["api.json"]["components"].(J)["schemas"].(J)["Both"].(J)["allOf"].([]interface{})
		docs["api.json"]["components"].(J)["schemas"].(J)["Both"].(J)["allOf"] = []interface{}{both[order[0]], both[order[1]]}
		var common, api codegen.Configuration
		common.Generate.Models = true
		common.OutputOptions.SkipPrune = true
		api.Generate.Models = true
		api.OutputOptions.SkipPrune = true
		name := fmt.Sprintf("c10md_%d", order[0])
		md := &MultiDoc{Name: name, Docs: docs, Cfgs: map[string]codegen.Configuration{"common.json": common, "api.json": api}, Order: []string{"common.json", "api.json"}}
		md.Build(kit.Root)
		ctx.Res.Eval(J{"multidoc-allOf": order}, true)
		ctx.Res.Count("multidoc-allOf")
		replay := J{"docs": docs, "order": order}
		if len(md.GenErr) > 0 || md.BuildErr != "" {
			ctx.Res.Violate("multidoc:not-built", fmt.Sprintf("allOf over a schema of another document: not generated or does not build: %v %s", md.GenErr, firstLines(md.BuildErr, 3)), replay)
			_ = os.RemoveAll(md.Dir)
			continue
		}
		src, err := os.ReadFile(filepath.Join(md.Dir, "api", "gen.go"))
		_ = os.RemoveAll(md.Dir)
		if err != nil {
			return err
		}
		f, _, err := parseGo(string(src))
		if err != nil {
			return err
		}
		got, ok := structJSONMembers(f, "Both")
		want := map[string]string{"name": "", "tag": "*", "kind": "*", "extra": "*"}
		if !ok || !reflect.DeepEqual(got, want) {
			var g []string
			for k, v := range got {
				g = append(g, v+k)
			}
			sort.Strings(g)
			ctx.Res.Violate("multidoc:flattened-members", fmt.Sprintf("allOf [Pet of another document, {extra}] (member order %v) is rendered with members %v; the union of the members' properties is [*extra *kind name *tag]", order, g), replay)
		}
	}
	return nil
}
