package main

import (
	"fmt"
	"strconv"
	"strings"

	"github.com/oapi-codegen/runtime"
)

// C06 / C04 typed layer: the text of an integer parameter through the runtime's binder (BindStyledParameterWithOptions into
// int32 / int64 destinations) and through strconv.ParseInt, against Model/IntParse.lean parseInt.

func c06IntCorr(ctx *Ctx, n int) error {
	boundary := []string{"0", "-0", "+0", "7", "+7", "-7", "007", "2147483647", "2147483648", "-2147483648", "-2147483649",
		"9223372036854775807", "9223372036854775808", "-9223372036854775808", "-9223372036854775809", "99999999999999999999999",
		"", "-", "+", "--1", "+-1", "1-", "1 ", " 1", "1.0", "1e3", "0x10", "1_000", "١٢", "1a", "a", "４２"}
	atoms := []string{"0", "1", "9", "-", "+", ".", "e", "x", "_", " ", "a", "٣", "2147483647", "9223372036854775807"}
	for i := 0; i < n+len(boundary); i++ {
		r := ctx.Rng.Fork()
		var s string
		if i < len(boundary) {
			s = boundary[i]
		} else {
			var sb strings.Builder
			for k, m := 0, 1+r.Intn(4); k < m; k++ {
				sb.WriteString(atoms[r.Intn(len(atoms))])
			}
			s = sb.String()
		}
		for _, bits := range []int{32, 64} {
			var m struct {
				Ok    *string `json:"ok"`
				Error string  `json:"error"`
			}
			if err := ctx.Model(J{"fn": "parseInt", "s": hx(s), "bits": bits}, &m); err != nil {
				return err
			}
			model := "error:" + m.Error
			if m.Ok != nil {
				model = *m.Ok
			}
			c := J{"text": s, "bits": bits}
			ctx.Res.Eval(c, true)
			ctx.Res.Count("corr:int")
			// strconv.ParseInt
			impl := ""
			v, err := strconv.ParseInt(s, 10, bits)
			if err == nil {
				impl = strconv.FormatInt(v, 10)
			} else {
				impl = "error:rejected" // syntax or range, whichever Go meets first: not told apart by the model
			}
			if impl != model {
				ctx.Res.Disagree("CORR strconv.ParseInt vs IntParse.parseInt", c, model, impl)
			}
			// the runtime's binder for a primitive destination (header location: the text is taken as it is)
			if s == "" {
				continue // an empty value is "parameter required / not given" to the binder, not a conversion
			}
			bound := ""
			var berr error
			if bits == 32 {
				var d int32
				berr = runtime.BindStyledParameterWithOptions("simple", "p", s, &d, runtime.BindStyledParameterOptions{ParamLocation: runtime.ParamLocationHeader, Explode: false, Required: true})
				bound = fmt.Sprint(d)
			} else {
				var d int64
				berr = runtime.BindStyledParameterWithOptions("simple", "p", s, &d, runtime.BindStyledParameterOptions{ParamLocation: runtime.ParamLocationHeader, Explode: false, Required: true})
				bound = fmt.Sprint(d)
			}
			if berr != nil {
				bound = "error"
			}
			want := model
			if strings.HasPrefix(want, "error:") {
				want = "error"
			}
			if bound != want {
				ctx.Res.Disagree("CORR runtime.BindStyledParameterWithOptions (integer destination) vs IntParse.parseInt", c, want, bound)
			}
		}
	}
	return nil
}
