package main

import (
	"fmt"
	"strconv"
	"strings"
	"time"

	"github.com/oapi-codegen/runtime"
	openapi_types "github.com/oapi-codegen/runtime/types"
)

// C06 / C04 typed layer: the text of an integer parameter through the runtime's binder (BindStyledParameterWithOptions into
// int32 / int64 destinations) and through strconv.ParseInt, against Model/IntParse.lean parseInt.

func c06IntCorr(ctx *Ctx, n int) error {
	boundary := []string{"0", "-0", "+0", "7", "+7", "-7", "007", "2147483647", "2147483648", "-2147483648", "-2147483649",
		"9223372036854775807", "9223372036854775808", "-9223372036854775808", "-9223372036854775809", "99999999999999999999999",
		"", "-", "+", "--1", "+-1", "1-", "1 ", " 1", "1.0", "1e3", "0x10", "1_000", "١٢", "1a", "a", "４２"}
	atoms := []string{"0", "1", "9", "-", "+", ".", "e", "x", "_", " ", "a", "٣", "2147483647", "9223372036854775807"}
	for i := 0; i < n+len(boundary); i++ {
		r := ctx.Rng.Fork()
		var s string
		if i < len(boundary) {
			s = boundary[i]
		} else {
			var sb strings.Builder
			for k, m := 0, 1+r.Intn(4); k < m; k++ {
				sb.WriteString(atoms[r.Intn(len(atoms))])
			}
			s = sb.String()
		}
		for _, bits := range []int{32, 64} {
			var m struct {
				Ok    *string `json:"ok"`
				Error string  `json:"error"`
			}
			if err := ctx.Model(J{"fn": "parseInt", "s": hx(s), "bits": bits}, &m); err != nil {
				return err
			}
			model := "error:" + m.Error
			if m.Ok != nil {
				model = *m.Ok
			}
			c := J{"text": s, "bits": bits}
			ctx.Res.Eval(c, true)
			ctx.Res.Count("corr:int")
			// strconv.ParseInt
			impl := ""
			v, err := strconv.ParseInt(s, 10, bits)
			if err == nil {
				impl = strconv.FormatInt(v, 10)
			} else {
				impl = "error:rejected" // syntax or range, whichever Go meets first: not told apart by the model
			}
			if impl != model {
				ctx.Res.Disagree("CORR strconv.ParseInt vs IntParse.parseInt", c, model, impl)
			}
			// the runtime's binder for a primitive destination (header location: the text is taken as it is)
			if s == "" {
				continue // an empty value is "parameter required / not given" to the binder, not a conversion
			}
			bound := ""
			var berr error
			if bits == 32 {
				var d int32
				berr = runtime.BindStyledParameterWithOptions("simple", "p", s, &d, runtime.BindStyledParameterOptions{ParamLocation: runtime.ParamLocationHeader, Explode: false, Required: true})
				bound = fmt.Sprint(d)
			} else {
				var d int64
				berr = runtime.BindStyledParameterWithOptions("simple", "p", s, &d, runtime.BindStyledParameterOptions{ParamLocation: runtime.ParamLocationHeader, Explode: false, Required: true})
				bound = fmt.Sprint(d)
			}
			if berr != nil {
				bound = "error"
			}
			want := model
			if strings.HasPrefix(want, "error:") {
				want = "error"
			}
			if bound != want {
				ctx.Res.Disagree("CORR runtime.BindStyledParameterWithOptions (integer destination) vs IntParse.parseInt", c, want, bound)
			}
		}
	}
	return nil
}

// c06DateCorr: time.Parse("2006-01-02") and the runtime binder into openapi_types.Date vs Model/DateParse.lean parse;
// the accepted text formats back to itself.
func c06DateCorr(ctx *Ctx, n int) error {
	fixed := []string{"2024-02-29", "2023-02-29", "1900-02-29", "2000-02-29", "2021-13-01", "2021-00-10", "2021-1-01", "2021-01-1", "2021-04-31", "2021-04-30",
		"2021-04-30x", " 2021-04-30", "2021/04/30", "20210430", "0000-01-01", "9999-12-31", "10000-01-01", "2021-04-00", "2021-04-32", "2021-02-30",
		"٢٠٢١-٠٤-٣٠", "2021-04-30T00:00:00Z", "", "-2021-04-30", "2021-04--3", "2021-+4-30"}
	years := []string{"0000", "0004", "1900", "2000", "2023", "2024", "2100", "9999", "021", "12345"}
	months := []string{"00", "01", "02", "04", "06", "09", "11", "12", "13", "1", "2x"}
	days := []string{"00", "01", "28", "29", "30", "31", "32", "9", "3a"}
	seps := []string{"-", "-", "-", "/", "", " "}
	for i := 0; i < n+len(fixed); i++ {
		r := ctx.Rng.Fork()
		s := ""
		if i < len(fixed) {
			s = fixed[i]
		} else {
			s = years[r.Intn(len(years))] + seps[r.Intn(len(seps))] + months[r.Intn(len(months))] + seps[r.Intn(len(seps))] + days[r.Intn(len(days))]
		}
		var m struct {
			Ok    []int  `json:"ok"`
			Text  string `json:"text"`
			Error string `json:"error"`
		}
		if err := ctx.Model(J{"fn": "parseDate", "s": hx(s)}, &m); err != nil {
			return err
		}
		model := "error"
		if m.Error == "" {
			model = fmt.Sprintf("%04d-%02d-%02d", m.Ok[0], m.Ok[1], m.Ok[2])
			if unhx(m.Text) != s {
				ctx.Res.Disagree("CORR DateParse.format (parse s) vs s", J{"text": s}, s, unhx(m.Text))
			}
		}
		c := J{"text": s}
		ctx.Res.Eval(c, true)
		ctx.Res.Count("corr:date")
		impl := "error"
		if t, err := time.Parse("2006-01-02", s); err == nil {
			impl = t.Format("2006-01-02")
		}
		if impl != model {
			ctx.Res.Disagree("CORR time.Parse(\"2006-01-02\") vs DateParse.parse", c, model, impl)
		}
		if s == "" {
			continue
		}
		var d openapi_types.Date
		bound := "error"
		if err := runtime.BindStyledParameterWithOptions("simple", "p", s, &d, runtime.BindStyledParameterOptions{ParamLocation: runtime.ParamLocationHeader, Explode: false, Required: true}); err == nil {
			bound = d.Format("2006-01-02")
		}
		if bound != model {
			ctx.Res.Disagree("CORR runtime.BindStyledParameterWithOptions (Date destination) vs DateParse.parse", c, model, bound)
		}
	}
	return nil
}

// c06BoolCorr: strconv.ParseBool and the runtime binder into a bool vs IntParse.parseBool, on every spelling of
// true/false in any letter case plus digits and junk.
func c06BoolCorr(ctx *Ctx) error {
	texts := []string{"", "1", "0", "2", "10", "t", "f", "T", "F", "y", "n", "yes", "no", "on", "off", " true", "true ", "TRUE", "FALSE", "True", "False"}
	for _, w := range []string{"true", "false"} {
		for mask := 0; mask < 1<<len(w); mask++ {
			b := []byte(w)
			for k := range b {
				if mask&(1<<k) != 0 {
					b[k] = b[k] - 32
				}
			}
			texts = append(texts, string(b))
		}
	}
	for _, s := range texts {
		var m struct {
			Ok    *bool  `json:"ok"`
			Error string `json:"error"`
		}
		if err := ctx.Model(J{"fn": "parseBool", "s": hx(s)}, &m); err != nil {
			return err
		}
		model := "error"
		if m.Ok != nil {
			model = fmt.Sprint(*m.Ok)
		}
		ctx.Res.Eval(J{"bool-text": s}, true)
		ctx.Res.Count("corr:bool")
		impl := "error"
		if v, err := strconv.ParseBool(s); err == nil {
			impl = fmt.Sprint(v)
		}
		if impl != model {
			ctx.Res.Disagree("CORR strconv.ParseBool vs IntParse.parseBool", J{"text": s}, model, impl)
		}
		if s == "" {
			continue
		}
		var d bool
		bound := "error"
		if err := runtime.BindStyledParameterWithOptions("simple", "p", s, &d, runtime.BindStyledParameterOptions{ParamLocation: runtime.ParamLocationHeader, Explode: false, Required: true}); err == nil {
			bound = fmt.Sprint(d)
		}
		if bound != model {
			ctx.Res.Disagree("CORR runtime.BindStyledParameterWithOptions (bool destination) vs IntParse.parseBool", J{"text": s}, model, bound)
		}
	}
	return nil
}

// c06UuidCorr: uuid.Parse (through openapi_types.UUID) and the runtime binder vs UuidParse.parse; the accepted bytes render
// to the canonical text.
func c06UuidCorr(ctx *Ctx, n int) error {
	canon := "123e4567-e89b-12d3-a456-426614174000"
	fixed := []string{canon, strings.ToUpper(canon), "urn:uuid:" + canon, "URN:UUID:" + canon, "urn:uuix:" + canon, "{" + canon + "}", "x" + canon + "y",
		strings.ReplaceAll(canon, "-", ""), canon[:35], canon + "0", "123e4567-e89b-12d3-a456-42661417400g", "123e4567e89b-12d3-a456-4266141740000",
		"123e4567-e89b-12d3-a456_426614174000", "", "00000000-0000-0000-0000-000000000000", "ffffffff-ffff-ffff-ffff-ffffffffffff",
		"１23e4567-e89b-12d3-a456-4266141740", strings.Repeat("g", 32), strings.Repeat("A", 32)}
	hexd := "0123456789abcdefABCDEFgG-x"
	for i := 0; i < n+len(fixed); i++ {
		r := ctx.Rng.Fork()
		s := ""
		if i < len(fixed) {
			s = fixed[i]
		} else {
			// a canonical text with a few characters replaced or one inserted / dropped
			b := []byte(canon)
			for k, m := 0, r.Intn(3); k < m; k++ {
				b[r.Intn(len(b))] = hexd[r.Intn(len(hexd))]
			}
			s = string(b)
			switch r.Intn(6) {
			case 0:
				s = s[:len(s)-1]
			case 1:
				s = "urn:uuid:" + s
			case 2:
				s = "{" + s + "}"
			case 3:
				s = strings.ReplaceAll(s, "-", "")
			}
		}
		var m struct {
			Ok    []int  `json:"ok"`
			Text  string `json:"text"`
			Error string `json:"error"`
		}
		if err := ctx.Model(J{"fn": "parseUuid", "s": hx(s)}, &m); err != nil {
			return err
		}
		model := "error"
		if m.Error == "" {
			model = unhx(m.Text)
		}
		c := J{"text": s}
		ctx.Res.Eval(c, true)
		ctx.Res.Count("corr:uuid")
		impl := "error"
		var u openapi_types.UUID
		if err := u.UnmarshalText([]byte(s)); err == nil {
			impl = u.String()
		}
		if impl != model {
			ctx.Res.Disagree("CORR uuid.Parse / String vs UuidParse.parse / render", c, model, impl)
		}
		if s == "" {
			continue
		}
		var d openapi_types.UUID
		bound := "error"
		if err := runtime.BindStyledParameterWithOptions("simple", "p", s, &d, runtime.BindStyledParameterOptions{ParamLocation: runtime.ParamLocationHeader, Explode: false, Required: true}); err == nil {
			bound = d.String()
		}
		if bound != model {
			ctx.Res.Disagree("CORR runtime.BindStyledParameterWithOptions (UUID destination) vs UuidParse.parse", c, model, bound)
		}
	}
	return nil
}
