package main

import (
	"encoding/json"
	"fmt"
	"go/ast"
	"reflect"
	"sort"
	"strings"

	"github.com/getkin/kin-openapi/openapi3"
	"github.com/oapi-codegen/oapi-codegen/v2/pkg/codegen"
)

// C10 — allOf produces the union of its members.

// c10Member is a member kind with the flat description the statement needs.
type c10Member struct {
	Kind     string
	Schema   J                 // as it stands in the allOf list
	Props    map[string]string // property -> sample JSON value (type witness)
	Required []string
	Addl     string // "" | "true" | "false" | "int"
	Type     string // "" | "object" | "string"
	Format   string
}

func c10Components() J {
	return J{
		"A": J{"type": "object", "required": []interface{}{"a1"}, "properties": J{"a1": J{"type": "string"}, "a2": J{"type": "integer"}}},
		"B": J{"type": "object", "required": []interface{}{"b2"}, "properties": J{"b1": J{"type": "string"}, "b2": J{"type": "boolean"}}},
		"C": J{"type": "object", "required": []interface{}{"c1"}, "properties": J{"c1": J{"type": "number", "format": "double"}, "shared": J{"type": "string"}}},
		"D": J{"type": "object", "required": []interface{}{"shared"}, "properties": J{"shared": J{"type": "string"}, "d1": J{"type": "array", "items": J{"type": "string"}}}},
	}
}

var c10Kinds = map[string]c10Member{
	"refA": {Schema: J{"$ref": "#/components/schemas/A"}, Props: map[string]string{"a1": `"s"`, "a2": `7`}, Required: []string{"a1"}, Type: "object"},
	"refB": {Schema: J{"$ref": "#/components/schemas/B"}, Props: map[string]string{"b1": `"t"`, "b2": `true`}, Required: []string{"b2"}, Type: "object"},
	"refC": {Schema: J{"$ref": "#/components/schemas/C"}, Props: map[string]string{"c1": `1.5`, "shared": `"sh"`}, Required: []string{"c1"}, Type: "object"},
	"refD": {Schema: J{"$ref": "#/components/schemas/D"}, Props: map[string]string{"shared": `"sh"`, "d1": `["x","y"]`}, Required: []string{"shared"}, Type: "object"},
	"inline": {Schema: J{"type": "object", "required": []interface{}{"x"}, "properties": J{"x": J{"type": "string"}, "y": J{"type": "integer"}}},
		Props: map[string]string{"x": `"xx"`, "y": `3`}, Required: []string{"x"}, Type: "object"},
	// requires a property another member declares
	"requiresA2": {Schema: J{"type": "object", "required": []interface{}{"a2"}}, Props: map[string]string{}, Required: []string{"a2"}, Type: "object"},
	"nested": {Schema: J{"allOf": []interface{}{J{"$ref": "#/components/schemas/B"}, J{"type": "object", "required": []interface{}{"n"}, "properties": J{"n": J{"type": "string"}}}}},
		Props: map[string]string{"b1": `"t"`, "b2": `true`, "n": `"nn"`}, Required: []string{"b2", "n"}, Type: "object"},
	"sharedDup": {Schema: J{"type": "object", "properties": J{"shared": J{"type": "string"}}}, Props: map[string]string{"shared": `"sh"`}, Type: "object"},
	"addlTrue":  {Schema: J{"type": "object", "additionalProperties": true, "properties": J{"t1": J{"type": "string"}}}, Props: map[string]string{"t1": `"tt"`}, Addl: "true", Type: "object"},
	"addlFalse": {Schema: J{"type": "object", "additionalProperties": false, "properties": J{"f1": J{"type": "string"}}}, Props: map[string]string{"f1": `"ff"`}, Addl: "false", Type: "object"},
	"addlInt":   {Schema: J{"type": "object", "additionalProperties": J{"type": "integer"}, "properties": J{"i1": J{"type": "string"}}}, Props: map[string]string{"i1": `"ii"`}, Addl: "int", Type: "object"},
	"untyped":   {Schema: J{"properties": J{"u1": J{"type": "string"}}}, Props: map[string]string{"u1": `"uu"`}},
	// members that say nothing but whether additional members are allowed
	"onlyAddlTrue":  {Schema: J{"additionalProperties": true}, Props: map[string]string{}, Addl: "true"},
	"onlyAddlFalse": {Schema: J{"additionalProperties": false}, Props: map[string]string{}, Addl: "false"},
	// members that must make the composition fail
	"typeString": {Schema: J{"type": "string"}, Props: map[string]string{}, Type: "string"},
	"fmtA":       {Schema: J{"type": "object", "format": "fa", "properties": J{"g1": J{"type": "string"}}}, Props: map[string]string{"g1": `"g"`}, Type: "object", Format: "fa"},
	"fmtB":       {Schema: J{"type": "object", "format": "fb", "properties": J{"g2": J{"type": "string"}}}, Props: map[string]string{"g2": `"g"`}, Type: "object", Format: "fb"},
}

type c10Expect struct {
	MustError bool
	Props     map[string]string
	Required  map[string]bool
	Addl      string // "" none, "any", "int"
}

func c10Expected(ms []string) c10Expect {
	e := c10Expect{Props: map[string]string{}, Required: map[string]bool{}}
	types, formats := map[string]bool{}, map[string]bool{}
	forbids, hasInt, hasTrue := false, false, false
	for _, k := range ms {
		m := c10Kinds[k]
		for p, v := range m.Props {
			e.Props[p] = v
		}
		for _, r := range m.Required {
			e.Required[r] = true
		}
		if m.Type != "" {
			types[m.Type] = true
		}
		if m.Format != "" {
			formats[m.Format] = true
		}
		switch m.Addl {
		case "false":
			forbids = true
		case "int":
			hasInt = true
		case "true":
			hasTrue = true
		}
	}
	if len(types) > 1 || len(formats) > 1 {
		e.MustError = true
	}
	switch {
	case forbids:
		e.Addl = ""
	case hasInt:
		e.Addl = "int"
	case hasTrue:
		e.Addl = "any"
	}
	return e
}

type c10Field struct {
	Type      string
	Pointer   bool
	OmitEmpty bool
}

// c10Shape flattens the struct type `name` of the generated file: JSON member -> field, following embedded structs.
func c10Shape(f *ast.File, fset interface{}, name string, depth int) (map[string]c10Field, string, bool) {
	var st *ast.StructType
	for _, d := range f.Decls {
		gd, ok := d.(*ast.GenDecl)
		if !ok {
			continue
		}
		for _, sp := range gd.Specs {
			ts, ok := sp.(*ast.TypeSpec)
			if ok && ts.Name.Name == name {
				st, _ = ts.Type.(*ast.StructType)
				if id, isIdent := ts.Type.(*ast.Ident); isIdent && depth <= 6 {
					// an alias or a defined type of another generated type (a composition of one member)
					return c10Shape(f, fset, id.Name, depth+1)
				}
			}
		}
	}
	if st == nil || depth > 6 {
		return nil, "", false
	}
	fields := map[string]c10Field{}
	addl := ""
	for _, fl := range st.Fields.List {
		tag := ""
		if fl.Tag != nil {
			tag = reflect.StructTag(strings.Trim(fl.Tag.Value, "`")).Get("json")
		}
		typ := exprStr(fl.Type)
		if len(fl.Names) == 0 {
			// embedded struct
			sub, subAddl, ok := c10Shape(f, fset, strings.TrimPrefix(typ, "*"), depth+1)
			if ok {
				for k, v := range sub {
					fields[k] = v
				}
				if subAddl != "" {
					addl = subAddl
				}
			}
			continue
		}
		if fl.Names[0].Name == "AdditionalProperties" && tag == "-" {
			addl = strings.TrimPrefix(typ, "map[string]")
			continue
		}
		parts := strings.Split(tag, ",")
		if parts[0] == "" || parts[0] == "-" {
			continue
		}
		fi := c10Field{Type: strings.TrimPrefix(typ, "*"), Pointer: strings.HasPrefix(typ, "*")}
		for _, o := range parts[1:] {
			if o == "omitempty" {
				fi.OmitEmpty = true
			}
		}
		fields[parts[0]] = fi
	}
	return fields, addl, true
}

func exprStr(e ast.Expr) string {
	switch t := e.(type) {
	case *ast.Ident:
		return t.Name
	case *ast.StarExpr:
		return "*" + exprStr(t.X)
	case *ast.ArrayType:
		return "[]" + exprStr(t.Elt)
	case *ast.MapType:
		return "map[" + exprStr(t.Key) + "]" + exprStr(t.Value)
	case *ast.SelectorExpr:
		return exprStr(t.X) + "." + t.Sel.Name
	case *ast.InterfaceType:
		return "interface{}"
	case *ast.StructType:
		return "struct{…}"
	}
	return fmt.Sprintf("%T", e)
}

func permutations(xs []string) [][]string {
	if len(xs) <= 1 {
		return [][]string{append([]string{}, xs...)}
	}
	var out [][]string
	for i := range xs {
		rest := append(append([]string{}, xs[:i]...), xs[i+1:]...)
		for _, p := range permutations(rest) {
			out = append(out, append([]string{xs[i]}, p...))
		}
	}
	return out
}

func c10Doc(perms [][]string) J {
	schemas := c10Components()
	for i, p := range perms {
		var all []interface{}
		for _, k := range p {
			all = append(all, copyJ(c10Kinds[k].Schema))
		}
		schemas[fmt.Sprintf("M%d", i)] = J{"allOf": all}
	}
	return J{"openapi": "3.0.3", "info": J{"title": "t", "version": "1"}, "paths": J{}, "components": J{"schemas": schemas}}
}

func c10Describe(fields map[string]c10Field, addl string) string {
	var parts []string
	for _, k := range SortedKeys(fields) {
		f := fields[k]
		req := "req"
		if f.Pointer || f.OmitEmpty {
			req = "opt"
		}
		parts = append(parts, k+":"+f.Type+":"+req)
	}
	return strings.Join(parts, ",") + " addl=" + addl
}

func jsonEqual(a, b string) bool {
	var x, y interface{}
	if json.Unmarshal([]byte(a), &x) != nil || json.Unmarshal([]byte(b), &y) != nil {
		return false
	}
	return reflect.DeepEqual(x, y)
}

func c10Members(r *Rng, i int) []string {
	good := []string{"refA", "refB", "refC", "refD", "inline", "requiresA2", "nested", "sharedDup", "addlTrue", "addlFalse", "addlInt", "untyped", "onlyAddlTrue", "onlyAddlFalse"}
	n := 1 + r.Intn(4)
	perm := r.Perm(len(good))
	var ms []string
	for j := 0; j < n; j++ {
		ms = append(ms, good[perm[j]])
	}
	if i%9 == 8 {
		// a conflicting composition
		ms = ms[:1+r.Intn(len(ms))]
		if r.Bool() {
			ms = append(ms, "typeString")
		} else {
			ms = append(ms, "fmtA", "fmtB")
		}
		if len(ms) > 4 {
			ms = ms[len(ms)-4:]
		}
	}
	// "nested" brings B's members; keep refB out of the same composition only when it would not be an identical overlap (it is)
	return ms
}

func runC10(ctx *Ctx) error {
	ctx.Res.Rule = "allOf compositions of 1-4 members (refs, inline objects, a member that only requires another member's property, nested allOf, identical overlapping properties, additionalProperties true/false/schema, a member without type; conflicting type / format members) in EVERY permutation x new/old merge mode: the merged struct of the generated file (AST, embedded structs flattened) against the statement (property union, required iff some member requires, additionalProperties rule, conflicts rejected, all permutations alike); RUN: a JSON instance with every member set (plus an extra key where additional properties are allowed) decoded into the compiled type and re-encoded; CORR: mergeOpenapiSchemas through the hook vs the Lean model; a composition over a schema of another, import-mapped document (both member orders) generated, built and its merged struct compared with the union of the members' properties; non-trivial = every composition Session 9: several compositions over one base component with 3/5/6/7 required names (the base's struct checked too); five fixed compositions in both merge modes on every run."
	if err := c10Corr(ctx, ctx.N(600, 8000)); err != nil {
		return err
	}
	if err := c10MultiDoc(ctx); err != nil {
		return err
	}
	kit, err := NewRunKit(ctx.Work)
	if err != nil {
		return err
	}
	defer kit.Close()
	n := ctx.N(40, 400)
	type cs struct {
		ms    []string
		perms [][]string
		old   bool
		p     *RunPkg
	}
	var cases []cs
	for i := 0; i < n; i++ {
		r := ctx.Rng.Fork()
		ms := c10Members(r, i)
		old := i%4 == 3
		perms := permutations(ms)
		var cfg codegen.Configuration
		cfg.Generate.Models = true
		cfg.OutputOptions.SkipPrune = true
		cfg.Compatibility.OldMergeSchemas = old
		p := kit.Add(&RunPkg{Name: fmt.Sprintf("c10_%d", i), Doc: c10Doc(perms), Cfg: cfg})
		cases = append(cases, cs{ms, perms, old, p})
	}
	// compositions that every run examines, in both merge modes (the random draw above is not relied on for them): members
	// with additional properties of each kind next to a member that says nothing about them
	for k, fx := range [][]string{{"addlTrue", "untyped"}, {"addlInt", "refA"}, {"addlTrue", "refA", "inline"}, {"addlFalse", "addlTrue"}, {"refA", "requiresA2"}} {
		for _, old := range []bool{false, true} {
			perms := permutations(fx)
			var cfg codegen.Configuration
			cfg.Generate.Models = true
			cfg.OutputOptions.SkipPrune = true
			cfg.Compatibility.OldMergeSchemas = old
			p := kit.Add(&RunPkg{Name: fmt.Sprintf("c10_fx%d_%v", k, old), Doc: c10Doc(perms), Cfg: cfg})
			cases = append(cases, cs{fx, perms, old, p})
		}
	}
	// a member that is itself a composition and a union side by side (allOf next to oneOf): the union goes into the
	// merged type with the rest
	unionDoc := wDoc(J{}, J{"schemas": J{
		"Base":   J{"type": "object", "properties": J{"id": J{"type": "integer"}}},
		"Cat":    J{"type": "object", "properties": J{"meow": J{"type": "string"}}},
		"Dog":    J{"type": "object", "properties": J{"bark": J{"type": "string"}}},
		"Animal": J{"allOf": []interface{}{J{"$ref": "#/components/schemas/Base"}}, "oneOf": []interface{}{J{"$ref": "#/components/schemas/Cat"}, J{"$ref": "#/components/schemas/Dog"}}},
		"Pet":    J{"allOf": []interface{}{J{"$ref": "#/components/schemas/Animal"}, J{"type": "object", "properties": J{"name": J{"type": "string"}}}}},
		"Pet2":   J{"allOf": []interface{}{J{"type": "object", "properties": J{"name": J{"type": "string"}}}, J{"$ref": "#/components/schemas/Animal"}}}}})
	var ucfg codegen.Configuration
	ucfg.Generate.Models = true
	ucfg.OutputOptions.SkipPrune = true
	unionPkg := kit.Add(&RunPkg{Name: "c10_union_member", Doc: unionDoc, Cfg: ucfg})
	// conflicting compositions are generated one permutation at a time (one failing schema fails the whole document)
	kit.Prepare()
	// one loaded document, generated in the legacy merge mode first and in the default mode afterwards: the second output
	// is the default mode's (what a fresh load gives), nothing of the first call is kept
	for k := 0; k < 3 && k < len(cases); k++ {
		doc := cases[k].p.Doc
		var oldCfg, newCfg codegen.Configuration
		oldCfg.PackageName, newCfg.PackageName = "api", "api"
		oldCfg.Generate.Models, newCfg.Generate.Models = true, true
		oldCfg.OutputOptions.SkipPrune, newCfg.OutputOptions.SkipPrune = true, true
		oldCfg.Compatibility.OldMergeSchemas = true
		shared, err1 := loadDoc(doc)
		fresh, err2 := loadDoc(doc)
		if err1 != nil || err2 != nil {
			continue
		}
		_, _ = generate(shared, oldCfg)
		second, e1 := generate(shared, newCfg)
		want, e2 := generate(fresh, newCfg)
		ctx.Res.Eval(J{"same-document-two-modes": k}, true)
		if (e1 == nil) != (e2 == nil) || second != want {
			ctx.Res.Violate("merge-mode-carried-over", fmt.Sprintf("a document generated with old-merge-schemas and then, from the same loaded document, without it: the second output is not the default mode's (%s)", firstDiff(c17Outcome{Out: second}, c17Outcome{Out: want})), J{"doc": doc})
		}
	}
	// several compositions over one base component, each making more names required — names that sort before, between and
	// after the base's own: the base's struct and every composition's keep exactly their own required members (the base is
	// a component of its own and a member of others, in one generation)
	for _, nreq := range []int{3, 5, 6, 7} {
		baseNames := []string{"id", "kind", "owner", "pool", "quota", "region", "size"}[:nreq]
		props := J{"note": J{"type": "string"}, "alias": J{"type": "string"}, "zone": J{"type": "string"}, "label": J{"type": "string"}}
		var req []interface{}
		for _, nm := range baseNames {
			props[nm] = J{"type": "string"}
			req = append(req, nm)
		}
		comp := func(extra ...string) J {
			m := J{"type": "object", "properties": J{"own": J{"type": "integer"}}}
			if len(extra) > 0 {
				var rq []interface{}
				for _, e := range extra {
					rq = append(rq, e)
				}
				m["required"] = rq
			}
			return J{"allOf": []interface{}{J{"$ref": "#/components/schemas/Resource"}, m}}
		}
		doc := wDoc(J{}, J{"schemas": J{"Resource": J{"type": "object", "required": req, "properties": props},
			"Account": comp("alias"), "Bureau": comp("label", "zone"), "Team": comp(), "Zoo": comp("note")}})
		wantReq := map[string][]string{"Resource": baseNames, "Account": append([]string{"alias"}, baseNames...), "Bureau": append([]string{"label", "zone"}, baseNames...),
			"Team": baseNames, "Zoo": append([]string{"note"}, baseNames...)}
		var cfg codegen.Configuration
		cfg.PackageName = "api"
		cfg.Generate.Models = true
		cfg.OutputOptions.SkipPrune = true
		ctx.Res.Eval(J{"shared-base": nreq}, true)
		ctx.Res.Count("shared-base")
		o := genOutcome(doc, cfg)
		if o.Err != "" {
			ctx.Res.Violate("shared-base:refused", "compositions over one base component are refused: "+o.Err, J{"doc": doc})
			continue
		}
		f, fset, err := parseGo(o.Out)
		if err != nil {
			return err
		}
		for _, ty := range SortedKeys(wantReq) {
			fields, _, ok := c10Shape(f, fset, ty, 0)
			if !ok {
				ctx.Res.Violate("shared-base:no-struct:"+ty, "no struct for "+ty, J{"doc": doc})
				continue
			}
			var gotReq []string
			for nm, fl := range fields {
				if !fl.Pointer {
					gotReq = append(gotReq, nm)
				}
			}
			sort.Strings(gotReq)
			want := append([]string{}, wantReq[ty]...)
			sort.Strings(want)
			if fmt.Sprint(gotReq) != fmt.Sprint(want) {
				ctx.Res.Violate(fmt.Sprintf("shared-base:required:%s:%d", ty, nreq), fmt.Sprintf("%s (base with %d required names): members generated as required %v, the members some member requires %v", ty, nreq, gotReq, want), J{"doc": doc, "type": ty})
			}
		}
	}
	ctx.Res.Eval(J{"composition": "member with allOf and oneOf"}, true)
	if unionPkg.GenErr != nil || unionPkg.BuildErr != "" {
		ctx.Res.Violate("union-member:not-built", fmt.Sprintf("a composition over a member that has allOf and oneOf side by side is not generated or does not build: %v %s", unionPkg.GenErr, firstLines(unionPkg.BuildErr, 3)), J{"doc": unionDoc})
	} else {
		for _, typ := range []string{"Pet", "Pet2"} {
			for _, inst := range []string{`{"bark":"woof","id":1,"name":"rex"}`, `{"id":2,"meow":"mew","name":"tom"}`} {
				resp, err := unionPkg.Call(J{"do": "json", "type": typ, "data": inst})
				if err != nil {
					return err
				}
				out, _ := resp["out"].(string)
				if !jsonEqual(out, inst) {
					ctx.Res.Violate("union-member:instance-lost:"+typ, fmt.Sprintf("%s (allOf over a member with allOf and oneOf): %s decoded and encoded again is %s", typ, inst, Canon(resp)), J{"doc": unionDoc, "type": typ, "instance": inst})
				}
			}
		}
	}
	for _, c := range cases {
		exp := c10Expected(c.ms)
		mode := "new"
		if c.old {
			mode = "old"
		}
		sorted := append([]string{}, c.ms...)
		sort.Strings(sorted)
		ctx.Res.Eval(J{"members": sorted, "mode": mode}, true)
		ctx.Res.Count("mode:" + mode)
		ctx.Res.Count(fmt.Sprintf("members=%d", len(c.ms)))
		for _, k := range c.ms {
			ctx.Res.Count("member:" + k)
		}
		replay := J{"members": c.ms, "mode": mode, "doc": c.p.Doc, "expected": exp}
		sigm := mode + ":" + strings.Join(sorted, "+")
		if exp.MustError {
			// every single permutation must be rejected
			for _, pm := range c.perms {
				var cfg codegen.Configuration
				cfg.PackageName = "api"
				cfg.Generate.Models = true
				cfg.OutputOptions.SkipPrune = true
				cfg.Compatibility.OldMergeSchemas = c.old
				o := genOutcome(c10Doc([][]string{pm}), cfg)
				ctx.Res.Count("conflict-case")
				if o.Err == "" {
					ctx.Res.Violate("conflict-accepted:"+sigm, fmt.Sprintf("members that disagree on type or format are merged without an error (order %v)", pm), J{"members": pm, "mode": mode, "doc": c10Doc([][]string{pm})})
					break
				}
			}
			continue
		}
		if c.p.GenErr != nil {
			// compatible members: generation of the document must not fail; find out whether a permutation matters
			okSome := false
			for _, pm := range c.perms {
				var cfg codegen.Configuration
				cfg.PackageName = "api"
				cfg.Generate.Models = true
				cfg.OutputOptions.SkipPrune = true
				cfg.Compatibility.OldMergeSchemas = c.old
				if genOutcome(c10Doc([][]string{pm}), cfg).Err == "" {
					okSome = true
				}
			}
			if okSome {
				ctx.Res.Violate("order:error-in-some-orders:"+sigm, "compatible members merge in some orders and fail in others: "+firstLine(c.p.GenErr.Error()), replay)
			} else {
				ctx.Res.Violate("compatible-rejected:"+sigm, "compatible members are rejected: "+firstLine(c.p.GenErr.Error()), replay)
			}
			continue
		}
		if c.p.BuildErr != "" {
			ctx.Res.Violate("compile:"+sigm, "the merged types do not compile: "+firstLines(c.p.BuildErr, 2), replay)
			continue
		}
		f, fset, err := parseGo(c.p.Src)
		if err != nil {
			return err
		}
		first := ""
		for i, pm := range c.perms {
			name := fmt.Sprintf("M%d", i)
			fields, addl, ok := c10Shape(f, fset, name, 0)
			if !ok && len(exp.Props) == 0 {
				ctx.Res.Count("no-properties") // a map or interface{}: nothing to compare member by member
				break
			}
			if !ok {
				ctx.Res.Violate("no-struct:"+sigm, "the merged type "+name+" is not a struct", replay)
				break
			}
			desc := c10Describe(fields, addl)
			if i == 0 {
				first = desc
			} else if desc != first {
				ctx.Res.Violate("order:shape-differs:"+sigm, fmt.Sprintf("the merged struct depends on the order of the members: %v gives {%s}, %v gives {%s}", c.perms[0], first, pm, desc), replay)
				break
			}
			// the statement
			var missing, extra, reqWrong []string
			for p := range exp.Props {
				fi, ok := fields[p]
				if !ok {
					missing = append(missing, p)
					continue
				}
				isReq := !fi.Pointer && !fi.OmitEmpty
				if isReq != exp.Required[p] {
					reqWrong = append(reqWrong, p)
				}
			}
			for p := range fields {
				if _, ok := exp.Props[p]; !ok {
					extra = append(extra, p)
				}
			}
			sort.Strings(missing)
			sort.Strings(extra)
			sort.Strings(reqWrong)
			if len(missing) > 0 || len(extra) > 0 {
				ctx.Res.Violate("props:"+sigm, fmt.Sprintf("order %v: members missing %v, members not from any member %v", pm, missing, extra), replay)
				break
			}
			if len(reqWrong) > 0 {
				ctx.Res.Violate("required:"+sigm, fmt.Sprintf("order %v: required-ness of %v is not 'some member requires it' (struct: {%s})", pm, reqWrong, desc), replay)
				break
			}
			wantAddl := map[string]string{"": "", "any": "interface{}", "int": "int"}[exp.Addl]
			if addl != wantAddl {
				ctx.Res.Violate("addl:"+sigm, fmt.Sprintf("order %v: additional properties field is %q, the members prescribe %q", pm, addl, wantAddl), replay)
				break
			}
			// instance round trip
			inst := map[string]json.RawMessage{}
			for p, v := range exp.Props {
				inst[p] = json.RawMessage(v)
			}
			if exp.Addl != "" {
				inst["extra_key"] = json.RawMessage("42")
			}
			ib, _ := json.Marshal(inst)
			resp, err := c.p.Call(J{"do": "json", "type": name, "data": string(ib)})
			if err != nil {
				return err
			}
			ctx.Res.Count("roundtrip")
			out, _ := resp["out"].(string)
			if out == "" || !jsonEqual(out, string(ib)) {
				kind := "value-changed"
				if _, isErr := resp["unmarshal_err"]; isErr {
					kind = "unmarshal-error"
				} else if out != "" && !strings.Contains(out, "extra_key") && exp.Addl != "" {
					kind = "additional-property-lost"
				}
				ctx.Res.Violate("roundtrip:"+sigm+":"+kind, fmt.Sprintf("order %v: instance %s comes back as %v", pm, ib, Canon(resp)), replay)
				break
			}
		}
	}
	return nil
}

func init() { register("c10", runC10) }

// ---------- CORR: mergeOpenapiSchemas vs Merge.mergeList ----------

var c10PropSchemas = map[int]*openapi3.SchemaRef{
	1: openapi3.NewSchemaRef("", openapi3.NewStringSchema()),
	2: openapi3.NewSchemaRef("", openapi3.NewIntegerSchema()),
	3: openapi3.NewSchemaRef("", openapi3.NewBoolSchema()),
}

type c10Flat struct {
	Type       *int      `json:"type,omitempty"`
	Format     int       `json:"format"`
	Props      []J       `json:"props"`
	Required   []string  `json:"required"`
	AddlHas    *bool     `json:"addlHas,omitempty"`
	AddlSchema *int      `json:"addlSchema,omitempty"`
	Flags      int       `json:"flags"`
	HasDefault bool      `json:"hasDefault"`
	AllOf      []c10Flat `json:"allOf,omitempty"` // nested allOf: the member contributes these, not its own attributes
}

func c10GenFlat(r *Rng) c10Flat {
	f := c10Flat{Props: []J{}, Required: []string{}}
	if r.Chance(70) {
		t := 1
		if r.Chance(10) {
			t = 2
		}
		f.Type = &t
	}
	if r.Chance(8) {
		f.Format = 1 + r.Intn(2)
	}
	names := []string{"a", "b", "c", "d"}
	for _, i := range r.Perm(4)[:r.Intn(4)] {
		f.Props = append(f.Props, J{"k": names[i], "v": 1 + r.Intn(3)})
	}
	for _, i := range r.Perm(4)[:r.Intn(3)] {
		f.Required = append(f.Required, names[i])
	}
	switch p := r.Intn(10); {
	case p < 2:
		b := true
		f.AddlHas = &b
	case p < 4:
		b := false
		f.AddlHas = &b
	case p < 6:
		a := 1 + r.Intn(3)
		f.AddlSchema = &a
	}
	if r.Chance(6) {
		f.Flags = 1 + r.Intn(3)
	}
	f.HasDefault = r.Chance(3)
	return f
}

// c10GenMember: a flat member or, sometimes, one carrying a nested allOf (depth <= 2).
func c10GenMember(r *Rng, depth int) c10Flat {
	f := c10GenFlat(r)
	if depth > 0 && r.Chance(25) {
		for j, n := 0, 1+r.Intn(3); j < n; j++ {
			f.AllOf = append(f.AllOf, c10GenMember(r, depth-1))
		}
	}
	return f
}

func (f c10Flat) Schema() openapi3.Schema {
	var s openapi3.Schema
	if f.Type != nil {
		s.Type = &openapi3.Types{map[int]string{1: "object", 2: "string"}[*f.Type]}
	}
	if f.Format > 0 {
		s.Format = fmt.Sprintf("f%d", f.Format)
	}
	if len(f.Props) > 0 {
		s.Properties = openapi3.Schemas{}
		for _, p := range f.Props {
			s.Properties[p["k"].(string)] = c10PropSchemas[p["v"].(int)]
		}
	}
	s.Required = append([]string{}, f.Required...)
	if f.AddlHas != nil {
		b := *f.AddlHas
		s.AdditionalProperties.Has = &b
	}
	if f.AddlSchema != nil {
		s.AdditionalProperties.Schema = c10PropSchemas[*f.AddlSchema]
	}
	s.Nullable = f.Flags&1 != 0
	s.ReadOnly = f.Flags&2 != 0
	if f.HasDefault {
		s.Default = 1
	}
	for _, sub := range f.AllOf {
		ss := sub.Schema()
		s.AllOf = append(s.AllOf, openapi3.NewSchemaRef("", &ss))
	}
	return s
}

func c10Corr(ctx *Ctx, n int) error {
	for i := 0; i < n; i++ {
		r := ctx.Rng.Fork()
		k := 1 + r.Intn(4)
		var ms []c10Flat
		nested := false
		for j := 0; j < k; j++ {
			m := c10GenMember(r, 2)
			if len(m.AllOf) > 0 {
				nested = true
			}
			ms = append(ms, m)
		}
		if nested && k == 1 {
			ms = append(ms, c10GenFlat(r)) // a single member is not merged at all
			k = 2
		}
		if nested {
			ctx.Res.Count("corr:nested")
		}
		// the implementation: the fold of mergeSchemas over the member values
		acc := ms[0].Schema()
		var implErr error
		// the operands are schemas of the document (a component is the member of many compositions): merging must not
		// change them
		keysOf := func(s openapi3.Schema) string {
			ks := SortedKeys(s.Properties)
			return strings.Join(ks, ",") + "|" + strings.Join(append([]string{}, s.Required...), ",")
		}
		operands := []openapi3.Schema{acc}
		before := []string{keysOf(acc)}
		for j := 1; j < k; j++ {
			op := ms[j].Schema()
			operands = append(operands, op)
			before = append(before, keysOf(op))
			acc, implErr = codegen.VerifMergeOpenapiSchemas(acc, op, true)
			if implErr != nil {
				break
			}
		}
		for j, op := range operands {
			if after := keysOf(op); after != before[j] {
				ctx.Res.Violate("merge:operand-modified", fmt.Sprintf("merging changes member %d of the composition itself: properties|required %s => %s (a component that several compositions extend accumulates their members)", j, before[j], after), J{"members": ms})
			}
		}
		var res map[string]interface{}
		if err := ctx.Model(J{"fn": "merge", "members": ms}, &res); err != nil {
			return err
		}
		ctx.Res.Eval(J{"members": ms}, true)
		ctx.Res.Count(fmt.Sprintf("corr:members=%d", k))
		_, modelErr := res["error"]
		if modelErr != (implErr != nil) {
			ctx.Res.Disagree("CORR mergeOpenapiSchemas fold vs Merge.mergeList (error or not)", J{"members": ms}, res, fmt.Sprint(implErr))
			continue
		}
		if modelErr {
			ctx.Res.Count("corr:error")
			continue
		}
		id := func(ref *openapi3.SchemaRef) int {
			for k, v := range c10PropSchemas {
				if v == ref {
					return k
				}
			}
			return -1
		}
		impl := J{"format": 0, "flags": 0}
		if acc.Type != nil && len(acc.Type.Slice()) > 0 {
			impl["type"] = map[string]int{"object": 1, "string": 2}[acc.Type.Slice()[0]]
		}
		if acc.Format != "" {
			fmt.Sscanf(acc.Format, "f%d", new(int))
			var fv int
			fmt.Sscanf(acc.Format, "f%d", &fv)
			impl["format"] = fv
		}
		props := map[string]int{}
		for k, v := range acc.Properties {
			props[k] = id(v)
		}
		mprops := map[string]int{}
		if pl, ok := res["props"].([]interface{}); ok {
			for _, e := range pl {
				m := e.(map[string]interface{})
				mprops[m["k"].(string)] = int(m["v"].(float64))
			}
		}
		req := append([]string{}, acc.Required...)
		var mreq []string
		if rl, ok := res["required"].([]interface{}); ok {
			for _, x := range rl {
				mreq = append(mreq, x.(string))
			}
		}
		var implHas, modelHas interface{}
		if acc.AdditionalProperties.Has != nil {
			implHas = *acc.AdditionalProperties.Has
		}
		modelHas = res["addlHas"]
		implSchema, modelSchema := -1, -1
		if acc.AdditionalProperties.Schema != nil {
			implSchema = id(acc.AdditionalProperties.Schema)
		}
		if v, ok := res["addlSchema"].(float64); ok {
			modelSchema = int(v)
		}
		mtype := -1
		if v, ok := res["type"].(float64); ok {
			mtype = int(v)
		}
		itype := -1
		if v, ok := impl["type"].(int); ok {
			itype = v
		}
		if Canon(props) != Canon(mprops) || strings.Join(req, ",") != strings.Join(mreq, ",") || fmt.Sprint(implHas) != fmt.Sprint(modelHas) || implSchema != modelSchema || mtype != itype {
			ctx.Res.Disagree("CORR mergeOpenapiSchemas fold vs Merge.mergeList (result)", J{"members": ms}, res,
				J{"type": itype, "props": props, "required": req, "addlHas": implHas, "addlSchema": implSchema})
		}
	}
	return nil
}
