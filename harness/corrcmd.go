package main

// `harness corr-codec`: only the in-process codec correspondence (development aid).
func init() {
	register("corr-codec", func(ctx *Ctx) error { return corrCodec(ctx, "C04") })
}
